package main

// Variables captured by function literals that are created during package initialisation.
//
// A package-level table may hold function values (ast.go: typeMap[t].funcs[kw], filled by
// initTypes).  A variable that such a function literal captures lives as long as the table does
// and is shared by every call of the function, whichever module set the call works for: it is
// process-wide state exactly like a package-level variable, although no declaration at package
// level names it.  Without this file a store through a captured variable is a store into a local
// of the enclosing function (allocOf follows the closure's binding) and produces no fact.
//
// THE RULE.  Let InitReach be the least set of functions of the packages that contains the
// package initialisers (they hold the package-level var initialisers and call the init functions)
// and, with a function, every function of the packages it calls statically (named functions,
// methods, and function literals called or deferred on the spot).  A CAPTURED GLOBAL is a local
// variable v (an ssa.Alloc) of a function P in InitReach that is bound, directly or through the
// free variable of an enclosing literal, by a MakeClosure instruction located in a function of
// InitReach whose closure value is KEPT (closureKept: it is stored, returned, converted, sent,
// started with go, or handed as an argument to a function of the packages; a literal that is only
// called or deferred on the spot, or only handed to a foreign function - sort.Slice(x, func...),
// strings.Map, once.Do: foreign callees are trusted not to keep their arguments, as for
// call-private types - does not keep its variables alive beyond the call).  Its location is named `<P>$<v>` (e.g. yang.initTypes$dup) and
// is entered in the table of package-level variables (Facts.globals).  Then
//
//   - every load / store through v - in P itself, through the free variable in the literal, or in
//     a literal nested in it, also of a field or array element of v - is a read / write of
//     `<P>$<v>`, so that GlobalsInitOnly (globals_init_only_holds) demands that every function
//     with such a store runs during package initialisation only: a store in the literal's body
//     puts the literal, and with it everybody who can call it (calls of function values are
//     resolved by signature), into the init-only certificate, which fails its closure check as
//     soon as one of them is callable from foreign code;
//   - a pointer, map, slice or channel loaded from v has the origin `<P>$<v>`: element stores
//     through it write `<P>$<v>[]` (a lazily filled captured map), and handing it out after
//     initialisation is a leak under NoGlobalEscapes (no_global_escapes_holds), like for a
//     declared package-level variable.  Values of interface and function type held by a captured
//     variable are not followed (initTypes captures the reflect.Type `at`, which its literals
//     compare and print).
//
// Over-approximation: P may also run after initialisation (InitReach is "runs during", not "runs
// only during"); the cells it makes then are treated alike.  Under-approximation: a literal made
// by a function that the initialisers reach only through a function value or an interface is
// not seen (none in the unchanged tree).

import (
	"go/types"
	"sort"

	"golang.org/x/tools/go/ssa"
)

var capturedCells map[*ssa.Alloc]string

func (a *analyzer) computeCapturedGlobals() {
	capturedCells = map[*ssa.Alloc]string{}
	reach := map[*ssa.Function]bool{}
	var work []*ssa.Function
	for _, fi := range a.fns {
		if fi.fn.Synthetic == "package initializer" {
			work = append(work, fi.fn)
		}
	}
	for len(work) > 0 {
		f := work[len(work)-1]
		work = work[:len(work)-1]
		if reach[f] {
			continue
		}
		reach[f] = true
		for _, b := range f.Blocks {
			for _, ins := range b.Instrs {
				if ci, ok := ins.(ssa.CallInstruction); ok {
					if g := ci.Common().StaticCallee(); g != nil && a.byFn[g] != nil {
						work = append(work, g)
					}
				}
			}
		}
	}
	for f := range reach {
		for _, b := range f.Blocks {
			for _, ins := range b.Instrs {
				mc, ok := ins.(*ssa.MakeClosure)
				if !ok || !a.closureKept(mc) {
					continue
				}
				for _, bnd := range mc.Bindings {
					al := a.allocOf(bnd, 0)
					if al == nil || al.Parent() == nil || !reach[al.Parent()] {
						continue
					}
					name := al.Comment
					if name == "" {
						name = al.Name()
					}
					capturedCells[al] = a.fnName(al.Parent()) + "$" + name
				}
			}
		}
	}
}

// capturedGlobal: p is the address of a captured global or of a field / array element of it
// (no load in between); returns the location name and registers it as a package-level variable.
func (a *analyzer) capturedGlobal(p ssa.Value) string {
	if len(capturedCells) == 0 {
		return ""
	}
	for depth := 0; depth < 8; depth++ {
		switch x := p.(type) {
		case *ssa.Alloc, *ssa.FreeVar:
			if al := a.allocOf(x, 0); al != nil {
				if n := capturedCells[al]; n != "" {
					a.globals[n] = true
					return n
				}
			}
			return ""
		case *ssa.FieldAddr:
			p = x.X
		case *ssa.IndexAddr:
			if _, isPtr := x.X.Type().Underlying().(*types.Pointer); !isPtr {
				return ""
			}
			p = x.X
		default:
			return ""
		}
	}
	return ""
}

func capturedNames() []string {
	seen := map[string]bool{}
	for _, n := range capturedCells {
		seen[n] = true
	}
	var out []string
	for n := range seen {
		out = append(out, n)
	}
	sort.Strings(out)
	return out
}

// capturedRef: the kinds of values whose origin is followed through a captured global.
func capturedRef(t types.Type) bool {
	switch t.Underlying().(type) {
	case *types.Pointer, *types.Map, *types.Slice, *types.Chan:
		return true
	}
	return false
}

// closureKept: the closure value can outlive the call of the function that makes it.
func (a *analyzer) closureKept(mc *ssa.MakeClosure) bool {
	refs := mc.Referrers()
	if refs == nil {
		return true
	}
	for _, r := range *refs {
		if _, isDbg := r.(*ssa.DebugRef); isDbg {
			continue
		}
		ci, ok := r.(ssa.CallInstruction)
		if !ok {
			return true // stored, returned, converted, sent, put into a composite, phi ...
		}
		if _, isGo := r.(*ssa.Go); isGo {
			return true
		}
		c := ci.Common()
		isArg := false
		for _, arg := range c.Args {
			if arg == ssa.Value(mc) {
				isArg = true
			}
		}
		if !isArg {
			continue // called (or deferred) on the spot
		}
		f := c.StaticCallee()
		if c.IsInvoke() || f == nil || a.byFn[f] != nil {
			return true // handed to a function of the packages or to an unknown callee
		}
	}
	return false
}
