// extract-access: translator for property C19.
//
// Re-derives, from the current source of pkg/yang and pkg/indent (go/packages + go/ssa), the
// facts the lock-discipline theorems of Goyang/Props/C19.lean are checked against on every run,
// and writes them as a Lean table (Goyang/Gen/Access.lean):
//
//	per function   shared-location reads and writes, each with the mutexes that are held at
//	               that point inside the function (must-hold analysis over the CFG, Lock/RLock
//	               ... Unlock/RUnlock, `defer mu.Unlock()` = held until the function returns),
//	               and the call edges (static calls, closures created, interface calls resolved
//	               by class hierarchy inside the two packages, calls of function values resolved
//	               to every address-taken function of identical signature, methods that become
//	               callable from foreign code by a conversion to an interface);
//	whole program  the reader API set and what is reachable from it, the functions that run
//	               only during package initialisation, the package-level variables, the declared
//	               guards (location -> mutex), the number of `go` statements.
//
// Locations are abstract: `pkg.Type.field`, `pkg.var`, a `[]` suffix per element level of a
// map/slice stored there, and `*T` / `[]T` / `map[K]V` for memory that can only be named by its
// type.  Memory of objects allocated in the same function (Alloc, make, composite literal, or
// the result of a function of the packages that returns such an object) is local and produces
// no fact.  What the approximation cannot see is listed in checks/C19.json (trusted base).
//
// Functions ALL OF WHOSE CALLS ARE VISIBLE (unexported name, value never taken, no closure or
// wrapper, no interface method of that name, at least one static call; callers.go) are analysed in
// the context of their calls, so that extracting a helper does not change the facts:
//
//	(C1) the must-hold analysis starts from the mutexes held at every call (not for go / defer);
//	(C2) allow-list entries of kind write / read / call also tag the sites of the unexported
//	     helpers whose callers all belong to the named function (anchors; not the region kinds);
//	(C3) a parameter stands for the arguments of all calls, a call value for what the callee
//	     returns; passing a reference to a package-level object to such a function, or returning
//	     it from one, is a leak only where it is finally stored, sent or handed to a function that
//	     foreign code can call; such a function is not callable from foreign code and is init-only
//	     when all its calls lie in init-only functions;
//	(C4) a package-level `error` variable set once, in the package initialiser, to errors.New /
//	     fmt.Errorf and whose address is never taken is an immutable sentinel (no leak);
//	(C5) region-after-lookup-miss also recognises the key call's result handed through parameters
//	     and results of such functions (the bare name only, never name@revision) and a look-up
//	     done by a look-up helper (writes and calls nothing; returns only nil, such look-ups, or
//	     values below the non-nil branch of their own nil test); the region is still the blocks
//	     dominated by the nil branch of the test.
//
// CAPTURED GLOBALS (closures.go states the rule in full): a local variable of a function that runs
// during package initialisation (the package initialisers and what they call statically, e.g.
// initTypes) that is captured by a function literal whose value is kept (stored, returned, sent,
// started with go, handed to a function of the packages - not merely called on the spot or handed
// to a foreign function) is a package-level variable named `<function>$<variable>`: loads and
// stores through it, in the function or in the literal's body, are reads and writes of that
// location (GlobalsInitOnly: a store in a literal that can run after initialisation breaks the
// obligation), and a pointer, map, slice or channel loaded from it has that origin
// (NoGlobalEscapes, element stores).
//
// The reviewed file allow.json (embedded) names the reader API, the declared guards and the
// allow-list: write sites on reader paths that lie outside the claim of the property, each with
// the run-time condition (guard) that puts it outside.  The tool only *tags* those sites; the
// decidable predicates in Lean skip tagged sites where the theorem statement says so.
package main

import (
	_ "embed"
	"encoding/json"
	"flag"
	"fmt"
	"go/token"
	"go/types"
	"os"
	"sort"
	"strings"

	"golang.org/x/tools/go/packages"
	"golang.org/x/tools/go/ssa"
	"golang.org/x/tools/go/ssa/ssautil"
)

//go:embed allow.json
var allowJSON []byte

type RootSpec struct {
	Func string `json:"func"`
	Role string `json:"role"`
}

type GuardSpec struct {
	Loc    string `json:"loc"`   // base location; every `[]` level below it is covered too
	Mutex  string `json:"mutex"` // pkg.Type.field of the mutex
	Reads  bool   `json:"reads"` // true: reads must hold the mutex too (strict guard)
	Source string `json:"source"`
	// Optional: a table added by a recent repair that may still be renamed; when the source no
	// longer has it the declaration is skipped with a note instead of stopping the translator.
	Optional bool `json:"optional,omitempty"`
}

type AllowSpec struct {
	ID        string `json:"id"`
	Func      string `json:"func"`
	Kind      string `json:"kind"` // region-after-nil-check | region-after-lookup-miss | call | write | read
	AfterCall string `json:"after_call,omitempty"`
	KeyCall   string `json:"key_call,omitempty"` // region-after-lookup-miss: method whose result is the look-up key
	Callee    string `json:"callee,omitempty"`
	Loc       string `json:"loc,omitempty"`
	Class     string `json:"class"` // guard | private-object
	Guard     string `json:"guard"`
	Asserted  string `json:"asserted_by"`
}

// GlobalRefOK explains, per package-level variable, why a reference to the object it names may
// leave a function that runs after package initialisation (NoGlobalEscapes).
type GlobalRefOK struct {
	Var    string `json:"var"`
	Reason string `json:"reason"`
}

// ImmutableSpec names a location that must never be written after package initialisation, with
// the reason: memory of that name hangs below package-level objects that all module sets share.
type ImmutableSpec struct {
	Loc    string `json:"loc"`
	Reason string `json:"reason"`
}

type Config struct {
	MustReach    []MustReachSpec `json:"must_reach"`
	Immutable    []ImmutableSpec `json:"immutable"`
	Packages     []string        `json:"packages"`
	ReaderRoots  []RootSpec      `json:"reader_roots"`
	Guards       []GuardSpec     `json:"guards"`
	GlobalRefsOK []GlobalRefOK   `json:"global_refs_ok"`
	Allow        []AllowSpec     `json:"allow"`
}

const fresh = "~"

const (
	kRead = iota
	kWrite
	kCall
	kLeak // a reference to a package-level object leaves the function (returned, stored, passed on)
)

type site struct {
	kind  int
	tgt   string
	held  string // canonical: "m:x,m:s" sorted
	block *ssa.BasicBlock
	allow int // 0 = none, k+1 = cfg.Allow[k]
}

type fnInfo struct {
	fn      *ssa.Function
	name    string
	sites   []site
	escapes bool
	goStmts int
}

type analyzer struct {
	prog     *ssa.Program
	ours     map[string]bool // package paths
	pkgName  map[string]string
	fns      []*fnInfo
	byFn     map[*ssa.Function]*fnInfo
	byName   map[string]*fnInfo
	storesTo map[*ssa.Alloc][]ssa.Value
	closures map[*ssa.Function][]*ssa.MakeClosure
	retFresh map[*ssa.Function]bool
	addrTkn  map[*ssa.Function]bool
	named    []types.Type // named types of the packages and pointers to them
	priv     *privacy     // call-private types and the locations that are local because of them (private.go)
	globals  map[string]bool
	// (C1) mutexes held at every call of a function all of whose calls are visible (callers.go)
	entryHeld map[*ssa.Function]map[string]bool
	// (C2) the function an unexported helper belongs to (callers.go)
	anchor map[*fnInfo]*fnInfo
	// (C3) functions all of whose calls are visible: parameter -> the arguments of all calls (callers.go)
	sentinelErr map[string]bool // (C4) package-level `error` variables holding an errors.New / fmt.Errorf value for good
	visible     map[*ssa.Function][]callRef
	bind        map[*ssa.Parameter][]ssa.Value
}

func (a *analyzer) qual(p *types.Package) string {
	if p == nil {
		return ""
	}
	return p.Name()
}

func (a *analyzer) typeStr(t types.Type) string { return types.TypeString(t, a.qual) }

// fnName renders a function name with package names instead of import paths.
func (a *analyzer) fnName(f *ssa.Function) string {
	s := f.String()
	for path, name := range a.pkgName {
		s = strings.ReplaceAll(s, path, name)
	}
	return s
}

func (a *analyzer) homePkg(f *ssa.Function) string {
	if f.Pkg != nil {
		return f.Pkg.Pkg.Path()
	}
	if f.Parent() != nil {
		return a.homePkg(f.Parent())
	}
	if o := f.Object(); o != nil && o.Pkg() != nil {
		return o.Pkg().Path()
	}
	if f.Signature != nil && f.Signature.Recv() != nil {
		t := f.Signature.Recv().Type()
		if p, ok := t.(*types.Pointer); ok {
			t = p.Elem()
		}
		if n, ok := t.(*types.Named); ok && n.Obj().Pkg() != nil {
			return n.Obj().Pkg().Path()
		}
	}
	return ""
}

// ---------------------------------------------------------------------------------------------
// origins: where may the memory behind a value (pointer target, map, slice backing array) live?
// Result: set of names; `fresh` = allocated in this activation (local).

func (a *analyzer) allocOf(p ssa.Value, depth int) *ssa.Alloc {
	if depth > 8 {
		return nil
	}
	switch v := p.(type) {
	case *ssa.Alloc:
		return v
	case *ssa.FreeVar:
		fn := v.Parent()
		idx := -1
		for i, fv := range fn.FreeVars {
			if fv == v {
				idx = i
			}
		}
		var res *ssa.Alloc
		for _, mc := range a.closures[fn] {
			if idx < 0 || idx >= len(mc.Bindings) {
				return nil
			}
			al := a.allocOf(mc.Bindings[idx], depth+1)
			if al == nil || (res != nil && res != al) {
				return nil
			}
			res = al
		}
		return res
	}
	return nil
}

func (a *analyzer) origins(v ssa.Value) map[string]bool {
	out := map[string]bool{}
	a.orig(v, out, map[ssa.Value]bool{})
	if len(out) == 0 {
		out[fresh] = true
	}
	return out
}

func (a *analyzer) isFresh(v ssa.Value) bool {
	o := a.origins(v)
	return len(o) == 1 && o[fresh]
}

func addSuffix(src map[string]bool, dst map[string]bool) {
	for o := range src {
		if o == fresh {
			dst[fresh] = true
		} else {
			dst[o+"[]"] = true
		}
	}
}

func (a *analyzer) byType(v ssa.Value, out map[string]bool) {
	out[a.typeStr(v.Type())] = true
}

// contents: origins of the value stored in the memory cell(s) p points to.
func (a *analyzer) contents(p ssa.Value, out map[string]bool, seen map[ssa.Value]bool) {
	if n := a.capturedGlobal(p); n != "" {
		if pt, ok := p.Type().Underlying().(*types.Pointer); ok && capturedRef(pt.Elem()) {
			out[n] = true // (closures.go) a pointer, map, slice or channel held by a captured global
			return
		}
	}
	if al := a.allocOf(p, 0); al != nil {
		st := a.storesTo[al]
		if len(st) == 0 {
			out[fresh] = true
		}
		for _, s := range st {
			a.orig(s, out, seen)
		}
		return
	}
	switch x := p.(type) {
	case *ssa.FieldAddr:
		out[a.fieldName(x)] = true
	case *ssa.Global:
		out[a.globalName(x)] = true
	case *ssa.IndexAddr:
		tmp := map[string]bool{}
		a.orig(x.X, tmp, seen)
		addSuffix(tmp, out)
	case *ssa.Phi:
		for _, e := range x.Edges {
			if !seen[e] {
				seen[e] = true
				a.contents(e, out, seen)
			}
		}
	default:
		// the cell can only be named by its type; so can what it holds
		if pt, ok := p.Type().Underlying().(*types.Pointer); ok {
			out[a.typeStr(pt.Elem())] = true
		} else {
			out[a.typeStr(p.Type())] = true
		}
	}
}

func (a *analyzer) orig(v ssa.Value, out map[string]bool, seen map[ssa.Value]bool) {
	if seen[v] {
		return
	}
	seen[v] = true
	switch x := v.(type) {
	case *ssa.Alloc, *ssa.MakeMap, *ssa.MakeSlice, *ssa.MakeChan, *ssa.MakeClosure, *ssa.Const,
		*ssa.Function, *ssa.Builtin, *ssa.BinOp:
		out[fresh] = true
	case *ssa.Global:
		out[a.globalName(x)] = true
	case *ssa.FreeVar:
		if al := a.allocOf(x, 0); al != nil {
			out[fresh] = true
		} else {
			a.byType(v, out)
		}
	case *ssa.Phi:
		for _, e := range x.Edges {
			a.orig(e, out, seen)
		}
	case *ssa.ChangeType:
		a.orig(x.X, out, seen)
	case *ssa.Convert:
		a.orig(x.X, out, seen)
	case *ssa.ChangeInterface:
		a.orig(x.X, out, seen)
	case *ssa.MakeInterface:
		a.orig(x.X, out, seen)
	case *ssa.TypeAssert:
		a.orig(x.X, out, seen)
	case *ssa.SliceToArrayPointer:
		a.orig(x.X, out, seen)
	case *ssa.Slice:
		a.orig(x.X, out, seen)
	case *ssa.FieldAddr:
		a.orig(x.X, out, seen) // a pointer into an object is as local as the object
	case *ssa.IndexAddr:
		a.orig(x.X, out, seen)
	case *ssa.Field:
		a.orig(x.X, out, seen)
	case *ssa.Index:
		a.orig(x.X, out, seen)
	case *ssa.UnOp:
		if x.Op == token.MUL {
			a.contents(x.X, out, seen)
		} else {
			out[fresh] = true
		}
	case *ssa.Lookup:
		if _, ok := x.X.Type().Underlying().(*types.Map); ok {
			tmp := map[string]bool{}
			a.orig(x.X, tmp, seen)
			addSuffix(tmp, out)
		} else {
			out[fresh] = true
		}
	case *ssa.Extract:
		switch t := x.Tuple.(type) {
		case *ssa.Lookup, *ssa.TypeAssert:
			a.orig(t.(ssa.Value), out, seen)
		case *ssa.Next:
			if rg, ok := t.Iter.(*ssa.Range); ok {
				if _, ok := rg.X.Type().Underlying().(*types.Map); ok {
					tmp := map[string]bool{}
					a.orig(rg.X, tmp, seen)
					addSuffix(tmp, out)
					return
				}
			}
			out[fresh] = true
		case *ssa.Call:
			if x.Index == 0 && a.callFresh(t) {
				out[fresh] = true
			} else if rs := a.visibleResults(t, x.Index); rs != nil {
				for _, r := range rs {
					a.orig(r, out, seen) // (C3)
				}
			} else {
				a.byType(v, out)
			}
		default:
			a.byType(v, out)
		}
	case *ssa.Call:
		if b, ok := x.Call.Value.(*ssa.Builtin); ok {
			if b.Name() == "append" && len(x.Call.Args) > 0 {
				a.orig(x.Call.Args[0], out, seen)
			}
			out[fresh] = true
			return
		}
		if a.callFresh(x) {
			out[fresh] = true
		} else if rs := a.visibleResults(x, 0); rs != nil {
			for _, r := range rs {
				a.orig(r, out, seen) // (C3) what the callee returns
			}
		} else {
			a.byType(v, out)
		}
	case *ssa.Parameter:
		if args, ok := a.bind[x]; ok {
			for _, arg := range args {
				a.orig(arg, out, seen) // (C3) what the callers hand over
			}
			return
		}
		a.byType(v, out)
	default:
		// anything else: nameable only by type
		a.byType(v, out)
	}
}

func (a *analyzer) callFresh(c *ssa.Call) bool {
	if f := c.Call.StaticCallee(); f != nil {
		return a.retFresh[f]
	}
	return false
}

func (a *analyzer) fieldName(x *ssa.FieldAddr) string {
	pt := x.X.Type().Underlying().(*types.Pointer)
	st := pt.Elem().Underlying().(*types.Struct)
	return a.typeStr(pt.Elem()) + "." + st.Field(x.Field).Name()
}

func (a *analyzer) globalName(g *ssa.Global) string {
	n := g.Pkg.Pkg.Name() + "." + g.Name()
	if a.ours[g.Pkg.Pkg.Path()] {
		a.globals[n] = true
	}
	return n
}

// ptrLocs: the abstract locations a load/store through pointer p touches.
func (a *analyzer) ptrLocs(p ssa.Value, seen map[ssa.Value]bool) []string {
	if seen[p] {
		return nil
	}
	seen[p] = true
	if n := a.capturedGlobal(p); n != "" {
		return []string{n} // a variable captured by a function literal made during initialisation (closures.go)
	}
	if a.allocOf(p, 0) != nil {
		return nil
	}
	switch x := p.(type) {
	case *ssa.Parameter:
		if args, ok := a.bind[x]; ok {
			var out []string
			for _, arg := range args {
				out = append(out, a.ptrLocs(arg, seen)...) // (C3) the cells the callers hand over
			}
			return out
		}
	case *ssa.Alloc:
		return nil
	case *ssa.Global:
		return []string{a.globalName(x)}
	case *ssa.FieldAddr:
		if a.isFresh(x.X) {
			return nil
		}
		return []string{a.fieldName(x)}
	case *ssa.IndexAddr:
		return a.elemLocs(x.X)
	case *ssa.Phi:
		var out []string
		for _, e := range x.Edges {
			out = append(out, a.ptrLocs(e, seen)...)
		}
		return out
	}
	if a.isFresh(p) {
		return nil
	}
	pt, ok := p.Type().Underlying().(*types.Pointer)
	if !ok {
		return []string{a.typeStr(p.Type())}
	}
	if st, ok := pt.Elem().Underlying().(*types.Struct); ok {
		// whole-struct access: every field
		var out []string
		for i := 0; i < st.NumFields(); i++ {
			out = append(out, a.typeStr(pt.Elem())+"."+st.Field(i).Name())
		}
		return out
	}
	return []string{"*" + a.typeStr(pt.Elem())}
}

// elemLocs: the element cells of a map / slice / array value.
func (a *analyzer) elemLocs(x ssa.Value) []string {
	var out []string
	for o := range a.origins(x) {
		if o != fresh {
			out = append(out, o+"[]")
		}
	}
	sort.Strings(out)
	return out
}

// addrOfGlobal: v is the address of a package-level variable of the packages or of a part of it
// (&g, &g.f, &g[i], without a load in between); returns the variable's name, else "".
func (a *analyzer) addrOfGlobal(v ssa.Value) string {
	for depth := 0; depth < 8; depth++ {
		switch x := v.(type) {
		case *ssa.Global:
			if x.Pkg != nil && a.ours[x.Pkg.Pkg.Path()] {
				return a.globalName(x)
			}
			return ""
		case *ssa.FieldAddr:
			v = x.X
		case *ssa.IndexAddr:
			v = x.X
		case *ssa.ChangeType:
			v = x.X
		case *ssa.Convert:
			v = x.X
		default:
			return ""
		}
	}
	return ""
}

// refLike: values of this type can give access to shared memory.
func refLike(t types.Type) bool {
	switch t.Underlying().(type) {
	case *types.Pointer, *types.Map, *types.Slice, *types.Chan, *types.Signature, *types.Interface:
		return true
	}
	return false
}

// globalRefs: the package-level variables (of the packages) that v may point to / into, or whose
// reference-like content v may be.  A reference loaded from a *field* of such an object is named
// by the field (type, field), not by the variable: only the first level is seen.
func (a *analyzer) globalRefs(v ssa.Value) []string {
	if !refLike(v.Type()) {
		return nil
	}
	if _, isFn := v.(*ssa.Function); isFn {
		return nil
	}
	var out []string
	for o := range a.origins(v) {
		if o != fresh && a.globals[base(o)] {
			out = append(out, o)
		}
	}
	sort.Strings(out)
	return out
}

// ---------------------------------------------------------------------------------------------
// lock regions

var lockOps = map[string][2]string{ // callee -> (action, mode)
	"(*sync.Mutex).Lock":      {"acq", "x"},
	"(*sync.Mutex).Unlock":    {"rel", "x"},
	"(*sync.RWMutex).Lock":    {"acq", "x"},
	"(*sync.RWMutex).Unlock":  {"rel", "x"},
	"(*sync.RWMutex).RLock":   {"acq", "s"},
	"(*sync.RWMutex).RUnlock": {"rel", "s"},
}

func (a *analyzer) mutexName(v ssa.Value) string {
	switch x := v.(type) {
	case *ssa.FieldAddr:
		return a.fieldName(x)
	case *ssa.Global:
		return a.globalName(x)
	}
	return "?" + a.typeStr(v.Type())
}

func lockOp(ins ssa.Instruction) (action, mode string, recv ssa.Value, ok bool) {
	c, isCall := ins.(*ssa.Call)
	if !isCall {
		return
	}
	f := c.Call.StaticCallee()
	if f == nil || len(c.Call.Args) == 0 {
		return
	}
	op, found := lockOps[f.String()]
	if !found {
		return
	}
	return op[0], op[1], c.Call.Args[0], true
}

func canon(ls map[string]bool) string {
	ks := make([]string, 0, len(ls))
	for k := range ls {
		ks = append(ks, k)
	}
	sort.Strings(ks)
	return strings.Join(ks, ",")
}

// lockStates returns, per instruction, the canonical set of mutexes that are held on every
// path reaching it (within this function).
func (a *analyzer) lockStates(fn *ssa.Function) map[ssa.Instruction]string {
	in := map[*ssa.BasicBlock]map[string]bool{}
	if len(fn.Blocks) == 0 {
		return nil
	}
	in[fn.Blocks[0]] = map[string]bool{}
	for k := range a.entryHeld[fn] {
		in[fn.Blocks[0]][k] = true // (C1) held at every call of fn
	}
	transfer := func(b *ssa.BasicBlock, st map[string]bool, rec map[ssa.Instruction]string) map[string]bool {
		cur := map[string]bool{}
		for k := range st {
			cur[k] = true
		}
		for _, ins := range b.Instrs {
			if rec != nil {
				rec[ins] = canon(cur)
			}
			if act, mode, recv, ok := lockOp(ins); ok {
				key := a.mutexName(recv) + ":" + mode
				if act == "acq" {
					cur[key] = true
				} else {
					delete(cur, key)
				}
			}
		}
		return cur
	}
	for changed := true; changed; {
		changed = false
		for _, b := range fn.Blocks {
			st, ok := in[b]
			if !ok {
				continue
			}
			out := transfer(b, st, nil)
			for _, s := range b.Succs {
				old, seen := in[s]
				if !seen {
					cp := map[string]bool{}
					for k := range out {
						cp[k] = true
					}
					in[s] = cp
					changed = true
					continue
				}
				for k := range old {
					if !out[k] {
						delete(old, k)
						changed = true
					}
				}
			}
		}
	}
	rec := map[ssa.Instruction]string{}
	for _, b := range fn.Blocks {
		st := in[b]
		if st == nil {
			st = map[string]bool{}
		}
		transfer(b, st, rec)
	}
	return rec
}

// ---------------------------------------------------------------------------------------------
// per-function fact collection

var ifaceCallbackNames = map[string]bool{"String": true, "Error": true, "Format": true, "GoString": true,
	"MarshalJSON": true, "MarshalText": true, "Write": true}

func (a *analyzer) methodsFor(t types.Type, iface *types.Interface) []*ssa.Function {
	var out []*ssa.Function
	ms := a.prog.MethodSets.MethodSet(t)
	if iface.NumMethods() > 0 {
		for i := 0; i < iface.NumMethods(); i++ {
			m := iface.Method(i)
			if sel := ms.Lookup(m.Pkg(), m.Name()); sel != nil {
				if f := a.prog.MethodValue(sel); f != nil {
					out = append(out, f)
				}
			}
		}
		return out
	}
	for i := 0; i < ms.Len(); i++ {
		sel := ms.At(i)
		if ifaceCallbackNames[sel.Obj().Name()] {
			if f := a.prog.MethodValue(sel); f != nil {
				out = append(out, f)
			}
		}
	}
	return out
}

func (a *analyzer) oursType(t types.Type) bool {
	if p, ok := t.(*types.Pointer); ok {
		t = p.Elem()
	}
	n, ok := t.(*types.Named)
	return ok && n.Obj().Pkg() != nil && a.ours[n.Obj().Pkg().Path()]
}

func (a *analyzer) collect(fi *fnInfo) {
	fn := fi.fn
	held := a.lockStates(fn)
	add := func(ins ssa.Instruction, kind int, tgts ...string) {
		for _, t := range tgts {
			if a.priv != nil && a.priv.owned[t] {
				continue // memory of an object of a call-private type: local (private.go)
			}
			fi.sites = append(fi.sites, site{kind: kind, tgt: t, held: held[ins], block: ins.Block()})
		}
	}
	leak := func(ins ssa.Instruction, how string, v ssa.Value) {
		for _, g := range a.globalRefs(v) {
			if a.sentinelErr[g] {
				continue // (C4) an immutable error value of the standard library (callers.go)
			}
			fi.sites = append(fi.sites, site{kind: kLeak, tgt: g, held: how, block: ins.Block()})
		}
	}
	// Arguments handed on.  To a function of the packages: a leak of whatever package-level
	// object the argument refers to.  To a foreign function: what it does with its arguments is
	// invisible, with two exceptions that are read as WRITES of the package-level variable:
	//  - the address of a package-level variable (&v, &v.f, &v[i]) is handed to any foreign
	//    function or is the receiver of a foreign method (atomic.AddInt32(&v, 1), v.Store(x) for a
	//    v of type atomic.Value, json.Unmarshal(b, &v), once.Do on a package-level sync.Once ...):
	//    the callee can store through it;
	//  - a pointer handed to sync/atomic (other than to a Load) that was loaded from a
	//    package-level variable (c.Add(1) for `var c = new(atomic.Int32)`).
	// Atomicity removes the data race, not the sharing: a package-level variable updated after
	// initialisation is state that independent module sets have in common.
	passArgs := func(ins ssa.Instruction, c *ssa.CallCommon) {
		if _, ok := c.Value.(*ssa.Builtin); ok {
			return
		}
		if f := c.StaticCallee(); f != nil {
			if _, ours := a.byFn[f]; !ours {
				isAtomic := f.Pkg != nil && f.Pkg.Pkg.Path() == "sync/atomic" ||
					(f.Signature.Recv() != nil && strings.Contains(f.Signature.Recv().Type().String(), "sync/atomic."))
				atomicStore := isAtomic && !strings.HasPrefix(f.Name(), "Load")
				for _, arg := range c.Args {
					if g := a.addrOfGlobal(arg); g != "" {
						add(ins, kRead, g)
						add(ins, kWrite, g)
						continue
					}
					if atomicStore {
						if _, isPtr := arg.Type().Underlying().(*types.Pointer); isPtr {
							for _, g := range a.globalRefs(arg) {
								add(ins, kRead, g)
								add(ins, kWrite, g)
							}
						}
					}
				}
				return
			}
		}
		if f := c.StaticCallee(); f != nil && a.visible[f] != nil {
			return // (C3) the callee's parameters stand for these arguments: a leak shows where the callee lets them go
		}
		for _, arg := range c.Args {
			leak(ins, "passed on", arg)
		}
	}
	edge := func(ins ssa.Instruction, f *ssa.Function) {
		if f == nil {
			return
		}
		if g, ok := a.byFn[f]; ok {
			add(ins, kCall, g.name)
		}
	}
	for _, b := range fn.Blocks {
		for _, ins := range b.Instrs {
			switch x := ins.(type) {
			case *ssa.Store:
				add(ins, kWrite, a.ptrLocs(x.Addr, map[ssa.Value]bool{})...)
				if a.allocOf(x.Addr, 0) == nil { // a store into a local variable is followed by origins()
					leak(ins, "stored", x.Val)
				}
			case *ssa.Return:
				if a.visible[fn] != nil {
					break // (C3) the callers' call values stand for these results
				}
				for _, r := range x.Results {
					leak(ins, "returned", r)
				}
			case *ssa.Send:
				leak(ins, "sent", x.X)
			case *ssa.UnOp:
				if x.Op == token.MUL {
					add(ins, kRead, a.ptrLocs(x.X, map[ssa.Value]bool{})...)
				}
			case *ssa.MapUpdate:
				add(ins, kWrite, a.elemLocs(x.Map)...)
				leak(ins, "stored", x.Value)
				leak(ins, "stored", x.Key)
			case *ssa.Lookup:
				if _, ok := x.X.Type().Underlying().(*types.Map); ok {
					add(ins, kRead, a.elemLocs(x.X)...)
				}
			case *ssa.Range:
				if _, ok := x.X.Type().Underlying().(*types.Map); ok {
					add(ins, kRead, a.elemLocs(x.X)...)
				}
			case *ssa.MakeClosure:
				edge(ins, x.Fn.(*ssa.Function))
			case *ssa.MakeInterface:
				if a.oursType(x.X.Type()) {
					if it, ok := x.Type().Underlying().(*types.Interface); ok {
						for _, f := range a.methodsFor(x.X.Type(), it) {
							edge(ins, f)
						}
					}
				}
			case *ssa.Go:
				fi.goStmts++
				passArgs(ins, &x.Call)
				a.callSite(fi, ins, &x.Call, add, edge)
			case *ssa.Defer:
				passArgs(ins, &x.Call)
				a.callSite(fi, ins, &x.Call, add, edge)
			case *ssa.Call:
				passArgs(ins, &x.Call)
				a.callSite(fi, ins, &x.Call, add, edge)
			}
		}
	}
}

func (a *analyzer) callSite(fi *fnInfo, ins ssa.Instruction, c *ssa.CallCommon,
	add func(ssa.Instruction, int, ...string), edge func(ssa.Instruction, *ssa.Function)) {
	if c.IsInvoke() {
		iface, _ := c.Value.Type().Underlying().(*types.Interface)
		if iface == nil {
			return
		}
		for _, t := range a.named {
			if types.Implements(t, iface) {
				if sel := a.prog.MethodSets.MethodSet(t).Lookup(c.Method.Pkg(), c.Method.Name()); sel != nil {
					edge(ins, a.prog.MethodValue(sel))
				}
			}
		}
		return
	}
	if b, ok := c.Value.(*ssa.Builtin); ok {
		switch b.Name() {
		case "append":
			if len(c.Args) > 0 {
				el := a.elemLocs(c.Args[0])
				add(ins, kRead, el...)
				add(ins, kWrite, el...)
			}
			if len(c.Args) > 1 {
				if _, ok := c.Args[1].Type().Underlying().(*types.Slice); ok {
					add(ins, kRead, a.elemLocs(c.Args[1])...)
				}
			}
		case "copy":
			if len(c.Args) == 2 {
				add(ins, kWrite, a.elemLocs(c.Args[0])...)
				if _, ok := c.Args[1].Type().Underlying().(*types.Slice); ok {
					add(ins, kRead, a.elemLocs(c.Args[1])...)
				}
			}
		case "delete", "clear":
			if len(c.Args) > 0 {
				add(ins, kWrite, a.elemLocs(c.Args[0])...)
			}
		case "len":
			if len(c.Args) == 1 {
				if _, ok := c.Args[0].Type().Underlying().(*types.Map); ok {
					add(ins, kRead, a.elemLocs(c.Args[0])...)
				}
			}
		}
		return
	}
	if f := c.StaticCallee(); f != nil {
		edge(ins, f)
		return
	}
	// call of a function value: every address-taken function of identical signature
	sig, _ := c.Value.Type().Underlying().(*types.Signature)
	if sig == nil {
		return
	}
	for _, g := range a.fns {
		if a.addrTkn[g.fn] && types.Identical(g.fn.Signature, sig) {
			add(ins, kCall, g.name)
		}
	}
}

// ---------------------------------------------------------------------------------------------
// allow-list tagging

func isNilConst(v ssa.Value) bool {
	c, ok := v.(*ssa.Const)
	return ok && c.IsNil()
}

// missRegion: blocks of fn executed only when a value was nil.  The value is either the result
// of the call to `callee` (kind region-after-nil-check) or, when keyCall is set, the result of a
// map look-up whose key is directly the result of a call of the method keyCall
// (kind region-after-lookup-miss: `m[n.NName()] == nil`).  "Only when": the blocks dominated by
// the nil branch of an `if v != nil` / `if v == nil` whose condition is that comparison alone and
// whose nil successor has no other predecessor.  A compound condition (`v != nil && ...`) makes
// the continuation reachable from a second edge and leaves the region empty - the sites then
// stay inside the claim.
func (a *analyzer) missRegion(fi *fnInfo, callee, keyCall string) map[*ssa.BasicBlock]bool {
	fn := fi.fn
	var vals []ssa.Value
	for _, b := range fn.Blocks {
		for _, ins := range b.Instrs {
			switch x := ins.(type) {
			case *ssa.Call:
				if f := x.Call.StaticCallee(); callee != "" && f != nil && a.fnName(f) == callee {
					vals = append(vals, x)
				}
			case *ssa.Lookup:
				if keyCall == "" || x.CommaOk {
					continue
				}
				if _, isMap := x.X.Type().Underlying().(*types.Map); !isMap {
					continue
				}
				if kc, ok := x.Index.(*ssa.Call); ok {
					name := ""
					if kc.Call.IsInvoke() {
						name = kc.Call.Method.Name()
					} else if f := kc.Call.StaticCallee(); f != nil {
						name = f.Name()
					}
					if name == keyCall {
						vals = append(vals, x)
					}
				}
			}
		}
	}
	isVal := func(v ssa.Value) bool {
		for _, c := range vals {
			if c == v {
				return true
			}
		}
		// (C5) a look-up under a key built from the key call, or done by a look-up helper (callers.go)
		return keyCall != "" && a.missValue(v, keyCall, map[ssa.Value]bool{})
	}
	region := map[*ssa.BasicBlock]bool{}
	for _, b := range fn.Blocks {
		if len(b.Instrs) == 0 {
			continue
		}
		iff, ok := b.Instrs[len(b.Instrs)-1].(*ssa.If)
		if !ok {
			continue
		}
		bo, ok := iff.Cond.(*ssa.BinOp)
		if !ok || (bo.Op != token.NEQ && bo.Op != token.EQL) {
			continue
		}
		if !((isVal(bo.X) && isNilConst(bo.Y)) || (isVal(bo.Y) && isNilConst(bo.X))) {
			continue
		}
		miss := b.Succs[1]
		if bo.Op == token.EQL {
			miss = b.Succs[0]
		}
		if len(miss.Preds) != 1 {
			continue // reachable from another edge too: not "only when nil"
		}
		for _, c := range fn.Blocks {
			if miss.Dominates(c) {
				region[c] = true
			}
		}
	}
	return region
}

func (a *analyzer) tag(cfg *Config) []int {
	matched := make([]int, len(cfg.Allow))
	for k, al := range cfg.Allow {
		named := a.byName[al.Func]
		if named == nil {
			continue
		}
		var region map[*ssa.BasicBlock]bool
		switch al.Kind {
		case "region-after-nil-check":
			region = a.missRegion(named, al.AfterCall, "")
		case "region-after-lookup-miss":
			region = a.missRegion(named, "", al.KeyCall)
		}
		for _, fi := range a.fns {
			if fi != named && !(a.anchor[fi] == named && (al.Kind == "write" || al.Kind == "read" || al.Kind == "call")) {
				continue // (C2) the named function and, for site kinds, the helpers anchored at it
			}
			for i := range fi.sites {
				s := &fi.sites[i]
				if s.allow != 0 || s.kind == kLeak {
					continue
				}
				hit := false
				switch al.Kind {
				case "region-after-nil-check", "region-after-lookup-miss":
					hit = region[s.block]
				case "call":
					hit = s.kind == kCall && s.tgt == al.Callee
				case "write":
					hit = s.kind == kWrite && s.tgt == al.Loc
				case "read":
					hit = s.kind == kRead && s.tgt == al.Loc
				}
				if hit {
					s.allow = k + 1
					matched[k]++
				}
			}
		}
	}
	return matched
}

// ---------------------------------------------------------------------------------------------

func fatal(format string, args ...any) {
	fmt.Fprintf(os.Stderr, "extract-access: "+format+"\n", args...)
	os.Exit(1)
}

func base(loc string) string {
	for strings.HasSuffix(loc, "[]") {
		loc = strings.TrimSuffix(loc, "[]")
	}
	return loc
}

func main() {
	out := flag.String("o", "", "output Lean file (default stdout)")
	repo := flag.String("repo", "/repo", "goyang source tree")
	dump := flag.Bool("dump", false, "print a readable listing instead of Lean")
	flag.Parse()

	var cfg Config
	if err := json.Unmarshal(allowJSON, &cfg); err != nil {
		fatal("allow.json: %v", err)
	}

	pcfg := &packages.Config{Mode: packages.LoadAllSyntax, Dir: *repo,
		Env: append(os.Environ(), "GOFLAGS=-mod=readonly", "GOPROXY=off", "GOSUMDB=off", "GOTOOLCHAIN=local", "CGO_ENABLED=0")}
	pkgs, err := packages.Load(pcfg, cfg.Packages...)
	if err != nil {
		fatal("load: %v", err)
	}
	if packages.PrintErrors(pkgs) > 0 {
		fatal("the packages do not type-check")
	}
	prog, _ := ssautil.AllPackages(pkgs, ssa.InstantiateGenerics)
	prog.Build()

	a := &analyzer{prog: prog, ours: map[string]bool{}, pkgName: map[string]string{}, byFn: map[*ssa.Function]*fnInfo{},
		byName: map[string]*fnInfo{}, storesTo: map[*ssa.Alloc][]ssa.Value{}, closures: map[*ssa.Function][]*ssa.MakeClosure{},
		retFresh: map[*ssa.Function]bool{}, addrTkn: map[*ssa.Function]bool{}, globals: map[string]bool{}}
	for _, p := range pkgs {
		a.ours[p.PkgPath] = true
		a.pkgName[p.PkgPath] = p.Name
		sc := p.Types.Scope()
		for _, n := range sc.Names() {
			if tn, ok := sc.Lookup(n).(*types.TypeName); ok && !tn.IsAlias() {
				if _, isIface := tn.Type().Underlying().(*types.Interface); !isIface {
					a.named = append(a.named, tn.Type(), types.NewPointer(tn.Type()))
				}
			}
		}
	}

	// the functions of the two packages (methods, closures and synthetic wrappers included)
	for f := range ssautil.AllFunctions(prog) {
		if a.ours[a.homePkg(f)] {
			fi := &fnInfo{fn: f, name: a.fnName(f)}
			a.fns = append(a.fns, fi)
		}
	}
	sort.Slice(a.fns, func(i, j int) bool { return a.fns[i].name < a.fns[j].name })
	for i, fi := range a.fns {
		if i > 0 && a.fns[i-1].name == fi.name {
			fatal("two functions named %s", fi.name)
		}
		a.byFn[fi.fn] = fi
		a.byName[fi.name] = fi
	}

	// indexes: closures, stores into local cells, address-taken functions
	for _, fi := range a.fns {
		for _, b := range fi.fn.Blocks {
			for _, ins := range b.Instrs {
				if mc, ok := ins.(*ssa.MakeClosure); ok {
					a.closures[mc.Fn.(*ssa.Function)] = append(a.closures[mc.Fn.(*ssa.Function)], mc)
				}
				var callee ssa.Value
				if cc, ok := ins.(ssa.CallInstruction); ok && !cc.Common().IsInvoke() {
					callee = cc.Common().Value
				}
				if _, isMC := ins.(*ssa.MakeClosure); isMC {
					continue // the closure's own escape analysis decides (closureEscapes)
				}
				for _, op := range ins.Operands(nil) {
					if f, ok := (*op).(*ssa.Function); ok && (*op != callee || countOperand(ins, f) > 1) {
						a.addrTkn[f] = true
					}
				}
			}
		}
	}
	for _, fi := range a.fns {
		for _, b := range fi.fn.Blocks {
			for _, ins := range b.Instrs {
				if st, ok := ins.(*ssa.Store); ok {
					if al := a.allocOf(st.Addr, 0); al != nil {
						a.storesTo[al] = append(a.storesTo[al], st.Val)
					}
				}
			}
		}
	}
	a.computeCapturedGlobals() // closures.go
	a.computeBindings()
	a.computeSentinels()
	// functions that return a freshly allocated object (first result), to a fixed point
	for changed := true; changed; {
		changed = false
		for _, fi := range a.fns {
			f := fi.fn
			if a.retFresh[f] || f.Signature.Results().Len() == 0 || len(f.Blocks) == 0 {
				continue
			}
			switch f.Signature.Results().At(0).Type().Underlying().(type) {
			case *types.Pointer, *types.Map, *types.Slice:
			default:
				continue
			}
			ok, any := true, false
			for _, b := range f.Blocks {
				for _, ins := range b.Instrs {
					if r, isRet := ins.(*ssa.Return); isRet {
						any = true
						if !a.isFresh(r.Results[0]) {
							ok = false
						}
					}
				}
			}
			if ok && any {
				a.retFresh[f] = true
				changed = true
			}
		}
	}

	a.priv = a.computePrivacy(pkgs)
	a.computeEntryHeld()

	goStmts := 0
	for _, fi := range a.fns {
		a.collect(fi)
		goStmts += fi.goStmts
		f := fi.fn
		exported := false
		if o := f.Object(); o != nil && o.Exported() {
			exported = true
		}
		fi.escapes = exported || a.addrTkn[f] || f.Signature.Recv() != nil ||
			(f.Synthetic != "" && f.Synthetic != "package initializer")
		if f.Parent() != nil {
			// an anonymous function stays inside its parent when every closure made of it is
			// only ever called directly
			fi.escapes = a.addrTkn[f] // without free variables there is no closure object, only the function value
			for _, mc := range a.closures[f] {
				if closureEscapes(mc) {
					fi.escapes = true
				}
			}
		}
		if a.visible[f] != nil {
			fi.escapes = false // (C3) every call of it is a visible static call: foreign code cannot reach it directly
		}
	}
	a.computeAnchors()
	matched := a.tag(&cfg)
	refOKUsed := make([]int, len(cfg.GlobalRefsOK))
	for _, fi := range a.fns {
		for i := range fi.sites {
			s := &fi.sites[i]
			if s.kind != kLeak {
				continue
			}
			for k, ok := range cfg.GlobalRefsOK {
				if base(s.tgt) == ok.Var {
					s.allow = k + 1
					refOKUsed[k]++
				}
			}
		}
	}

	// dedupe + sort sites
	for _, fi := range a.fns {
		seen := map[string]bool{}
		var ss []site
		for _, s := range fi.sites {
			k := fmt.Sprintf("%d|%s|%s|%d", s.kind, s.tgt, s.held, s.allow)
			if !seen[k] {
				seen[k] = true
				ss = append(ss, s)
			}
		}
		sort.Slice(ss, func(i, j int) bool {
			x, y := ss[i], ss[j]
			if x.kind != y.kind {
				return x.kind < y.kind
			}
			if x.tgt != y.tgt {
				return x.tgt < y.tgt
			}
			if x.held != y.held {
				return x.held < y.held
			}
			return x.allow < y.allow
		})
		fi.sites = ss
	}

	// interning
	fnID := map[string]int{}
	for i, fi := range a.fns {
		fnID[fi.name] = i
	}
	locSet, mtxSet := map[string]bool{}, map[string]bool{}
	for _, fi := range a.fns {
		for _, s := range fi.sites {
			if s.kind != kCall {
				locSet[s.tgt] = true
			}
			if s.kind == kLeak {
				continue // `held` carries the manner of the leak, not mutexes
			}
			for _, h := range splitHeld(s.held) {
				mtxSet[h[0]] = true
			}
		}
	}
	for _, g := range cfg.Guards {
		mtxSet[g.Mutex] = true
	}
	for _, im := range cfg.Immutable {
		locSet[im.Loc] = true
	}
	locs, mtxs := sortedKeys(locSet), sortedKeys(mtxSet)
	locID, mtxID := index(locs), index(mtxs)

	// reader roots and the set reachable from them over untagged call edges
	var roots []int
	for _, r := range cfg.ReaderRoots {
		id, ok := fnID[r.Func]
		if !ok {
			fatal("reader root %s does not exist in the source any more; review allow.json", r.Func)
		}
		roots = append(roots, id)
	}
	sort.Ints(roots)
	reach := map[int]bool{}
	work := append([]int{}, roots...)
	for len(work) > 0 {
		f := work[len(work)-1]
		work = work[:len(work)-1]
		if reach[f] {
			continue
		}
		reach[f] = true
		for _, s := range a.fns[f].sites {
			if s.kind == kCall && s.allow == 0 {
				work = append(work, fnID[s.tgt])
			}
		}
	}
	// package initialisers and the functions that run only below them
	var initRoots []int
	initOnly := map[int]bool{}
	for i, fi := range a.fns {
		if fi.fn.Synthetic == "package initializer" {
			initRoots = append(initRoots, i)
		}
		for _, s := range fi.sites {
			if s.kind == kWrite && a.globals[base(s.tgt)] {
				initOnly[i] = true
			}
		}
	}
	for changed := true; changed; {
		changed = false
		for i, fi := range a.fns {
			if initOnly[i] {
				continue
			}
			for _, s := range fi.sites {
				if s.kind == kCall && initOnly[fnID[s.tgt]] {
					initOnly[i] = true
					changed = true
					break
				}
			}
		}
	}
	// (C3) ... and the functions all of whose calls are visible and lie in such functions: they too run
	// only during package initialisation
	for changed := true; changed; {
		changed = false
		for i, fi := range a.fns {
			calls := a.visible[fi.fn]
			if initOnly[i] || calls == nil {
				continue
			}
			all := true
			for _, c := range calls {
				if !initOnly[fnID[c.caller.name]] && c.caller.fn.Synthetic != "package initializer" {
					all = false
				}
			}
			if all {
				initOnly[i] = true
				changed = true
			}
		}
	}
	var globals []int
	for i, l := range locs {
		if a.globals[base(l)] {
			globals = append(globals, i)
		}
	}
	// declared guards, expanded to every element level present
	type guardRow struct {
		loc, mtx int
		reads    bool
	}
	var guards []guardRow
	for _, g := range cfg.Guards {
		found := false
		for i, l := range locs {
			if base(l) == g.Loc {
				guards = append(guards, guardRow{i, mtxID[g.Mutex], g.Reads})
				found = true
			}
		}
		if !found && g.Optional {
			fmt.Fprintf(os.Stderr, "extract-access: note: optional guard declaration for %s matches no location of the current source\n", g.Loc)
			continue
		}
		if !found {
			fatal("declared guard names location %s, which the source does not access any more; review allow.json", g.Loc)
		}
		if !a.mutexExists(pkgs, g.Mutex) {
			fatal("declared guard names mutex %s, which does not exist in the source any more; review allow.json", g.Mutex)
		}
	}

	// Diagnostics: the same three predicates evaluated here, only to name the offending sites for
	// a human reader.  Not part of the proof: the verdict is the kernel's evaluation in Lean.
	var diags []string
	heldHas := func(h, m string) (has, excl bool) {
		for _, p := range splitHeld(h) {
			if p[0] == m {
				has = true
				if p[1] == "x" {
					excl = true
				}
			}
		}
		return
	}
	protects := func(w, x string) bool {
		for _, p := range splitHeld(w) {
			if has, _ := heldHas(x, p[0]); has && p[1] == "x" {
				return true
			}
		}
		for _, p := range splitHeld(x) {
			if has, _ := heldHas(w, p[0]); has && p[1] == "x" {
				return true
			}
		}
		return false
	}
	for _, f := range setList(reach) {
		for _, w := range a.fns[f].sites {
			if w.kind != kWrite || w.allow != 0 {
				continue
			}
			for _, g := range setList(reach) {
				for _, x := range a.fns[g].sites {
					if (x.kind == kRead || x.kind == kWrite) && x.allow == 0 && x.tgt == w.tgt && !protects(w.held, x.held) && len(diags) < 12 {
						diags = append(diags, fmt.Sprintf("ReaderDiscipline: write of %s in %s holding {%s} and %s of it in %s holding {%s} share no mutex held exclusively on one side",
							w.tgt, a.fns[f].name, w.held, []string{"read", "write"}[x.kind], a.fns[g].name, x.held))
					}
				}
			}
		}
	}
	isInitRoot := map[int]bool{}
	for _, r := range initRoots {
		isInitRoot[r] = true
	}
	// For every function that itself writes a package-level variable: can it run after package
	// initialisation?  Yes if it, or a chain of its callers, ends in a function that is callable
	// from outside the call graph (exported, a method, used as a value).  Report the writer with
	// one shortest such chain.
	callers := map[int][]int{}
	for g, fi := range a.fns {
		for _, s := range fi.sites {
			if s.kind == kCall {
				callers[fnID[s.tgt]] = append(callers[fnID[s.tgt]], g)
			}
		}
	}
	for _, f := range setList(initOnly) {
		var written []string
		for _, s := range a.fns[f].sites {
			if s.kind == kWrite && a.globals[base(s.tgt)] {
				written = append(written, s.tgt)
			}
		}
		if len(written) == 0 || isInitRoot[f] {
			continue
		}
		prev := map[int]int{f: -1}
		queue := []int{f}
		end := -1
		for len(queue) > 0 && end < 0 {
			g := queue[0]
			queue = queue[1:]
			if !isInitRoot[g] && a.fns[g].escapes {
				end = g
				break
			}
			for _, c := range callers[g] {
				if _, seen := prev[c]; !seen && !isInitRoot[c] {
					prev[c] = g
					queue = append(queue, c)
				}
			}
		}
		if end < 0 {
			continue
		}
		var chain []string
		for g := end; g != -1; g = prev[g] {
			chain = append(chain, a.fns[g].name)
		}
		diags = append(diags, fmt.Sprintf("GlobalsInitOnly: %s writes the package-level %s and can run after package initialisation: %s",
			a.fns[f].name, strings.Join(written, ", "), strings.Join(chain, " -> ")))
	}
	for _, r := range roots {
		if initOnly[r] {
			diags = append(diags, fmt.Sprintf("GlobalsInitOnly: reader root %s writes package-level variables (directly or through calls)", a.fns[r].name))
		}
	}
	for _, g := range guards {
		for _, fi := range a.fns {
			for _, s := range fi.sites {
				if (s.kind != kRead && s.kind != kWrite) || locID[s.tgt] != g.loc {
					continue
				}
				has, excl := heldHas(s.held, mtxs[g.mtx])
				if (s.kind == kWrite && !excl) || (s.kind == kRead && g.reads && !has) {
					diags = append(diags, fmt.Sprintf("GuardedLocations: %s of %s in %s holds {%s}, not its declared guard %s",
						[]string{"read", "write"}[s.kind], s.tgt, fi.name, s.held, mtxs[g.mtx]))
				}
			}
		}
	}
	for f, fi := range a.fns {
		if initOnly[f] {
			continue
		}
		for _, s := range fi.sites {
			if s.kind == kLeak && s.allow == 0 {
				diags = append(diags, fmt.Sprintf("NoGlobalEscapes: in %s a reference to the package-level %s is %s; objects of package-level variables must not become reachable from a module set (explain the variable under global_refs_ok in allow.json if this is harmless)",
					fi.name, s.tgt, s.held))
			}
		}
	}
	type mrRow struct {
		fn, callee int
		ok         bool
	}
	var mustReach []mrRow
	for _, sp := range cfg.MustReach {
		ok, why := a.mustReach(sp)
		row := mrRow{ok: ok}
		if id, exists := fnID[sp.Func]; exists {
			row.fn = id
		}
		if id, exists := fnID[sp.MustReach]; exists {
			row.callee = id
		} else {
			row.ok = false
			why = "function " + sp.MustReach + " does not exist"
		}
		mustReach = append(mustReach, row)
		if !row.ok {
			diags = append(diags, fmt.Sprintf("MustReach: %s: %s (%s)", sp.ID, why, sp.Reason))
		}
	}
	immutable := map[string]bool{}
	for _, im := range cfg.Immutable {
		immutable[im.Loc] = true
	}
	for f, fi := range a.fns {
		if initOnly[f] {
			continue
		}
		for _, s := range fi.sites {
			if s.kind == kWrite && immutable[s.tgt] {
				diags = append(diags, fmt.Sprintf("ImmutableLocations: %s writes %s through a pointer; memory of that name hangs below package-level objects shared by all module sets and must not be written after package initialisation (see immutable in allow.json)",
					fi.name, s.tgt))
			}
		}
	}
	if goStmts > 0 {
		diags = append(diags, fmt.Sprintf("ReaderDiscipline: the packages contain %d go statement(s)", goStmts))
	}
	for _, d := range diags {
		fmt.Fprintln(os.Stderr, "extract-access: DIAGNOSTIC "+d)
	}

	if *dump {
		a.dump(&cfg, matched, reach, initOnly)
		return
	}

	var sb strings.Builder
	w := func(format string, args ...any) { fmt.Fprintf(&sb, format, args...) }
	w("-- GENERATED by harness/cmd/extract-access from the Go source of pkg/yang and pkg/indent. Do not edit.\n")
	w("-- Regenerated by `./check C19 <tier>` on every run; see harness/cmd/extract-access/allow.json for the reviewed input.\n")
	w("-- Call-private types (their objects' own memory is local and produces no fact): %s\n", strings.Join(a.privateTypeNames(), ", "))
	w("import Goyang.Model.Lockset\n\nnamespace Goyang.Gen.Access\nopen Goyang.Model.Lockset\n\n")
	w("/-- function id ↦ name (printing only) -/\ndef fnNames : Array String := #[\n")
	for i, fi := range a.fns {
		w("  %q%s\n", fi.name, comma(i, len(a.fns)))
	}
	w("]\n\n/-- location id ↦ name (printing only) -/\ndef locNames : Array String := #[\n")
	for i, l := range locs {
		w("  %q%s\n", l, comma(i, len(locs)))
	}
	w("]\n\n/-- mutex id ↦ name (printing only) -/\ndef mutexNames : Array String := #[\n")
	for i, m := range mtxs {
		w("  %q%s\n", m, comma(i, len(mtxs)))
	}
	w("]\n\n/-- allow-list entry k (tag k+1): id, function, guard, number of tagged sites (printing only) -/\n")
	w("def allowNames : Array String := #[\n")
	for i, al := range cfg.Allow {
		w("  %q%s\n", fmt.Sprintf("%s | %s | %s | guard: %s | sites tagged: %d", al.ID, al.Func, al.Class, al.Guard, matched[i]), comma(i, len(cfg.Allow)))
	}
	w("]\n\n/-- explained package-level variable k (tag k+1 on a leak): variable, reason (printing only) -/\n")
	w("def globalRefOkNames : Array String := #[\n")
	for i, ok := range cfg.GlobalRefsOK {
		w("  %q%s\n", fmt.Sprintf("%s | %s | leak sites tagged: %d", ok.Var, ok.Reason, refOKUsed[i]), comma(i, len(cfg.GlobalRefsOK)))
	}
	w("]\n\n")
	acc := func(ss []site, kind int) string {
		var parts []string
		for _, s := range ss {
			if s.kind != kind {
				continue
			}
			var id int
			if kind == kCall {
				id = fnID[s.tgt]
			} else {
				id = locID[s.tgt]
			}
			var hs []string
			if kind == kLeak {
				s.held = ""
			}
			for _, h := range splitHeld(s.held) {
				hs = append(hs, fmt.Sprintf("(%d,%s)", mtxID[h[0]], map[string]string{"x": "true", "s": "false"}[h[1]]))
			}
			parts = append(parts, fmt.Sprintf("⟨%d,[%s],%d⟩", id, strings.Join(hs, ","), s.allow))
		}
		return "[" + strings.Join(parts, ",") + "]"
	}
	// one definition per function keeps every term small
	for i, fi := range a.fns {
		w("/-- %s -/\ndef f%d : Fn := ⟨%s,\n  %s,\n  %s,\n  %s, %v⟩\n", strings.ReplaceAll(fi.name, "-/", "- /"), i,
			acc(fi.sites, kRead), acc(fi.sites, kWrite), acc(fi.sites, kCall), acc(fi.sites, kLeak), fi.escapes)
	}
	w("\ndef facts : Facts where\n  fns := [")
	for i := range a.fns {
		if i%16 == 0 {
			w("\n    ")
		}
		w("f%d%s", i, comma(i, len(a.fns)))
	}
	w("]\n")
	w("  readerRoots := %s\n", natList(roots))
	w("  readerReach := %s\n", natList(setList(reach)))
	w("  initRoots := %s\n", natList(initRoots))
	w("  initOnly := %s\n", natList(setList(initOnly)))
	w("  globals := %s\n", natList(globals))
	w("  guards := [")
	for i, g := range guards {
		w("(%d,%d,%v)%s", g.loc, g.mtx, g.reads, comma(i, len(guards)))
	}
	var imm []int
	for _, im := range cfg.Immutable {
		imm = append(imm, locID[im.Loc])
	}
	sort.Ints(imm)
	w("]\n  immutable := %s\n  mustReach := [", natList(imm))
	for i, r := range mustReach {
		w("(%d,%d,%v)%s", r.fn, r.callee, r.ok, comma(i, len(mustReach)))
	}
	w("]\n  goStmts := %d\n", goStmts)
	w("\nend Goyang.Gen.Access\n")
	if len(diags) > 0 {
		w("\n/- DIAGNOSTICS of the translator (for the reader; not part of the proof, the verdict is the kernel's):\n")
		for _, d := range diags {
			w("   %s\n", strings.ReplaceAll(d, "-/", "- /"))
		}
		w("-/\n")
	}

	if *out == "" {
		os.Stdout.WriteString(sb.String())
		return
	}
	if err := os.WriteFile(*out, []byte(sb.String()), 0o644); err != nil {
		fatal("%v", err)
	}
	// Side file for the reader of a broken obligation (checks/C19.json: obligation_notes): the
	// kernel only says that a predicate is not `true`; this names the offending sites.  Written
	// on every run, so it always describes the table just generated.  Not part of the proof.
	notesPath := strings.TrimSuffix(strings.TrimSuffix(*out, ".new"), ".lean") + ".notes.txt"
	var nb strings.Builder
	fmt.Fprintf(&nb, "Notes of harness/cmd/extract-access for %s (informational; the verdict is the kernel's evaluation of\n"+
		"ReaderDiscipline / GlobalsInitOnly / GuardedLocations / NoGlobalEscapes / ImmutableLocations / MustReach in Goyang/Props/C19.lean).\n\n", strings.TrimSuffix(*out, ".new"))
	if len(diags) == 0 {
		nb.WriteString("No offending site: the translator's own evaluation of the six predicates on this table is true.\n")
	} else {
		fmt.Fprintf(&nb, "%d offending site(s); each makes the named predicate false on this table:\n", len(diags))
		for _, d := range diags {
			fmt.Fprintf(&nb, "  - %s\n", d)
		}
	}
	fmt.Fprintf(&nb, "\nCall-private types (objects confined to the call chain that makes them; see private.go): %s\n", strings.Join(a.privateTypeNames(), ", "))
	fmt.Fprintf(&nb, "Locations that are local because of them: %s\n", strings.Join(sortedKeys(a.priv.owned), ", "))
	for i, al := range cfg.Allow {
		if matched[i] == 0 {
			fmt.Fprintf(&nb, "note: allow-list entry %s matches no site of the current source\n", al.ID)
		}
	}
	for i, ok := range cfg.GlobalRefsOK {
		if refOKUsed[i] == 0 {
			fmt.Fprintf(&nb, "note: global_refs_ok entry %s matches no leak of the current source\n", ok.Var)
		}
	}
	if err := os.WriteFile(notesPath, []byte(nb.String()), 0o644); err != nil {
		fatal("%v", err)
	}
	for i, al := range cfg.Allow {
		if matched[i] == 0 {
			fmt.Fprintf(os.Stderr, "extract-access: note: allow-list entry %s matches no site of the current source\n", al.ID)
		}
	}
	fmt.Fprintf(os.Stderr, "extract-access: %d functions, %d locations, %d mutexes, reader reach %d, init-only %d\n",
		len(a.fns), len(locs), len(mtxs), len(reach), len(initOnly))
}

func (a *analyzer) privateTypeNames() []string {
	var out []string
	for tn := range a.priv.cand {
		out = append(out, a.typeStr(tn.Type()))
	}
	sort.Strings(out)
	return out
}

func (a *analyzer) mutexExists(pkgs []*packages.Package, name string) bool {
	parts := strings.Split(name, ".")
	if len(parts) != 3 {
		return false
	}
	for _, p := range pkgs {
		if p.Name != parts[0] {
			continue
		}
		tn, ok := p.Types.Scope().Lookup(parts[1]).(*types.TypeName)
		if !ok {
			continue
		}
		st, ok := tn.Type().Underlying().(*types.Struct)
		if !ok {
			continue
		}
		for i := 0; i < st.NumFields(); i++ {
			if st.Field(i).Name() == parts[2] {
				ts := st.Field(i).Type().String()
				return ts == "sync.Mutex" || ts == "sync.RWMutex"
			}
		}
	}
	return false
}

func closureEscapes(mc *ssa.MakeClosure) bool {
	refs := mc.Referrers()
	if refs == nil {
		return true
	}
	for _, r := range *refs {
		ci, ok := r.(ssa.CallInstruction)
		if !ok || ci.Common().IsInvoke() || ci.Common().Value != ssa.Value(mc) {
			return true
		}
		if _, isGo := r.(*ssa.Go); isGo {
			return true
		}
		for _, arg := range ci.Common().Args {
			if arg == ssa.Value(mc) {
				return true
			}
		}
	}
	return false
}

func countOperand(ins ssa.Instruction, f *ssa.Function) int {
	n := 0
	for _, op := range ins.Operands(nil) {
		if *op == ssa.Value(f) {
			n++
		}
	}
	return n
}

func splitHeld(h string) [][2]string {
	if h == "" {
		return nil
	}
	var out [][2]string
	for _, p := range strings.Split(h, ",") {
		i := strings.LastIndex(p, ":")
		out = append(out, [2]string{p[:i], p[i+1:]})
	}
	return out
}

func sortedKeys(m map[string]bool) []string {
	ks := make([]string, 0, len(m))
	for k := range m {
		ks = append(ks, k)
	}
	sort.Strings(ks)
	return ks
}

func index(xs []string) map[string]int {
	m := map[string]int{}
	for i, x := range xs {
		m[x] = i
	}
	return m
}

func setList(m map[int]bool) []int {
	var out []int
	for k, v := range m {
		if v {
			out = append(out, k)
		}
	}
	sort.Ints(out)
	return out
}

func natList(xs []int) string {
	ss := make([]string, len(xs))
	for i, x := range xs {
		ss[i] = fmt.Sprint(x)
	}
	return "[" + strings.Join(ss, ",") + "]"
}

func comma(i, n int) string {
	if i+1 < n {
		return ","
	}
	return ""
}

func (a *analyzer) dump(cfg *Config, matched []int, reach, initOnly map[int]bool) {
	kinds := []string{"read ", "write", "call ", "leak "}
	for i, fi := range a.fns {
		flags := ""
		if reach[i] {
			flags += " READER-REACH"
		}
		if initOnly[i] {
			flags += " INIT-ONLY"
		}
		if fi.escapes {
			flags += " escapes"
		}
		fmt.Printf("%d %s%s\n", i, fi.name, flags)
		for _, s := range fi.sites {
			al := ""
			if s.allow > 0 && s.kind == kLeak {
				al = "   explained=" + cfg.GlobalRefsOK[s.allow-1].Var
			} else if s.allow > 0 {
				al = "   allow=" + cfg.Allow[s.allow-1].ID
			}
			fmt.Printf("    %s %-50s {%s}%s\n", kinds[s.kind], s.tgt, s.held, al)
		}
	}
	for i, al := range cfg.Allow {
		fmt.Printf("allow %s: %d sites\n", al.ID, matched[i])
	}
}
