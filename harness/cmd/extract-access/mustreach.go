package main

// Must-reach facts: "after call A succeeded in function F, call B executes on every path to the
// exit of F" - directly, or inside a closure that is deferred (or called) on every such path and
// whose own body executes B on every path.  Used for ToEntry: once beginEntry(n) has succeeded,
// setEntryCache(n, e) runs on every return.  That is what justifies the guard of the allow-list
// entry toentry-miss ("a node that Process converted is in the cache"): a conversion that can
// end without the cache store leaves converted nodes that miss on every later ToEntry.

import (
	"go/token"

	"golang.org/x/tools/go/ssa"
)

type MustReachSpec struct {
	ID        string `json:"id"`
	Func      string `json:"func"`
	AfterCall string `json:"after_call"`
	MustReach string `json:"must_reach"`
	Reason    string `json:"reason"`
}

// covers: does executing ins guarantee that `target` is called?
func (a *analyzer) covers(ins ssa.Instruction, target string, depth int) bool {
	ci, ok := ins.(ssa.CallInstruction)
	if !ok {
		return false
	}
	if _, isGo := ins.(*ssa.Go); isGo {
		return false
	}
	c := ci.Common()
	if c.IsInvoke() {
		return false
	}
	var callee *ssa.Function
	switch v := c.Value.(type) {
	case *ssa.Function:
		callee = v
	case *ssa.MakeClosure:
		callee, _ = v.Fn.(*ssa.Function)
	}
	if callee == nil {
		return false
	}
	if a.fnName(callee) == target {
		return true
	}
	if depth <= 0 {
		return false
	}
	if _, ours := a.byFn[callee]; !ours || len(callee.Blocks) == 0 {
		return false
	}
	return a.allPathsCover(callee, callee.Blocks[0], target, depth-1)
}

// allPathsCover: every path from block `from` to an exit of fn (return or panic) passes an
// instruction that covers target.
func (a *analyzer) allPathsCover(fn *ssa.Function, from *ssa.BasicBlock, target string, depth int) bool {
	seen := map[*ssa.BasicBlock]bool{}
	var walk func(b *ssa.BasicBlock) bool
	walk = func(b *ssa.BasicBlock) bool {
		if seen[b] {
			return true
		}
		seen[b] = true
		for _, ins := range b.Instrs {
			if a.covers(ins, target, depth) {
				return true // every path through this block is covered from here on
			}
		}
		if len(b.Succs) == 0 {
			return false // an exit reached without the call
		}
		for _, s := range b.Succs {
			if !walk(s) {
				return false
			}
		}
		return true
	}
	return walk(from)
}

// mustReach evaluates one specification; ok=false also when the shape is not found any more.
func (a *analyzer) mustReach(sp MustReachSpec) (ok bool, why string) {
	fi := a.byName[sp.Func]
	if fi == nil {
		return false, "function " + sp.Func + " does not exist"
	}
	fn := fi.fn
	found := false
	for _, b := range fn.Blocks {
		if len(b.Instrs) == 0 {
			continue
		}
		iff, isIf := b.Instrs[len(b.Instrs)-1].(*ssa.If)
		if !isIf {
			continue
		}
		cond := iff.Cond
		succ := b.Succs[0]
		if u, isNot := cond.(*ssa.UnOp); isNot && u.Op == token.NOT {
			cond = u.X
			succ = b.Succs[1]
		}
		c, isCall := cond.(*ssa.Call)
		if !isCall {
			continue
		}
		f := c.Call.StaticCallee()
		if f == nil || a.fnName(f) != sp.AfterCall {
			continue
		}
		found = true
		if !a.allPathsCover(fn, succ, sp.MustReach, 3) {
			return false, "a path from the success of " + sp.AfterCall + " to the exit of " + sp.Func + " does not execute " + sp.MustReach
		}
	}
	if !found {
		return false, "no branch on the result of " + sp.AfterCall + " found in " + sp.Func
	}
	return true, ""
}
