package main

// Call-private types: which memory is local to one call chain although it is not allocated in
// the function that touches it.
//
// The basic rule of the translator ("memory allocated in the running function is local") does
// not survive ordinary maintenance: move `elist := make(sortedErrors, n)` into a helper that
// returns the object, give it methods, let sort.Sort call them back - and every access happens
// in a function that did not allocate the memory.  What stays true is a property of the *type*:
//
//	A named, unexported, non-interface type T of the packages is CALL-PRIVATE when no value of
//	T can ever be reached from memory that two goroutines share:
//	 P1  T is unexported (foreign code cannot make or name one);
//	 P2  T is not mentioned in the type of a package-level variable, in the definition of a
//	     named type that is not itself call-private (field, element, key ...), or in the
//	     signature of an exported function / an exported method of a type that is not call-private
//	     (Go is statically typed: a T can only be stored in a place whose type mentions T,
//	     or in an interface, or sent, or captured - P3, P4, P5);
//	 P3  wherever a value whose type mentions T is converted to an interface, the interface
//	     value is used only as an argument of a call to a foreign function (sort.Sort(x),
//	     reflect.ValueOf(x)); foreign functions are trusted not to keep their arguments;
//	 P4  a closure that captures a variable whose type mentions T is only called directly or
//	     handed to a foreign function; no value mentioning T is sent on a channel or passed to
//	     a go statement;
//	 P5  a conversion INTO a type mentioning T has an operand allocated in the same function
//	     (make(T, n), T(literal)); there is no conversion OUT of a type mentioning T into one
//	     that does not (the backing memory would continue under a type that may be shared);
//	 P6  the address of a cell inside a T object (a field, an element) whose own type does not
//	     mention a call-private type is only used to load or store that cell (it never
//	     travels as a *int, *[]string ...).
//	The set is the greatest one with these properties (start from all unexported types, remove
//	violators until nothing changes).
//
// Objects of call-private types are then confined to the stack of the goroutine that made them,
// to other such objects, and to foreign callees for the duration of a call.  Their own memory is
// local: the fields `T.f` of a call-private struct, the elements `T[]` of a call-private named
// slice / array / map type, and one level below a field, `T.f[]`, when the field's type is
// call-private itself or when every value ever stored in the field is a fresh allocation of the
// storing function that is used for nothing else (P7).  Accesses of these locations produce no
// fact.  Whatever a T object merely *refers to* (an error value put into an element, a string
// slice below `T.f[]`) is named and treated as before.
//
// Conservative by construction: any way of publishing a T (a field of Entry, a global, an
// interface stored or returned, an escaping closure, a conversion from shared memory) removes T
// from the set, and its memory is then shared memory like everything else.

import (
	"go/types"
	"sort"

	"golang.org/x/tools/go/packages"
	"golang.org/x/tools/go/ssa"
)

type privacy struct {
	a       *analyzer
	cand    map[*types.TypeName]bool // current set
	why     map[*types.TypeName]string
	owned   map[string]bool // location names that are local
	reasons []string        // for the notes: types removed and why (only the interesting ones)
}

// mentioned: the candidate types that occur in t, not looking inside named types (their
// definitions are examined where they are declared).
func (p *privacy) mentioned(t types.Type, out map[*types.TypeName]bool, seen map[types.Type]bool) {
	if t == nil || seen[t] {
		return
	}
	seen[t] = true
	switch x := t.(type) {
	case *types.Named:
		if p.cand[x.Obj()] {
			out[x.Obj()] = true
		}
		if ta := x.TypeArgs(); ta != nil {
			for i := 0; i < ta.Len(); i++ {
				p.mentioned(ta.At(i), out, seen)
			}
		}
	case *types.Pointer:
		p.mentioned(x.Elem(), out, seen)
	case *types.Slice:
		p.mentioned(x.Elem(), out, seen)
	case *types.Array:
		p.mentioned(x.Elem(), out, seen)
	case *types.Chan:
		p.mentioned(x.Elem(), out, seen)
	case *types.Map:
		p.mentioned(x.Key(), out, seen)
		p.mentioned(x.Elem(), out, seen)
	case *types.Struct:
		for i := 0; i < x.NumFields(); i++ {
			p.mentioned(x.Field(i).Type(), out, seen)
		}
	case *types.Tuple:
		for i := 0; i < x.Len(); i++ {
			p.mentioned(x.At(i).Type(), out, seen)
		}
	case *types.Signature:
		p.mentioned(x.Params(), out, seen)
		p.mentioned(x.Results(), out, seen)
	case *types.Interface:
		for i := 0; i < x.NumMethods(); i++ {
			p.mentioned(x.Method(i).Type(), out, seen)
		}
	}
}

func (p *privacy) in(t types.Type) map[*types.TypeName]bool {
	out := map[*types.TypeName]bool{}
	p.mentioned(t, out, map[types.Type]bool{})
	return out
}

func (p *privacy) mentionsAny(t types.Type) bool { return len(p.in(t)) > 0 }

func (p *privacy) drop(set map[*types.TypeName]bool, why string) bool {
	changed := false
	for tn := range set {
		if p.cand[tn] {
			delete(p.cand, tn)
			p.why[tn] = why
			changed = true
		}
	}
	return changed
}

func (a *analyzer) foreignCallArg(user ssa.Instruction, v ssa.Value) bool {
	ci, ok := user.(ssa.CallInstruction)
	if !ok {
		return false
	}
	if _, isGo := user.(*ssa.Go); isGo {
		return false
	}
	c := ci.Common()
	if c.IsInvoke() || c.Value == v {
		return false
	}
	f := c.StaticCallee()
	if f == nil {
		return false
	}
	if _, ours := a.byFn[f]; ours {
		return false
	}
	return true
}

// onlyForeignArgs: every use of v is as an argument of a call to a foreign function.
func (a *analyzer) onlyForeignArgs(v ssa.Value) bool {
	refs := v.Referrers()
	if refs == nil {
		return false
	}
	for _, r := range *refs {
		if !a.foreignCallArg(r, v) {
			return false
		}
	}
	return true
}

// closureConfined: the closure is only called directly or handed to a foreign function.
func (a *analyzer) closureConfined(mc *ssa.MakeClosure) bool {
	refs := mc.Referrers()
	if refs == nil {
		return false
	}
	for _, r := range *refs {
		if a.foreignCallArg(r, mc) {
			continue
		}
		ci, ok := r.(ssa.CallInstruction)
		if !ok {
			return false
		}
		if _, isGo := r.(*ssa.Go); isGo {
			return false
		}
		if ci.Common().IsInvoke() || ci.Common().Value != ssa.Value(mc) {
			return false
		}
		for _, arg := range ci.Common().Args {
			if arg == ssa.Value(mc) {
				return false
			}
		}
	}
	return true
}

// cellUseOnly: the address v of a cell is only used to load or store the cell or to address
// further into it.
func cellUseOnly(v ssa.Value) bool {
	refs := v.Referrers()
	if refs == nil {
		return true
	}
	for _, r := range *refs {
		switch x := r.(type) {
		case *ssa.Store:
			if x.Addr != v || x.Val == v {
				return false
			}
		case *ssa.UnOp, *ssa.FieldAddr, *ssa.IndexAddr, *ssa.DebugRef:
		default:
			return false
		}
	}
	return true
}

func namedOf(t types.Type) *types.Named {
	if pt, ok := t.(*types.Pointer); ok {
		t = pt.Elem()
	}
	n, _ := t.(*types.Named)
	return n
}

func (a *analyzer) computePrivacy(pkgs []*packages.Package) *privacy {
	p := &privacy{a: a, cand: map[*types.TypeName]bool{}, why: map[*types.TypeName]string{}, owned: map[string]bool{}}
	var all []*types.TypeName
	for _, pk := range pkgs {
		sc := pk.Types.Scope()
		for _, n := range sc.Names() {
			tn, ok := sc.Lookup(n).(*types.TypeName)
			if !ok || tn.IsAlias() {
				continue
			}
			if _, isIface := tn.Type().Underlying().(*types.Interface); isIface {
				continue
			}
			all = append(all, tn)
			if !tn.Exported() { // P1
				p.cand[tn] = true
			}
		}
	}
	for changed := true; changed; {
		changed = false
		// P2: declarations
		for _, pk := range pkgs {
			sc := pk.Types.Scope()
			for _, n := range sc.Names() {
				switch o := sc.Lookup(n).(type) {
				case *types.Var:
					if p.drop(p.in(o.Type()), "mentioned in the type of package-level variable "+o.Name()) {
						changed = true
					}
				case *types.Func:
					if o.Exported() {
						if p.drop(p.in(o.Type()), "mentioned in the signature of exported function "+o.Name()) {
							changed = true
						}
					}
				}
			}
		}
		for _, tn := range all {
			if p.cand[tn] {
				continue
			}
			if p.drop(p.in(tn.Type().Underlying()), "mentioned in the definition of type "+tn.Name()+", which is not call-private") {
				changed = true
			}
			// methods of a type that is not call-private, when exported, are callable from outside
			nt := tn.Type().(*types.Named)
			for i := 0; i < nt.NumMethods(); i++ {
				m := nt.Method(i)
				if m.Exported() {
					sig := m.Type().(*types.Signature)
					set := p.in(sig.Params())
					for k, v := range p.in(sig.Results()) {
						set[k] = v
					}
					if p.drop(set, "mentioned in the signature of exported method "+tn.Name()+"."+m.Name()) {
						changed = true
					}
				}
			}
		}
		// P3 - P6: the code
		for _, fi := range a.fns {
			for _, b := range fi.fn.Blocks {
				for _, ins := range b.Instrs {
					switch x := ins.(type) {
					case *ssa.MakeInterface:
						if set := p.in(x.X.Type()); len(set) > 0 && !a.onlyForeignArgs(x) {
							if p.drop(set, "converted to an interface in "+fi.name+" that is not just an argument of a foreign call") {
								changed = true
							}
						}
					case *ssa.MakeClosure:
						set := map[*types.TypeName]bool{}
						for _, bd := range x.Bindings {
							for k := range p.in(bd.Type()) {
								set[k] = true
							}
						}
						if len(set) > 0 && !a.closureConfined(x) {
							if p.drop(set, "captured by a closure made in "+fi.name+" that may be kept") {
								changed = true
							}
						}
					case *ssa.Send:
						if p.drop(p.in(x.X.Type()), "sent on a channel in "+fi.name) {
							changed = true
						}
					case *ssa.Go:
						set := map[*types.TypeName]bool{}
						for _, arg := range x.Call.Args {
							for k := range p.in(arg.Type()) {
								set[k] = true
							}
						}
						if p.drop(set, "passed to a go statement in "+fi.name) {
							changed = true
						}
					case *ssa.ChangeType:
						if p.conversion(x, x.X, fi.name) {
							changed = true
						}
					case *ssa.Convert:
						if p.conversion(x, x.X, fi.name) {
							changed = true
						}
					case *ssa.SliceToArrayPointer:
						if p.conversion(x, x.X, fi.name) {
							changed = true
						}
					case *ssa.FieldAddr:
						st := x.X.Type().Underlying().(*types.Pointer).Elem()
						if n := namedOf(st); n != nil && p.cand[n.Obj()] {
							ft := st.Underlying().(*types.Struct).Field(x.Field).Type()
							if !p.mentionsAny(ft) && !cellUseOnly(x) {
								if p.drop(map[*types.TypeName]bool{n.Obj(): true}, "the address of one of its fields travels in "+fi.name) {
									changed = true
								}
							}
						}
					case *ssa.IndexAddr:
						ct := x.X.Type()
						if n := namedOf(ct); n != nil && p.cand[n.Obj()] {
							var et types.Type
							switch u := n.Underlying().(type) {
							case *types.Slice:
								et = u.Elem()
							case *types.Array:
								et = u.Elem()
							}
							if et != nil && !p.mentionsAny(et) && !cellUseOnly(x) {
								if p.drop(map[*types.TypeName]bool{n.Obj(): true}, "the address of one of its elements travels in "+fi.name) {
									changed = true
								}
							}
						}
					}
				}
			}
		}
	}

	// the locations that are local
	storedOK := p.fieldStores()
	var names []*types.TypeName
	for tn := range p.cand {
		names = append(names, tn)
	}
	sort.Slice(names, func(i, j int) bool { return a.typeStr(names[i].Type()) < a.typeStr(names[j].Type()) })
	for _, tn := range names {
		ts := a.typeStr(tn.Type())
		switch u := tn.Type().Underlying().(type) {
		case *types.Struct:
			for i := 0; i < u.NumFields(); i++ {
				f := u.Field(i)
				loc := ts + "." + f.Name()
				p.owned[loc] = true
				if isArray(f.Type()) || (refLike(f.Type()) && (p.mentionsAny(f.Type()) || storedOK[loc])) {
					p.owned[loc+"[]"] = true
				}
			}
		case *types.Slice, *types.Array, *types.Map:
			p.owned[ts+"[]"] = true
			p.owned["*"+ts] = true
		default:
			p.owned["*"+ts] = true
		}
	}
	return p
}

func isArray(t types.Type) bool {
	_, ok := t.Underlying().(*types.Array)
	return ok
}

// conversion applies P5 to `res := T(op)`.
func (p *privacy) conversion(res ssa.Value, op ssa.Value, fn string) bool {
	into, from := p.in(res.Type()), p.in(op.Type())
	changed := false
	gained := map[*types.TypeName]bool{}
	for k := range into {
		if !from[k] {
			gained[k] = true
		}
	}
	lost := map[*types.TypeName]bool{}
	for k := range from {
		if !into[k] {
			lost[k] = true
		}
	}
	if len(gained) > 0 && refLike(op.Type()) && !p.a.isFresh(op) {
		if p.drop(gained, "made by a conversion in "+fn+" from memory that is not allocated there") {
			changed = true
		}
	}
	if len(lost) > 0 && refLike(op.Type()) {
		if p.drop(lost, "converted in "+fn+" to a type that may be shared") {
			changed = true
		}
	}
	return changed
}

// fieldStores: P7.  For every field T.f of a call-private struct whose type does not itself
// mention a call-private type: is every value stored into the field a fresh allocation of the
// storing function that has no other use than element access?  Result: location name -> true.
func (p *privacy) fieldStores() map[string]bool {
	a := p.a
	ok := map[string]bool{}
	bad := map[string]bool{}
	for _, fi := range a.fns {
		for _, b := range fi.fn.Blocks {
			for _, ins := range b.Instrs {
				st, isStore := ins.(*ssa.Store)
				if !isStore {
					continue
				}
				// a whole struct value stored somewhere carries field contents that were
				// themselves stored under this rule; nothing to check here
				fa, isFA := st.Addr.(*ssa.FieldAddr)
				if !isFA {
					continue
				}
				stt := fa.X.Type().Underlying().(*types.Pointer).Elem()
				n := namedOf(stt)
				if n == nil || !p.cand[n.Obj()] {
					continue
				}
				ft := stt.Underlying().(*types.Struct).Field(fa.Field).Type()
				if !refLike(ft) || p.mentionsAny(ft) {
					continue
				}
				loc := a.fieldName(fa)
				if isNilConst(st.Val) || a.soleFresh(st.Val, st) {
					ok[loc] = true
				} else {
					bad[loc] = true
				}
			}
		}
	}
	for l := range bad {
		delete(ok, l)
	}
	return ok
}

// soleFresh: v is a fresh allocation (make / new / composite literal) of this function whose only
// uses are `user` and element access.
func (a *analyzer) soleFresh(v ssa.Value, user ssa.Instruction) bool {
	switch v.(type) {
	case *ssa.MakeSlice, *ssa.MakeMap, *ssa.Alloc:
	default:
		return false
	}
	refs := v.Referrers()
	if refs == nil {
		return false
	}
	for _, r := range *refs {
		if r == user {
			continue
		}
		switch x := r.(type) {
		case *ssa.IndexAddr, *ssa.Lookup, *ssa.Range, *ssa.DebugRef:
		case *ssa.MapUpdate:
			if x.Map != v || x.Key == v || x.Value == v {
				return false
			}
		case *ssa.Call:
			b, isB := x.Call.Value.(*ssa.Builtin)
			if !isB || (b.Name() != "len" && b.Name() != "cap") {
				return false
			}
		default:
			return false
		}
	}
	return true
}
