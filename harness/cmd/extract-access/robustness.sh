#!/bin/bash
# robustness.sh: evaluate the translator of the lock-discipline facts (Props/C19.lean) on seeded changes.
#   must break:       the seeded C19 changes that the facts catch (MUST_BREAK; C19-j21 is caught by the race run only)
#   must stay quiet:  /verif/seeded/benign/*/patch.diff except STILL_OPEN (harmless patches that still raise an
#                     alarm, with the reason in checks/C19.json; the script fails when one of them becomes quiet
#                     without being taken off the list, or when any other harmless patch raises an alarm)
# The verdict is the one the translator writes into its notes ("No offending site": its own evaluation of the six
# predicates, a mirror of Goyang/Model/Lockset.lean); the obligation itself is evaluated by ./check C19 and, for
# every harmless patch, by seeded/cross_benign.sh.  Works on a scratch clone under /tmp; never touches /repo.
# Each patch is applied at /repo's HEAD when it applies there, else at the `head` recorded in its result.json.
#   variants/break-*.diff must break: a harmless patch of seeded/benign plus the twist that makes it harmful (a helper
#                     that is called under its caller's lock gets a second caller without the lock; the helper that
#                     holds an allow-listed write gets a second, exported caller; a sentinel error of a mutable type)
#   PARTS="break" ./robustness.sh     a part only (break, benign, variants)
set -u
export GOFLAGS=-mod=mod GOPROXY=off GOSUMDB=off GOTOOLCHAIN=local
MUST_BREAK="C19-1 C19-2 C19-b1 C19-b2 C19-c1 C19-c2 C19-e1 C19-e2 C19-f1 C19-f2 C19-g1 C19-g2 C19-h21 C19-h22 C19-j22 C19-k21 C19-k22 C19-l21 C19-l22 C19-m21 C19-m22 C19-n22"
STILL_OPEN="C01-j3 C13-j1 C13-j2 C13-k1"
T=/tmp/c19access.$$; mkdir -p $T; trap "rm -rf $T" EXIT
(cd /verif/harness && go build -o $T/extract-access ./cmd/extract-access) || exit 2
git clone -q /repo $T/wt || exit 2
HEAD=$(git -C /repo rev-parse HEAD)
PARTS=${PARTS:-"break benign variants"}
has() { [[ " $PARTS " == *" $1 "* ]]; }
# verdict <patch>: "quiet" | "OFFENDING <first site>" | APPLY-FAILED | EXTRACT-FAILED
verdict() {
  local P=$1 H=$HEAD
  if ! (cd $T/wt && git reset -q --hard && git clean -fdq && git checkout -q --detach $H 2>/dev/null && git apply --check $P 2>/dev/null); then
    H=$(python3 -c "import json,sys,os; p=os.path.join(os.path.dirname(sys.argv[1]),'result.json'); print(json.load(open(p)).get('head','') if os.path.exists(p) else '')" $P 2>/dev/null)
    [ -z "$H" ] && { echo APPLY-FAILED; return; }
  fi
  (cd $T/wt && git reset -q --hard && git clean -fdq && git checkout -q --detach $H 2>/dev/null && git apply $P 2>/dev/null) || { echo APPLY-FAILED; return; }
  $T/extract-access -repo $T/wt -o $T/Access.lean >/dev/null 2>$T/err.txt || { echo "EXTRACT-FAILED $(head -c 200 $T/err.txt | tr '\n' ' ')"; return; }
  if grep -q "^No offending site" $T/Access.notes.txt; then echo quiet; else echo "OFFENDING $(grep -m1 '^  - ' $T/Access.notes.txt | cut -c1-220)"; fi
}
fail=0
for p in $(has break && echo $MUST_BREAK); do
  r=$(verdict /verif/seeded/$p/patch.diff)
  case "$r" in OFFENDING*) echo "must-break $p: breaks ${r#OFFENDING}";; *) echo "must-break $p: NOT CAUGHT ($r)"; fail=1;; esac
done
quiet=0; open=0
for d in $(has benign && ls -d /verif/seeded/benign/*/); do
  [ -f $d/patch.diff ] || continue
  id=$(basename $d); r=$(verdict $d/patch.diff)
  if [[ " $STILL_OPEN " == *" $id "* ]]; then
    if [ "$r" == quiet ]; then echo "benign $id: quiet now - take it off STILL_OPEN"; fail=1; else open=$((open+1)); echo "benign $id: alarm (known, open) ${r#OFFENDING}"; fi
  elif [ "$r" == quiet ]; then quiet=$((quiet+1)); else echo "benign $id: ALARM $r"; fail=1; fi
done
has benign && echo "benign: $quiet quiet, $open known open alarms"
for p in $(has variants && ls $(cd "$(dirname "$0")" && pwd)/variants/break-*.diff); do
  r=$(verdict $p)
  case "$r" in OFFENDING*) echo "variant $(basename $p .diff): breaks ${r#OFFENDING}";; *) echo "variant $(basename $p .diff): NOT CAUGHT ($r)"; fail=1;; esac
done
exit $fail
