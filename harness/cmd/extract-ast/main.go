// extract-ast: translator for property C03 (and the other consumers of the AST layout).
//
// Regenerates lean/Goyang/Gen/AstSchema.lean from the goyang source the harness is built against:
//
//   - by reflection over the struct types of the *built* yang package, starting at *yang.Module,
//     replaying the tag grammar of initTypes (pkg/yang/ast.go): for every AST struct type its
//     tagged fields in struct order (tag name, Go kind, element type, `required`, `required=KIND`),
//     the keyword -> type map in discovery order, whether the type implements Node, and the
//     Kind() strings (zero value, and with one pointer/slice field set);
//   - by go/ast over pkg/yang/ast.go: the `aliases` table and the fields of the unexported root
//     struct `meta` (which must still be the single field `Module []*Module yang:"module"`);
//   - cross-check: every struct type found by reflection is compared field by field (name, type,
//     tag) with its declaration in the source files of pkg/yang.
//
// The output is deterministic (discovery order, no timestamps).  Anything the tool does not
// understand is an error (exit 1): the caller treats that as a broken proof obligation.
package main

import (
	"flag"
	"fmt"
	"go/ast"
	"go/parser"
	"go/token"
	"go/types"
	"os"
	"path/filepath"
	"reflect"
	"regexp"
	"strconv"
	"strings"

	"github.com/openconfig/goyang/pkg/yang"
)

func die(format string, a ...any) {
	fmt.Fprintf(os.Stderr, "extract-ast: "+format+"\n", a...)
	os.Exit(1)
}

type fieldRec struct {
	goName   string
	tag      string // first part of the yang tag, alias not applied
	kind     string // str stmt iface ptr slice ext
	elem     reflect.Type
	required bool
	reqKinds []string
}

type typeRec struct {
	t      reflect.Type // pointer type
	fields []fieldRec
	isNode bool
	kind0  string
	kindIf [][2]string // (field index as decimal, kind)
}

var (
	statementType = reflect.TypeOf(&yang.Statement{})
	nodeType      = reflect.TypeOf((*yang.Node)(nil)).Elem()

	aliases   = map[string]string{}
	aliasKeys []string // source order

	typeRecs = map[reflect.Type]*typeRec{}
	typeList []reflect.Type // typeMap insertion order
	nameMap  = map[string]reflect.Type{}
	nameList []string // nameMap insertion order

	kwIdx  = map[string]int{}
	kwList []string
)

func kw(s string) int {
	if i, ok := kwIdx[s]; ok {
		return i
	}
	kwIdx[s] = len(kwList)
	kwList = append(kwList, s)
	return kwIdx[s]
}

// initTypes replays pkg/yang/ast.go initTypes; every panic there is an error here.
func initTypes(at reflect.Type) {
	if at.Kind() != reflect.Ptr || at.Elem().Kind() != reflect.Struct {
		die("interface not a struct pointer, is %v", at)
	}
	if typeRecs[at] != nil {
		return
	}
	y := &typeRec{t: at}
	typeRecs[at] = y
	typeList = append(typeList, at)
	t := at.Elem()
	descend := func(name string, dt reflect.Type) {
		switch nameMap[name] {
		case nil:
			nameMap[name] = dt
			nameList = append(nameList, name)
			initTypes(dt)
		case dt:
		default:
			die("redeclared type %s", name)
		}
	}
	for i := 0; i != t.NumField(); i++ {
		f := t.Field(i)
		tag := f.Tag.Get("yang")
		if tag == "" {
			continue
		}
		parts := strings.Split(tag, ",")
		rec := fieldRec{goName: f.Name, tag: parts[0]}
		kw(parts[0])
		name := parts[0]
		if a, ok := aliases[name]; ok {
			name = a
		}
		const reqe = "required="
		for _, p := range parts[1:] {
			switch {
			case p == "nomerge":
			case p == "required":
				rec.required = true
			case strings.HasPrefix(p, reqe):
				rec.reqKinds = append(rec.reqKinds, p[len(reqe):])
				kw(p[len(reqe):])
			default:
				die("%s.%s: unknown tag: %s", t.Name(), f.Name, p)
			}
		}
		if name == "Ext" {
			if f.Type != reflect.SliceOf(statementType) {
				die("%s.%s: Ext field of type %v (the builder appends *Statement values to it)", t.Name(), f.Name, f.Type)
			}
			rec.kind = "ext"
			y.fields = append(y.fields, rec)
			continue
		}
		switch f.Type.Kind() {
		default:
			die("%s.%s: invalid type: %v", t.Name(), f.Name, f.Type.Kind())
		case reflect.Interface:
			if name != "Parent" {
				die("%s.%s: interface field is %s, not Parent", t.Name(), f.Name, name)
			}
			if f.Type != nodeType {
				die("%s.%s: Parent field of type %v, not Node", t.Name(), f.Name, f.Type)
			}
			rec.kind = "iface"
		case reflect.String:
			if name != "Name" {
				die("%s.%s: string field is %s, not Name", t.Name(), f.Name, name)
			}
			rec.kind = "str"
		case reflect.Ptr:
			if f.Type == statementType {
				if name != "Statement" {
					die("%s.%s: *Statement field is %s, not Statement", t.Name(), f.Name, name)
				}
				rec.kind = "stmt"
				break
			}
			if f.Type.Elem().Kind() != reflect.Struct {
				die("%s.%s: pointer to %v", t.Name(), f.Name, f.Type.Elem().Kind())
			}
			rec.kind = "ptr"
			rec.elem = f.Type
			// the record is appended before descending so that struct order is kept
		case reflect.Slice:
			st := f.Type.Elem()
			if st.Kind() != reflect.Ptr || st.Elem().Kind() != reflect.Struct {
				die("%s.%s: invalid slice element type: %v", t.Name(), f.Name, st)
			}
			rec.kind = "slice"
			rec.elem = st
		}
		y.fields = append(y.fields, rec)
		if rec.elem != nil {
			descend(name, rec.elem)
		}
	}
}

func probeKinds() {
	for _, at := range typeList {
		y := typeRecs[at]
		y.isNode = at.Implements(nodeType)
		if !y.isNode {
			continue
		}
		kindOf := func(v reflect.Value) (k string) {
			defer func() {
				if r := recover(); r != nil {
					die("%v: Kind() panics on a sparsely filled value: %v", at, r)
				}
			}()
			return v.Interface().(yang.Node).Kind()
		}
		y.kind0 = kindOf(reflect.New(at.Elem()))
		kw(y.kind0)
		for i, f := range y.fields {
			if f.kind != "ptr" && f.kind != "slice" {
				continue
			}
			v := reflect.New(at.Elem())
			sf, _ := at.Elem().FieldByName(f.goName)
			fv := v.Elem().FieldByIndex(sf.Index)
			one := reflect.New(f.elem.Elem())
			if f.kind == "ptr" {
				fv.Set(one)
			} else {
				fv.Set(reflect.Append(fv, one))
			}
			if k := kindOf(v); k != y.kind0 {
				y.kindIf = append(y.kindIf, [2]string{strconv.Itoa(i), k})
				kw(k)
			}
		}
	}
}

// ---- source side (go/ast)

func repoDir(flagVal string) string {
	if flagVal != "" {
		return flagVal
	}
	if b, err := os.ReadFile("go.mod"); err == nil {
		re := regexp.MustCompile(`(?m)^\s*replace\s+github\.com/openconfig/goyang\s*=>\s*(\S+)`)
		if m := re.FindSubmatch(b); m != nil {
			return string(m[1])
		}
	}
	return "/repo"
}

type srcField struct{ name, typ, tag string }

func parseSource(dir string) (map[string][]srcField, []srcField) {
	fset := token.NewFileSet()
	files, err := filepath.Glob(filepath.Join(dir, "*.go"))
	if err != nil || len(files) == 0 {
		die("no Go files in %s", dir)
	}
	structs := map[string][]srcField{}
	var meta []srcField
	foundAliases := false
	structFields := func(st *ast.StructType) []srcField {
		var out []srcField
		for _, f := range st.Fields.List {
			tag := ""
			if f.Tag != nil {
				s, err := strconv.Unquote(f.Tag.Value)
				if err != nil {
					die("bad struct tag %s", f.Tag.Value)
				}
				tag = s
			}
			typ := types.ExprString(f.Type)
			if len(f.Names) == 0 {
				out = append(out, srcField{typ, typ, tag})
			}
			for _, n := range f.Names {
				out = append(out, srcField{n.Name, typ, tag})
			}
		}
		return out
	}
	for _, fn := range files {
		if strings.HasSuffix(fn, "_test.go") {
			continue
		}
		af, err := parser.ParseFile(fset, fn, nil, 0)
		if err != nil {
			die("%v", err)
		}
		for _, d := range af.Decls {
			gd, ok := d.(*ast.GenDecl)
			if !ok {
				continue
			}
			for _, sp := range gd.Specs {
				switch sp := sp.(type) {
				case *ast.TypeSpec:
					if st, ok := sp.Type.(*ast.StructType); ok {
						if sp.Name.Name == "meta" && filepath.Base(fn) == "ast.go" {
							meta = structFields(st)
						} else {
							structs[sp.Name.Name] = structFields(st)
						}
					}
				case *ast.ValueSpec:
					for i, n := range sp.Names {
						if n.Name != "aliases" || filepath.Base(fn) != "ast.go" {
							continue
						}
						if i >= len(sp.Values) {
							die("aliases has no initialiser")
						}
						cl, ok := sp.Values[i].(*ast.CompositeLit)
						if !ok {
							die("aliases is not a composite literal")
						}
						for _, e := range cl.Elts {
							kv, ok := e.(*ast.KeyValueExpr)
							if !ok {
								die("aliases: unexpected element")
							}
							k, ok1 := kv.Key.(*ast.BasicLit)
							v, ok2 := kv.Value.(*ast.BasicLit)
							if !ok1 || !ok2 || k.Kind != token.STRING || v.Kind != token.STRING {
								die("aliases: element is not a pair of string literals")
							}
							ks, _ := strconv.Unquote(k.Value)
							vs, _ := strconv.Unquote(v.Value)
							if _, dup := aliases[ks]; dup {
								die("aliases: duplicate key %s", ks)
							}
							aliases[ks] = vs
							aliasKeys = append(aliasKeys, ks)
						}
						foundAliases = true
					}
				}
			}
		}
	}
	if !foundAliases {
		die("var aliases not found in ast.go")
	}
	if meta == nil {
		die("type meta not found in ast.go")
	}
	return structs, meta
}

func crossCheck(structs map[string][]srcField) {
	for _, at := range typeList {
		t := at.Elem()
		src, ok := structs[t.Name()]
		if !ok {
			die("struct %s found by reflection is not declared in the source directory", t.Name())
		}
		if len(src) != t.NumField() {
			die("struct %s: %d fields in the source, %d in the built package", t.Name(), len(src), t.NumField())
		}
		for i := 0; i < t.NumField(); i++ {
			f := t.Field(i)
			rt := strings.ReplaceAll(f.Type.String(), "yang.", "")
			if f.Name != src[i].name || rt != src[i].typ || string(f.Tag) != src[i].tag {
				die("struct %s field %d: built package has %s %s `%s`, source has %s %s `%s`", t.Name(), i,
					f.Name, rt, f.Tag, src[i].name, src[i].typ, src[i].tag)
			}
		}
	}
}

// ---- output

func bytesLit(s string) string {
	var sb strings.Builder
	sb.WriteByte('[')
	for i := 0; i < len(s); i++ {
		if i > 0 {
			sb.WriteString(", ")
		}
		sb.WriteString(strconv.Itoa(int(s[i])))
	}
	sb.WriteByte(']')
	return sb.String()
}

func natList(xs []int) string {
	ss := make([]string, len(xs))
	for i, x := range xs {
		ss[i] = strconv.Itoa(x)
	}
	return "[" + strings.Join(ss, ", ") + "]"
}

func main() {
	out := flag.String("o", "", "output file (default stdout)")
	repo := flag.String("repo", "", "goyang source tree (default: the replace directive of ./go.mod, else /repo)")
	flag.Parse()
	dir := filepath.Join(repoDir(*repo), "pkg", "yang")
	structs, meta := parseSource(dir)
	if len(meta) != 1 || meta[0].name != "Module" || meta[0].typ != "[]*Module" || meta[0].tag != `yang:"module"` {
		die("type meta in ast.go is no longer `Module []*Module yang:\"module\"` (%v): teach extract-ast the new roots", meta)
	}
	// ids of the four meta-names first, then discovery order
	for _, s := range []string{"Name", "Statement", "Parent", "Ext"} {
		kw(s)
	}
	// replay of initTypes(reflect.TypeOf(&meta{})): meta itself is not a Node type and is never
	// built; its single field makes "module" -> *Module the first nameMap entry.
	root := reflect.TypeOf(&yang.Module{})
	{
		name := "module"
		kw(name)
		if a, ok := aliases[name]; ok {
			name = a
		}
		nameMap[name] = root
		nameList = append(nameList, name)
		initTypes(root)
	}
	for _, k := range aliasKeys {
		kw(k)
		kw(aliases[k])
	}
	probeKinds()
	crossCheck(structs)
	for _, s := range []string{"module", "submodule"} {
		kw(s) // spellings the hand-written code of Modules.add compares Kind() with
	}

	typeIdx := map[reflect.Type]int{}
	for i, t := range typeList {
		typeIdx[t] = i
	}
	var sb strings.Builder
	w := func(format string, a ...any) { fmt.Fprintf(&sb, format, a...) }
	nkw := len(kwList)
	defer func() {
		if len(kwList) != nkw {
			die("internal: keyword interned after the names array was written")
		}
	}()
	w("import Goyang.Model.AstTable\n")
	w("/-\nGENERATED by harness/cmd/extract-ast from pkg/yang (reflection over the built package, go/ast over\nast.go for `aliases` and `meta`).  Do not edit: ./check regenerates this file on every run.\n")
	w("%d keywords, %d struct types, %d keyword -> type entries, %d aliases.\n-/\n", len(kwList), len(typeList), len(nameList), len(aliasKeys))
	w("namespace Goyang.Gen.AstSchema\nopen Goyang.Model.Ast\n\n")
	w("def kwNames : List Bytes := [\n")
	for i, s := range kwList {
		sep := ","
		if i == len(kwList)-1 {
			sep = ""
		}
		w("  %s%s  -- %d %q\n", bytesLit(s), sep, i, s)
	}
	w("]\n\ndef typeNames : List Bytes := [\n")
	for i, t := range typeList {
		sep := ","
		if i == len(typeList)-1 {
			sep = ""
		}
		w("  %s%s  -- %d %s\n", bytesLit(t.Elem().Name()), sep, i, t.Elem().Name())
	}
	w("]\n\n")
	for i, at := range typeList {
		y := typeRecs[at]
		w("/-- `%s` -/\ndef t%d : TypeDef := ⟨%d, %v, %d, [", at.Elem().Name(), i, i, y.isNode, kw(y.kind0))
		for j, ki := range y.kindIf {
			if j > 0 {
				w(", ")
			}
			w("(%s, %d)", ki[0], kw(ki[1]))
		}
		w("], [\n")
		for j, f := range y.fields {
			sep := ","
			if j == len(y.fields)-1 {
				sep = ""
			}
			elem := 0
			en := ""
			if f.elem != nil {
				elem = typeIdx[f.elem]
				en = " " + f.elem.Elem().Name()
			}
			var rk []int
			for _, k := range f.reqKinds {
				rk = append(rk, kw(k))
			}
			w("  ⟨%d, .%s, %d, %v, %s⟩%s  -- %s `%s`%s\n", kw(f.tag), f.kind, elem, f.required, natList(rk), sep, f.goName, f.tag, en)
		}
		w("]⟩\n\n")
	}
	w("def types : List TypeDef := [")
	for i := range typeList {
		if i > 0 {
			w(", ")
		}
		if i%12 == 0 {
			w("\n  ")
		}
		w("t%d", i)
	}
	w("]\n\n/-- `nameMap` in discovery order: (keyword id, type id) -/\ndef nameMap : List (Nat × Nat) := [\n")
	for i, n := range nameList {
		sep := ","
		if i == len(nameList)-1 {
			sep = ""
		}
		w("  (%d, %d)%s  -- %s -> %s\n", kw(n), typeIdx[nameMap[n]], sep, n, nameMap[n].Elem().Name())
	}
	w("]\n\n/-- `aliases` -/\ndef aliases : List (Nat × Nat) := [")
	for i, k := range aliasKeys {
		if i > 0 {
			w(", ")
		}
		w("(%d, %d)", kw(k), kw(aliases[k]))
	}
	w("]\n\n")
	w("def table : Schema :=\n  { kwNames := kwNames, typeNames := typeNames, types := types, nameMap := nameMap,\n    aliases := aliases, moduleTy := %d }\n\n", typeIdx[root])
	w("end Goyang.Gen.AstSchema\n")
	if strings.Count(sb.String(), "-- ") == 0 {
		die("internal: empty output")
	}
	if *out == "" {
		os.Stdout.WriteString(sb.String())
		return
	}
	if err := os.WriteFile(*out, []byte(sb.String()), 0o644); err != nil {
		die("%v", err)
	}
}
