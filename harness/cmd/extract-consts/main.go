// extract-consts: translator for the constants the hand-written Lean models depend on.
//
// Regenerates lean/Goyang/Gen/Consts.lean from the goyang source (go/packages syntax + types, no
// execution of goyang code):
//
//   - every integer, boolean and string constant of the listed packages, at package level
//     (`yang.MaxEnum`) and inside functions (`yang.sortedErrors.Less.errorSplitCount`), with the
//     exact value the Go type checker computed (iota enumerations come out as their members);
//   - every package-level variable initialised by ONE call whose arguments are all string constants
//     (`Int8Range = mustParseRangesInt("-128..127")`): callee name and arguments;
//   - every package-level variable initialised by a map literal whose keys and values are constants
//     (`TypeKindToName`, `TypeKindFromName`, `EntryKindToName`, `toDeviation` ...): the pairs in
//     source order.
//
// The output is deterministic (sorted by qualified name; map literals in source order).  The Lean
// side (Goyang/Props/Consts*.lean) proves by kernel evaluation that the constants the models use
// are the ones listed here; a change of a limit, of a built-in range or of an enumeration in the
// Go source changes this table and breaks that obligation with the name of the constant.
package main

import (
	"flag"
	"fmt"
	"go/ast"
	"go/constant"
	"go/token"
	"go/types"
	"os"
	"sort"
	"strings"

	"golang.org/x/tools/go/packages"
)

func fatal(format string, a ...any) {
	fmt.Fprintf(os.Stderr, "extract-consts: "+format+"\n", a...)
	os.Exit(1)
}

type rec struct {
	name string
	kind string // int | str | bool
	val  string // Lean literal
	raw  string // string constants: the Go value
}

type callRec struct {
	name   string
	callee string
	args   []string // Lean string literals
	raw    []string
}

type mapRec struct {
	name  string
	pairs [][2]string // key, value as Lean `Val` terms
}

func bytesLit(s string) string {
	var parts []string
	for i := 0; i < len(s); i++ {
		parts = append(parts, fmt.Sprint(s[i]))
	}
	return "[" + strings.Join(parts, ", ") + "]"
}

func leanStr(s string) string {
	var sb strings.Builder
	sb.WriteByte('"')
	for _, r := range s {
		switch {
		case r == '"':
			sb.WriteString("\\\"")
		case r == '\\':
			sb.WriteString("\\\\")
		case r == '\n':
			sb.WriteString("\\n")
		case r == '\t':
			sb.WriteString("\\t")
		case r == '\r':
			sb.WriteString("\\r")
		case r < 0x20 || r == 0x7f:
			fmt.Fprintf(&sb, "\\x%02x", r)
		default:
			sb.WriteRune(r)
		}
	}
	sb.WriteByte('"')
	return sb.String()
}

// leanVal renders a constant; ok=false for floats/complex.
func leanVal(v constant.Value) (string, string, bool) {
	switch v.Kind() {
	case constant.Int:
		s := v.ExactString()
		if strings.HasPrefix(s, "-") {
			return "int", "(" + s + ")", true
		}
		return "int", s, true
	case constant.String:
		return "str", leanStr(constant.StringVal(v)), true
	case constant.Bool:
		if constant.BoolVal(v) {
			return "bool", "true", true
		}
		return "bool", "false", true
	}
	return "", "", false
}

func valTerm(kind, val string) string {
	switch kind {
	case "int":
		return ".int " + val
	case "str":
		return ".str " + val
	default:
		return ".bool " + val
	}
}

func recvName(d *ast.FuncDecl) string {
	name := d.Name.Name
	if d.Recv != nil && len(d.Recv.List) == 1 {
		t := d.Recv.List[0].Type
		if s, ok := t.(*ast.StarExpr); ok {
			t = s.X
		}
		switch x := t.(type) {
		case *ast.Ident:
			name = x.Name + "." + name
		case *ast.IndexExpr:
			if id, ok := x.X.(*ast.Ident); ok {
				name = id.Name + "." + name
			}
		}
	}
	return name
}

func main() {
	repo := flag.String("repo", "/repo", "goyang source tree")
	out := flag.String("o", "", "output Lean file")
	flag.Parse()
	if *out == "" {
		fatal("-o required")
	}
	patterns := []string{"./pkg/yang", "./pkg/indent", "./pkg/yangentry"}
	fset := token.NewFileSet()
	pcfg := &packages.Config{Mode: packages.NeedName | packages.NeedFiles | packages.NeedSyntax | packages.NeedTypes | packages.NeedTypesInfo,
		Dir: *repo, Fset: fset,
		Env: append(os.Environ(), "GOFLAGS=-mod=readonly", "GOPROXY=off", "GOSUMDB=off", "GOTOOLCHAIN=local", "CGO_ENABLED=0")}
	pkgs, err := packages.Load(pcfg, patterns...)
	if err != nil {
		fatal("load: %v", err)
	}
	if packages.PrintErrors(pkgs) > 0 {
		fatal("the packages do not type-check")
	}
	sort.Slice(pkgs, func(i, j int) bool { return pkgs[i].PkgPath < pkgs[j].PkgPath })

	var recs []rec
	var calls []callRec
	var maps []mapRec
	seen := map[string]int{}
	uniq := func(n string) string {
		seen[n]++
		if seen[n] > 1 {
			return fmt.Sprintf("%s#%d", n, seen[n])
		}
		return n
	}

	for _, p := range pkgs {
		info := p.TypesInfo
		constOf := func(e ast.Expr) (string, bool) {
			tv, ok := info.Types[e]
			if !ok || tv.Value == nil {
				return "", false
			}
			k, v, ok := leanVal(tv.Value)
			if !ok {
				return "", false
			}
			return valTerm(k, v), true
		}
		constDecl := func(d *ast.GenDecl, scope string) {
			for _, s := range d.Specs {
				vs := s.(*ast.ValueSpec)
				for _, id := range vs.Names {
					if id.Name == "_" {
						continue
					}
					c, ok := info.Defs[id].(*types.Const)
					if !ok {
						continue
					}
					k, v, ok := leanVal(c.Val())
					if !ok {
						continue // floats: not used by any model
					}
					q := p.Name + "."
					if scope != "" {
						q += scope + "."
					}
					raw := ""
					if c.Val().Kind() == constant.String {
						raw = constant.StringVal(c.Val())
					}
					recs = append(recs, rec{uniq(q + id.Name), k, v, raw})
				}
			}
		}
		varDecl := func(d *ast.GenDecl) {
			for _, s := range d.Specs {
				vs := s.(*ast.ValueSpec)
				if len(vs.Names) != len(vs.Values) {
					continue
				}
				for i, id := range vs.Names {
					q := p.Name + "." + id.Name
					switch e := vs.Values[i].(type) {
					case *ast.CallExpr:
						if tv, ok := info.Types[e.Fun]; ok && tv.IsType() {
							continue // a conversion
						}
						fnName := ""
						switch fx := e.Fun.(type) {
						case *ast.Ident:
							fnName = fx.Name
						case *ast.SelectorExpr:
							if x, ok := fx.X.(*ast.Ident); ok {
								fnName = x.Name + "." + fx.Sel.Name
							}
						}
						if fnName == "" || len(e.Args) == 0 {
							continue
						}
						var args, raws []string
						all := true
						for _, a := range e.Args {
							tv := info.Types[a]
							if tv.Value == nil || tv.Value.Kind() != constant.String {
								all = false
								break
							}
							args = append(args, leanStr(constant.StringVal(tv.Value)))
							raws = append(raws, constant.StringVal(tv.Value))
						}
						if all {
							calls = append(calls, callRec{q, fnName, args, raws})
						}
					case *ast.CompositeLit:
						if _, ok := info.Types[e].Type.Underlying().(*types.Map); !ok {
							continue
						}
						var pairs [][2]string
						all := len(e.Elts) > 0
						for _, el := range e.Elts {
							kv, ok := el.(*ast.KeyValueExpr)
							if !ok {
								all = false
								break
							}
							k, ok1 := constOf(kv.Key)
							v, ok2 := constOf(kv.Value)
							if !ok1 || !ok2 {
								all = false
								break
							}
							pairs = append(pairs, [2]string{k, v})
						}
						if all {
							maps = append(maps, mapRec{q, pairs})
						}
					}
				}
			}
		}
		for _, f := range p.Syntax {
			for _, decl := range f.Decls {
				switch d := decl.(type) {
				case *ast.GenDecl:
					if d.Tok == token.CONST {
						constDecl(d, "")
					} else if d.Tok == token.VAR {
						varDecl(d)
					}
				case *ast.FuncDecl:
					if d.Body == nil {
						continue
					}
					scope := recvName(d)
					ast.Inspect(d.Body, func(x ast.Node) bool {
						if g, ok := x.(*ast.GenDecl); ok && g.Tok == token.CONST {
							constDecl(g, scope)
							return false
						}
						return true
					})
				}
			}
		}
	}
	sort.Slice(recs, func(i, j int) bool { return recs[i].name < recs[j].name })
	sort.Slice(calls, func(i, j int) bool { return calls[i].name < calls[j].name })
	sort.Slice(maps, func(i, j int) bool { return maps[i].name < maps[j].name })

	var b strings.Builder
	b.WriteString("/- GENERATED by harness/cmd/extract-consts from the goyang source. Do not edit.\n")
	b.WriteString("   Constants (package level and inside functions), package-level variables initialised by one\n")
	b.WriteString("   call on string constants, and package-level constant map literals of pkg/yang, pkg/indent, pkg/yangentry.\n")
	b.WriteString("   One definition per item, named «<package>.<name>», so that the obligations of Goyang/Props/Consts*.lean\n")
	b.WriteString("   mention exactly the constants they depend on (no string look-ups in the kernel). -/\n")
	b.WriteString("namespace Goyang.Gen.Consts\n\n")
	b.WriteString("inductive Val where\n  | int (v : Int)\n  | str (s : String)\n  | bool (b : Bool)\n  deriving DecidableEq, Repr\n\n")
	b.WriteString("/-! ## constants -/\n\n")
	for _, r := range recs {
		switch r.kind {
		case "int":
			fmt.Fprintf(&b, "def «%s» : Int := %s\n", r.name, r.val)
		case "bool":
			fmt.Fprintf(&b, "def «%s» : Bool := %s\n", r.name, r.val)
		default:
			fmt.Fprintf(&b, "def «%s» : String := %s\n", r.name, r.val)
		}
	}
	// aliases by short name: a constant keeps its alias when it moves between a function body and
	// package level (or between functions); an alias exists when all declarations of that short name in
	// the package agree on kind and value
	{
		type key struct{ pkg, short string }
		groups := map[key][]rec{}
		var order []key
		for _, r := range recs {
			i := strings.Index(r.name, ".")
			j := strings.LastIndex(r.name, ".")
			k := key{r.name[:i], strings.SplitN(r.name[j+1:], "#", 2)[0]}
			if _, ok := groups[k]; !ok {
				order = append(order, k)
			}
			groups[k] = append(groups[k], r)
		}
		b.WriteString("\n/-! ## the same constants by short name (`«pkg:name»`): independent of the scope a constant is declared in;\n")
		b.WriteString("     present when every declaration of that name in the package has the same kind and value -/\n\n")
		for _, k := range order {
			g := groups[k]
			same := true
			for _, r := range g[1:] {
				if r.kind != g[0].kind || r.val != g[0].val {
					same = false
				}
			}
			if !same {
				continue
			}
			r := g[0]
			switch r.kind {
			case "int":
				fmt.Fprintf(&b, "def «%s:%s» : Int := %s\n", k.pkg, k.short, r.val)
			case "bool":
				fmt.Fprintf(&b, "def «%s:%s» : Bool := %s\n", k.pkg, k.short, r.val)
			default:
				fmt.Fprintf(&b, "def «%s:%s» : String := %s\n", k.pkg, k.short, r.val)
				fmt.Fprintf(&b, "def «%s:%s.bytes» : List UInt8 := %s\n", k.pkg, k.short, bytesLit(r.raw))
			}
		}
	}
	b.WriteString("\n/-! string constants once more, as UTF-8 bytes (what the byte-level models compare with) -/\n\n")
	for _, r := range recs {
		if r.kind == "str" {
			fmt.Fprintf(&b, "def «%s.bytes» : List UInt8 := %s\n", r.name, bytesLit(r.raw))
		}
	}
	b.WriteString("\n/-! ## package-level `var X = f(\"…\", …)` : callee, arguments as text and as UTF-8 bytes -/\n\n")
	for _, c := range calls {
		var bs []string
		for _, a := range c.raw {
			bs = append(bs, bytesLit(a))
		}
		fmt.Fprintf(&b, "def «%s.init» : String × List String := (%s, [%s])\n", c.name, leanStr(c.callee), strings.Join(c.args, ", "))
		fmt.Fprintf(&b, "def «%s.initBytes» : List (List UInt8) := [%s]\n", c.name, strings.Join(bs, ", "))
	}
	b.WriteString("\n/-! ## package-level constant map literals, pairs in source order -/\n\n")
	for _, m := range maps {
		var ps []string
		for _, p := range m.pairs {
			ps = append(ps, fmt.Sprintf("(%s, %s)", p[0], p[1]))
		}
		fmt.Fprintf(&b, "def «%s.map» : List (Val × Val) := [\n  %s]\n", m.name, strings.Join(ps, ",\n  "))
	}
	b.WriteString("\n/-- how many constants, initialiser calls and map literals were listed -/\n")
	fmt.Fprintf(&b, "def counts : Nat × Nat × Nat := (%d, %d, %d)\n", len(recs), len(calls), len(maps))
	b.WriteString("\nend Goyang.Gen.Consts\n")
	if err := os.WriteFile(*out, []byte(b.String()), 0o644); err != nil {
		fatal("%v", err)
	}
}
