package main

// Derived sorters (rule S1 in the head comment of main.go).
//
// A function g of the analysed packages SORTS its slice parameter p — a call g(…, s, …) is a sort of
// s, exactly as a call of sort.SliceStable(s, …) is — when the statements of its body are, in this
// order and with nothing else between them (decorate – sort – undecorate):
//
//	(a) any number of `if <call-free condition> { return }` and local type declarations;
//	(b) `ks := make([]T, len(p))` for a local struct type or named struct type T;
//	(c) ONE loop `for i, m := range p { … }` whose body stores only into `ks[i]` (`ks[i] = T{…, F: m, …}`,
//	    `ks[i].G = e`, possibly under `if`), the composite literal giving one field F the element m
//	    itself (the carrier), and F is not stored again;
//	(d) ONE call of a library sorter (sort.Slice, sort.SliceStable, slices.SortFunc, … : sortFuncs) on ks;
//	(e) ONE loop `for i := range ks { p[i] = ks[i].F }` (or `for i, k := range ks { p[i] = k.F }`).
//
// After (c) ks[i].F = p[i] for every i, (d) permutes ks, (e) writes the carriers back: p holds the
// elements it held, in the order of the sort.  Nothing else in g mentions p on the left of a store.
// The comparator of (d) is recorded under the element type T like every other comparator (facts).

import (
	"go/ast"
	"go/token"
	"go/types"
)

// sortsParam: the index of the parameter that g sorts in the sense of (S1), or -1.
func (a *analyzer) sortsParam(g *fn) int {
	if v, ok := a.derived[g]; ok {
		return v
	}
	a.derived[g] = -1
	info := g.pkg.TypesInfo
	ix := a.indexFn(g)
	obj := func(e ast.Expr) types.Object {
		id, ok := ast.Unparen(e).(*ast.Ident)
		if !ok {
			return nil
		}
		return a.objOf(g, id)
	}
	for p, pi := range ix.params {
		if p == nil {
			continue
		}
		if _, isSlice := p.Type().Underlying().(*types.Slice); !isSlice {
			continue
		}
		stage := 0 // 0: before make, 1: made, 2: filled, 3: sorted, 4: written back
		var ks types.Object
		carrier := ""
		ok := true
		for _, st := range g.decl.Body.List {
			if !ok {
				break
			}
			switch s := st.(type) {
			case *ast.IfStmt:
				// (a) an early return on a condition without calls other than len
				pure := true
				ast.Inspect(s.Cond, func(n ast.Node) bool {
					if c, isCall := n.(*ast.CallExpr); isCall {
						if name, _, kind := a.calleeName(g.pkg, c); !(kind == "builtin" && (name == "len" || name == "cap")) {
							pure = false
						}
					}
					return true
				})
				if stage > 1 || s.Init != nil || s.Else != nil || !pure || len(s.Body.List) != 1 {
					ok = false
					break
				}
				if r, isRet := s.Body.List[0].(*ast.ReturnStmt); !isRet || len(r.Results) != 0 {
					ok = false
				}
			case *ast.DeclStmt:
				if gd, isGen := s.Decl.(*ast.GenDecl); !isGen || gd.Tok != token.TYPE {
					ok = false
				}
			case *ast.AssignStmt:
				// (b)
				if stage != 0 || s.Tok != token.DEFINE || len(s.Lhs) != 1 || len(s.Rhs) != 1 {
					ok = false
					break
				}
				call, isCall := ast.Unparen(s.Rhs[0]).(*ast.CallExpr)
				if !isCall || len(call.Args) != 2 {
					ok = false
					break
				}
				name, _, kind := a.calleeName(g.pkg, call)
				ln, isLen := ast.Unparen(call.Args[1]).(*ast.CallExpr)
				if kind != "builtin" || name != "make" || !isLen || len(ln.Args) != 1 || obj(ln.Args[0]) != p {
					ok = false
					break
				}
				if n, _, k := a.calleeName(g.pkg, ln); k != "builtin" || n != "len" {
					ok = false
					break
				}
				ks = obj(s.Lhs[0])
				if ks == nil {
					ok = false
					break
				}
				sl, isSl := ks.Type().Underlying().(*types.Slice)
				if !isSl {
					ok = false
					break
				}
				if _, isStruct := sl.Elem().Underlying().(*types.Struct); !isStruct {
					ok = false
				}
				stage = 1
			case *ast.RangeStmt:
				switch {
				case stage == 1 && obj(s.X) == p && s.Tok == token.DEFINE:
					// (c)
					i, m := obj(s.Key), obj(s.Value)
					if i == nil || m == nil {
						ok = false
						break
					}
					carrier = a.fillLoop(g, s.Body, ks, i, m)
					if carrier == "" {
						ok = false
					}
					stage = 2
				case stage == 3 && obj(s.X) == ks && s.Tok == token.DEFINE && len(s.Body.List) == 1:
					// (e)
					as, isAs := s.Body.List[0].(*ast.AssignStmt)
					if !isAs || as.Tok != token.ASSIGN || len(as.Lhs) != 1 || len(as.Rhs) != 1 {
						ok = false
						break
					}
					l, isIx := ast.Unparen(as.Lhs[0]).(*ast.IndexExpr)
					i := obj(s.Key)
					if !isIx || i == nil || obj(l.X) != p || obj(l.Index) != i {
						ok = false
						break
					}
					r, isSel := ast.Unparen(as.Rhs[0]).(*ast.SelectorExpr)
					if !isSel || r.Sel.Name != carrier {
						ok = false
						break
					}
					if rx, isIx := ast.Unparen(r.X).(*ast.IndexExpr); isIx {
						if obj(rx.X) != ks || obj(rx.Index) != i {
							ok = false
						}
					} else if k := obj(s.Value); k == nil || obj(r.X) != k {
						ok = false
					}
					stage = 4
				default:
					ok = false
				}
			case *ast.ExprStmt:
				// (d)
				call, isCall := ast.Unparen(s.X).(*ast.CallExpr)
				if !isCall || stage != 2 || len(call.Args) == 0 || obj(call.Args[0]) != ks {
					ok = false
					break
				}
				if name, _, kind := a.calleeName(g.pkg, call); kind != "external" || !sortFuncs[name] {
					ok = false
					break
				}
				// the comparator may read ks only
				for _, arg := range call.Args[1:] {
					ast.Inspect(arg, func(n ast.Node) bool {
						if id, isId := n.(*ast.Ident); isId && info.Uses[id] == p {
							ok = false
						}
						return true
					})
				}
				a.recordSort(g, call)
				stage = 3
			default:
				ok = false
			}
		}
		if ok && stage == 4 {
			a.derived[g] = pi
			return pi
		}
	}
	return -1
}

// fillLoop: (c) the body stores only into ks[i]; returns the carrier field ("" when the shape is not met).
func (a *analyzer) fillLoop(g *fn, body *ast.BlockStmt, ks, i, m types.Object) string {
	carrier := ""
	ok := true
	obj := func(e ast.Expr) types.Object {
		id, isId := ast.Unparen(e).(*ast.Ident)
		if !isId {
			return nil
		}
		return a.objOf(g, id)
	}
	elem := func(e ast.Expr) bool { // ks[i]
		x, isIx := ast.Unparen(e).(*ast.IndexExpr)
		return isIx && obj(x.X) == ks && obj(x.Index) == i
	}
	var walk func(list []ast.Stmt)
	walk = func(list []ast.Stmt) {
		for _, st := range list {
			switch s := st.(type) {
			case *ast.IfStmt:
				if s.Init != nil {
					ok = false
				}
				walk(s.Body.List)
				if s.Else != nil {
					if b, isBlock := s.Else.(*ast.BlockStmt); isBlock {
						walk(b.List)
					} else {
						ok = false
					}
				}
			case *ast.AssignStmt:
				if s.Tok != token.ASSIGN || len(s.Lhs) != 1 || len(s.Rhs) != 1 {
					ok = false
					continue
				}
				l := ast.Unparen(s.Lhs[0])
				if elem(l) {
					cl, isCl := ast.Unparen(s.Rhs[0]).(*ast.CompositeLit)
					if !isCl || carrier != "" {
						ok = false
						continue
					}
					for _, el := range cl.Elts {
						if kv, isKv := el.(*ast.KeyValueExpr); isKv {
							if k, isId := kv.Key.(*ast.Ident); isId && obj(kv.Value) == m {
								carrier = k.Name
							}
						} else {
							ok = false
						}
					}
					if carrier == "" {
						ok = false
					}
					continue
				}
				if sel, isSel := l.(*ast.SelectorExpr); isSel && elem(sel.X) && sel.Sel.Name != carrier && carrier != "" {
					continue
				}
				ok = false
			default:
				ok = false
			}
		}
	}
	walk(body.List)
	if !ok {
		return ""
	}
	return carrier
}
