package main

import (
	"fmt"
	"go/ast"
	"go/token"
	"go/types"
	"regexp"
	"sort"
	"strings"
)

// ---------- helpers (functions that walk a map for their caller) ----------

func (a *analyzer) noteHelper(f *fn, p *types.Var) {
	if f.helperParam == nil {
		f.helperParam = p
	}
}

// findHelperParams: a function that calls one of its function-typed parameters.
func (a *analyzer) findHelperParams() {
	for _, f := range a.fns {
		ix := a.indexFn(f)
		ast.Inspect(f.decl.Body, func(n ast.Node) bool {
			if c, ok := n.(*ast.CallExpr); ok {
				if id, ok := ast.Unparen(c.Fun).(*ast.Ident); ok {
					if o, ok := f.pkg.TypesInfo.Uses[id].(*types.Var); ok {
						if _, isParam := ix.params[o]; isParam {
							if _, isFunc := o.Type().Underlying().(*types.Signature); isFunc && f.helperParam == nil {
								f.helperParam = o
							}
						}
					}
				}
			}
			return true
		})
	}
}

// warmedBefore: earlier in f (before pos) a walk over a local slice that had been handed to a
// sorter calls g in its body: every element was treated by g in a fixed order already, and a g
// that is listed under `idempotent_after_sorted_walk` (a cache fill) only reads from then on.
func (a *analyzer) warmedBefore(f *fn, g *fn, pos token.Pos) bool {
	info := f.pkg.TypesInfo
	sortedAt := map[types.Object]token.Pos{}
	found := false
	ast.Inspect(f.decl.Body, func(n ast.Node) bool {
		switch x := n.(type) {
		case *ast.CallExpr:
			if a.isSorter(f, x) && len(x.Args) > 0 {
				if id, _ := rootIdent(unconv(x.Args[0])); id != nil {
					sortedAt[info.Uses[id]] = x.Pos()
				}
			} else if _, o, kind := a.calleeName(f.pkg, x); kind == "internal" && !x.Ellipsis.IsValid() {
				// (S1) a derived sorter
				if pi := a.sortsParam(a.byObj[o]); pi >= 0 && pi < len(x.Args) {
					if id, ok := ast.Unparen(x.Args[pi]).(*ast.Ident); ok {
						sortedAt[info.Uses[id]] = x.Pos()
					}
				}
			}
			// a helper that returns sorted keys: its result counts as sorted
		case *ast.RangeStmt:
			if x.Pos() >= pos {
				return true
			}
			ok := false
			if id, isId := ast.Unparen(x.X).(*ast.Ident); isId {
				if p, was := sortedAt[info.Uses[id]]; was && p < x.Pos() {
					ok = true
				}
			}
			if c, isCall := ast.Unparen(x.X).(*ast.CallExpr); isCall {
				if _, o, kind := a.calleeName(f.pkg, c); kind == "internal" && a.returnsSorted(a.byObj[o]) {
					ok = true
				}
			}
			if ok {
				ast.Inspect(x.Body, func(m ast.Node) bool {
					if c, isCall := m.(*ast.CallExpr); isCall {
						if _, o, kind := a.calleeName(f.pkg, c); kind == "internal" && a.byObj[o] == g {
							found = true
						}
					}
					return true
				})
			}
		}
		return true
	})
	return found
}

// returnsSorted: every return of h hands out a local slice that was passed to a sorter in h.
func (a *analyzer) returnsSorted(h *fn) bool {
	info := h.pkg.TypesInfo
	sorted := map[types.Object]bool{}
	ast.Inspect(h.decl.Body, func(n ast.Node) bool {
		if c, ok := n.(*ast.CallExpr); ok && a.isSorter(h, c) && len(c.Args) > 0 {
			if id, _ := rootIdent(unconv(c.Args[0])); id != nil {
				sorted[info.Uses[id]] = true
			}
		}
		return true
	})
	ok, any := true, false
	ast.Inspect(h.decl.Body, func(n ast.Node) bool {
		if _, isLit := n.(*ast.FuncLit); isLit {
			return false
		}
		if r, isRet := n.(*ast.ReturnStmt); isRet {
			any = true
			if len(r.Results) != 1 {
				ok = false
				return true
			}
			id, isId := ast.Unparen(r.Results[0]).(*ast.Ident)
			if !isId || (id.Name != "nil" && !sorted[info.Uses[id]]) {
				ok = false
			}
		}
		return true
	})
	return ok && any
}

// ---------- sort facts ----------

var cmpOps = map[token.Token]bool{token.LSS: true, token.GTR: true, token.LEQ: true, token.GEQ: true, token.NEQ: true, token.EQL: true}

func (a *analyzer) comparatorKeys(body ast.Node, params []string) int {
	keys := map[string]bool{}
	norm := func(e ast.Expr) string {
		s := a.src(e)
		for _, p := range params {
			s = regexp.MustCompile(`\b`+regexp.QuoteMeta(p)+`\b`).ReplaceAllString(s, "_")
		}
		return s
	}
	ast.Inspect(body, func(n ast.Node) bool {
		if b, ok := n.(*ast.BinaryExpr); ok && cmpOps[b.Op] {
			x, y := norm(b.X), norm(b.Y)
			if x == y && strings.Contains(x, "_") {
				keys[x] = true
			}
		}
		return true
	})
	return len(keys)
}

func paramNames(ft *ast.FuncType) []string {
	var out []string
	for _, fl := range ft.Params.List {
		for _, n := range fl.Names {
			out = append(out, n.Name)
		}
	}
	return out
}

func (a *analyzer) recordSort(f *fn, call *ast.CallExpr) {
	if a.sortSeen[call] {
		return
	}
	a.sortSeen[call] = true
	name, _, _ := a.calleeName(f.pkg, call)
	if len(call.Args) == 0 {
		return
	}
	arg := call.Args[0]
	t := f.pkg.TypesInfo.TypeOf(arg)
	keys := 99
	elem := "?"
	if sl, ok := t.Underlying().(*types.Slice); ok {
		elem = typeStr(sl.Elem())
	}
	switch name {
	case "sort.Slice", "sort.SliceStable", "slices.SortFunc", "slices.SortStableFunc":
		if len(call.Args) > 1 {
			if fl, ok := ast.Unparen(call.Args[1]).(*ast.FuncLit); ok {
				keys = a.comparatorKeys(fl.Body, paramNames(fl.Type))
			} else {
				keys = 0 // a comparator that is not written here: not inspected
			}
		}
	case "sort.Sort", "sort.Stable":
		keys = 0
		if n, ok := t.(*types.Named); ok {
			for _, g := range a.fns {
				if g.pkg == f.pkg && (g.name == n.Obj().Name()+".Less" || g.name == "(*"+n.Obj().Name()+").Less") {
					keys = a.comparatorKeys(g.decl.Body, paramNames(g.decl.Type))
				}
			}
		}
	}
	key := f.pkg.Name + " " + elem
	if old, ok := a.sortKeys[key]; !ok || keys < old {
		a.sortKeys[key] = keys
	}
	a.sortWhere[key] = append(a.sortWhere[key], fmt.Sprintf("%s in %s (%s): %d key(s)", name, f.qname(), a.where(call.Pos()), keys))
}

// ---------- sites ----------

func (a *analyzer) addSite(s *site) *site {
	for _, t := range a.sites {
		if t.f == s.f && t.pos == s.pos && t.kind == s.kind && strings.Join(t.exprs, "|") == strings.Join(s.exprs, "|") {
			return t
		}
	}
	a.sites = append(a.sites, s)
	return s
}

func (a *analyzer) objOf(f *fn, e ast.Expr) types.Object {
	id, ok := e.(*ast.Ident)
	if !ok || id.Name == "_" {
		return nil
	}
	if o := f.pkg.TypesInfo.Defs[id]; o != nil {
		return o
	}
	return f.pkg.TypesInfo.Uses[id]
}

func used(e ast.Expr) bool {
	if e == nil {
		return false
	}
	id, ok := e.(*ast.Ident)
	return !ok || id.Name != "_"
}

type taint struct {
	f      *fn
	obj    types.Object
	from   token.Pos
	why    string
	origin *site
	skipLo token.Pos
	skipHi token.Pos
	// copyOf: (I1) obj is the slice that a walk over a map fills with one value per element and does
	// nothing else (the only effect of the body is that append): the elements of the map in walk order
	copyOf bool
}

func (a *analyzer) findSites() {
	for _, f := range a.fns {
		info := f.pkg.TypesInfo
		ast.Inspect(f.decl.Body, func(n ast.Node) bool {
			switch x := n.(type) {
			case *ast.RangeStmt:
				isMap := isMapType(info.TypeOf(x.X))
				if c, ok := ast.Unparen(x.X).(*ast.CallExpr); ok {
					if name, _, _ := a.calleeName(f.pkg, c); name == "maps.Keys" || name == "maps.Values" || name == "maps.All" {
						isMap = true
					}
				}
				if !isMap {
					return true
				}
				s := a.addSite(&site{f: f, pos: x.Pos(), text: a.src(x.X), exprs: a.normExpr(f, x.X, 0), keyUsed: used(x.Key), valUsed: used(x.Value), kind: "map"})
				k, v := a.objOf(f, x.Key), a.objOf(f, x.Value)
				targets := a.classify(s, x.Body, []types.Object{k, v}, k, nil, false)
				for _, t := range targets {
					a.queue = append(a.queue, taint{f: f, obj: t.obj, from: x.End(), why: "filled in the order of " + s.text, origin: s, skipLo: x.Pos(), skipHi: x.End(),
						copyOf: len(targets) == 1 && len(s.effects) == 1 && strings.HasPrefix(s.effects[0], "append")})
				}
			case *ast.CallExpr:
				name, _, kind := a.calleeName(f.pkg, x)
				if kind != "external" {
					return true
				}
				switch name {
				case "(*sync.Map).Range", "reflect.Value.MapRange", "reflect.Value.MapKeys", "(*reflect.MapIter).Next":
					a.addSite(&site{f: f, pos: x.Pos(), text: a.src(x), exprs: []string{"call " + name}, kind: "call", class: "other", effects: []string{"other:" + name},
						note: "iteration in map order through " + name})
				default:
					pkgOf := name
					if i := strings.IndexByte(name, '.'); i > 0 {
						pkgOf = name[:i]
					}
					if pkgOf == "json" {
						pkgOf = "encoding/json"
					}
					if why, ok := fineMapCalls[pkgOf]; ok {
						for _, arg := range x.Args {
							if isMapType(info.TypeOf(arg)) {
								a.fine = append(a.fine, [4]string{f.pkg.Name, f.name, name + "(" + a.src(arg) + ")", why})
							}
						}
					}
				}
			}
			return true
		})
	}
}

// helperSites: the callers of a function that walks a map and calls its function parameter for
// every element carry the obligation: the closure they pass is the loop body.
func (a *analyzer) helperCallSites() {
	for _, h := range a.fns {
		if h.helperParam == nil {
			continue
		}
		var hs []*site
		for _, s := range a.sites {
			if s.f == h && s.class == "iterates-for-caller" {
				hs = append(hs, s)
			}
		}
		if len(hs) == 0 {
			continue
		}
		pi := a.indexFn(h).params[h.helperParam]
		for _, g := range a.fns {
			ast.Inspect(g.decl.Body, func(n ast.Node) bool {
				c, ok := n.(*ast.CallExpr)
				if !ok {
					return true
				}
				_, o, kind := a.calleeName(g.pkg, c)
				if kind != "internal" || a.byObj[o] != h || pi >= len(c.Args) {
					return true
				}
				arg := ast.Unparen(c.Args[pi])
				if id, ok := arg.(*ast.Ident); ok && g == h && a.objOf(g, id) == h.helperParam {
					return true // the helper hands its parameter on to itself
				}
				for _, base := range hs {
					s := &site{f: g, pos: c.Pos(), text: a.src(c.Fun) + "(…) walking " + base.text, exprs: base.exprs, keyUsed: base.keyUsed, valUsed: base.valUsed, kind: "via-helper"}
					if fl, ok := arg.(*ast.FuncLit); ok {
						s = a.addSite(s)
						var lv []types.Object
						for _, fld := range fl.Type.Params.List {
							for _, nm := range fld.Names {
								lv = append(lv, g.pkg.TypesInfo.Defs[nm])
							}
						}
						targets := a.classify(s, fl.Body, lv, nil, nil, true)
						for _, t := range targets {
							a.queue = append(a.queue, taint{f: g, obj: t.obj, from: c.End(), why: "filled in the order of " + base.text + " (through " + h.qname() + ")", origin: s,
								skipLo: c.Pos(), skipHi: c.End()})
						}
					} else {
						s.class, s.effects = "other", []string{"callfuncvalue"}
						s.calls = []string{a.src(arg)}
						s.note = "a function that is not written at the call is called for every element"
						a.addSite(s)
					}
				}
				return true
			})
		}
	}
}

func (a *analyzer) escape(t taint, at ast.Node, what string) {
	if t.origin.class != "other" {
		t.origin.class = "other"
	}
	msg := fmt.Sprintf("a slice %s is %s unsorted at %s: `%s`", t.why, what, a.where(at.Pos()), a.src(at))
	if !strings.Contains(t.origin.note, msg) {
		if t.origin.note != "" {
			t.origin.note += "; "
		}
		t.origin.note += msg
	}
	has := false
	for _, e := range t.origin.effects {
		if e == "escapes-unsorted" {
			has = true
		}
	}
	if !has {
		t.origin.effects = append(t.origin.effects, "escapes-unsorted")
		sort.Strings(t.origin.effects)
	}
}

func (a *analyzer) isSorter(f *fn, call *ast.CallExpr) bool {
	name, _, _ := a.calleeName(f.pkg, call)
	return sortFuncs[name] || a.sorters[name]
}

// sortsArg: the call sorts the argument `node`: a library sorter or a listed one (first argument
// by convention), or (S1) a derived sorter of the analysed packages called with node at the sorted parameter.
func (a *analyzer) sortsArg(f *fn, call *ast.CallExpr, node ast.Node) bool {
	if a.isSorter(f, call) {
		return true
	}
	if _, o, kind := a.calleeName(f.pkg, call); kind == "internal" && !call.Ellipsis.IsValid() {
		if pi := a.sortsParam(a.byObj[o]); pi >= 0 && pi < len(call.Args) && call.Args[pi] == node {
			return true
		}
	}
	return false
}

// follow one tainted variable through its function.
func (a *analyzer) follow(t taint) {
	key := fmt.Sprintf("%p/%p/%d/%p", t.f, t.obj, t.from, t.origin)
	if a.done[key] {
		return
	}
	a.done[key] = true
	f := t.f
	info := f.pkg.TypesInfo
	ix := a.indexFn(f)
	var uses []*ast.Ident
	ast.Inspect(f.decl.Body, func(n ast.Node) bool {
		if id, ok := n.(*ast.Ident); ok && info.Uses[id] == t.obj && id.Pos() >= t.from && !(id.Pos() >= t.skipLo && id.Pos() < t.skipHi) {
			uses = append(uses, id)
		}
		return true
	})
	sort.Slice(uses, func(i, j int) bool { return uses[i].Pos() < uses[j].Pos() })
	for _, id := range uses {
		var node ast.Node = id
		p := ix.parent[node]
		for {
			if pe, ok := p.(*ast.ParenExpr); ok {
				node, p = pe, ix.parent[pe]
				continue
			}
			break
		}
		// a conversion stands for the slice itself
		if c, ok := p.(*ast.CallExpr); ok {
			if _, _, kind := a.calleeName(f.pkg, c); kind == "conversion" {
				node, p = c, ix.parent[c]
			}
		}
		switch x := p.(type) {
		case *ast.CallExpr:
			name, _, kind := a.calleeName(f.pkg, x)
			if x.Fun == node {
				continue
			}
			if kind == "builtin" && (name == "len" || name == "cap") {
				continue
			}
			if a.sortsArg(f, x, node) {
				return // sorted from here on
			}
			if kind == "builtin" && name == "append" {
				as, _ := ix.parent[x].(*ast.AssignStmt)
				var lhs types.Object
				if as != nil && len(as.Lhs) == 1 {
					lhs = a.objOf(f, as.Lhs[0])
				}
				if vs, ok := ix.parent[x].(*ast.ValueSpec); ok && len(vs.Names) == 1 {
					lhs = a.objOf(f, vs.Names[0])
				}
				if lhs == nil {
					a.escape(t, x, "appended to something that is not a local variable")
					continue
				}
				if lhs == t.obj {
					continue
				}
				if x.Args[0] == node || x.Ellipsis.IsValid() {
					a.queue = append(a.queue, taint{f: f, obj: lhs, from: x.End(), why: t.why, origin: t.origin})
					continue
				}
				a.escape(t, x, "stored as an element")
				continue
			}
			// x = g(…, x, …) with a pure internal g was classified as append-like
			if as, ok := ix.parent[x].(*ast.AssignStmt); ok && len(as.Lhs) == 1 && a.objOf(f, as.Lhs[0]) == t.obj {
				continue
			}
			a.escape(t, x, "passed to "+name)
		case *ast.ReturnStmt:
			for i, r := range x.Results {
				if r == node {
					a.taintResult(f, i, t)
				}
			}
		case *ast.RangeStmt:
			if x.X != node {
				continue
			}
			exprs := prefixAll("order-of ", t.origin.exprs)
			if t.copyOf && t.origin.f == f && t.origin.kind == "map" {
				// (I1) the second half of a map walk split in two: keyed (and counted) as the walk over the map itself
				exprs = t.origin.exprs
			}
			s := a.addSite(&site{f: f, pos: x.Pos(), text: a.src(x.X), exprs: exprs, keyUsed: used(x.Key), valUsed: used(x.Value),
				kind: "inherited", viaOrder: t.why})
			if s.class == "" {
				k, v := a.objOf(f, x.Key), a.objOf(f, x.Value)
				targets := a.classify(s, x.Body, []types.Object{k, v}, nil, k, false)
				for _, tg := range targets {
					a.queue = append(a.queue, taint{f: f, obj: tg.obj, from: x.End(), why: "filled in the order of " + s.text + ", which was " + t.why, origin: s,
						skipLo: x.Pos(), skipHi: x.End()})
				}
			}
		case *ast.BinaryExpr:
			other := x.X
			if other == node {
				other = x.Y
			}
			if oid, ok := ast.Unparen(other).(*ast.Ident); ok && oid.Name == "nil" {
				continue
			}
			a.escape(t, x, "compared")
		case *ast.AssignStmt:
			onLeft := false
			for _, l := range x.Lhs {
				if l == node {
					onLeft = true
				}
			}
			if onLeft {
				continue
			}
			done := false
			for i, r := range x.Rhs {
				if r == node && len(x.Lhs) == len(x.Rhs) {
					if lhs := a.objOf(f, x.Lhs[i]); lhs != nil {
						a.queue = append(a.queue, taint{f: f, obj: lhs, from: x.End(), why: t.why, origin: t.origin})
						done = true
					}
				}
			}
			if !done {
				a.escape(t, x, "stored")
			}
		case *ast.ValueSpec:
			for i, r := range x.Values {
				if r == node && i < len(x.Names) {
					a.queue = append(a.queue, taint{f: f, obj: a.objOf(f, x.Names[i]), from: x.End(), why: t.why, origin: t.origin})
				}
			}
		default:
			a.escape(t, p, "used")
		}
	}
}

func prefixAll(p string, l []string) []string {
	out := make([]string, len(l))
	for i, s := range l {
		if strings.HasPrefix(s, p) {
			out[i] = s
		} else {
			out[i] = p + s
		}
	}
	return out
}

// taintResult: result i of f is a slice in map order; every call must sort it before use.
func (a *analyzer) taintResult(f *fn, i int, t taint) {
	key := fmt.Sprintf("%p/%d/%p", f, i, t.origin)
	if a.done[key] {
		return
	}
	a.done[key] = true
	f.resultTaint[i] = t.why
	nres := f.decl.Type.Results.NumFields()
	why := fmt.Sprintf("returned by %s, where it was %s", f.qname(), t.why)
	if exportedFn(f) {
		a.escape(t, f.decl.Name, "returned by the exported function "+f.qname())
	}
	for g := range f.callers {
		ix := a.indexFn(g)
		ast.Inspect(g.decl.Body, func(n ast.Node) bool {
			c, ok := n.(*ast.CallExpr)
			if !ok {
				return true
			}
			_, o, kind := a.calleeName(g.pkg, c)
			if kind != "internal" || a.byObj[o] != f {
				return true
			}
			var node ast.Node = c
			p := ix.parent[node]
			for {
				if pe, ok := p.(*ast.ParenExpr); ok {
					node, p = pe, ix.parent[pe]
					continue
				}
				break
			}
			tt := taint{f: g, why: why, origin: t.origin, from: c.End()}
			switch x := p.(type) {
			case *ast.ExprStmt:
			case *ast.AssignStmt:
				var lhs ast.Expr
				if len(x.Rhs) == 1 && len(x.Lhs) == nres {
					lhs = x.Lhs[i]
				} else if nres == 1 {
					for k, r := range x.Rhs {
						if r == node && k < len(x.Lhs) {
							lhs = x.Lhs[k]
						}
					}
				}
				if id, ok := lhs.(*ast.Ident); ok && id.Name == "_" {
					return true
				}
				if ob := a.objOf(g, lhs); ob != nil {
					tt.obj = ob
					tt.from = x.End()
					a.queue = append(a.queue, tt)
				} else {
					a.escape(tt, x, "stored")
				}
			case *ast.ValueSpec:
				if i < len(x.Names) {
					tt.obj = a.objOf(g, x.Names[i])
					tt.from = x.End()
					if tt.obj != nil {
						a.queue = append(a.queue, tt)
					}
				}
			case *ast.ReturnStmt:
				if len(x.Results) == 1 && nres > 1 {
					a.taintResult(g, i, tt)
				} else {
					for k, r := range x.Results {
						if r == node {
							a.taintResult(g, k, tt)
						}
					}
				}
			case *ast.RangeStmt:
				if x.X == node {
					s := a.addSite(&site{f: g, pos: x.Pos(), text: a.src(x.X), exprs: prefixAll("order-of ", t.origin.exprs), keyUsed: used(x.Key), valUsed: used(x.Value),
						kind: "inherited", viaOrder: why})
					if s.class == "" {
						k, v := a.objOf(g, x.Key), a.objOf(g, x.Value)
						targets := a.classify(s, x.Body, []types.Object{k, v}, nil, k, false)
						for _, tg := range targets {
							a.queue = append(a.queue, taint{f: g, obj: tg.obj, from: x.End(), why: "filled in the order of " + s.text + ", which was " + why, origin: s,
								skipLo: x.Pos(), skipHi: x.End()})
						}
					}
				}
			case *ast.CallExpr:
				name, _, kind := a.calleeName(g.pkg, x)
				switch {
				case kind == "builtin" && (name == "len" || name == "cap"):
				case a.isSorter(g, x):
				case kind == "builtin" && name == "append" && x.Ellipsis.IsValid():
					as, _ := ix.parent[x].(*ast.AssignStmt)
					if as != nil && len(as.Lhs) == 1 && a.objOf(g, as.Lhs[0]) != nil {
						tt.obj = a.objOf(g, as.Lhs[0])
						tt.from = x.End()
						a.queue = append(a.queue, tt)
					} else {
						a.escape(tt, x, "appended to something that is not a local variable")
					}
				default:
					a.escape(tt, x, "passed to "+name)
				}
			default:
				a.escape(tt, p, "used")
			}
			return true
		})
	}
}

func (a *analyzer) run() {
	a.findHelperParams()
	// every sort call in the packages is a fact
	for _, f := range a.fns {
		ast.Inspect(f.decl.Body, func(n ast.Node) bool {
			if c, ok := n.(*ast.CallExpr); ok {
				if name, _, _ := a.calleeName(f.pkg, c); sortFuncs[name] {
					a.recordSort(f, c)
				}
			}
			return true
		})
	}
	a.findSites()
	a.helperCallSites()
	for len(a.queue) > 0 {
		t := a.queue[0]
		a.queue = a.queue[1:]
		a.follow(t)
	}
	sort.SliceStable(a.sites, func(i, j int) bool {
		x, y := a.sites[i], a.sites[j]
		if x.f.qname() != y.f.qname() {
			return x.f.qname() < y.f.qname()
		}
		return x.pos < y.pos
	})
}
