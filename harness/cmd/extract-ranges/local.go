package main

// Call-local objects (rule stated in the head comment of main.go, "call-local objects").
//
// A struct-typed local variable (a struct value, a pointer to a struct; bytes.Buffer and
// strings.Builder are the usual ones) is CALL-LOCAL in its function when
//
//	(L1) it is declared in the function body by `var`, `:=` (it is not a parameter, a named
//	     result, a receiver, a range variable, a field, a package-level variable);
//	(L2) every value it is given is created on the spot and owns what it refers to: a composite
//	     literal (or its address) whose members of a type with references (pointer, map, slice,
//	     chan, func, interface) are themselves make(…), new(…), nil or such a literal; new(T); the
//	     zero value of `var x T`; the result of a function of the analysed packages that has one
//	     result and returns nothing but such literals (a constructor);
//	(L3) it does not escape: every use of the variable in the function is one of
//	     a. the root of a field path `v.f.g` that is read by value (never `&v.f`);
//	     b. a store `v.f… = e`, `v.f…[k] = e`, `v.f…++` through an OWNED path: field selections
//	        through struct values only (no pointer field, no embedded pointer is followed; v itself
//	        may be a pointer), at most one index at the end; when the stored field has a type with
//	        references, e is make/new/nil/an owning literal, `append(v.f…, …)`, `v.f…[i:j]` or
//	        `v.f…` itself (so a slice or map field never comes to share memory with something else);
//	     c. the receiver of a method call `v.m(…)` (`v.f.m(…)` for a struct-valued field) where m is
//	        a RECEIVER-CONFINED method of the analysed packages, or one of the listed methods of
//	        bytes.Buffer / strings.Builder that touch their receiver alone (bufMethods);
//	     d. `&v` (or v itself) as an argument of a function of the analysed packages (whose body is
//	        analysed: what it does with the pointer is an effect of its own), or as the writer
//	        argument of fmt.Fprint, fmt.Fprintf, fmt.Fprintln, io.WriteString (which do not keep it);
//	     e. the left side of an assignment that satisfies (L2).
//	     Anything else (stored into a field, a global, a slice, a map, a channel, a composite
//	     literal, returned, captured by `&v.f`, copied to another variable, passed to a function
//	     value or to any other library function) makes the variable an ordinary one.
//
// A method m with a named receiver r is RECEIVER-CONFINED when every use of r in m satisfies
// (L3 a, b, c) (r is not assigned, not passed on, its address and the addresses of its fields
// are not taken).  The effects of such a method are computed in two parts: those of stores
// through owned paths of r (and of confined methods / listed buffer methods called on r) are
// tagged `recv:`; everything else the method does is an effect as before.
//
// Use in the classification of a loop body (classifier):
//
//	(U1) an effect through an owned path of a call-local object that is DECLARED INSIDE THE BODY
//	     (one object per element) is not an effect of the loop; a call `v.m(…)` of a
//	     receiver-confined method on such an object contributes only the untagged effects of m.
//	     A call of the same method on anything else (a field of the function's receiver, an
//	     object that lives across the iterations, an escaped object) contributes all of them,
//	     the tag removed.
//	(U2) a call-local bytes.Buffer / strings.Builder declared in the function OUTSIDE the body
//	     counts as declared inside when the body starts with `v.Reset()` before any other use of
//	     v (statement list of the body, not nested), v is used nowhere else in the function and
//	     neither Bytes nor Next (which hand out the buffer's own memory) is called on it:
//	     what an earlier element wrote is gone before the next one writes, and nothing reads it
//	     after the walk.  No other object that lives across the iterations is treated as local:
//	     a collector declared before the loop and filled by it keeps `fieldappend:T.f`.
//	(U3) what is READ out of a call-local object and stored, appended, printed or returned is
//	     judged where that happens, by the rules that were there before (append to a slice that
//	     is sorted later, fieldwrite, call:fmt.Fprint …).

import (
	"go/ast"
	"go/token"
	"go/types"
)

// methods of bytes.Buffer and strings.Builder that read or write the receiver alone.
// Not listed (they touch their argument too): WriteTo, ReadFrom.
var bufMethods = map[string]bool{
	"Reset": true, "String": true, "Len": true, "Cap": true, "Bytes": true, "Grow": true, "Truncate": true,
	"Write": true, "WriteString": true, "WriteByte": true, "WriteRune": true,
	"Next": true, "ReadByte": true, "ReadRune": true, "ReadString": true, "ReadBytes": true, "UnreadByte": true, "UnreadRune": true,
}

// methods that hand out memory of the buffer itself (valid until the next write only).
var bufAlias = map[string]bool{"Bytes": true, "Next": true, "AvailableBuffer": true}

// library functions that write into their first argument and do not keep it.
var writerFuncs = map[string]bool{"fmt.Fprintf": true, "fmt.Fprint": true, "fmt.Fprintln": true, "io.WriteString": true}

func derefType(t types.Type) types.Type {
	if t == nil {
		return nil
	}
	if p, ok := t.Underlying().(*types.Pointer); ok {
		return p.Elem()
	}
	return t
}

func isBufferType(t types.Type) bool {
	n, ok := derefType(t).(*types.Named)
	if !ok || n.Obj().Pkg() == nil {
		return false
	}
	p, name := n.Obj().Pkg().Path(), n.Obj().Name()
	return (p == "bytes" && name == "Buffer") || (p == "strings" && name == "Builder")
}

func isStructObj(t types.Type) bool {
	t = derefType(t)
	if t == nil {
		return false
	}
	_, ok := t.Underlying().(*types.Struct)
	return ok
}

// refFree: values of the type hold no reference to other memory (strings are immutable).
func refFree(t types.Type, depth int) bool {
	if t == nil || depth > 8 {
		return false
	}
	switch u := t.Underlying().(type) {
	case *types.Basic:
		return u.Kind() != types.UnsafePointer
	case *types.Struct:
		for i := 0; i < u.NumFields(); i++ {
			if !refFree(u.Field(i).Type(), depth+1) {
				return false
			}
		}
		return true
	case *types.Array:
		return refFree(u.Elem(), depth+1)
	}
	return false
}

// owning: the value of e is created here and shares no memory with anything else.
func (a *analyzer) owning(f *fn, e ast.Expr) bool {
	info := f.pkg.TypesInfo
	switch x := ast.Unparen(e).(type) {
	case *ast.CompositeLit:
		for _, el := range x.Elts {
			if kv, ok := el.(*ast.KeyValueExpr); ok {
				el = kv.Value
			}
			if !refFree(info.TypeOf(el), 0) && !a.owning(f, el) {
				return false
			}
		}
		return true
	case *ast.UnaryExpr:
		if x.Op == token.AND {
			if cl, ok := ast.Unparen(x.X).(*ast.CompositeLit); ok {
				return a.owning(f, cl)
			}
		}
	case *ast.CallExpr:
		name, o, kind := a.calleeName(f.pkg, x)
		if kind == "internal" {
			return a.constructor(a.byObj[o], 0)
		}
		return kind == "builtin" && (name == "make" || name == "new")
	case *ast.Ident:
		return x.Name == "nil" && info.Uses[x] == types.Universe.Lookup("nil")
	}
	return false
}

// constructor: a function of the analysed packages that has one result and returns nothing but
// owning literals (`return &T{…}`), whatever its arguments are.
func (a *analyzer) constructor(g *fn, depth int) bool {
	if depth > 3 || g.decl.Type.Results == nil || g.decl.Type.Results.NumFields() != 1 {
		return false
	}
	ok, any := true, false
	ast.Inspect(g.decl.Body, func(n ast.Node) bool {
		if _, isLit := n.(*ast.FuncLit); isLit {
			return false
		}
		if r, isRet := n.(*ast.ReturnStmt); isRet {
			any = true
			if len(r.Results) != 1 {
				ok = false
				return false
			}
			switch x := ast.Unparen(r.Results[0]).(type) {
			case *ast.CompositeLit:
				ok = ok && a.owning(g, x)
			case *ast.UnaryExpr:
				_, isCl := ast.Unparen(x.X).(*ast.CompositeLit)
				ok = ok && x.Op == token.AND && isCl && a.owning(g, x)
			default:
				ok = false
			}
		}
		return ok
	})
	return ok && any
}

// ownedPath: e is `v`, `v.f.g` through struct values (v itself may be a pointer), optionally
// with one index at the end (index: whether one is allowed).
func ownedPath(info *types.Info, e ast.Expr, v types.Object, index bool) bool {
	e = ast.Unparen(e)
	if ix, ok := e.(*ast.IndexExpr); ok {
		if !index {
			return false
		}
		switch info.TypeOf(ix.X).Underlying().(type) {
		case *types.Map, *types.Slice, *types.Array:
		default:
			return false
		}
		return ownedPath(info, ix.X, v, false)
	}
	for {
		switch x := e.(type) {
		case *ast.ParenExpr:
			e = x.X
		case *ast.Ident:
			o := info.Uses[x]
			if o == nil {
				o = info.Defs[x]
			}
			return o == v
		case *ast.SelectorExpr:
			sel := info.Selections[x]
			if sel == nil || sel.Kind() != types.FieldVal || len(sel.Index()) != 1 {
				return false
			}
			if sel.Indirect() {
				// only the variable itself may be a pointer
				id, ok := ast.Unparen(x.X).(*ast.Ident)
				if !ok {
					return false
				}
				o := info.Uses[id]
				if o == nil {
					o = info.Defs[id]
				}
				if o != v {
					return false
				}
			}
			e = x.X
		default:
			return false
		}
	}
}

// storeOwned: the store `lhs = rhs` (rhs nil: ++, +=, or one of several values) keeps the object
// rooted at v in possession of its memory.
func (a *analyzer) storeOwned(f *fn, lhs, rhs ast.Expr, v types.Object) bool {
	info := f.pkg.TypesInfo
	if !ownedPath(info, lhs, v, true) {
		return false
	}
	if _, isIx := ast.Unparen(lhs).(*ast.IndexExpr); isIx {
		return true // an element: the container stays the object's own
	}
	if refFree(info.TypeOf(lhs), 0) {
		return true
	}
	if rhs == nil {
		return false
	}
	if a.owning(f, rhs) {
		return true
	}
	same := func(e ast.Expr) bool { return a.src(ast.Unparen(e)) == a.src(ast.Unparen(lhs)) }
	switch x := ast.Unparen(rhs).(type) {
	case *ast.CallExpr:
		if name, _, kind := a.calleeName(f.pkg, x); kind == "builtin" && name == "append" && len(x.Args) > 0 {
			return same(x.Args[0])
		}
	case *ast.SliceExpr:
		return same(x.X)
	default:
		return same(rhs)
	}
	return false
}

// usesConfined: every use of v in f is of one of the shapes (L3); recv: v is the receiver of f
// (a-c only, and never assigned).
func (a *analyzer) usesConfined(f *fn, v types.Object, recv bool) bool {
	info := f.pkg.TypesInfo
	ix := a.indexFn(f)
	up := func(n ast.Node) (ast.Node, ast.Node) { // skips parentheses
		p := ix.parent[n]
		for {
			if pe, ok := p.(*ast.ParenExpr); ok {
				n, p = pe, ix.parent[pe]
				continue
			}
			return n, p
		}
	}
	methodOK := func(sel *ast.SelectorExpr, recvType types.Type) bool {
		_, gp := up(sel)
		call, ok := gp.(*ast.CallExpr)
		if !ok || ast.Unparen(call.Fun) != ast.Expr(sel) {
			return false // a method value
		}
		s := info.Selections[sel]
		if s == nil || len(s.Index()) != 1 {
			return false
		}
		m, ok := s.Obj().(*types.Func)
		if !ok {
			return false
		}
		if g, ok := a.byObj[m.Origin()]; ok {
			return a.confined[g]
		}
		return isBufferType(recvType) && bufMethods[m.Name()]
	}
	argOK := func(node ast.Node, call *ast.CallExpr) bool {
		if recv || ast.Unparen(call.Fun) == node {
			return false
		}
		name, _, kind := a.calleeName(f.pkg, call)
		switch kind {
		case "internal":
			return true
		case "external":
			return writerFuncs[name] && len(call.Args) > 0 && ast.Unparen(call.Args[0]) == node
		}
		return false
	}
	ok := true
	ast.Inspect(f.decl.Body, func(n ast.Node) bool {
		id, isId := n.(*ast.Ident)
		if !ok || !isId || info.Uses[id] != v {
			return ok
		}
		node, p := up(id)
		switch x := p.(type) {
		case *ast.SelectorExpr:
			if ast.Unparen(x.X) != node {
				ok = false
				return false
			}
			sel := info.Selections[x]
			if sel == nil {
				ok = false
				return false
			}
			if sel.Kind() != types.FieldVal {
				if sel.Kind() != types.MethodVal || !methodOK(x, v.Type()) {
					ok = false
				}
				return false
			}
			// climb to the whole path rooted at v
			var cur ast.Node = x
			for {
				c, pp := up(cur)
				cur = c
				switch y := pp.(type) {
				case *ast.SelectorExpr:
					if s2 := info.Selections[y]; s2 != nil && s2.Kind() == types.MethodVal {
						ce, _ := cur.(ast.Expr)
						if ce == nil {
							ok = false
							return false
						}
						t := info.TypeOf(ce)
						if _, isStruct := t.Underlying().(*types.Struct); isStruct {
							// the call takes the address of a struct-valued field: a part of the object itself
							if !ownedPath(info, ce, v, false) || !methodOK(y, t) {
								ok = false
							}
						}
						// else: a value held by the object is read and a method of what it refers to is
						// called: no use of the object's own memory (the call is judged as any other)
						return false
					}
					cur = y
					continue
				case *ast.IndexExpr:
					if ast.Unparen(y.X) == cur {
						cur = y
						continue
					}
				case *ast.SliceExpr:
					if ast.Unparen(y.X) == cur {
						cur = y
						continue
					}
				case *ast.StarExpr:
					cur = y
					continue
				case *ast.UnaryExpr:
					if y.Op == token.AND {
						ok = false
					}
				case *ast.AssignStmt:
					for i, l := range y.Lhs {
						if ast.Unparen(l) == cur {
							var rhs ast.Expr
							if len(y.Lhs) == len(y.Rhs) && y.Tok == token.ASSIGN {
								rhs = y.Rhs[i]
							}
							if !a.storeOwned(f, l, rhs, v) {
								ok = false
							}
						}
					}
				case *ast.IncDecStmt:
					if ce, isE := cur.(ast.Expr); !isE || !ownedPath(info, ce, v, true) {
						ok = false
					}
				case *ast.RangeStmt:
					// `for k, v.f = range …` would store; ranging over v.f reads
					if y.Key == cur || y.Value == cur {
						ok = false
					}
				}
				return false
			}
		case *ast.UnaryExpr:
			if x.Op != token.AND {
				ok = false
				return false
			}
			n2, gp := up(x)
			if call, isCall := gp.(*ast.CallExpr); !isCall || !argOK(n2, call) {
				ok = false
			}
		case *ast.CallExpr:
			if !argOK(node, x) {
				ok = false
			}
		case *ast.AssignStmt:
			if recv {
				ok = false
				return false
			}
			for _, r := range x.Rhs {
				if ast.Unparen(r) == node {
					ok = false
				}
			}
			// on the left: a definition, judged by (L2)
		default:
			ok = false
		}
		return false
	})
	return ok
}

// computeConfined: the receiver-confined methods (greatest fixpoint: recursion is allowed).
func (a *analyzer) computeConfined() {
	a.confined = map[*fn]bool{}
	recvOf := func(f *fn) types.Object {
		if f.decl.Recv == nil || len(f.decl.Recv.List) != 1 || len(f.decl.Recv.List[0].Names) != 1 || f.decl.Recv.List[0].Names[0].Name == "_" {
			return nil
		}
		return f.pkg.TypesInfo.Defs[f.decl.Recv.List[0].Names[0]]
	}
	for _, f := range a.fns {
		if r := recvOf(f); r != nil && isStructObj(r.Type()) {
			a.confined[f] = true
		}
	}
	for changed := true; changed; {
		changed = false
		for _, f := range a.fns {
			if a.confined[f] && !a.usesConfined(f, recvOf(f), true) {
				a.confined[f] = false
				changed = true
			}
		}
	}
	a.recvObj = map[*fn]types.Object{}
	for _, f := range a.fns {
		if a.confined[f] {
			a.recvObj[f] = recvOf(f)
		}
	}
}

// callLocals: the call-local objects of f.
func (a *analyzer) callLocals(f *fn) map[types.Object]bool {
	if m, ok := a.locals[f]; ok {
		return m
	}
	info := f.pkg.TypesInfo
	ix := a.indexFn(f)
	out := map[types.Object]bool{}
	bad := map[types.Object]bool{}
	note := func(id *ast.Ident, rhs ast.Expr, zero bool) {
		if id.Name == "_" {
			return
		}
		o := info.Defs[id]
		if o == nil {
			o = info.Uses[id]
		}
		v, isVar := o.(*types.Var)
		if !isVar || v.IsField() || !isStructObj(v.Type()) || v.Pos() < f.decl.Body.Pos() || v.Pos() >= f.decl.Body.End() {
			return
		}
		// declared by `var` or `:=` only
		if d := info.Defs[id]; d != nil {
			switch ix.parent[id].(type) {
			case *ast.ValueSpec, *ast.AssignStmt:
			default:
				bad[o] = true
			}
		}
		if (zero && rhs == nil) || (rhs != nil && a.owning(f, rhs)) {
			out[o] = true
		} else {
			bad[o] = true
		}
	}
	ast.Inspect(f.decl.Body, func(n ast.Node) bool {
		switch s := n.(type) {
		case *ast.AssignStmt:
			for i, l := range s.Lhs {
				if id, ok := l.(*ast.Ident); ok {
					var rhs ast.Expr
					if len(s.Lhs) == len(s.Rhs) && (s.Tok == token.ASSIGN || s.Tok == token.DEFINE) {
						rhs = s.Rhs[i]
					}
					note(id, rhs, false)
				}
			}
		case *ast.ValueSpec:
			for i, id := range s.Names {
				var rhs ast.Expr
				if i < len(s.Values) {
					rhs = s.Values[i]
				}
				note(id, rhs, len(s.Values) == 0)
			}
		case *ast.RangeStmt:
			for _, e := range []ast.Expr{s.Key, s.Value} {
				if id, ok := e.(*ast.Ident); ok && id.Name != "_" {
					if o := a.objOf(f, id); o != nil {
						bad[o] = true
					}
				}
			}
		}
		return true
	})
	// every other way to bind a variable (parameters of closures, type switches, …) has no entry in out
	for o := range out {
		if bad[o] || !a.usesConfined(f, o, false) {
			delete(out, o)
		}
	}
	a.locals[f] = out
	return out
}

// adoptBuffers: (U2) the call-local buffers of f, declared outside body, that body resets before
// any other use and that are used nowhere else.
func (a *analyzer) adoptBuffers(f *fn, body *ast.BlockStmt) map[types.Object]bool {
	info := f.pkg.TypesInfo
	out := map[types.Object]bool{}
	for o := range a.callLocals(f) {
		if !isBufferType(o.Type()) || (o.Pos() >= body.Pos() && o.Pos() < body.End()) {
			continue
		}
		outside := false
		ix := a.indexFn(f)
		ast.Inspect(f.decl.Body, func(n ast.Node) bool {
			if id, ok := n.(*ast.Ident); ok && info.Uses[id] == o {
				if id.Pos() < body.Pos() || id.Pos() >= body.End() {
					outside = true
				}
				// Bytes, Next hand out the buffer's own memory, which the next element overwrites
				if sel, ok := ix.parent[id].(*ast.SelectorExpr); ok && bufAlias[sel.Sel.Name] {
					outside = true
				}
			}
			return !outside
		})
		if outside {
			continue
		}
		for _, st := range body.List {
			if es, ok := st.(*ast.ExprStmt); ok {
				if call, ok := ast.Unparen(es.X).(*ast.CallExpr); ok && len(call.Args) == 0 {
					if sel, ok := ast.Unparen(call.Fun).(*ast.SelectorExpr); ok && sel.Sel.Name == "Reset" {
						if id, ok := ast.Unparen(sel.X).(*ast.Ident); ok && info.Uses[id] == o {
							out[o] = true
							break
						}
					}
				}
			}
			mentions := false
			ast.Inspect(st, func(n ast.Node) bool {
				if id, ok := n.(*ast.Ident); ok && info.Uses[id] == o {
					mentions = true
				}
				return !mentions
			})
			if mentions {
				break
			}
		}
	}
	return out
}
