// extract-ranges: translator for property C05.
//
// Re-derives, from the current source of pkg/yang, pkg/yangentry and the command in the
// repository root (go/packages: syntax + types), every iteration whose order the Go runtime
// randomises or that inherits such an order, and writes them as a Lean table
// (Goyang/Gen/MapRanges.lean) against which `Props.C05Ranges.map_ranges_justified` is checked on
// every run:
//
//	sites     every `for … range X` where X is of map type (named map types, fields, function
//	          results, maps.Keys / maps.Values / maps.All); every `for … range S` where S is a
//	          slice that was filled in map order and has not been sorted since (the order is
//	          inherited); every call of an internal "iterator helper" (a function that walks a map
//	          and calls a function parameter for each element: the caller's closure is the loop
//	          body); sync.Map.Range, reflect MapRange / MapKeys calls.
//	class     computed where it can be computed soundly from the loop body alone:
//	          collect-then-sort   the body only appends to (fills) local slices, and every such
//	                              slice is handed to a sorter (sort.Strings/Ints/Float64s/Slice/
//	                              SliceStable/Sort/Stable, slices.Sort*, or a function listed under
//	                              `sorters` in allow.json) before any use other than len, append,
//	                              nil test, ranging (a site of its own) or being returned (then the
//	                              same is demanded of every caller: helpers such as
//	                              sortedModuleKeys are followed);
//	          set-build           the body only inserts constants / a function of the inserted key
//	                              into a map, deletes, or counts;
//	          commutative-write   the body only writes m2[k] = f(k, v) for the loop key k;
//	          element-reset       the body only stores one constant per field through the element;
//	          iterates-for-caller the body only calls a function parameter (the call sites carry
//	                              the obligation);
//	          other               everything else.
//	          In the first four classes the body may call only functions that the translator
//	          finds free of stores to shared memory (fixpoint over the packages; library functions
//	          by the list `pureStd`), or that allow.json lists under `pure_calls`.
//	local     effects on CALL-LOCAL OBJECTS do not count (local.go states the rule in full):
//	          a struct-typed local variable (struct value or pointer to one; bytes.Buffer and
//	          strings.Builder included) is call-local when (L1) it is declared in the function by
//	          `var` / `:=`, (L2) every value it is given is created on the spot and owns what it
//	          refers to (composite literal whose members with references are make / new / nil /
//	          such literals, new(T), the zero value, the result of a constructor of the analysed
//	          packages that returns nothing but such literals) and (L3) it does not escape: it is
//	          only used as the root of field reads, of stores through owned paths (`v.f = e`,
//	          `v.f[k] = e`, `v.n++`: struct-valued fields only, one index at most; a slice / map
//	          field is only ever given make / nil / `append(v.f, …)` / `v.f[i:j]`), as the receiver
//	          of RECEIVER-CONFINED methods of the analysed packages (methods whose receiver is
//	          used in these ways only) or of the listed methods of bytes.Buffer / strings.Builder
//	          that touch the receiver alone (not WriteTo, ReadFrom), and as an argument of
//	          functions of the analysed packages (whose own bodies are judged) or the writer of
//	          fmt.Fprint* / io.WriteString.  Stored into a field, global, slice, map, channel or
//	          literal, returned, copied, `&v.f` taken, passed to anything else: an ordinary variable.
//	          (U1) For a call-local object DECLARED INSIDE THE LOOP BODY (one per element) stores
//	          through owned paths are no effects and a call of a receiver-confined method
//	          contributes only what the method does to memory other than its receiver; the same
//	          method called on anything else (a field of the function's receiver, an object that
//	          lives across the iterations, an escaped one) contributes all its effects
//	          (`fieldappend:T.f`, `setinsert`, …).  (U2) A call-local bytes.Buffer /
//	          strings.Builder declared outside the body counts as declared inside when the body
//	          begins with `v.Reset()` before any other use of v, v is used nowhere else in the
//	          function and neither Bytes nor Next is called on it; no other object that lives
//	          across the iterations is local (a collector declared before the loop keeps its
//	          `fieldappend`).  (U3) What is read OUT of such an object and stored, appended,
//	          printed or returned is judged where that happens by the rules above: `i.Values =
//	          c.ids` is `fieldwrite:Identity.Values`, `out = append(out, b.String())` fills a slice
//	          that must be sorted before use, `fmt.Fprint(w, b.String())` is `call:fmt.Fprint`.
//	          robustness.sh (beside this file) replays the seeded regressions, the reverts of the
//	          map-order repairs, every harmless patch under seeded/benign and variants/*.diff.
//	helpers   (P1) in the effect summary of a function of the analysed packages, a store through a
//	          path rooted at one of its parameters (receiver included) that is a pointer to a struct
//	          and is never assigned in the function is tagged with the parameter (`arg<i>:`).
//	          (P2) at a call whose argument for that parameter is `v` / `&v` for a FRESH local v
//	          declared inside the loop body (every value v is given is a composite literal, make,
//	          new, a struct copy `*p`, or the result of a function all of whose returns are such:
//	          one new object per element — the same condition under which the stores `v.f = e`
//	          written in the body itself were never effects) the tagged effects are dropped; when
//	          the argument is itself such a parameter of the function being summarised the tag is
//	          handed on to its caller; in every other case (the element of the map, a field, an
//	          object that lives across the iterations) the tag is removed and the effect counts.
//	          Everything else the helper does (stores through other parameters, globals, calls) is
//	          an effect as before, and a helper that assigns its parameter gets no tag.  So the
//	          classification of a loop does not change when statements of its body that work on
//	          the element's fresh copy move into an unexported helper or method (`nc.stamp(p, ns)`,
//	          `dupDirInto(&ne, e)`), and does change when the helper is applied to shared memory.
//	split     (I1) when the body of a walk over a map does nothing but append one value per element
//	          to ONE local slice (its only effect is that append), a later `range` over that slice
//	          in the same function is the second half of the same walk: it is keyed by the map's
//	          own expression (`Modules.Modules`, kind `inherited`) instead of `order-of …`, so it is
//	          matched by — and COUNTED with — the reviewed entries for walks over that map.  A
//	          filling loop with any other effect, a slice that went through another variable, or
//	          a walk in another function keeps the `order-of` key.
//	sorters   (S1, derived.go) a function of the analysed packages sorts its slice parameter p, and
//	          a call of it counts as a sort of that argument, when its body is exactly: early
//	          `if <call-free condition> { return }` / local type declarations; `ks := make([]T,
//	          len(p))`; one loop `for i, m := range p` that stores only into ks[i] and gives one
//	          field F of the literal the element m itself; one library sorter on ks; one loop
//	          `for i := range ks { p[i] = ks[i].F }` (decorate - sort - undecorate).  Anything else
//	          in the body (a second store into p, another carrier, no sorter) and the function is
//	          an ordinary one: its argument "is passed to … unsorted".
//	facts     per element type, the least number of keys any sort comparator over slices of that
//	          type compares (a tie-break that is removed shows here).
//
// allow.json (embedded, reviewed) lists the `other` sites that exist today, each with the reason
// why the order cannot reach a result and the theorem that carries the reason, keyed by
// (package, anchor function, normalised expression, effect kinds) with the number of such sites.
// The anchor of a function is the function itself when it is exported or has callers with
// different anchors, else its callers' common anchor: moving a loop into an unexported helper
// that only the old function calls does not change its key.  Expressions are normalised to
// `Type.field` form (receiver and variable names do not matter); a variable ranging over a
// literal list of maps stands for each of them.
package main

import (
	_ "embed"
	"fmt"
	"go/ast"
	"go/printer"
	"go/token"
	"go/types"
	"os"
	"path/filepath"
	"sort"
	"strings"

	"golang.org/x/tools/go/packages"
)

//go:embed allow.json
var allowJSON []byte

type AllowSpec struct {
	Pkg      string            `json:"pkg"`
	Func     string            `json:"func"` // anchor
	Expr     string            `json:"expr"`
	Effects  []string          `json:"effects"` // effects the site may have besides the harmless ones
	Count    int               `json:"count"`
	Reason   string            `json:"reason"`
	Theorem  string            `json:"theorem"`
	Requires map[string]int    `json:"requires,omitempty"` // fact name -> least value
	Meta     map[string]string `json:"-"`
}

type NamedReason struct {
	Func    string `json:"func"`
	Reason  string `json:"reason"`
	Theorem string `json:"theorem,omitempty"`
}

type Config struct {
	Packages  []string      `json:"packages"`
	Sorters   []NamedReason `json:"sorters"`
	PureCalls []NamedReason `json:"pure_calls"`
	// Warm: functions that fill a cache on their first call per element and only read afterwards:
	// a call is harmless in a function where an earlier walk in sorted order made it already.
	Warm  []NamedReason `json:"idempotent_after_sorted_walk"`
	Allow []AllowSpec   `json:"allow"`
}

// ---------- program model ----------

type fn struct {
	decl    *ast.FuncDecl
	obj     *types.Func
	pkg     *packages.Package
	name    string // (*T).m or f, without package
	callers map[*fn]bool
	anchor  *fn
	impure  bool
	asValue bool
	// resultTaint[i] != "" : result i is a slice in map order of that origin
	resultTaint map[int]string
	// helper: index of the func-typed parameter that is called for every element of a map walk
	helperParam *types.Var
	helperSites []*site
}

func (f *fn) qname() string { return f.pkg.Name + "." + f.name }

type site struct {
	f        *fn
	pos      token.Pos
	text     string   // source text of the ranged expression
	exprs    []string // normalised origins (one record each)
	keyUsed  bool
	valUsed  bool
	class    string
	effects  []string
	calls    []string // impure or unknown callees met in the body
	note     string
	kind     string // "map", "inherited", "via-helper", "call"
	viaOrder string // for inherited order: where it came from
}

type analyzer struct {
	fset    *token.FileSet
	pkgs    []*packages.Package
	fns     []*fn
	byObj   map[*types.Func]*fn
	cfg     Config
	sorters map[string]bool
	derived map[*fn]int // (S1) functions that sort one of their slice parameters: its index (-1: none)
	pureOK  map[string]bool
	sites   []*site
	// taint of local slice variables: object -> origin description (flow-insensitive start position)
	taintPos map[types.Object]token.Pos
	taintWhy map[types.Object]string
	changed  bool
	// sort facts: element type -> least number of comparator keys
	sortKeys  map[string]int
	sortWhere map[string][]string
	sortSeen  map[*ast.CallExpr]bool
	notes     []string
	fnIx      map[*fn]*fnIndex
	fresh     map[*fn]bool
	queue     []taint
	done      map[string]bool
	fine      [][4]string
	ourPkg    map[string]bool
	summaries map[*fn][]string
	warmOK    map[string]bool
	walking   map[*ast.FuncLit]bool
	confined  map[*fn]bool                  // receiver-confined methods (local.go)
	recvObj   map[*fn]types.Object          // their receivers
	locals    map[*fn]map[types.Object]bool // call-local objects per function
}

var pureStd = map[string]bool{
	"fmt.Sprintf": true, "fmt.Sprint": true, "fmt.Sprintln": true, "fmt.Errorf": true, "errors.New": true,
	"strings.Split": true, "strings.SplitN": true, "strings.Join": true, "strings.HasPrefix": true, "strings.HasSuffix": true,
	"strings.TrimPrefix": true, "strings.TrimSuffix": true, "strings.TrimSpace": true, "strings.Contains": true, "strings.Index": true,
	"strings.IndexByte": true, "strings.LastIndex": true, "strings.Replace": true, "strings.ReplaceAll": true, "strings.ToLower": true,
	"strings.ToUpper": true, "strings.Fields": true, "strings.Repeat": true, "strings.EqualFold": true, "strings.Compare": true,
	"strings.Cut": true, "strings.ContainsAny": true, "strings.ContainsRune": true, "strings.Count": true, "strings.Title": true,
	"strconv.Itoa": true, "strconv.Atoi": true, "strconv.ParseInt": true, "strconv.ParseUint": true, "strconv.Quote": true,
	"strconv.FormatInt": true, "strconv.FormatUint": true, "strconv.ParseBool": true, "strconv.ParseFloat": true,
	"reflect.DeepEqual": true, "reflect.TypeOf": true, "reflect.ValueOf": true, "filepath.Join": true, "filepath.Base": true,
	"filepath.Dir": true, "filepath.Ext": true, "path.Join": true, "math.Pow10": true, "math.MaxInt64": true,
	"bytes.Equal": true, "bytes.HasPrefix": true, "bytes.HasSuffix": true, "unicode.IsSpace": true, "unicode.IsDigit": true,
	"utf8.RuneCountInString": true, "utf8.DecodeRuneInString": true, "regexp.MustCompile": true, "regexp.Compile": true,
	"syntax.Parse": true,
}

var sortFuncs = map[string]bool{
	"sort.Strings": true, "sort.Ints": true, "sort.Float64s": true, "sort.Slice": true, "sort.SliceStable": true, "sort.Sort": true,
	"sort.Stable": true, "slices.Sort": true, "slices.SortFunc": true, "slices.SortStableFunc": true,
}

// what is treated as harmless although it walks a map on the caller's behalf
var fineMapCalls = map[string]string{
	"fmt":           "fmt prints maps with sorted keys (Go 1.12+)",
	"encoding/json": "encoding/json marshals maps with sorted keys",
}

func fatal(format string, a ...any) {
	fmt.Fprintf(os.Stderr, "extract-ranges: "+format+"\n", a...)
	os.Exit(2)
}

func (a *analyzer) src(n ast.Node) string {
	var sb strings.Builder
	printer.Fprint(&sb, a.fset, n)
	return strings.Join(strings.Fields(sb.String()), " ")
}

func (a *analyzer) where(p token.Pos) string {
	pp := a.fset.Position(p)
	return fmt.Sprintf("%s:%d", filepath.Base(pp.Filename), pp.Line)
}

func fnName(d *ast.FuncDecl, pkgName string) string {
	if d.Recv != nil && len(d.Recv.List) > 0 {
		t := d.Recv.List[0].Type
		star := ""
		if s, ok := t.(*ast.StarExpr); ok {
			star = "*"
			t = s.X
		}
		if ix, ok := t.(*ast.IndexExpr); ok {
			t = ix.X
		}
		if id, ok := t.(*ast.Ident); ok {
			if star != "" {
				return "(*" + id.Name + ")." + d.Name.Name
			}
			return id.Name + "." + d.Name.Name
		}
	}
	return d.Name.Name
}

func (a *analyzer) callee(p *packages.Package, call *ast.CallExpr) types.Object {
	switch f := ast.Unparen(call.Fun).(type) {
	case *ast.Ident:
		return p.TypesInfo.Uses[f]
	case *ast.SelectorExpr:
		return p.TypesInfo.Uses[f.Sel]
	case *ast.IndexExpr:
		if id, ok := f.X.(*ast.Ident); ok {
			return p.TypesInfo.Uses[id]
		}
		if s, ok := f.X.(*ast.SelectorExpr); ok {
			return p.TypesInfo.Uses[s.Sel]
		}
	}
	return nil
}

// calleeName: "pkg.Func", "pkg.(*T).m" for functions; "" for conversions, builtins, function values.
func (a *analyzer) calleeName(p *packages.Package, call *ast.CallExpr) (name string, fnObj *types.Func, kind string) {
	if tv, ok := p.TypesInfo.Types[call.Fun]; ok && tv.IsType() {
		return "", nil, "conversion"
	}
	o := a.callee(p, call)
	switch o := o.(type) {
	case *types.Builtin:
		return o.Name(), nil, "builtin"
	case *types.Func:
		if g, ok := a.byObj[o.Origin()]; ok {
			return g.qname(), o.Origin(), "internal"
		}
		n := o.Name()
		if sig, ok := o.Type().(*types.Signature); ok && sig.Recv() != nil {
			rt := sig.Recv().Type()
			if _, isIface := rt.Underlying().(*types.Interface); isIface && o.Pkg() != nil && a.ourPkg[o.Pkg().Path()] {
				return o.Pkg().Name() + ".<iface>." + n, o, "iface"
			}
			ptr := ""
			if pt, ok := rt.(*types.Pointer); ok {
				rt = pt.Elem()
				ptr = "*"
			}
			tn := types.TypeString(rt, func(p *types.Package) string { return p.Name() })
			if ptr != "" {
				n = "(*" + tn + ")." + n
			} else {
				n = tn + "." + n
			}
			return n, o, "external"
		}
		if o.Pkg() != nil {
			n = o.Pkg().Name() + "." + n
		}
		return n, o, "external"
	case *types.Var:
		return o.Name(), nil, "funcvalue"
	}
	return "", nil, "unknown"
}

// ---------- loading ----------

func load(repo string, patterns []string) (*token.FileSet, []*packages.Package) {
	fset := token.NewFileSet()
	pcfg := &packages.Config{Mode: packages.NeedName | packages.NeedFiles | packages.NeedSyntax | packages.NeedTypes | packages.NeedTypesInfo |
		packages.NeedImports | packages.NeedDeps, Dir: repo, Fset: fset,
		Env: append(os.Environ(), "GOFLAGS=-mod=readonly", "GOPROXY=off", "GOSUMDB=off", "GOTOOLCHAIN=local", "CGO_ENABLED=0")}
	pkgs, err := packages.Load(pcfg, patterns...)
	if err != nil {
		fatal("load: %v", err)
	}
	if packages.PrintErrors(pkgs) > 0 {
		fatal("the packages do not type-check")
	}
	sort.Slice(pkgs, func(i, j int) bool { return pkgs[i].PkgPath < pkgs[j].PkgPath })
	return fset, pkgs
}

func (a *analyzer) index() {
	for _, p := range a.pkgs {
		for _, file := range p.Syntax {
			for _, d := range file.Decls {
				fd, ok := d.(*ast.FuncDecl)
				if !ok || fd.Body == nil {
					continue
				}
				obj, _ := p.TypesInfo.Defs[fd.Name].(*types.Func)
				f := &fn{decl: fd, obj: obj, pkg: p, name: fnName(fd, p.Name), callers: map[*fn]bool{}, resultTaint: map[int]string{}}
				a.fns = append(a.fns, f)
				if obj != nil {
					a.byObj[obj] = f
				}
			}
		}
	}
	sort.Slice(a.fns, func(i, j int) bool { return a.fns[i].qname() < a.fns[j].qname() })
	// call graph (static calls, closures belong to their declaration)
	for _, f := range a.fns {
		ast.Inspect(f.decl.Body, func(n ast.Node) bool {
			if c, ok := n.(*ast.CallExpr); ok {
				if _, o, kind := a.calleeName(f.pkg, c); kind == "internal" {
					a.byObj[o].callers[f] = true
				}
			}
			return true
		})
	}
	// a function that is used as a value (registered, passed on) is an entry point of its own
	for _, f := range a.fns {
		called := map[*ast.Ident]bool{}
		ast.Inspect(f.decl.Body, func(n ast.Node) bool {
			if c, ok := n.(*ast.CallExpr); ok {
				switch fu := ast.Unparen(c.Fun).(type) {
				case *ast.Ident:
					called[fu] = true
				case *ast.SelectorExpr:
					called[fu.Sel] = true
				}
			}
			return true
		})
		ast.Inspect(f.decl.Body, func(n ast.Node) bool {
			if id, ok := n.(*ast.Ident); ok && !called[id] {
				if o, ok := f.pkg.TypesInfo.Uses[id].(*types.Func); ok {
					if g, ok := a.byObj[o.Origin()]; ok {
						g.asValue = true
					}
				}
			}
			return true
		})
	}
	for _, f := range a.fns {
		a.anchorOf(f, map[*fn]bool{})
	}
}

func exportedFn(f *fn) bool {
	if !ast.IsExported(f.decl.Name.Name) {
		return f.decl.Name.Name == "main" || f.decl.Name.Name == "init"
	}
	if f.decl.Recv != nil {
		n := f.name
		n = strings.TrimPrefix(n, "(*")
		return ast.IsExported(n)
	}
	return true
}

func (a *analyzer) anchorOf(f *fn, busy map[*fn]bool) *fn {
	if f.anchor != nil {
		return f.anchor
	}
	if exportedFn(f) || f.asValue || busy[f] {
		if !busy[f] {
			f.anchor = f
		}
		return f
	}
	busy[f] = true
	set := map[*fn]bool{}
	for c := range f.callers {
		if c == f {
			continue
		}
		set[a.anchorOf(c, busy)] = true
	}
	delete(busy, f)
	delete(set, f)
	if len(set) == 1 {
		for g := range set {
			f.anchor = g
		}
	} else {
		f.anchor = f
	}
	return f.anchor
}

// ---------- purity (no stores to memory that outlives the call) ----------

// rootIdent returns the identifier an assignable expression is rooted at, and whether the path
// from it goes through a pointer dereference, index or field (i.e. it is not the variable itself).
func rootIdent(e ast.Expr) (*ast.Ident, bool) {
	deep := false
	for {
		switch x := ast.Unparen(e).(type) {
		case *ast.Ident:
			return x, deep
		case *ast.SelectorExpr:
			e, deep = x.X, true
		case *ast.IndexExpr:
			e, deep = x.X, true
		case *ast.StarExpr:
			e, deep = x.X, true
		case *ast.SliceExpr:
			e, deep = x.X, true
		default:
			return nil, true
		}
	}
}

// freshLocals: variables declared in the function (not parameters) whose every definition is a
// fresh value: composite literal (or its address), make, new, a copy `*p` of a struct, a basic
// value, or the result of an internal function all of whose returns are fresh.
func (a *analyzer) freshLocals(f *fn, body ast.Node, freshFn map[*fn]bool) map[types.Object]bool {
	info := f.pkg.TypesInfo
	cand := map[types.Object]bool{}
	bad := map[types.Object]bool{}
	var isFresh func(e ast.Expr) bool
	isFresh = func(e ast.Expr) bool {
		switch x := ast.Unparen(e).(type) {
		case *ast.CompositeLit, *ast.BasicLit, *ast.FuncLit:
			return true
		case *ast.UnaryExpr:
			if x.Op == token.AND {
				if _, ok := ast.Unparen(x.X).(*ast.CompositeLit); ok {
					return true
				}
				if id, ok := ast.Unparen(x.X).(*ast.Ident); ok {
					return cand[info.Uses[id]] && !bad[info.Uses[id]]
				}
			}
			return false
		case *ast.StarExpr:
			// a copy of a struct value
			if t := info.TypeOf(x); t != nil {
				if _, ok := t.Underlying().(*types.Struct); ok {
					return true
				}
			}
			return false
		case *ast.CallExpr:
			name, o, kind := a.calleeName(f.pkg, x)
			switch kind {
			case "builtin":
				return name == "make" || name == "new"
			case "conversion":
				return len(x.Args) == 1 && isFresh(x.Args[0])
			case "internal":
				return freshFn[a.byObj[o]]
			}
			return false
		case *ast.Ident:
			if x.Name == "nil" {
				return true
			}
			if t := info.TypeOf(x); t != nil {
				if _, ok := t.Underlying().(*types.Basic); ok {
					return true
				}
			}
			return false
		}
		if t := info.TypeOf(e); t != nil {
			if _, ok := t.Underlying().(*types.Basic); ok {
				return true
			}
		}
		return false
	}
	def := func(id *ast.Ident, rhs ast.Expr) {
		o := info.Defs[id]
		if o == nil {
			o = info.Uses[id]
		}
		if o == nil {
			return
		}
		if _, isVar := o.(*types.Var); !isVar {
			return
		}
		cand[o] = true
		if rhs == nil {
			// `var x T`: zero value; fresh unless it is a pointer-like that is assigned later (seen below)
			return
		}
		if !isFresh(rhs) {
			bad[o] = true
		}
	}
	params := map[types.Object]bool{}
	if f.decl.Recv != nil {
		for _, fl := range f.decl.Recv.List {
			for _, n := range fl.Names {
				params[info.Defs[n]] = true
			}
		}
	}
	ast.Inspect(f.decl, func(n ast.Node) bool {
		if ft, ok := n.(*ast.FuncType); ok && ft.Params != nil {
			for _, fl := range ft.Params.List {
				for _, nm := range fl.Names {
					params[info.Defs[nm]] = true
				}
			}
		}
		return true
	})
	ast.Inspect(body, func(n ast.Node) bool {
		switch s := n.(type) {
		case *ast.AssignStmt:
			if len(s.Lhs) == len(s.Rhs) {
				for i, l := range s.Lhs {
					if id, ok := l.(*ast.Ident); ok && id.Name != "_" {
						def(id, s.Rhs[i])
					}
				}
			} else {
				for _, l := range s.Lhs {
					if id, ok := l.(*ast.Ident); ok && id.Name != "_" {
						o := info.Defs[id]
						if o == nil {
							o = info.Uses[id]
						}
						if o != nil {
							cand[o] = true
							// multi-value call / map lookup / type assertion: fresh only for basic types
							if _, ok := o.Type().Underlying().(*types.Basic); !ok {
								bad[o] = true
							}
						}
					}
				}
			}
		case *ast.ValueSpec:
			for i, id := range s.Names {
				var rhs ast.Expr
				if i < len(s.Values) {
					rhs = s.Values[i]
				}
				def(id, rhs)
			}
		case *ast.RangeStmt:
			for _, e := range []ast.Expr{s.Key, s.Value} {
				if id, ok := e.(*ast.Ident); ok && id.Name != "_" {
					o := info.Defs[id]
					if o == nil {
						o = info.Uses[id]
					}
					if o != nil {
						cand[o] = true
						if _, ok := o.Type().Underlying().(*types.Basic); !ok {
							bad[o] = true
						}
					}
				}
			}
		}
		return true
	})
	out := map[types.Object]bool{}
	for o := range cand {
		if !bad[o] && !params[o] {
			out[o] = true
		}
	}
	return out
}

// storeIsLocal: a store through lhs touches only memory created in this function.
func storeIsLocal(info *types.Info, lhs ast.Expr, fresh map[types.Object]bool) bool {
	id, deep := rootIdent(lhs)
	if id == nil {
		return false
	}
	if id.Name == "_" {
		return true
	}
	o := info.Uses[id]
	if o == nil {
		o = info.Defs[id]
	}
	v, ok := o.(*types.Var)
	if !ok {
		return false
	}
	if !deep {
		// the variable itself: local unless package level
		return v.Parent() != nil && v.Parent() != v.Pkg().Scope() && !v.IsField()
	}
	return fresh[o]
}

func (a *analyzer) purity() {
	freshFn := map[*fn]bool{}
	// returns-fresh: optimistic fixpoint
	for _, f := range a.fns {
		freshFn[f] = true
	}
	for changed := true; changed; {
		changed = false
		for _, f := range a.fns {
			if !freshFn[f] {
				continue
			}
			fl := a.freshLocals(f, f.decl.Body, freshFn)
			ok := true
			ast.Inspect(f.decl.Body, func(n ast.Node) bool {
				if _, isLit := n.(*ast.FuncLit); isLit {
					return false
				}
				r, isRet := n.(*ast.ReturnStmt)
				if !isRet {
					return true
				}
				for _, e := range r.Results {
					t := f.pkg.TypesInfo.TypeOf(e)
					if t == nil {
						continue
					}
					switch t.Underlying().(type) {
					case *types.Pointer, *types.Map, *types.Slice, *types.Interface:
					default:
						continue
					}
					switch x := ast.Unparen(e).(type) {
					case *ast.Ident:
						if x.Name == "nil" {
							continue
						}
						if !fl[f.pkg.TypesInfo.Uses[x]] {
							ok = false
						}
					case *ast.UnaryExpr:
						if id, isId := ast.Unparen(x.X).(*ast.Ident); x.Op == token.AND && isId {
							if !fl[f.pkg.TypesInfo.Uses[id]] {
								ok = false
							}
						} else if _, isCl := ast.Unparen(x.X).(*ast.CompositeLit); !(x.Op == token.AND && isCl) {
							ok = false
						}
					case *ast.CompositeLit:
					case *ast.CallExpr:
						name, o, kind := a.calleeName(f.pkg, x)
						if !(kind == "internal" && freshFn[a.byObj[o]]) && !(kind == "builtin" && (name == "make" || name == "new" || name == "append")) &&
							!(kind == "external" && pureStd[name]) {
							ok = false
						}
					default:
						ok = false
					}
				}
				return true
			})
			if !ok {
				freshFn[f] = false
				changed = true
			}
		}
	}
	// impure: pessimistic growth
	for changed := true; changed; {
		changed = false
		for _, f := range a.fns {
			if f.impure {
				continue
			}
			if why := a.impureWhy(f, f.decl.Body, freshFn); why != "" {
				f.impure = true
				changed = true
			}
		}
	}
	a.fresh = freshFn
}

// impureWhy: "" when the body stores only into memory created in the function and calls only
// pure functions.
func (a *analyzer) impureWhy(f *fn, body ast.Node, freshFn map[*fn]bool) string {
	info := f.pkg.TypesInfo
	fl := a.freshLocals(f, f.decl.Body, freshFn)
	why := ""
	set := func(s string) {
		if why == "" {
			why = s
		}
	}
	ast.Inspect(body, func(n ast.Node) bool {
		if why != "" {
			return false
		}
		switch s := n.(type) {
		case *ast.AssignStmt:
			for _, l := range s.Lhs {
				if !storeIsLocal(info, l, fl) {
					set("store to " + a.src(l))
				}
			}
		case *ast.IncDecStmt:
			if !storeIsLocal(info, s.X, fl) {
				set("store to " + a.src(s.X))
			}
		case *ast.SendStmt, *ast.GoStmt:
			set("channel or goroutine")
		case *ast.CallExpr:
			name, o, kind := a.calleeName(f.pkg, s)
			switch kind {
			case "conversion":
			case "builtin":
				if name == "delete" || name == "clear" || name == "copy" {
					if len(s.Args) > 0 && !storeIsLocal(info, s.Args[0], fl) {
						set(name + " on " + a.src(s.Args[0]))
					}
				}
				if name == "panic" || name == "print" || name == "println" || name == "close" {
					set(name)
				}
			case "internal":
				g := a.byObj[o]
				if g.impure && !a.pureOK[g.qname()] {
					set("calls " + g.qname())
				}
			case "iface":
				for _, g := range a.fns {
					if g.decl.Recv != nil && g.decl.Name.Name == o.Name() && g.impure && !a.pureOK[g.qname()] {
						set("calls " + g.qname() + " through an interface")
					}
				}
			case "external":
				if !pureStd[name] && !a.pureOK[name] {
					// methods on fresh local values (strings.Builder, bytes.Buffer …) stay local
					if sel, ok := ast.Unparen(s.Fun).(*ast.SelectorExpr); ok {
						if id, _ := rootIdent(sel.X); id != nil && fl[info.Uses[id]] {
							break
						}
					}
					set("calls " + name)
				}
			default:
				set("calls a function value " + a.src(s.Fun))
			}
		}
		return true
	})
	return why
}
