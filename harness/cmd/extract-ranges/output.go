package main

import (
	"encoding/json"
	"flag"
	"fmt"
	"go/ast"
	"go/types"
	"os"
	"sort"
	"strings"
)

type record struct {
	Pkg, Anchor, InFunc, Kind, Expr, Text, Where, Class, Effects, Note string
	KeyUsed, ValUsed                                                   bool
	Calls                                                              []string
	EffectList                                                         []string
}

var okClasses = map[string]bool{"collect-then-sort": true, "set-build": true, "commutative-write": true, "element-reset": true, "iterates-for-caller": true, "exists-test": true}

func lq(s string) string {
	var sb strings.Builder
	sb.WriteByte('"')
	for _, r := range s {
		switch r {
		case '"':
			sb.WriteString(`\"`)
		case '\\':
			sb.WriteString(`\\`)
		case '\n':
			sb.WriteString(`\n`)
		case '\t':
			sb.WriteString(`\t`)
		default:
			sb.WriteRune(r)
		}
	}
	sb.WriteByte('"')
	return sb.String()
}

func lqList(l []string) string {
	q := make([]string, len(l))
	for i, s := range l {
		q[i] = lq(s)
	}
	return "[" + strings.Join(q, ", ") + "]"
}

func lb(b bool) string {
	if b {
		return "true"
	}
	return "false"
}

func (a *analyzer) records() []record {
	var out []record
	for _, s := range a.sites {
		for _, e := range s.exprs {
			out = append(out, record{Pkg: s.f.pkg.Name, Anchor: s.f.anchor.name, InFunc: s.f.name, Kind: s.kind, Expr: e, Text: s.text, Where: a.where(s.pos),
				Class: s.class, Effects: strings.Join(s.effects, ","), Note: s.note, KeyUsed: s.keyUsed, ValUsed: s.valUsed, Calls: s.calls, EffectList: append([]string{}, s.effects...)})
		}
	}
	return out
}

var harmless = map[string]bool{"commwrite": true, "setinsert": true, "count": true, "reset": true, "callparam": true}

// matches: same package, anchor and expression, and the site has no effect beyond the harmless
// ones and those the entry permits.
func matches(al AllowSpec, r record) bool {
	if al.Pkg != r.Pkg || al.Func != r.Anchor || al.Expr != r.Expr {
		return false
	}
	for _, e := range r.EffectList {
		ok := harmless[e]
		for _, p := range al.Effects {
			if p == e {
				ok = true
			}
		}
		if !ok {
			return false
		}
	}
	return true
}

// verdict mirrors Goyang.Model.MapRanges.AllRangesJustified (for the notes only; the obligation is
// the Lean theorem).
func (a *analyzer) verdict(recs []record) (bad []string) {
	for _, r := range recs {
		if okClasses[r.Class] {
			continue
		}
		ok := false
		for _, al := range a.cfg.Allow {
			if matches(al, r) {
				ok = true
			}
		}
		if !ok {
			msg := fmt.Sprintf("UNJUSTIFIED %s %s (in %s, anchor %s): range %s  [expr %q, effects %q]", r.Pkg, r.Where, r.InFunc, r.Anchor, r.Text, r.Expr, r.Effects)
			if len(r.Calls) > 0 {
				msg += " calls " + strings.Join(r.Calls, ", ")
			}
			if r.Note != "" {
				msg += " — " + r.Note
			}
			bad = append(bad, msg)
		}
	}
	for _, al := range a.cfg.Allow {
		n := 0
		var where []string
		for _, r := range recs {
			if !okClasses[r.Class] && matches(al, r) {
				n++
				where = append(where, r.Where)
			}
		}
		if n > al.Count {
			bad = append(bad, fmt.Sprintf("TOO MANY %s %s expr %q effects %v: %d sites (%s), the allow-list covers %d — one of them is new", al.Pkg, al.Func, al.Expr, al.Effects, n,
				strings.Join(where, ", "), al.Count))
		}
		if n > 0 {
			for _, fact := range sortedKeys(al.Requires) {
				if a.sortKeys[fact] < al.Requires[fact] {
					bad = append(bad, fmt.Sprintf("FACT %q = %d, but the reason given for %s %s %q needs at least %d: %s", fact, a.sortKeys[fact], al.Pkg, al.Func, al.Expr, al.Requires[fact],
						strings.Join(a.sortWhere[fact], "; ")))
				}
			}
		}
	}
	return bad
}

func sortedKeys(m map[string]int) []string {
	var ks []string
	for k := range m {
		ks = append(ks, k)
	}
	sort.Strings(ks)
	return ks
}

func main() {
	out := flag.String("o", "", "output Lean file (default stdout)")
	repo := flag.String("repo", "", "goyang source tree (default $VERIF_REPO, else /repo)")
	dump := flag.Bool("dump", false, "print a readable listing instead of Lean")
	flag.Parse()
	if *repo == "" {
		*repo = os.Getenv("VERIF_REPO")
	}
	if *repo == "" {
		*repo = "/repo"
	}
	a := &analyzer{byObj: map[*types.Func]*fn{}, sorters: map[string]bool{}, pureOK: map[string]bool{}, sortKeys: map[string]int{}, sortWhere: map[string][]string{},
		sortSeen: map[*ast.CallExpr]bool{}, ourPkg: map[string]bool{}, summaries: map[*fn][]string{}, warmOK: map[string]bool{}, walking: map[*ast.FuncLit]bool{}, fnIx: map[*fn]*fnIndex{}, done: map[string]bool{},
		locals: map[*fn]map[types.Object]bool{}, derived: map[*fn]int{}}
	if err := json.Unmarshal(allowJSON, &a.cfg); err != nil {
		fatal("allow.json: %v", err)
	}
	for _, s := range a.cfg.Sorters {
		a.sorters[s.Func] = true
	}
	for _, s := range a.cfg.PureCalls {
		a.pureOK[s.Func] = true
	}
	for _, s := range a.cfg.Warm {
		a.warmOK[s.Func] = true
	}
	a.fset, a.pkgs = load(*repo, a.cfg.Packages)
	for _, p := range a.pkgs {
		a.ourPkg[p.PkgPath] = true
	}
	a.index()
	a.purity()
	a.computeConfined()
	a.run()
	recs := a.records()
	bad := a.verdict(recs)

	if *dump {
		for _, r := range recs {
			fmt.Printf("%-5s %-22s %-34s %-11s %-20s expr=%q effects=%q calls=%v\n      range %s   %s\n", r.Pkg, r.Where, r.InFunc+" ^"+r.Anchor, r.Kind, r.Class, r.Expr, r.Effects, r.Calls, r.Text, r.Note)
		}
		for _, k := range sortedKeys(a.sortKeys) {
			fmt.Printf("fact %q = %d   %s\n", "sortkeys "+k, a.sortKeys[k], strings.Join(a.sortWhere[k], "; "))
		}
		for _, b := range bad {
			fmt.Println(b)
		}
		return
	}

	var sb strings.Builder
	sb.WriteString("-- GENERATED by harness/cmd/extract-ranges from the Go source of pkg/yang, pkg/yangentry and the goyang command. Do not edit.\n")
	sb.WriteString("-- Regenerated by `./check C05 <tier>` on every run; harness/cmd/extract-ranges/allow.json is the reviewed input.\n")
	sb.WriteString("import Goyang.Model.MapRanges\n\nnamespace Goyang.Gen.MapRanges\nopen Goyang.Model.MapRanges\n\n")
	sb.WriteString("/-- Every iteration in (inherited) map order. -/\ndef table : List Range := [\n")
	for i, r := range recs {
		calls := make([]string, len(r.Calls))
		for k, c := range r.Calls {
			calls[k] = lq(c)
		}
		fmt.Fprintf(&sb, "  { pkg := %s, anchor := %s, inFunc := %s, kind := %s, expr := %s, text := %s,\n    keyUsed := %s, valUsed := %s, cls := %s, effects := %s, calls := [%s] }",
			lq(r.Pkg), lq(r.Anchor), lq(r.InFunc), lq(r.Kind), lq(r.Expr), lq(r.Text), lb(r.KeyUsed), lb(r.ValUsed), lq(r.Class), lqList(r.EffectList), strings.Join(calls, ", "))
		if i+1 < len(recs) {
			sb.WriteString(",")
		}
		sb.WriteString("\n")
	}
	sb.WriteString("]\n\n/-- The reviewed allow-list (allow.json): `other` sites with the reason why their order cannot reach a result. -/\ndef allow : List Allow := [\n")
	for i, al := range a.cfg.Allow {
		var req []string
		for _, k := range sortedKeys(al.Requires) {
			req = append(req, fmt.Sprintf("(%s, %d)", lq(k), al.Requires[k]))
		}
		fmt.Fprintf(&sb, "  { pkg := %s, anchor := %s, expr := %s, effects := %s, count := %d,\n    reason := %s,\n    thm := %s, requires := [%s] }",
			lq(al.Pkg), lq(al.Func), lq(al.Expr), lqList(al.Effects), al.Count, lq(al.Reason), lq(al.Theorem), strings.Join(req, ", "))
		if i+1 < len(a.cfg.Allow) {
			sb.WriteString(",")
		}
		sb.WriteString("\n")
	}
	sb.WriteString("]\n\n/-- Per element type, the least number of keys a sort comparator over slices of that type compares (99: a library order). -/\ndef facts : List Fact := [\n")
	ks := sortedKeys(a.sortKeys)
	for i, k := range ks {
		fmt.Fprintf(&sb, "  { name := %s, value := %d }", lq(k), a.sortKeys[k])
		if i+1 < len(ks) {
			sb.WriteString(",")
		}
		sb.WriteString("\n")
	}
	sb.WriteString("]\n\n/-- Calls that walk a map for the caller and are treated as harmless, with the reason. -/\ndef fineCalls : List (String × String × String × String) := [\n")
	for i, f := range a.fine {
		fmt.Fprintf(&sb, "  (%s, %s, %s, %s)", lq(f[0]), lq(f[1]), lq(f[2]), lq(f[3]))
		if i+1 < len(a.fine) {
			sb.WriteString(",")
		}
		sb.WriteString("\n")
	}
	sb.WriteString("]\n\nend Goyang.Gen.MapRanges\n")

	var notes strings.Builder
	fmt.Fprintf(&notes, "extract-ranges on %s: %d iterations in map order (%d by class, %d on the allow-list)\n", *repo, len(recs), countOK(recs), len(recs)-countOK(recs)-len(filterUnj(bad)))
	for _, r := range recs {
		fmt.Fprintf(&notes, "  %-5s %-20s %-32s %-20s %s  [%s | %s]\n", r.Pkg, r.Where, r.InFunc, r.Class, r.Text, r.Expr, r.Effects)
	}
	if len(a.cfg.Sorters) > 0 {
		notes.WriteString("treated as sorters: sort.Strings/Ints/Float64s/Slice/SliceStable/Sort/Stable, slices.Sort/SortFunc/SortStableFunc")
		for _, s := range a.cfg.Sorters {
			notes.WriteString(", " + s.Func)
		}
		notes.WriteString("\n")
	}
	notes.WriteString("treated as harmless walks of a map on the caller's behalf: fmt verbs on maps (sorted keys), encoding/json of maps (sorted keys)\n")
	if len(bad) == 0 {
		notes.WriteString("every iteration is justified\n")
	} else {
		notes.WriteString("OFFENDING SITES (map_ranges_justified will not check):\n")
		for _, b := range bad {
			notes.WriteString("  " + b + "\n")
		}
	}
	if *out == "" {
		fmt.Print(sb.String())
		fmt.Fprint(os.Stderr, notes.String())
		return
	}
	if err := os.WriteFile(*out, []byte(sb.String()), 0o644); err != nil {
		fatal("%v", err)
	}
	np := strings.TrimSuffix(strings.TrimSuffix(*out, ".new"), ".lean") + ".notes.txt"
	os.WriteFile(np, []byte(notes.String()), 0o644)
}

func countOK(recs []record) int {
	n := 0
	for _, r := range recs {
		if okClasses[r.Class] {
			n++
		}
	}
	return n
}

func filterUnj(bad []string) []string {
	var out []string
	for _, b := range bad {
		if strings.HasPrefix(b, "UNJUSTIFIED") {
			out = append(out, b)
		}
	}
	return out
}
