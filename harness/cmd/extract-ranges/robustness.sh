#!/bin/bash
# robustness.sh: evaluate the translator of the map-order obligation (Props/C05Ranges.lean) on seeded changes.
#   must break (offending site named in the notes):  the patches in MUST_BREAK, the reverts of REVERTS (where they
#                                                    still apply), variants/break-*.diff
#   must stay quiet:                                 /verif/seeded/benign/*/patch.diff, variants/quiet-*.diff
#   with OLD=<binary of an earlier translator>: every seeded (harmful) patch of every property must give the
#   same offending sites (line numbers ignored) with both translators, i.e. a refinement of the rules loses nothing.
# The verdict printed in the notes mirrors AllRangesJustified (output.go: verdict); the Lean obligation itself is
# evaluated by ./check.  Works on a scratch clone under /tmp (removed at the end); never touches /repo.
# Each patch is applied at /repo's HEAD when it applies there, else at the `head` recorded in its result.json.
set -u
export GOFLAGS=-mod=mod GOPROXY=off GOSUMDB=off GOTOOLCHAIN=local
MUST_BREAK="C05-b2 C05-e1 C05-h22 C05-k22"
REVERTS="7ac0549 1f5df27 e4590d2 1452f79 030d106 605766b 29a7051 eab0e8c aac6c98"
T=/tmp/c05ranges.$$; mkdir -p $T; trap "rm -rf $T" EXIT
(cd /verif/harness && go build -o $T/extract-ranges ./cmd/extract-ranges) || exit 2
git clone -q /repo $T/wt || exit 2
HEAD=$(git -C /repo rev-parse HEAD)
V=$(cd "$(dirname "$0")" && pwd)/variants
# digest <binary>: the offending sites of the tree in $T/wt, line numbers removed ("-" when every iteration is justified)
digest() {
  $1 -repo $T/wt -o $T/MapRanges.lean 2>$T/err.txt || { echo "EXTRACT-FAILED $(head -c 200 $T/err.txt | tr '\n' ' ')"; return; }
  if grep -q "^every iteration is justified" $T/MapRanges.notes.txt; then echo "-"; else
    sed -n '/^OFFENDING/,$p' $T/MapRanges.notes.txt | sed 1d | sed 's/\.go:[0-9]*/.go/g; s/^ *//' | cut -c1-230 | sort | tr '\n' '|'; echo; fi
}
# place <patch>: leaves the tree with the patch applied; prints the commit it was applied at, or fails
place() {
  local P=$1 H=$HEAD
  (cd $T/wt && git reset -q --hard && git clean -fdq && git checkout -q --detach $H 2>/dev/null && git apply --check $P 2>/dev/null) || \
    H=$(python3 -c "import json,sys,os; p=os.path.join(os.path.dirname(sys.argv[1]),'result.json'); print(json.load(open(p)).get('head','') if os.path.exists(p) else '')" $P 2>/dev/null)
  [ -z "$H" ] && return 1
  (cd $T/wt && git reset -q --hard && git clean -fdq && git checkout -q --detach $H 2>/dev/null && git apply $P 2>/dev/null) || return 1
  echo $H
}
declare -A BASE
base() { # digest of commit $1 without a patch
  if [ -z "${BASE[$1]:-}" ]; then (cd $T/wt && git reset -q --hard && git clean -fdq && git checkout -q --detach $1); BASE[$1]=$(digest $T/extract-ranges); fi
  echo "${BASE[$1]}"
}
PARTS=${PARTS:-"break reverts benign variants"}   # PARTS="reverts variants" ./robustness.sh runs a part only
has() { [[ " $PARTS " == *" $1 "* ]]; }
fail=0
for p in $(has break && echo $MUST_BREAK); do
  H=$(place /verif/seeded/$p/patch.diff) || { echo "must-break $p: APPLY-FAILED"; fail=1; continue; }
  r=$(digest $T/extract-ranges)
  if [ "$r" == "-" ] || [ "$r" == "$(base $H)" ]; then echo "must-break $p: NOT CAUGHT"; fail=1; else echo "must-break $p: breaks  ${r:0:300}"; fi
done
for c in $(has reverts && echo $REVERTS); do
  (cd $T/wt && git reset -q --hard && git clean -fdq && git checkout -q --detach $HEAD)
  if ! (cd $T/wt && git revert -n $c >/dev/null 2>&1); then
    (cd $T/wt && git revert --abort 2>/dev/null; git reset -q --hard $HEAD)
    # does not revert cleanly at HEAD any more: the tree just after the repair, with the repair taken back
    (cd $T/wt && git checkout -q --detach $c && git revert -n $c >/dev/null 2>&1) || { echo "revert $c: DOES NOT APPLY"; (cd $T/wt && git reset -q --hard); continue; }
    b=$(base $c); (cd $T/wt && git checkout -q --detach $c && git revert -n $c >/dev/null 2>&1)
  else b=$(base $HEAD); (cd $T/wt && git checkout -q --detach $HEAD && git revert -n $c >/dev/null 2>&1); fi
  r=$(digest $T/extract-ranges)
  if [ "$r" == "-" ] || [ "$r" == "$b" ]; then echo "revert $c: NOT CAUGHT  ($r)"; fail=1; else echo "revert $c: breaks  ${r:0:300}"; fi
  (cd $T/wt && git reset -q --hard)
done
quiet=0; alarms=0
for d in $(has benign && ls -d /verif/seeded/benign/*/); do
  [ -f $d/patch.diff ] || continue
  H=$(place $d/patch.diff) || { echo "benign $(basename $d): APPLY-FAILED"; continue; }
  r=$(digest $T/extract-ranges)
  if [ "$r" == "-" ] || [ "$r" == "$(base $H)" ]; then quiet=$((quiet+1)); else alarms=$((alarms+1)); echo "benign $(basename $d): ALARM  ${r:0:400}"; fail=1; fi
done
has benign && echo "benign: $quiet quiet, $alarms alarm"
for p in $(has variants && ls $V/break-*.diff); do
  [ -f $p ] || continue
  place $p >/dev/null || { echo "variant $(basename $p): APPLY-FAILED"; fail=1; continue; }
  (cd $T/wt && go build ./... 2>&1 | head -3)
  r=$(digest $T/extract-ranges)
  if [ "$r" == "-" ]; then echo "variant $(basename $p): NOT CAUGHT"; fail=1; else echo "variant $(basename $p): breaks  ${r:0:260}"; fi
done
for p in $(has variants && ls $V/quiet-*.diff); do
  [ -f $p ] || continue
  place $p >/dev/null || { echo "variant $(basename $p): APPLY-FAILED"; fail=1; continue; }
  (cd $T/wt && go build ./... 2>&1 | head -3)
  r=$(digest $T/extract-ranges)
  if [ "$r" == "-" ]; then echo "variant $(basename $p): quiet"; else echo "variant $(basename $p): ALARM  ${r:0:400}"; fail=1; fi
done
if [ -n "${OLD:-}" ]; then
  same=0; diff=0
  for d in /verif/seeded/C*/; do
    [ -f $d/patch.diff ] || continue
    place $d/patch.diff >/dev/null || continue
    r=$(digest $T/extract-ranges); o=$(digest $OLD)
    if [ "$r" == "$o" ]; then same=$((same+1)); else diff=$((diff+1)); echo "seeded $(basename $d): DIFFERS  new: ${r:0:300}  old: ${o:0:300}"; [ "$r" == "-" ] && fail=1; fi
  done
  echo "seeded changes of all properties, new translator against $OLD: $same same, $diff different"
fi
exit $fail
