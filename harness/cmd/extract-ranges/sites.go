package main

import (
	"fmt"
	"go/ast"
	"go/token"
	"go/types"
	"sort"
	"strconv"
	"strings"
)

// ---------- per function indexes ----------

type fnIndex struct {
	parent   map[ast.Node]ast.Node
	rangeVal map[types.Object]*ast.RangeStmt // value variable -> its range statement
	defs     map[types.Object][]ast.Expr     // every right-hand side assigned to a local variable (nil entry: unknown)
	params   map[types.Object]int            // parameter -> index
}

func (a *analyzer) indexFn(f *fn) *fnIndex {
	if ix, ok := a.fnIx[f]; ok {
		return ix
	}
	info := f.pkg.TypesInfo
	ix := &fnIndex{parent: map[ast.Node]ast.Node{}, rangeVal: map[types.Object]*ast.RangeStmt{}, defs: map[types.Object][]ast.Expr{}, params: map[types.Object]int{}}
	var stack []ast.Node
	ast.Inspect(f.decl, func(n ast.Node) bool {
		if n == nil {
			stack = stack[:len(stack)-1]
			return true
		}
		if len(stack) > 0 {
			ix.parent[n] = stack[len(stack)-1]
		}
		stack = append(stack, n)
		return true
	})
	i := 0
	for _, fl := range f.decl.Type.Params.List {
		if len(fl.Names) == 0 {
			i++
		}
		for _, n := range fl.Names {
			ix.params[info.Defs[n]] = i
			i++
		}
	}
	obj := func(id *ast.Ident) types.Object {
		if o := info.Defs[id]; o != nil {
			return o
		}
		return info.Uses[id]
	}
	ast.Inspect(f.decl.Body, func(n ast.Node) bool {
		switch s := n.(type) {
		case *ast.RangeStmt:
			if id, ok := s.Value.(*ast.Ident); ok && id.Name != "_" {
				ix.rangeVal[obj(id)] = s
				ix.defs[obj(id)] = append(ix.defs[obj(id)], nil)
			}
			if id, ok := s.Key.(*ast.Ident); ok && id.Name != "_" {
				ix.defs[obj(id)] = append(ix.defs[obj(id)], nil)
			}
		case *ast.AssignStmt:
			for i, l := range s.Lhs {
				id, ok := l.(*ast.Ident)
				if !ok || id.Name == "_" {
					continue
				}
				var rhs ast.Expr
				if len(s.Lhs) == len(s.Rhs) && s.Tok != token.ADD_ASSIGN {
					rhs = s.Rhs[i]
				}
				if len(s.Lhs) == 2 && len(s.Rhs) == 1 && i == 0 {
					if _, isLookup := ast.Unparen(s.Rhs[0]).(*ast.IndexExpr); isLookup {
						rhs = s.Rhs[0] // v, ok := m[k]
					}
				}
				ix.defs[obj(id)] = append(ix.defs[obj(id)], rhs)
			}
		case *ast.ValueSpec:
			for i, id := range s.Names {
				var rhs ast.Expr
				if i < len(s.Values) {
					rhs = s.Values[i]
				}
				if rhs != nil {
					ix.defs[obj(id)] = append(ix.defs[obj(id)], rhs)
				}
			}
		}
		return true
	})
	a.fnIx[f] = ix
	return ix
}

func qual(p *types.Package) string { return p.Name() }

func typeStr(t types.Type) string {
	if t == nil {
		return "?"
	}
	return types.TypeString(t, qual)
}

// normExpr: the origins of an expression in `Type.field` form.
func (a *analyzer) normExpr(f *fn, e ast.Expr, depth int) []string {
	info := f.pkg.TypesInfo
	ix := a.indexFn(f)
	e = ast.Unparen(e)
	if depth > 6 {
		return []string{"expr " + typeStr(info.TypeOf(e))}
	}
	switch x := e.(type) {
	case *ast.Ident:
		o := info.Uses[x]
		if o == nil {
			o = info.Defs[x]
		}
		if v, ok := o.(*types.Var); ok {
			if v.Parent() == v.Pkg().Scope() {
				return []string{v.Pkg().Name() + "." + v.Name()}
			}
			if rs, ok := ix.rangeVal[o]; ok {
				if cl, ok := ast.Unparen(rs.X).(*ast.CompositeLit); ok {
					var out []string
					for _, el := range cl.Elts {
						if kv, ok := el.(*ast.KeyValueExpr); ok {
							el = kv.Value
						}
						out = append(out, a.normExpr(f, el, depth+1)...)
					}
					if len(out) > 0 {
						return out
					}
				}
			}
			if ds := ix.defs[o]; len(ds) == 1 && ds[0] != nil {
				if _, isCall := ast.Unparen(ds[0]).(*ast.CallExpr); !isCall {
					return a.normExpr(f, ds[0], depth+1)
				}
			}
			return []string{"local " + typeStr(v.Type())}
		}
		return []string{x.Name}
	case *ast.SelectorExpr:
		if sel, ok := info.Selections[x]; ok && sel.Kind() == types.FieldVal {
			t := sel.Recv()
			if p, ok := t.(*types.Pointer); ok {
				t = p.Elem()
			}
			if n, ok := t.(*types.Named); ok {
				return []string{n.Obj().Name() + "." + x.Sel.Name}
			}
			var out []string
			for _, b := range a.normExpr(f, x.X, depth+1) {
				out = append(out, b+"."+x.Sel.Name)
			}
			return out
		}
		if o, ok := info.Uses[x.Sel].(*types.Var); ok && o.Pkg() != nil {
			return []string{o.Pkg().Name() + "." + o.Name()}
		}
	case *ast.IndexExpr:
		var out []string
		for _, b := range a.normExpr(f, x.X, depth+1) {
			out = append(out, b+"[]")
		}
		return out
	case *ast.StarExpr:
		return a.normExpr(f, x.X, depth+1)
	case *ast.CallExpr:
		name, _, kind := a.calleeName(f.pkg, x)
		if kind == "external" && (name == "maps.Keys" || name == "maps.Values" || name == "maps.All") && len(x.Args) == 1 {
			return a.normExpr(f, x.Args[0], depth+1)
		}
		if kind == "conversion" && len(x.Args) == 1 {
			return a.normExpr(f, x.Args[0], depth+1)
		}
		if name != "" {
			return []string{"call " + name}
		}
	}
	return []string{"expr " + typeStr(info.TypeOf(e))}
}

func isMapType(t types.Type) bool {
	if t == nil {
		return false
	}
	_, ok := t.Underlying().(*types.Map)
	return ok
}

// ---------- classification of a loop body ----------

type target struct {
	obj types.Object
	pos token.Pos
}

type classifier struct {
	a        *analyzer
	f        *fn
	info     *types.Info
	loopVars map[types.Object]bool
	keyObjs  map[types.Object]bool
	counters map[types.Object]bool // outer integer variables the body increments
	idxObj   types.Object          // index variable of an inherited (slice) walk
	inner    map[types.Object]bool
	fresh    map[types.Object]bool
	effects  map[string]bool
	calls    map[string]bool
	targets  []target
	resets   map[string]map[string]bool
	closure  bool // the body is a closure called once per element: `return` only ends the element
	lo, hi   token.Pos
	spans    [][2]token.Pos        // closures defined outside the body but run inside it: their own variables are temporaries too
	summary  bool                  // the body is a whole function (effect summary of a helper)
	local    map[types.Object]bool // call-local objects of f (local.go)
	adopted  map[types.Object]bool // (U2) buffers declared outside the body that the body resets first
	recvObj  types.Object          // summary of a receiver-confined method: its receiver
	tag      string                // "recv:" while an effect through an owned path of recvObj is recorded
	argOf    map[types.Object]int  // summary: the struct-pointer parameters that are never assigned (receiver: -1)
}

// argTag: (P1) in the summary of a function, a store through a path rooted at one of its parameters
// (receiver included) that points to a struct and is never assigned is tagged `arg<i>:`; the caller decides.
func (c *classifier) argTag(e ast.Expr) string {
	if !c.summary || c.argOf == nil {
		return ""
	}
	id, deep := rootIdent(e)
	if id == nil || !deep {
		return ""
	}
	if i, ok := c.argOf[c.obj(id)]; ok {
		return fmt.Sprintf("arg%d:", i)
	}
	return ""
}

// freshInside: e is `v` or `&v` for a fresh local v declared inside the body (one new object per element).
func (c *classifier) freshInside(e ast.Expr) bool {
	e = ast.Unparen(e)
	if u, ok := e.(*ast.UnaryExpr); ok && u.Op == token.AND {
		e = ast.Unparen(u.X)
	}
	id, ok := e.(*ast.Ident)
	if !ok {
		return false
	}
	o := c.obj(id)
	return o != nil && c.declaredInside(o) && c.fresh[o]
}

// actual: the expression handed over for parameter i (-1: the receiver) of the call x.
func actual(x *ast.CallExpr, g *fn, i int) ast.Expr {
	if x == nil {
		return nil
	}
	if i < 0 {
		if sel, ok := ast.Unparen(x.Fun).(*ast.SelectorExpr); ok && g.decl.Recv != nil {
			return sel.X
		}
		return nil
	}
	if g.decl.Type.Params != nil && g.decl.Type.Params.NumFields() == len(x.Args) && i < len(x.Args) && !x.Ellipsis.IsValid() {
		n := 0
		for _, fl := range g.decl.Type.Params.List {
			if _, variadic := fl.Type.(*ast.Ellipsis); variadic && n <= i {
				if n+max(len(fl.Names), 1) > i {
					return nil
				}
			}
			n += max(len(fl.Names), 1)
		}
		return x.Args[i]
	}
	return nil
}

func (c *classifier) eff(s string) { c.effects[c.tag+s] = true }

// localObj: (U1) a call-local object with one incarnation per element.
func (c *classifier) localObj(o types.Object) bool {
	return o != nil && c.local[o] && c.declaredInside(o)
}

// pathTag: the store through e is local ("local"), goes through an owned path of the receiver of a
// receiver-confined method ("recv:"), or is an effect like any other ("").
func (c *classifier) pathTag(e ast.Expr) string {
	id, _ := rootIdent(e)
	if id == nil {
		return ""
	}
	o := c.obj(id)
	if o == nil || !ownedPath(c.info, e, o, true) {
		return ""
	}
	if c.localObj(o) {
		return "local"
	}
	if c.recvObj != nil && o == c.recvObj {
		return "recv:"
	}
	return ""
}

func (c *classifier) obj(id *ast.Ident) types.Object {
	if o := c.info.Defs[id]; o != nil {
		return o
	}
	return c.info.Uses[id]
}

func (c *classifier) declaredInside(o types.Object) bool {
	if o == nil || c.loopVars[o] {
		return false
	}
	if (o.Pos() >= c.lo && o.Pos() < c.hi) || c.adopted[o] {
		return true
	}
	for _, sp := range c.spans {
		if o.Pos() >= sp[0] && o.Pos() < sp[1] {
			return true
		}
	}
	return false
}

func isConstLike(info *types.Info, e ast.Expr) bool {
	e = ast.Unparen(e)
	if tv, ok := info.Types[e]; ok && tv.Value != nil {
		return true
	}
	switch x := e.(type) {
	case *ast.Ident:
		return x.Name == "nil" || x.Name == "true" || x.Name == "false"
	case *ast.BasicLit:
		return true
	case *ast.CompositeLit:
		return len(x.Elts) == 0
	}
	return false
}

// mentionsLoopVarOutside: does e use a loop variable other than inside copies of `except`?
func (c *classifier) mentionsLoopVarOutside(e ast.Expr, except string) bool {
	found := false
	var walk func(n ast.Node) bool
	walk = func(n ast.Node) bool {
		if found || n == nil {
			return false
		}
		if ex, ok := n.(ast.Expr); ok && except != "" && c.a.src(ex) == except {
			return false
		}
		if id, ok := n.(*ast.Ident); ok {
			if o := c.obj(id); o != nil && (c.loopVars[o] || c.declaredInside(o)) {
				found = true
			}
		}
		return true
	}
	ast.Inspect(e, walk)
	return found
}

func (c *classifier) expr(e ast.Expr) {
	if e == nil {
		return
	}
	ast.Inspect(e, func(n ast.Node) bool {
		switch x := n.(type) {
		case *ast.FuncLit:
			sub := *c
			sub.closure = true
			sub.block(x.Body, 0)
			return false
		case *ast.CallExpr:
			c.call(x, false)
		}
		return true
	})
}

// call records what a call inside the body means. stmt: the call is a statement of its own.
func (c *classifier) call(x *ast.CallExpr, stmt bool) {
	name, o, kind := c.a.calleeName(c.f.pkg, x)
	switch kind {
	case "conversion":
	case "builtin":
		switch name {
		case "delete":
			if id, _ := rootIdent(x.Args[0]); id != nil && !c.declaredInside(c.obj(id)) {
				c.eff("setinsert")
			}
		case "clear", "copy":
			if id, _ := rootIdent(x.Args[0]); id == nil || !c.declaredInside(c.obj(id)) {
				c.eff("other:" + name)
			}
		case "panic", "print", "println", "close", "recover":
			c.eff("earlyexit")
		}
	case "funcvalue":
		if id, ok := ast.Unparen(x.Fun).(*ast.Ident); ok {
			ob := c.obj(id)
			if _, isParam := c.a.indexFn(c.f).params[ob]; isParam {
				c.eff("callparam")
				c.a.noteHelper(c.f, ob.(*types.Var))
				return
			}
			// a closure defined in the enclosing function: its body was or will be walked where defined
			if ds := c.a.indexFn(c.f).defs[ob]; len(ds) == 1 && ds[0] != nil {
				if fl, ok := ast.Unparen(ds[0]).(*ast.FuncLit); ok {
					if c.a.walking[fl] {
						return
					}
					c.a.walking[fl] = true
					sub := *c
					sub.closure = true
					sub.spans = append(append([][2]token.Pos{}, c.spans...), [2]token.Pos{fl.Pos(), fl.End()})
					sub.block(fl.Body, 0)
					delete(c.a.walking, fl)
					return
				}
			}
		}
		c.eff("callfuncvalue")
		c.calls[c.a.src(x.Fun)] = true
	case "internal":
		g := c.a.byObj[o]
		if g == c.f && c.f.helperParam != nil && !c.summary {
			for _, arg := range x.Args {
				if id, ok := ast.Unparen(arg).(*ast.Ident); ok && c.obj(id) == c.f.helperParam {
					c.eff("callparam")
					return
				}
			}
		}
		c.callInternal(g, c.recvMode(x, g), x)
	case "iface":
		for _, g := range c.a.fns {
			if g.decl.Recv != nil && g.decl.Name.Name == o.Name() {
				c.callInternal(g, "", nil)
			}
		}
	case "external":
		if sortFuncs[name] && len(x.Args) > 0 {
			// sorting introduces no order of its own and is idempotent
			c.a.recordSort(c.f, x)
			return
		}
		if pureStd[name] || c.a.pureOK[name] {
			return
		}
		if sel, ok := ast.Unparen(x.Fun).(*ast.SelectorExpr); ok {
			if id, _ := rootIdent(sel.X); id != nil {
				ob := c.obj(id)
				inBody := c.declaredInside(ob) && c.fresh[ob]
				if isBufferType(c.info.TypeOf(sel.X)) {
					// the listed buffer types: only the methods that touch the receiver alone
					if bufMethods[sel.Sel.Name] {
						if inBody {
							return
						}
						switch c.pathTag(sel.X) {
						case "local":
							return
						case "recv:":
							c.calls[name] = true
							c.effects["recv:call:"+name] = true
							return
						}
					}
				} else if inBody {
					return // method of a value created in the body
				}
			}
		}
		if writerFuncs[name] && len(x.Args) > 0 {
			// printing into a call-local buffer of the body
			w := ast.Unparen(x.Args[0])
			if u, ok := w.(*ast.UnaryExpr); ok && u.Op == token.AND {
				w = ast.Unparen(u.X)
			}
			if id, ok := w.(*ast.Ident); ok && isBufferType(c.info.TypeOf(id)) && c.localObj(c.obj(id)) {
				return
			}
		}
		c.calls[name] = true
		c.eff("call:" + name)
	default:
		c.eff("callfuncvalue")
		c.calls[c.a.src(x.Fun)] = true
	}
}

// callInternal: a pure callee leaves no trace; an exported one is named (its name is stable);
// an unexported helper contributes what its own body does.
// mode: "local" the call is `v.m(…)` on a call-local object of the body and m is receiver-confined
// (what m does to its receiver is no effect), "recv" the same on the receiver of the confined
// method that is being summarised (stays tagged), "" anything else.
func (c *classifier) callInternal(g *fn, mode string, x *ast.CallExpr) {
	if !g.impure || c.a.pureOK[g.qname()] {
		return
	}
	if c.a.warmOK[g.qname()] && !c.summary && c.a.warmedBefore(c.f, g, c.lo) {
		return
	}
	c.calls[g.qname()] = true
	if exportedFn(g) && mode == "" {
		c.eff("call:" + g.qname())
		return
	}
	for _, e := range c.a.summaryOf(g) {
		if strings.HasPrefix(e, "recv:") {
			switch mode {
			case "local":
			case "recv":
				c.effects[e] = true
			default:
				if c.freshInside(actual(x, g, -1)) {
					continue // (P2) the receiver is a new object of this element
				}
				c.eff(strings.TrimPrefix(e, "recv:"))
			}
			continue
		}
		if strings.HasPrefix(e, "arg") {
			if k := strings.Index(e, ":"); k > 3 {
				if i, err := strconv.Atoi(e[3:k]); err == nil {
					rest, act := e[k+1:], actual(x, g, i)
					switch {
					case act != nil && c.freshInside(act):
						// (P2) stores through a parameter that stands for a new object of this element
					case act != nil && c.argTag(&ast.StarExpr{X: act}) != "":
						c.effects[c.argTag(&ast.StarExpr{X: act})+rest] = true // handed on: the caller's caller decides
					default:
						c.eff(rest)
					}
					continue
				}
			}
		}
		c.eff(e)
	}
}

// recvMode: see callInternal.
func (c *classifier) recvMode(x *ast.CallExpr, g *fn) string {
	if !c.a.confined[g] {
		return ""
	}
	sel, ok := ast.Unparen(x.Fun).(*ast.SelectorExpr)
	if !ok {
		return ""
	}
	if s := c.info.Selections[sel]; s == nil || s.Kind() != types.MethodVal || len(s.Index()) != 1 {
		return ""
	}
	// the receiver expression: the object itself or a struct-valued field on an owned path
	if t := c.info.TypeOf(sel.X); t != nil {
		if _, isPtr := t.Underlying().(*types.Pointer); isPtr {
			if _, isId := ast.Unparen(sel.X).(*ast.Ident); !isId {
				return ""
			}
		}
	}
	if _, isIx := ast.Unparen(sel.X).(*ast.IndexExpr); isIx {
		return ""
	}
	switch c.pathTag(sel.X) {
	case "local":
		return "local"
	case "recv:":
		return "recv"
	}
	return ""
}

// summaryOf: the effects of a whole function body, its parameters standing for the element.
func (a *analyzer) summaryOf(g *fn) []string {
	if s, ok := a.summaries[g]; ok {
		return s
	}
	a.summaries[g] = nil // recursion: what the function does besides calling itself
	info := g.pkg.TypesInfo
	c := &classifier{a: a, f: g, info: info, loopVars: map[types.Object]bool{}, keyObjs: map[types.Object]bool{}, counters: map[types.Object]bool{},
		effects: map[string]bool{}, calls: map[string]bool{}, resets: map[string]map[string]bool{}, closure: true, summary: true, lo: g.decl.Body.Pos(), hi: g.decl.Body.End()}
	for o := range a.indexFn(g).params {
		c.loopVars[o] = true
	}
	if g.decl.Recv != nil {
		for _, fl := range g.decl.Recv.List {
			for _, n := range fl.Names {
				c.loopVars[info.Defs[n]] = true
			}
		}
	}
	if g.decl.Type.Results != nil {
		for _, fl := range g.decl.Type.Results.List {
			for _, n := range fl.Names {
				c.loopVars[info.Defs[n]] = true
			}
		}
	}
	c.fresh = a.freshLocals(g, g.decl.Body, a.fresh)
	c.local = a.callLocals(g)
	c.recvObj = a.recvObj[g] // nil unless g is receiver-confined
	c.argOf = map[types.Object]int{}
	ptrStruct := func(o types.Object) bool {
		if o == nil || len(a.indexFn(g).defs[o]) != 0 {
			return false
		}
		p, ok := o.Type().Underlying().(*types.Pointer)
		if !ok {
			return false
		}
		_, ok = p.Elem().Underlying().(*types.Struct)
		return ok
	}
	for o, i := range a.indexFn(g).params {
		if ptrStruct(o) {
			c.argOf[o] = i
		}
	}
	if g.decl.Recv != nil && len(g.decl.Recv.List) == 1 && len(g.decl.Recv.List[0].Names) == 1 {
		if o := info.Defs[g.decl.Recv.List[0].Names[0]]; ptrStruct(o) {
			c.argOf[o] = -1
		}
	}
	c.block(g.decl.Body, 0)
	var out []string
	for e := range c.effects {
		if e == "callparam" {
			e = "callfuncvalue"
		}
		out = append(out, e)
	}
	sort.Strings(out)
	a.summaries[g] = out
	return out
}

func unconv(e ast.Expr) ast.Expr {
	for {
		e = ast.Unparen(e)
		if c, ok := e.(*ast.CallExpr); ok && len(c.Args) == 1 {
			if _, isIdent := ast.Unparen(c.Fun).(*ast.Ident); isIdent {
				e = c.Args[0]
				continue
			}
		}
		return e
	}
}

func sameExpr(a *analyzer, x, y ast.Expr) bool { return a.src(x) == a.src(y) }

func (c *classifier) assign(s *ast.AssignStmt) {
	for i, lhs := range s.Lhs {
		var rhs ast.Expr
		if len(s.Lhs) == len(s.Rhs) {
			rhs = s.Rhs[i]
		}
		lhs = ast.Unparen(lhs)
		c.tag = ""
		if _, isId := lhs.(*ast.Ident); !isId {
			switch c.pathTag(lhs) {
			case "local":
				continue // (U1) a store into a call-local object of the body
			case "recv:":
				c.tag = "recv:"
			default:
				c.tag = c.argTag(lhs)
			}
		}
		switch l := lhs.(type) {
		case *ast.Ident:
			if l.Name == "_" {
				continue
			}
			o := c.obj(l)
			if s.Tok == token.DEFINE || c.declaredInside(o) || c.loopVars[o] {
				continue // a temporary of the body
			}
			if v, ok := o.(*types.Var); ok && c.closure && v.Pos() >= c.lo && v.Pos() < c.hi {
				continue
			}
			_, isSlice := o.Type().Underlying().(*types.Slice)
			if call, ok := ast.Unparen(rhs).(*ast.CallExpr); ok && isSlice && s.Tok == token.ASSIGN {
				name, g, kind := c.a.calleeName(c.f.pkg, call)
				usesSelf := false
				for _, arg := range call.Args {
					if id, ok := ast.Unparen(arg).(*ast.Ident); ok && c.obj(id) == o {
						usesSelf = true
					}
				}
				if usesSelf && ((kind == "builtin" && name == "append") || (kind == "internal" && !c.a.byObj[g].impure)) {
					c.eff("append" + typeStr(o.Type()))
					c.targets = append(c.targets, target{o, s.Pos()})
					continue
				}
			}
			if b, ok := o.Type().Underlying().(*types.Basic); ok && b.Info()&types.IsNumeric != 0 &&
				(s.Tok == token.ADD_ASSIGN || s.Tok == token.SUB_ASSIGN || s.Tok == token.OR_ASSIGN || s.Tok == token.AND_ASSIGN || s.Tok == token.XOR_ASSIGN) {
				c.eff("count")
				continue
			}
			c.eff("outerassign")
		case *ast.IndexExpr:
			id, _ := rootIdent(l.X)
			if id != nil && c.declaredInside(c.obj(id)) && c.fresh[c.obj(id)] {
				continue
			}
			bt := c.info.TypeOf(l.X)
			if isMapType(bt) {
				if s.Tok != token.ASSIGN {
					if b, ok := c.info.TypeOf(l).Underlying().(*types.Basic); ok && b.Info()&types.IsNumeric != 0 {
						c.eff("count")
					} else {
						c.eff("other:mapupdate")
					}
					continue
				}
				kid, isId := ast.Unparen(l.Index).(*ast.Ident)
				switch {
				case isId && c.keyObjs[c.obj(kid)]:
					c.eff("commwrite")
				case rhs != nil && isConstLike(c.info, rhs):
					c.eff("setinsert")
				case rhs != nil && !c.mentionsLoopVarOutside(rhs, c.a.src(l.Index)):
					c.eff("setinsert") // a function of the inserted key (and of loop-invariant values) only
				case rhs != nil && c.memoised(l, rhs):
					c.eff("setinsert") // a cache: the value stored under a key is a function of the key
				default:
					if call, ok := ast.Unparen(rhs).(*ast.CallExpr); ok {
						if n, _, k := c.a.calleeName(c.f.pkg, call); k == "builtin" && n == "append" && len(call.Args) > 0 && sameExpr(c.a, call.Args[0], l) {
							c.eff("other:multimap")
							continue
						}
					}
					c.eff("other:mapwrite-last-wins")
				}
				continue
			}
			// slice element: filled at the index of the walk, or at a counter the body increments
			if iid, ok := ast.Unparen(l.Index).(*ast.Ident); ok && id != nil && ((c.idxObj != nil && c.obj(iid) == c.idxObj) || c.counters[c.obj(iid)]) {
				c.eff("fill" + typeStr(c.info.TypeOf(l.X)))
				c.targets = append(c.targets, target{c.obj(id), s.Pos()})
				continue
			}
			c.eff("other:indexwrite")
		case *ast.SelectorExpr, *ast.StarExpr:
			id, _ := rootIdent(l)
			var o types.Object
			if id != nil {
				o = c.obj(id)
			}
			if o != nil && c.declaredInside(o) && c.fresh[o] {
				continue
			}
			field := strings.Join(c.a.normExpr(c.f, l, 0), "|")
			if o != nil && c.loopVars[o] && rhs != nil && (isConstLike(c.info, rhs) || c.isObj(rhs, o)) && s.Tok == token.ASSIGN {
				c.eff("reset")
				if c.resets[field] == nil {
					c.resets[field] = map[string]bool{}
				}
				c.resets[field][c.a.src(rhs)] = true
				continue
			}
			// element of a nested walk over the element's own lists
			if o != nil && c.elementDerived(o) && rhs != nil && isConstLike(c.info, rhs) && s.Tok == token.ASSIGN {
				c.eff("reset")
				if c.resets[field] == nil {
					c.resets[field] = map[string]bool{}
				}
				c.resets[field][c.a.src(rhs)] = true
				continue
			}
			if call, ok := ast.Unparen(rhs).(*ast.CallExpr); ok {
				if n, _, k := c.a.calleeName(c.f.pkg, call); k == "builtin" && n == "append" {
					c.eff("fieldappend:" + field)
					continue
				}
			}
			c.eff("fieldwrite:" + field)
		default:
			c.eff("other:store")
		}
	}
	c.tag = ""
	for _, r := range s.Rhs {
		c.expr(r)
	}
	for _, l := range s.Lhs {
		if ix, ok := ast.Unparen(l).(*ast.IndexExpr); ok {
			c.expr(ix.Index)
		}
	}
}

// memoised: `m[K] = v` for a local v all of whose definitions are the lookup `m[K]` itself or an
// expression in K and loop-invariant values.
func (c *classifier) memoised(l *ast.IndexExpr, rhs ast.Expr) bool {
	id, ok := ast.Unparen(rhs).(*ast.Ident)
	if !ok {
		return false
	}
	o := c.obj(id)
	if o == nil || !c.declaredInside(o) {
		return false
	}
	defs := c.a.indexFn(c.f).defs[o]
	if len(defs) == 0 {
		return false
	}
	key := c.a.src(l.Index)
	for _, d := range defs {
		if d == nil {
			return false
		}
		if ix, ok := ast.Unparen(d).(*ast.IndexExpr); ok && c.a.src(ix.X) == c.a.src(l.X) && c.a.src(ix.Index) == key {
			continue
		}
		if c.mentionsLoopVarOutside(d, key) {
			return false
		}
	}
	return true
}

func (c *classifier) isObj(e ast.Expr, o types.Object) bool {
	id, ok := ast.Unparen(e).(*ast.Ident)
	return ok && c.obj(id) == o
}

// elementDerived: a variable of a nested range over something reachable from a loop variable.
func (c *classifier) elementDerived(o types.Object) bool {
	rs, ok := c.a.indexFn(c.f).rangeVal[o]
	if !ok || rs.Pos() < c.lo || rs.Pos() >= c.hi {
		return false
	}
	x := rs.X
	// a method of the element that hands out one of its lists
	if call, ok := ast.Unparen(x).(*ast.CallExpr); ok {
		if sel, ok := ast.Unparen(call.Fun).(*ast.SelectorExpr); ok && len(call.Args) == 0 {
			if _, o, kind := c.a.calleeName(c.f.pkg, call); kind == "internal" && !c.a.byObj[o].impure {
				x = sel.X
			}
		}
	}
	id, _ := rootIdent(x)
	if id == nil {
		return false
	}
	r := c.obj(id)
	return c.loopVars[r] || c.elementDerived(r)
}

func (c *classifier) block(b *ast.BlockStmt, depth int) {
	if b == nil {
		return
	}
	for _, s := range b.List {
		c.stmt(s, depth)
	}
}

// stmt walks one statement; depth counts enclosing for/switch/select inside the body (a plain
// `break` there does not leave the walk).
func (c *classifier) stmt(s ast.Stmt, depth int) {
	switch x := s.(type) {
	case nil:
	case *ast.BlockStmt:
		c.block(x, depth)
	case *ast.ExprStmt:
		if call, ok := ast.Unparen(x.X).(*ast.CallExpr); ok {
			c.call(call, true)
			for _, arg := range call.Args {
				c.expr(arg)
			}
			if sel, ok := ast.Unparen(call.Fun).(*ast.SelectorExpr); ok {
				c.expr(sel.X)
			}
		} else {
			c.expr(x.X)
		}
	case *ast.AssignStmt:
		c.assign(x)
	case *ast.IncDecStmt:
		id, deep := rootIdent(x.X)
		switch {
		case id != nil && c.declaredInside(c.obj(id)):
		case id != nil && !deep:
			c.eff("count")
		case c.pathTag(x.X) == "recv:":
			c.effects["recv:count"] = true
		case isMapType(func() types.Type {
			if ix, ok := ast.Unparen(x.X).(*ast.IndexExpr); ok {
				return c.info.TypeOf(ix.X)
			}
			return nil
		}()):
			c.eff("count")
		default:
			c.tag = c.argTag(x.X)
			c.eff("fieldwrite:" + strings.Join(c.a.normExpr(c.f, x.X, 0), "|"))
			c.tag = ""
		}
	case *ast.DeclStmt:
		if gd, ok := x.Decl.(*ast.GenDecl); ok {
			for _, sp := range gd.Specs {
				if vs, ok := sp.(*ast.ValueSpec); ok {
					for _, v := range vs.Values {
						c.expr(v)
					}
				}
			}
		}
	case *ast.IfStmt:
		if c.extremum(x) {
			c.eff("count") // a running minimum / maximum: commutative and idempotent
			return
		}
		c.stmt(x.Init, depth)
		c.expr(x.Cond)
		c.block(x.Body, depth)
		c.stmt(x.Else, depth)
	case *ast.SwitchStmt:
		c.stmt(x.Init, depth)
		c.expr(x.Tag)
		for _, cl := range x.Body.List {
			cc := cl.(*ast.CaseClause)
			for _, e := range cc.List {
				c.expr(e)
			}
			for _, st := range cc.Body {
				c.stmt(st, depth+1)
			}
		}
	case *ast.TypeSwitchStmt:
		c.stmt(x.Init, depth)
		c.stmt(x.Assign, depth)
		for _, cl := range x.Body.List {
			for _, st := range cl.(*ast.CaseClause).Body {
				c.stmt(st, depth+1)
			}
		}
	case *ast.ForStmt:
		c.stmt(x.Init, depth)
		c.expr(x.Cond)
		c.stmt(x.Post, depth)
		c.block(x.Body, depth+1)
	case *ast.RangeStmt:
		c.expr(x.X)
		if isMapType(c.info.TypeOf(x.X)) {
			if id, ok := x.Key.(*ast.Ident); ok && id.Name != "_" {
				c.keyObjs[c.obj(id)] = true // (outer key, inner key) is unique per iteration
			}
		}
		c.block(x.Body, depth+1)
	case *ast.BranchStmt:
		switch {
		case x.Tok == token.CONTINUE && x.Label == nil:
		case x.Tok == token.BREAK && x.Label == nil && depth > 0:
		case x.Tok == token.CONTINUE && depth > 0:
			// labelled continue of an inner loop or of the walk itself: ends this element only
		case x.Tok == token.FALLTHROUGH:
		default:
			c.eff("earlyexit")
		}
	case *ast.ReturnStmt:
		allConst := true
		for _, r := range x.Results {
			c.expr(r)
			if !isConstLike(c.info, r) {
				allConst = false
			}
		}
		if !c.closure {
			if allConst {
				c.eff("earlyexit-const") // the answer does not say which element ended the search
			} else {
				c.eff("earlyexit")
			}
		}
	case *ast.LabeledStmt:
		c.stmt(x.Stmt, depth)
	case *ast.EmptyStmt:
	default:
		c.eff(fmt.Sprintf("other:%T", s))
	}
}

// extremum: `if [!ok ||] E > x { x[, ok] = E[, true] }` for a scalar E: keeps the greatest (least)
// value met, whatever the order.
func (c *classifier) extremum(x *ast.IfStmt) bool {
	if x.Init != nil || x.Else != nil || len(x.Body.List) != 1 {
		return false
	}
	as, ok := x.Body.List[0].(*ast.AssignStmt)
	if !ok || as.Tok != token.ASSIGN || len(as.Lhs) != len(as.Rhs) {
		return false
	}
	var acc types.Object
	var val string
	for i, l := range as.Lhs {
		id, ok := ast.Unparen(l).(*ast.Ident)
		if !ok {
			return false
		}
		o := c.obj(id)
		if o == nil || c.declaredInside(o) {
			return false
		}
		if isConstLike(c.info, as.Rhs[i]) {
			continue // a flag
		}
		b, isBasic := o.Type().Underlying().(*types.Basic)
		if !isBasic || b.Info()&(types.IsNumeric|types.IsString) == 0 || acc != nil {
			return false
		}
		acc, val = o, c.a.src(as.Rhs[i])
	}
	if acc == nil {
		return false
	}
	found, clean := false, true
	var walk func(e ast.Expr)
	walk = func(e ast.Expr) {
		switch b := ast.Unparen(e).(type) {
		case *ast.BinaryExpr:
			switch b.Op {
			case token.LOR:
				walk(b.X)
				walk(b.Y)
				return
			case token.LSS, token.GTR, token.LEQ, token.GEQ:
				xs, ys := c.a.src(b.X), c.a.src(b.Y)
				xi, _ := ast.Unparen(b.X).(*ast.Ident)
				yi, _ := ast.Unparen(b.Y).(*ast.Ident)
				if (xs == val && yi != nil && c.obj(yi) == acc) || (ys == val && xi != nil && c.obj(xi) == acc) {
					found = true
					return
				}
			}
		case *ast.UnaryExpr:
			if id, ok := ast.Unparen(b.X).(*ast.Ident); ok && b.Op == token.NOT && !c.declaredInside(c.obj(id)) {
				return // `!ok`
			}
		}
		clean = false
	}
	walk(x.Cond)
	return found && clean
}

var okEffects = map[string]bool{"commwrite": true, "setinsert": true, "count": true, "reset": true, "callparam": true}

func effectOK(e string) bool {
	return okEffects[e] || strings.HasPrefix(e, "append") || strings.HasPrefix(e, "fill")
}

// classify fills class, effects, calls of s from its body; returns the slices filled in walk order.
func (a *analyzer) classify(s *site, body *ast.BlockStmt, loopVars []types.Object, keyObj, idxObj types.Object, closure bool) []target {
	c := &classifier{a: a, f: s.f, info: s.f.pkg.TypesInfo, loopVars: map[types.Object]bool{}, keyObjs: map[types.Object]bool{}, counters: map[types.Object]bool{}, idxObj: idxObj,
		effects: map[string]bool{}, calls: map[string]bool{}, resets: map[string]map[string]bool{}, closure: closure, lo: body.Pos(), hi: body.End()}
	for _, o := range loopVars {
		if o != nil {
			c.loopVars[o] = true
		}
	}
	if keyObj != nil {
		c.keyObjs[keyObj] = true
	}
	ast.Inspect(body, func(n ast.Node) bool {
		if inc, ok := n.(*ast.IncDecStmt); ok && inc.Tok == token.INC {
			if id, ok := ast.Unparen(inc.X).(*ast.Ident); ok {
				if o := c.obj(id); o != nil && !c.declaredInside(o) {
					c.counters[o] = true
				}
			}
		}
		return true
	})
	c.fresh = a.freshLocals(s.f, body, a.fresh)
	c.local = a.callLocals(s.f)
	c.adopted = a.adoptBuffers(s.f, body)
	for o := range c.adopted {
		c.fresh[o] = true
	}
	c.block(body, 0)
	for field, vals := range c.resets {
		if len(vals) > 1 {
			c.eff("other:two-values-for-" + field)
		}
	}
	s.effects = s.effects[:0]
	for e := range c.effects {
		s.effects = append(s.effects, e)
	}
	sort.Strings(s.effects)
	s.calls = s.calls[:0]
	for n := range c.calls {
		s.calls = append(s.calls, n)
	}
	sort.Strings(s.calls)
	bad := false
	has := func(p string) bool {
		for _, e := range s.effects {
			if e == p || (strings.HasSuffix(p, "*") && strings.HasPrefix(e, strings.TrimSuffix(p, "*"))) {
				return true
			}
		}
		return false
	}
	for _, e := range s.effects {
		if !effectOK(e) {
			bad = true
		}
	}
	switch {
	case len(s.effects) == 1 && s.effects[0] == "earlyexit-const":
		s.class = "exists-test"
	case bad:
		s.class = "other"
	case has("callparam"):
		s.class = "iterates-for-caller"
	case has("append*") || has("fill*"):
		s.class = "collect-then-sort" // provisional: the taint pass turns it into `other` when a slice escapes unsorted
	case has("commwrite"):
		s.class = "commutative-write"
	case has("reset"):
		s.class = "element-reset"
	default:
		s.class = "set-build" // inserts, counts, or nothing at all
	}
	if s.class == "other" {
		return nil
	}
	return c.targets
}
