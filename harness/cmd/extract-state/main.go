// extract-state: translator for property C18 (carried state of a Modules value).
//
// The session model of C18 (Goyang/Model/Session.lean) keeps ONE thing between calls: the
// registry.  Process is `processAll reg …`, recomputed from nothing.  A yang.Modules value keeps
// much more (dictionaries, caches, links, memoised results, AST fields that Process writes).  This
// tool re-derives from the current source of pkg/yang (go/packages: syntax + types), on every
// run, the inventory of that state and how Process disposes of it, and writes it as a Lean table
// (Goyang/Gen/State.lean) over which `carried_state_justified` is evaluated by the kernel:
//
//	(a) fields: every field of the infrastructure structs reachable from *Modules (Modules,
//	    typeDictionary, identityDictionary, ...: all their fields), and every field of any other
//	    struct reachable from *Modules (AST nodes, ...) that is written after construction
//	    (an assignment, map insert / delete, append, clear, ++ outside the reflective builder
//	    in ast.go and not on an object the writing function has just allocated).  Types that can
//	    only hang off a derived field (Entry and what it owns: the declared OWNED types) are not
//	    listed field by field; the ownership claim itself is checked structurally.
//	(b) per field: the functions that write it, the number of reads in package yang.
//	(c) per field: what the PROLOGUE of Modules.Process does to it.  The prologue is what Process
//	    runs before the linking pass (allow.json: "linking_pass") starts: its top-level statements
//	    before the first one that contains a call of the linking pass; when the first statement
//	    that can reach the linking pass is a plain call of a function of the package (`f(...)`,
//	    `x := f(...)`, `return f(...)`), the statements before it and then the prologue of f
//	    (depth <= 4).  The walker ENTERS (depth <= 6, no recursion) every call of
//	      - a function or method of the package (not through an interface);
//	      - a function literal called on the spot, a local variable defined with a function literal
//	        and never assigned again, a function-valued parameter whose argument is one of these or
//	        a function of the package (an all-modules iterator `ms.each(func(m *Module) {...})`),
//	    and takes along what the variables stand for (WHAT IS RESET) and the circumstances under
//	    which the statement runs (WHEN).
//	    WHAT.  A variable stands for
//	      root     the Modules value or one of its infrastructure objects (one per Modules value):
//	               the receiver of Process; a chain of field selections on a root variable whose type
//	               is a struct of the package that is not an AST node; the receiver of a method of
//	               such a struct, whatever it is called on
//	      tables   a literal list of MODULE CONTAINERS []map[string]*Module{ms.Modules, ...}
//	      maps     one module container ms.X, or the value variable of a range over tables
//	      module   the value variable of a range over maps
//	      elems    a field of a module variable m.F, or an accessor call m.F() (body `return m.F`)
//	      elem     the value variable of a range over elems
//	    and it keeps that meaning through `x := e`, as receiver expression or argument of an entered
//	    call (the callee's receiver / parameter stands for it), and through a call without
//	    arguments of a function whose body is `return e`.  Any other assignment to the variable
//	    ends it.  A reset `x.f = <fresh value>` (x.f a chain of field selections, nothing indexed)
//	    counts for the one object when x is root, for every element of the covered containers when
//	    x is module or elem, and is `partial` ("through a variable that does not stand for every
//	    object") otherwise - so a helper m.unlink() called for every m of a range over every
//	    container resets what its body resets for its receiver, and the same helper called on
//	    mm[key], on one module, or over a re-sliced list does not.
//	    WHEN.  A statement is unconditional when it stands at the top level of the prologue, of an
//	    entered function, or of a range loop (the loop is the "for every"), also inside
//	    transparent nil guards:
//	      - `if X != nil [&& Y != nil] {...}`: its then-branch; `if X == nil [|| Y == nil] {...}
//	        else {...}`: its else-branch; X an access path (variable, field selections, * & ());
//	      - after `if X == nil [|| Y == nil] { ...; continue }` standing in a range loop of the
//	        function, or `{ ...; return }` standing outside every loop of the function (a helper
//	        called per element, the literal handed to an iterator), without init / else / any other
//	        way out of its body;
//	      and the guard is transparent FOR A WRITE only when X lies on the access path of the
//	      written field: X is the target, a prefix of it, or something the variable the target
//	      starts at was reached through (the loop element, the slice or map ranged over, the
//	      receiver expression or argument of the entered call, the receiver of a method call in
//	      one of these) - where X is nil there is no such object to reset.
//	    Everything else is conditional: any other condition (an option, a revision, a length, a nil
//	    test of something else - `if m.BelongsTo != nil`, `if ms.typeDict == nil { return }` before
//	    the reset of ms.includes), the then-branch of `X == nil` (lazy initialisation is not a
//	    reset), an if with an init statement, switch / for bodies, everything after an if / switch
//	    / block that contains any other break, continue, goto or return (in a loop they also end
//	    the visits of the REMAINING elements), everything after a loop that contains a return, a
//	    goto or a labelled branch.  Classes:
//	      full-reset       assigned nil / an empty literal / make(...) / clear(x.f) / every key
//	                       deleted, unconditionally; for a field of AST nodes: assigned a zero
//	                       value for every element of a slice field of every module of EVERY
//	                       MODULE CONTAINER (the registry fields of the root whose type mentions
//	                       *Module: Modules, SubModules, unrevisioned - a module that a later
//	                       revision displaced is in unrevisioned only), unconditionally
//	      generation       the field is a memo with a generation stamp: the counter is bumped
//	                       unconditionally in the prologue, and in every function that writes
//	                       the memo the stamp is written from the counter, and every read of the
//	                       memo through the receiver is DOMINATED by a successful test
//	                       `x.stamp == d.counter` (right operand of && after it, then-branch /
//	                       case body of a conjunction containing it, else-branch or code after an
//	                       early leave of its negation), or is a hit test `x.F != nil` standing
//	                       as a conjunct beside that test, or a bare miss test `x.F == nil`, or
//	                       comes after the unconditional reset `x.F = nil` of the function;
//	                       a disjunction around the stamp test implies nothing
//	      partial          written in the prologue, but conditionally or not with a fresh value
//	      none             nothing of the above
//	    A field may name another function as the place of its reset ("reset_in"): then that
//	    function must be called unconditionally from Process (chain of calls standing in top-level
//	    statements, in the init statement / condition of a top-level if, the tag of a switch or the
//	    operand of a range; nothing counts after a top-level statement that contains a return,
//	    except a guard `if recv.X == nil [|| ...] {...}` on the receiver), must be the only writer
//	    of the field, and the full reset must be the first statement of it that mentions the field.
//	(d) package-level variables written outside package initialisation (outside init functions,
//	    functions only called from them, and package-level initialisers): an assignment, ++,
//	    delete / clear whose target starts at the variable; the ADDRESS of the variable (or of a
//	    field / element of it) handed to a callee - every callee but sync/atomic Load* counts as a
//	    writer (atomic.AddInt32(&v, 1), Store*, Swap*, CompareAndSwap*, ...) - or otherwise taken
//	    (stored, returned); a method called on the variable (or a field / element of it) when it
//	    is a method of a sync or sync/atomic type other than Load / Range / the mutex operations
//	    (Add, Store, Swap, CompareAndSwap, LoadOrStore, Delete, Put, Get, Do, ...) or a
//	    pointer-receiver method of this package that writes through its receiver (directly, or
//	    through a method it calls on the receiver).  This is state carried between calls AND
//	    between Modules values.
//
// Owned types (allow.json `owned_types`: Entry and its parts) may be held only by the declared owner
// fields.  (O1) Only struct types that can be part of a value living between two calls count as
// holders: those reachable through field types from the root type or from the type of a
// package-level variable (canCarry).  A struct type that occurs in no field and in no package-level
// variable — a view built for the caller on every call — keeps nothing; the notes name it.
//
// The reviewed file allow.json (embedded) says what each field is TODAY and why: registry (the
// loaded modules themselves), config, sync (mutexes), derived (per-run state: must be reset or
// generation-guarded, as computed here), call-scoped (empty outside a call; writers pinned).
// A field that is not in allow.json is emitted with class `unknown`.
package main

import (
	_ "embed"
	"encoding/json"
	"flag"
	"fmt"
	"go/ast"
	"go/token"
	"go/types"
	"os"
	"path/filepath"
	"sort"
	"strings"

	"golang.org/x/tools/go/packages"
)

//go:embed allow.json
var allowJSON []byte

type AllowField struct {
	Field   string `json:"field"` // Struct.field
	Class   string `json:"class"` // registry | config | sync | derived | call-scoped
	Reason  string `json:"reason"`
	Model   string `json:"model,omitempty"`    // the component of the session model it corresponds to
	ResetIn string `json:"reset_in,omitempty"` // function whose first mention of the field must be its full reset
	Stamp   string `json:"stamp,omitempty"`    // generation memo: Struct.field of the stamp
	Counter string `json:"counter,omitempty"`  // generation memo: Struct.field of the counter
	// derived AST fields: the module containers an element-wise reset must range over when not all
	// of them (with the reason why the others need not be reached)
	Containers       []string `json:"containers,omitempty"`
	ContainersReason string   `json:"containers_reason,omitempty"`
	Writers          []string `json:"writers,omitempty"` // construction, call-scoped: the only functions that may write it; derived: the only functions that may STORE into it (a write that is not a plain reset)
}

// StructDefault classifies every field of a struct that has no entry of its own.
type StructDefault struct {
	Struct  string   `json:"struct"`
	Class   string   `json:"class"`
	Reason  string   `json:"reason"`
	Model   string   `json:"model,omitempty"`
	Writers []string `json:"writers,omitempty"`
}

type Owned struct {
	Type   string   `json:"type"`
	By     []string `json:"by"` // the fields (Struct.field) outside owned types that may hold it
	Reason string   `json:"reason"`
}

type Config struct {
	Package     string          `json:"package"`
	Root        string          `json:"root"`         // Modules
	Process     string          `json:"process"`      // Modules.Process
	LinkingPass string          `json:"linking_pass"` // Modules.process
	Builder     []string        `json:"builder_files"`
	Fields      []AllowField    `json:"fields"`
	Structs     []StructDefault `json:"struct_defaults"`
	Owned       []Owned         `json:"owned_types"`
	Globals     []struct {
		Var    string `json:"var"`
		Reason string `json:"reason"`
	} `json:"globals_written_after_init"`
}

func fatal(f string, a ...any) {
	fmt.Fprintf(os.Stderr, "extract-state: "+f+"\n", a...)
	os.Exit(2)
}

// ---------------------------------------------------------------------------------------------

type fieldKey struct{ Struct, Field string }

func (k fieldKey) String() string { return k.Struct + "." + k.Field }

type fieldFact struct {
	Key      fieldKey
	Type     string
	Exported bool
	Infra    bool            // field of an infrastructure struct (listed whether written or not)
	Writers  map[string]bool // functions with a post-construction write
	Stores   map[string]bool // of those: the functions with a write that is not a plain reset (fresh value, clear, ++)
	Stray    []string        // derived fields: storing functions that are neither pinned nor only called from a pinned one
	Reads    int
	Reset    string // full-reset | generation | partial | none
	Why      string // how Reset was decided (for the notes)
}

type world struct {
	cfg     Config
	fset    *token.FileSet
	pkg     *packages.Package
	info    *types.Info
	structs map[string]*types.Struct // named struct types of the package
	decls   map[string]*ast.FuncDecl // "Recv.name" or "name"
	fileOf  map[*ast.FuncDecl]string
	facts   map[fieldKey]*fieldFact
	notes   []string
	localFn map[types.Object]*ast.FuncLit // see localFuncs
}

func (w *world) note(f string, a ...any) { w.notes = append(w.notes, fmt.Sprintf(f, a...)) }

func funcName(fd *ast.FuncDecl) string {
	if fd.Recv != nil && len(fd.Recv.List) == 1 {
		t := fd.Recv.List[0].Type
		if s, ok := t.(*ast.StarExpr); ok {
			t = s.X
		}
		if id, ok := t.(*ast.Ident); ok {
			return id.Name + "." + fd.Name.Name
		}
	}
	return fd.Name.Name
}

// namedStruct returns the name of the package's named struct type behind t (through pointers).
func (w *world) namedStruct(t types.Type) string {
	for {
		switch x := t.(type) {
		case *types.Pointer:
			t = x.Elem()
			continue
		case *types.Named:
			if x.Obj().Pkg() == w.pkg.Types {
				if _, ok := x.Underlying().(*types.Struct); ok {
					return x.Obj().Name()
				}
			}
		}
		return ""
	}
}

// fieldOf resolves a selector expression to (struct, field) when it selects a field of a named
// struct type of the package.
func (w *world) fieldOf(e ast.Expr) (fieldKey, bool) {
	sel, ok := e.(*ast.SelectorExpr)
	if !ok {
		return fieldKey{}, false
	}
	s := w.info.Selections[sel]
	if s == nil || s.Kind() != types.FieldVal {
		return fieldKey{}, false
	}
	// the struct that declares the field (embedded fields: walk the index path)
	t := s.Recv()
	idx := s.Index()
	for i, ix := range idx {
		name := w.namedStruct(t)
		st, _ := derefStruct(t)
		if st == nil {
			return fieldKey{}, false
		}
		if i == len(idx)-1 {
			if name == "" {
				return fieldKey{}, false
			}
			return fieldKey{name, st.Field(ix).Name()}, true
		}
		t = st.Field(ix).Type()
	}
	return fieldKey{}, false
}

func derefStruct(t types.Type) (*types.Struct, bool) {
	for {
		if p, ok := t.(*types.Pointer); ok {
			t = p.Elem()
			continue
		}
		break
	}
	st, ok := t.Underlying().(*types.Struct)
	return st, ok
}

// lhsField peels index, paren and star expressions off an assignment target.
func (w *world) lhsField(e ast.Expr) (fieldKey, ast.Expr, bool) {
	for {
		switch x := e.(type) {
		case *ast.IndexExpr:
			e = x.X
			continue
		case *ast.ParenExpr:
			e = x.X
			continue
		case *ast.StarExpr:
			e = x.X
			continue
		case *ast.SliceExpr:
			e = x.X
			continue
		}
		break
	}
	k, ok := w.fieldOf(e)
	return k, e, ok
}

// baseIdent is the identifier a selector chain starts from (x in x.a.b[i].c).
func baseIdent(e ast.Expr) *ast.Ident {
	for {
		switch x := e.(type) {
		case *ast.SelectorExpr:
			e = x.X
		case *ast.IndexExpr:
			e = x.X
		case *ast.ParenExpr:
			e = x.X
		case *ast.StarExpr:
			e = x.X
		case *ast.Ident:
			return x
		default:
			return nil
		}
	}
}

// freshLocals: local variables of fd that are initialised with a new object (&T{}, T{}, new(T)):
// a write through them is part of the construction of that object.
func (w *world) freshLocals(fd *ast.FuncDecl) map[types.Object]bool {
	out := map[types.Object]bool{}
	isFresh := func(e ast.Expr) bool {
		switch x := e.(type) {
		case *ast.UnaryExpr:
			if x.Op == token.AND {
				_, ok := x.X.(*ast.CompositeLit)
				return ok
			}
		case *ast.CompositeLit:
			return true
		case *ast.CallExpr:
			if id, ok := x.Fun.(*ast.Ident); ok && id.Name == "new" {
				return true
			}
		}
		return false
	}
	ast.Inspect(fd, func(n ast.Node) bool {
		switch x := n.(type) {
		case *ast.AssignStmt:
			if x.Tok == token.DEFINE && len(x.Lhs) == len(x.Rhs) {
				for i, l := range x.Lhs {
					if id, ok := l.(*ast.Ident); ok && isFresh(x.Rhs[i]) {
						if o := w.info.Defs[id]; o != nil {
							out[o] = true
						}
					}
				}
			}
		case *ast.ValueSpec:
			for i, id := range x.Names {
				if i < len(x.Values) && isFresh(x.Values[i]) {
					if o := w.info.Defs[id]; o != nil {
						out[o] = true
					}
				}
			}
		}
		return true
	})
	return out
}

// scanAccesses fills writers and read counts of every field of every struct of the package.
func (w *world) scanAccesses() {
	builder := map[string]bool{}
	for _, b := range w.cfg.Builder {
		builder[b] = true
	}
	for name, fd := range w.decls {
		if fd.Body == nil {
			continue
		}
		fresh := w.freshLocals(fd)
		inBuilder := builder[w.fileOf[fd]]
		writeTargets := map[ast.Expr]bool{}
		write := func(target ast.Expr, isReset bool) {
			k, sel, ok := w.lhsField(target)
			if !ok {
				return
			}
			writeTargets[sel] = true
			if id := baseIdent(sel); id != nil {
				if o := w.info.Uses[id]; o != nil && fresh[o] {
					return // construction of a new object
				}
			}
			if inBuilder {
				return
			}
			f := w.fact(k)
			f.Writers[name] = true
			if !isReset {
				f.Stores[name] = true
			}
		}
		ast.Inspect(fd.Body, func(n ast.Node) bool {
			switch x := n.(type) {
			case *ast.AssignStmt:
				if x.Tok != token.DEFINE {
					for i, l := range x.Lhs {
						// a plain reset: the field itself (not an element) gets a fresh value
						_, direct := w.fieldOf(l)
						isReset := direct && x.Tok == token.ASSIGN && len(x.Lhs) == len(x.Rhs) && freshValue(x.Rhs[i])
						write(l, isReset)
					}
				}
			case *ast.IncDecStmt:
				write(x.X, true)
			case *ast.CallExpr:
				if id, ok := x.Fun.(*ast.Ident); ok && (id.Name == "delete" || id.Name == "clear") && len(x.Args) > 0 {
					if _, isBuiltin := w.info.Uses[id].(*types.Builtin); isBuiltin {
						_, direct := w.fieldOf(x.Args[0])
						write(x.Args[0], id.Name == "clear" && direct)
					}
				}
			}
			return true
		})
		// reads: every field selection that is not itself the target of a plain write
		ast.Inspect(fd.Body, func(n ast.Node) bool {
			if sel, ok := n.(*ast.SelectorExpr); ok {
				if k, ok := w.fieldOf(sel); ok && !writeTargets[sel] {
					w.fact(k).Reads++
				}
			}
			return true
		})
	}
}

func (w *world) fact(k fieldKey) *fieldFact {
	if f := w.facts[k]; f != nil {
		return f
	}
	f := &fieldFact{Key: k, Writers: map[string]bool{}, Stores: map[string]bool{}, Reset: "none"}
	if st := w.structs[k.Struct]; st != nil {
		for i := 0; i < st.NumFields(); i++ {
			if st.Field(i).Name() == k.Field {
				f.Type = types.TypeString(st.Field(i).Type(), func(p *types.Package) string { return "" })
				f.Exported = st.Field(i).Exported()
			}
		}
	}
	w.facts[k] = f
	return f
}

// ---------------------------------------------------------------------------------------------
// reachability and ownership

// mentioned lists the named struct types of the package that type t mentions (an interface of the
// package stands for every struct of the package that implements it).
func (w *world) mentioned(t types.Type, out map[string]bool, seen map[types.Type]bool) {
	if seen[t] {
		return
	}
	seen[t] = true
	switch x := t.(type) {
	case *types.Pointer:
		w.mentioned(x.Elem(), out, seen)
	case *types.Slice:
		w.mentioned(x.Elem(), out, seen)
	case *types.Array:
		w.mentioned(x.Elem(), out, seen)
	case *types.Map:
		w.mentioned(x.Key(), out, seen)
		w.mentioned(x.Elem(), out, seen)
	case *types.Chan:
		w.mentioned(x.Elem(), out, seen)
	case *types.Signature:
	case *types.Named:
		if x.Obj().Pkg() != w.pkg.Types {
			return
		}
		switch u := x.Underlying().(type) {
		case *types.Struct:
			out[x.Obj().Name()] = true
		case *types.Interface:
			for name := range w.structs {
				obj := w.pkg.Types.Scope().Lookup(name)
				if obj == nil {
					continue
				}
				if types.Implements(obj.Type(), u) || types.Implements(types.NewPointer(obj.Type()), u) {
					out[name] = true
				}
			}
		default:
			w.mentioned(u, out, seen)
		}
	case *types.Struct:
		for i := 0; i < x.NumFields(); i++ {
			w.mentioned(x.Field(i).Type(), out, seen)
		}
	}
}

func (w *world) fieldMentions(st *types.Struct, i int) map[string]bool {
	out := map[string]bool{}
	w.mentioned(st.Field(i).Type(), out, map[types.Type]bool{})
	return out
}

// reachable: struct types reachable from the root through field types, not entering owned types.
func (w *world) reachable(owned map[string]bool) map[string]bool {
	seen := map[string]bool{w.cfg.Root: true}
	work := []string{w.cfg.Root}
	for len(work) > 0 {
		s := work[0]
		work = work[1:]
		st := w.structs[s]
		if st == nil || owned[s] {
			continue
		}
		for i := 0; i < st.NumFields(); i++ {
			for m := range w.fieldMentions(st, i) {
				if !seen[m] {
					seen[m] = true
					work = append(work, m)
				}
			}
		}
	}
	return seen
}

// canCarry: (O1) the struct types of the package that a value living between two calls can be made of:
// those reachable through field types (owned types entered too) from the root type or from the type of
// a package-level variable.  A struct type outside this set occurs in no field and in no package-level
// variable, neither directly nor inside another struct, slice, map, array, pointer or channel type:
// its values exist only in local variables, parameters and results (a view handed to the caller, such
// as a slice of (kind, *Entry) pairs built on every call), so whatever it holds is not kept by the
// Modules value.  (Cells of interface type mention no struct type; they are as invisible to this
// relation as they are to the holder relation of checkOwnership itself.)
func (w *world) canCarry() map[string]bool {
	seen := map[string]bool{w.cfg.Root: true}
	work := []string{w.cfg.Root}
	sc := w.pkg.Types.Scope()
	for _, n := range sc.Names() {
		if v, ok := sc.Lookup(n).(*types.Var); ok {
			m := map[string]bool{}
			w.mentioned(v.Type(), m, map[types.Type]bool{})
			for t := range m {
				if !seen[t] {
					seen[t] = true
					work = append(work, t)
				}
			}
		}
	}
	for len(work) > 0 {
		s := work[0]
		work = work[1:]
		st := w.structs[s]
		if st == nil {
			continue
		}
		for i := 0; i < st.NumFields(); i++ {
			for m := range w.fieldMentions(st, i) {
				if !seen[m] {
					seen[m] = true
					work = append(work, m)
				}
			}
		}
	}
	return seen
}

// implementsNode: AST node types (they implement the package's Node interface).
func (w *world) isNode(name string) bool {
	obj := w.pkg.Types.Scope().Lookup("Node")
	if obj == nil {
		return false
	}
	iface, ok := obj.Type().Underlying().(*types.Interface)
	if !ok {
		return false
	}
	t := w.pkg.Types.Scope().Lookup(name)
	if t == nil {
		return false
	}
	return types.Implements(t.Type(), iface) || types.Implements(types.NewPointer(t.Type()), iface)
}

// checkOwnership: a type is owned when every field of the package that mentions it belongs to an
// owned type or is one of the declared owner fields.
func (w *world) checkOwnership() (map[string]bool, []ownRes) {
	owned := map[string]bool{}
	for _, o := range w.cfg.Owned {
		owned[o.Type] = true
	}
	var res []ownRes
	carry := w.canCarry()
	for _, o := range w.cfg.Owned {
		by := map[string]bool{}
		for _, b := range o.By {
			by[b] = true
		}
		r := ownRes{Type: o.Type, OK: true}
		if w.structs[o.Type] == nil {
			r.OK = false
			r.Why = "no such struct type"
		}
		for _, sname := range sortedKeys(w.structs) {
			if owned[sname] {
				continue
			}
			st := w.structs[sname]
			if !carry[sname] {
				// (O1) a type of locals, parameters and results only: it keeps nothing between calls
				for i := 0; i < st.NumFields(); i++ {
					if w.fieldMentions(st, i)[o.Type] {
						w.note("%s.%s holds %s, but no field and no package-level variable is (made) of type %s: a value of it cannot outlive the call that builds it", sname, st.Field(i).Name(), o.Type, sname)
					}
				}
				continue
			}
			for i := 0; i < st.NumFields(); i++ {
				if w.fieldMentions(st, i)[o.Type] && !by[sname+"."+st.Field(i).Name()] {
					r.OK = false
					r.Why += fmt.Sprintf("held by %s.%s, which is not a declared owner; ", sname, st.Field(i).Name())
				}
			}
		}
		res = append(res, r)
	}
	return owned, res
}

type ownRes struct {
	Type string
	OK   bool
	Why  string
}

func sortedKeys[V any](m map[string]V) []string {
	ks := make([]string, 0, len(m))
	for k := range m {
		ks = append(ks, k)
	}
	sort.Strings(ks)
	return ks
}

// ---------------------------------------------------------------------------------------------

func main() {
	out := flag.String("o", "", "output Lean file (default stdout)")
	repo := flag.String("repo", "/repo", "goyang source tree")
	dump := flag.Bool("dump", false, "print a readable listing instead of Lean")
	flag.Parse()

	var cfg Config
	if err := json.Unmarshal(allowJSON, &cfg); err != nil {
		fatal("allow.json: %v", err)
	}
	pcfg := &packages.Config{Mode: packages.LoadAllSyntax, Dir: *repo,
		Env: append(os.Environ(), "GOFLAGS=-mod=readonly", "GOPROXY=off", "GOSUMDB=off", "GOTOOLCHAIN=local", "CGO_ENABLED=0")}
	pkgs, err := packages.Load(pcfg, cfg.Package)
	if err != nil {
		fatal("load: %v", err)
	}
	if len(pkgs) != 1 || len(pkgs[0].Errors) > 0 {
		fatal("load %s: %v", cfg.Package, pkgs[0].Errors)
	}
	w := &world{cfg: cfg, fset: pkgs[0].Fset, pkg: pkgs[0], info: pkgs[0].TypesInfo, structs: map[string]*types.Struct{},
		decls: map[string]*ast.FuncDecl{}, fileOf: map[*ast.FuncDecl]string{}, facts: map[fieldKey]*fieldFact{}}
	scope := w.pkg.Types.Scope()
	for _, name := range scope.Names() {
		if tn, ok := scope.Lookup(name).(*types.TypeName); ok {
			if st, ok := tn.Type().Underlying().(*types.Struct); ok {
				w.structs[name] = st
			}
		}
	}
	for _, f := range w.pkg.Syntax {
		fn := filepath.Base(w.fset.Position(f.Pos()).Filename)
		for _, d := range f.Decls {
			if fd, ok := d.(*ast.FuncDecl); ok {
				name := funcName(fd)
				if name == "init" {
					name = "init@" + fn // a package may have several
				}
				w.decls[name] = fd
				w.fileOf[fd] = fn
			}
		}
	}
	w.scanAccesses()
	owned, ownership := w.checkOwnership()
	reach := w.reachable(owned)

	// which fields are listed
	infra := map[string]bool{}
	for s := range reach {
		if !owned[s] && !w.isNode(s) && w.infraStruct(s, reach, owned) {
			infra[s] = true
		}
	}
	var listed []*fieldFact
	for _, s := range sortedKeys(reach) {
		if owned[s] {
			continue
		}
		st := w.structs[s]
		for i := 0; i < st.NumFields(); i++ {
			k := fieldKey{s, st.Field(i).Name()}
			f := w.fact(k)
			f.Infra = infra[s]
			if f.Infra || len(f.Writers) > 0 {
				listed = append(listed, f)
			}
		}
	}
	w.classifyResets(listed)
	w.strayStores(listed)
	globals := w.globalsWritten()

	if *dump {
		for _, f := range listed {
			fmt.Printf("%-34s %-12s reads=%-3d writers=%v  [%s]\n", f.Key, f.Reset, f.Reads, sortedKeys(f.Writers), f.Why)
		}
		for _, o := range ownership {
			fmt.Printf("owned %s: %v %s\n", o.Type, o.OK, o.Why)
		}
		for _, g := range globals {
			fmt.Printf("global %s written by %v\n", g.Name, g.Writers)
		}
		for _, n := range w.notes {
			fmt.Println("note:", n)
		}
		return
	}
	lean, notes := w.render(listed, ownership, globals)
	if *out == "" {
		fmt.Print(lean)
		return
	}
	if err := os.WriteFile(*out, []byte(lean), 0o644); err != nil {
		fatal("%v", err)
	}
	notesFile := strings.TrimSuffix(strings.TrimSuffix(*out, ".new"), ".lean") + ".notes.txt"
	os.WriteFile(notesFile, []byte(notes), 0o644)
}

// infraStruct: a struct reachable from the root only through fields of infrastructure structs
// (the root itself, and non-node, non-owned structs held by infrastructure structs): all its
// fields are listed.  AST nodes and what only they hold are listed by written field only.
func (w *world) infraStruct(s string, reach, owned map[string]bool) bool {
	if s == w.cfg.Root {
		return true
	}
	seen := map[string]bool{w.cfg.Root: true}
	work := []string{w.cfg.Root}
	for len(work) > 0 {
		c := work[0]
		work = work[1:]
		st := w.structs[c]
		if st == nil {
			continue
		}
		for i := 0; i < st.NumFields(); i++ {
			// only direct mentions: through pointers, slices, maps - not through the Node interface
			for m := range w.directMentions(st.Field(i).Type()) {
				if owned[m] || w.isNode(m) || seen[m] {
					continue
				}
				seen[m] = true
				work = append(work, m)
			}
		}
	}
	return seen[s]
}

func (w *world) directMentions(t types.Type) map[string]bool {
	out := map[string]bool{}
	var rec func(t types.Type, depth int)
	rec = func(t types.Type, depth int) {
		if depth > 8 {
			return
		}
		switch x := t.(type) {
		case *types.Pointer:
			rec(x.Elem(), depth+1)
		case *types.Slice:
			rec(x.Elem(), depth+1)
		case *types.Array:
			rec(x.Elem(), depth+1)
		case *types.Map:
			rec(x.Key(), depth+1)
			rec(x.Elem(), depth+1)
		case *types.Named:
			if x.Obj().Pkg() == w.pkg.Types {
				if _, ok := x.Underlying().(*types.Struct); ok {
					out[x.Obj().Name()] = true
				}
			}
		}
	}
	rec(t, 0)
	return out
}

// strayStores: for derived fields, the functions that store into the field although the allow-list
// does not name them and they are not helpers of a named one (only called, transitively, from it).
func (w *world) strayStores(listed []*fieldFact) {
	allow := map[string]AllowField{}
	for _, a := range w.cfg.Fields {
		allow[a.Field] = a
	}
	callers := w.callGraph()
	for _, f := range listed {
		a, in := allow[f.Key.String()]
		if !in || a.Class != "derived" {
			continue
		}
		for _, fn := range sortedKeys(f.Stores) {
			ok := false
			for _, p := range a.Writers {
				if p == fn || w.onlyCalledFrom(fn, p, callers, map[string]bool{}) {
					ok = true
				}
			}
			if !ok {
				f.Stray = append(f.Stray, fn)
			}
		}
		// derived state may be written - also merely reset - only on paths that start at Process
		// or at a pinned storing function: a caller of a writing function that is reached from
		// another entry point (the load path: Parse -> add -> ClearEntryCache) disposes of derived
		// state outside a run, which a refused load does not undo
		pinned := map[string]bool{w.cfg.Process: true}
		for _, p := range a.Writers {
			pinned[p] = true
		}
		if a.ResetIn != "" {
			pinned[a.ResetIn] = true
		}
		var acceptable func(c string, seen map[string]bool) bool
		acceptable = func(c string, seen map[string]bool) bool {
			if pinned[c] || seen[c] {
				return true
			}
			seen[c] = true
			fd := w.decls[c]
			if fd == nil || fd.Name.IsExported() || len(callers[c]) == 0 {
				return false // another entry point
			}
			for cc := range callers[c] {
				if !acceptable(cc, seen) {
					return false
				}
			}
			return true
		}
		for _, fn := range sortedKeys(f.Writers) {
			if pinned[fn] {
				continue
			}
			for _, c := range sortedKeys(callers[fn]) {
				if !acceptable(c, map[string]bool{}) {
					f.Stray = append(f.Stray, c+" -> "+fn)
				}
			}
		}
	}
}
