package main

import (
	"fmt"
	"go/ast"
	"go/token"
	"go/types"
	"sort"
	"strings"
)

// moduleMaps are the MODULE CONTAINERS: the registry fields of the root struct whose type mentions
// *Module (computed in classifyResets: Modules, SubModules, unrevisioned today).  Every module the
// set has accepted is held by at least one of them - and a module can be held by ONE only (an
// unrevisioned module that a later revision displaced is in unrevisioned alone), so a reset "for
// every module" must range over all of them.
var moduleMaps = map[string]bool{}

// cover is a set of module containers, as a sorted comma-separated list.
func coverOf(names ...string) string {
	set := map[string]bool{}
	for _, n := range names {
		for _, x := range strings.Split(n, ",") {
			if x != "" {
				set[x] = true
			}
		}
	}
	return strings.Join(sortedKeys(set), ",")
}

func covers(cover string, required []string) bool {
	have := map[string]bool{}
	for _, x := range strings.Split(cover, ",") {
		have[x] = true
	}
	for _, r := range required {
		if !have[r] {
			return false
		}
	}
	return true
}

// binding says what a variable stands for while the prologue is walked.
type binding struct {
	// "root":   the Modules value itself or one of its infrastructure objects (one per Modules value)
	// "tables": a list of module containers;  "maps": one module container
	// "module": a loaded module;  "elems": a slice field of a loaded module;  "elem": an element of one
	// "func":   a function value (a literal, a local closure, a function of the package)
	// "":       nothing of the above (only via is known)
	kind  string
	cover string          // which module containers are covered
	via   map[string]bool // keys (pathKey) of the expressions on the way from the root to what the variable stands for
	fn    *funcVal
}

// funcVal is a function the walker can enter: a declaration of the package, or a literal together
// with the environment it was written in.
type funcVal struct {
	decl *ast.FuncDecl
	lit  *ast.FuncLit
	env  map[types.Object]binding
}

// guard is a nil test that holds where a statement stands: `X != nil`.
type guard struct{ key, text, pos string }

// ctx says under what circumstances a statement is executed.
type ctx struct {
	cond   bool    // under a condition that is not a nil guard (or in a loop that is not a range loop)
	guards []guard // the enclosing nil guards: each X is known not to be nil here
	loops  int     // range loops of the current function around the statement
	depth  int     // functions entered
}

func (c ctx) with(gs []guard) ctx {
	c.guards = append(append([]guard{}, c.guards...), gs...)
	return c
}

type resetFact struct {
	full    bool   // assigned a fresh value / cleared, unconditionally, on the object reached from the root
	cover   string // the same for every element reached from every module of these module containers
	partial []string
	bump    bool
	sites   []string
}

type resetWalker struct {
	w       *world
	facts   map[fieldKey]*resetFact
	stack   map[string]bool
	ranging map[fieldKey]bool // fields whose every key the enclosing range loop visits
}

// recvOf: the receiver variable of a method of the root or of another struct that is not an AST
// node (one instance per Modules value: the dictionaries).
func (w *world) recvOf(fd *ast.FuncDecl) types.Object {
	if fd == nil || fd.Recv == nil || len(fd.Recv.List) != 1 || len(fd.Recv.List[0].Names) != 1 {
		return nil
	}
	o := w.info.Defs[fd.Recv.List[0].Names[0]]
	if o == nil {
		return nil
	}
	if s := w.namedStruct(o.Type()); s == "" || w.isNode(s) {
		return nil
	}
	return o
}

// escapes: does the statement contain a continue / break / return / goto (outside function literals)?
func escapes(s ast.Stmt) bool {
	found := false
	ast.Inspect(s, func(n ast.Node) bool {
		switch n.(type) {
		case *ast.FuncLit:
			return false
		case *ast.BranchStmt, *ast.ReturnStmt:
			found = true
		}
		return !found
	})
	return found
}

func (rw *resetWalker) fact(k fieldKey) *resetFact {
	if f := rw.facts[k]; f != nil {
		return f
	}
	f := &resetFact{}
	rw.facts[k] = f
	return f
}

func (w *world) pos(n ast.Node) string {
	p := w.fset.Position(n.Pos())
	return fmt.Sprintf("%s:%d", shortFile(p.Filename), p.Line)
}

func shortFile(f string) string {
	if i := strings.LastIndex(f, "/"); i >= 0 {
		return f[i+1:]
	}
	return f
}

// freshValue: nil, an empty composite literal, make(...), a zero literal.
func freshValue(e ast.Expr) bool {
	switch x := e.(type) {
	case *ast.Ident:
		return x.Name == "nil" || x.Name == "false"
	case *ast.BasicLit:
		return x.Value == "0" || x.Value == `""`
	case *ast.CompositeLit:
		return len(x.Elts) == 0
	case *ast.CallExpr:
		if id, ok := x.Fun.(*ast.Ident); ok && id.Name == "make" {
			return true
		}
	case *ast.ParenExpr:
		return freshValue(x.X)
	}
	return false
}

func (w *world) isMutexCall(c *ast.CallExpr) bool {
	sel, ok := c.Fun.(*ast.SelectorExpr)
	if !ok {
		return false
	}
	switch sel.Sel.Name {
	case "Lock", "Unlock", "RLock", "RUnlock":
		if t := w.info.TypeOf(sel.X); t != nil {
			s := t.String()
			return strings.HasSuffix(s, "sync.Mutex") || strings.HasSuffix(s, "sync.RWMutex")
		}
	}
	return false
}

// callee returns the declaration of the package function or method a call names (nil for a call
// through an interface or a function value).
func (w *world) callee(c *ast.CallExpr) *ast.FuncDecl {
	var id *ast.Ident
	switch f := c.Fun.(type) {
	case *ast.Ident:
		id = f
	case *ast.SelectorExpr:
		id = f.Sel
	default:
		return nil
	}
	fn, ok := w.info.Uses[id].(*types.Func)
	if !ok || fn.Pkg() != w.pkg.Types {
		return nil
	}
	return w.declOf(fn)
}

func (w *world) declOf(fn *types.Func) *ast.FuncDecl {
	name := fn.Name()
	if sig, ok := fn.Type().(*types.Signature); ok && sig.Recv() != nil {
		s := w.namedStruct(sig.Recv().Type())
		if s == "" {
			return nil // a method of an interface or of a type that is not a struct: not entered
		}
		name = s + "." + name
	}
	return w.decls[name]
}

// accessorField: a method whose body is `return recv.F` stands for the field F.
func (w *world) accessorField(fd *ast.FuncDecl) (fieldKey, bool) {
	if fd == nil || fd.Body == nil || len(fd.Body.List) != 1 {
		return fieldKey{}, false
	}
	r, ok := fd.Body.List[0].(*ast.ReturnStmt)
	if !ok || len(r.Results) != 1 {
		return fieldKey{}, false
	}
	return w.fieldOf(r.Results[0])
}

// iteratorCoverage: a function whose body consists only of range loops over module maps of its
// receiver whose bodies are a single call of its function parameter with the loop value; returns
// which maps it covers.
func (w *world) iteratorCoverage(fd *ast.FuncDecl) (cover string, ok bool) {
	if fd == nil || fd.Body == nil || fd.Type.Params == nil || len(fd.Type.Params.List) != 1 {
		return "", false
	}
	p := fd.Type.Params.List[0]
	if _, isFunc := p.Type.(*ast.FuncType); !isFunc || len(p.Names) != 1 {
		return "", false
	}
	for _, s := range fd.Body.List {
		rs, isRange := s.(*ast.RangeStmt)
		if !isRange || len(rs.Body.List) != 1 {
			return "", false
		}
		es, isExpr := rs.Body.List[0].(*ast.ExprStmt)
		if !isExpr {
			return "", false
		}
		c, isCall := es.X.(*ast.CallExpr)
		if !isCall {
			return "", false
		}
		if id, isID := c.Fun.(*ast.Ident); !isID || id.Name != p.Names[0].Name {
			return "", false
		}
		k, isField := w.fieldOf(rs.X)
		if !isField || k.Struct != w.cfg.Root || !moduleMaps[k.Field] {
			return "", false
		}
		cover = coverOf(cover, k.Field)
	}
	return cover, cover != ""
}

// ---------------------------------------------------------------------------------------------
// access paths and nil guards

func (w *world) objOf(id *ast.Ident) types.Object {
	if o := w.info.Uses[id]; o != nil {
		return o
	}
	return w.info.Defs[id]
}

// pathKey names an access path: a variable, then field selections (and constant-looking index
// expressions); parentheses, * and & are transparent.  Two expressions with the same key denote
// the same object as long as nothing on the path is assigned in between.
func (w *world) pathKey(e ast.Expr) (string, bool) {
	switch x := e.(type) {
	case *ast.ParenExpr:
		return w.pathKey(x.X)
	case *ast.StarExpr:
		return w.pathKey(x.X)
	case *ast.UnaryExpr:
		if x.Op == token.AND {
			return w.pathKey(x.X)
		}
	case *ast.Ident:
		if o := w.objOf(x); o != nil {
			if _, isVar := o.(*types.Var); isVar {
				return fmt.Sprintf("%s@%d", x.Name, o.Pos()), true
			}
		}
	case *ast.SelectorExpr:
		if s := w.info.Selections[x]; s != nil && s.Kind() == types.FieldVal {
			if k, ok := w.pathKey(x.X); ok {
				return k + "." + x.Sel.Name, true
			}
		}
	case *ast.IndexExpr:
		if k, ok := w.pathKey(x.X); ok {
			return k + "[" + types.ExprString(x.Index) + "]", true
		}
	}
	return "", false
}

// pathIdent: the variable an access path starts at.
func pathIdent(e ast.Expr) *ast.Ident {
	for {
		switch x := e.(type) {
		case *ast.SelectorExpr:
			e = x.X
		case *ast.IndexExpr:
			e = x.X
		case *ast.SliceExpr:
			e = x.X
		case *ast.ParenExpr:
			e = x.X
		case *ast.StarExpr:
			e = x.X
		case *ast.UnaryExpr:
			if x.Op != token.AND {
				return nil
			}
			e = x.X
		case *ast.Ident:
			return x
		default:
			return nil
		}
	}
}

// pureFieldPath: a variable followed by field selections only.
func (w *world) pureFieldPath(e ast.Expr) bool {
	for {
		switch x := e.(type) {
		case *ast.ParenExpr:
			e = x.X
		case *ast.StarExpr:
			e = x.X
		case *ast.SelectorExpr:
			if s := w.info.Selections[x]; s == nil || s.Kind() != types.FieldVal {
				return false
			}
			e = x.X
		case *ast.Ident:
			return true
		default:
			return false
		}
	}
}

// viaOf: the keys of e and of every prefix of e, and what the variable e starts at came through.
// The result of a method call `x.f()` counts as reached through x.
func (rw *resetWalker) viaOf(e ast.Expr, env map[types.Object]binding) map[string]bool {
	out := map[string]bool{}
	for x := e; x != nil; {
		if k, ok := rw.w.pathKey(x); ok {
			out[k] = true
		}
		switch y := x.(type) {
		case *ast.SelectorExpr:
			x = y.X
		case *ast.IndexExpr:
			x = y.X
		case *ast.SliceExpr:
			x = y.X
		case *ast.ParenExpr:
			x = y.X
		case *ast.StarExpr:
			x = y.X
		case *ast.UnaryExpr:
			x = y.X
		case *ast.CallExpr:
			x = nil
			if sel, ok := y.Fun.(*ast.SelectorExpr); ok {
				if s := rw.w.info.Selections[sel]; s != nil && s.Kind() == types.MethodVal {
					x = sel.X
				}
			}
		case *ast.Ident:
			if o := rw.w.objOf(y); o != nil {
				for k := range env[o].via {
					out[k] = true
				}
			}
			x = nil
		default:
			x = nil
		}
	}
	return out
}

// nilTest: `X == nil` / `X != nil` (either order) where X is an access path.
func (w *world) nilTest(e ast.Expr) (x ast.Expr, op token.Token, ok bool) {
	b, isBin := unparen(e).(*ast.BinaryExpr)
	if !isBin || (b.Op != token.EQL && b.Op != token.NEQ) {
		return nil, 0, false
	}
	isNil := func(e ast.Expr) bool {
		id, ok := unparen(e).(*ast.Ident)
		if !ok {
			return false
		}
		_, ok = w.info.Uses[id].(*types.Nil)
		return ok
	}
	switch {
	case isNil(b.Y):
		x = unparen(b.X)
	case isNil(b.X):
		x = unparen(b.Y)
	default:
		return nil, 0, false
	}
	if _, ok := w.pathKey(x); !ok {
		return nil, 0, false
	}
	return x, b.Op, true
}

func (w *world) guardOf(x ast.Expr, at ast.Node) guard {
	k, _ := w.pathKey(x)
	return guard{key: k, text: types.ExprString(x), pos: w.pos(at)}
}

// holdGuards: the condition is a conjunction of tests `X != nil` only: where it holds, every X is not nil.
func (w *world) holdGuards(cond ast.Expr) ([]guard, bool) {
	var cs []ast.Expr
	conjuncts(cond, &cs)
	var gs []guard
	for _, c := range cs {
		x, op, ok := w.nilTest(c)
		if !ok || op != token.NEQ {
			return nil, false
		}
		gs = append(gs, w.guardOf(x, c))
	}
	return gs, len(gs) > 0
}

// failGuards: the condition is a disjunction of tests `X == nil` only: where it fails, every X is not nil.
func (w *world) failGuards(cond ast.Expr) ([]guard, bool) {
	var ds []ast.Expr
	var split func(e ast.Expr)
	split = func(e ast.Expr) {
		e = unparen(e)
		if b, ok := e.(*ast.BinaryExpr); ok && b.Op == token.LOR {
			split(b.X)
			split(b.Y)
			return
		}
		ds = append(ds, e)
	}
	split(cond)
	var gs []guard
	for _, d := range ds {
		x, op, ok := w.nilTest(d)
		if !ok || op != token.EQL {
			return nil, false
		}
		gs = append(gs, w.guardOf(x, d))
	}
	return gs, len(gs) > 0
}

// skipGuards: `if X == nil [|| Y == nil] { ...; continue }` directly in a range loop of the
// function (or `...; return` outside every loop of the function), without else and without another
// way out of the body: the statements after it run for every element (in every call) where the
// tested objects are not nil.  A break, a goto, a labelled continue, or a return inside a loop also
// ends the visits of the REMAINING elements: not a guard.
func (w *world) skipGuards(x *ast.IfStmt, c ctx) ([]guard, bool) {
	if x.Init != nil || x.Else != nil || len(x.Body.List) == 0 {
		return nil, false
	}
	gs, ok := w.failGuards(x.Cond)
	if !ok {
		return nil, false
	}
	n := len(x.Body.List)
	for _, s := range x.Body.List[:n-1] {
		if escapes(s) {
			return nil, false
		}
	}
	switch last := x.Body.List[n-1].(type) {
	case *ast.BranchStmt:
		if last.Tok == token.CONTINUE && last.Label == nil && c.loops > 0 {
			return gs, true
		}
	case *ast.ReturnStmt:
		if c.loops == 0 {
			return gs, true
		}
	}
	return nil, false
}

// conditional: is the write to target, standing under c, NOT performed for every object?  A nil
// guard is transparent when the tested expression lies on the access path of the target (the
// target itself, a prefix of it, or something the variable it starts at was reached through: the
// loop element, the slice or map ranged over, the receiver or argument of the call the walker
// came through): where that is nil there is no object to reset.
func (rw *resetWalker) conditional(c ctx, target ast.Expr, env map[types.Object]binding) (string, bool) {
	if c.cond {
		return "conditionally", true
	}
	if len(c.guards) == 0 {
		return "", false
	}
	via := rw.viaOf(target, env)
	for _, g := range c.guards {
		if !via[g.key] {
			return "only where " + g.text + " is not nil (tested at " + g.pos + "; the reset does not go through it)", true
		}
	}
	return "", false
}

// ---------------------------------------------------------------------------------------------
// the walk

func (rw *resetWalker) walk(stmts []ast.Stmt, env map[types.Object]binding, c ctx) ctx {
	for _, s := range stmts {
		rw.stmt(s, env, c)
		switch x := s.(type) {
		case *ast.IfStmt:
			if gs, ok := rw.w.skipGuards(x, c); ok {
				c = c.with(gs)
			} else if escapes(s) {
				c.cond = true // what follows is not reached on every path
			}
		case *ast.SwitchStmt, *ast.TypeSwitchStmt, *ast.SelectStmt, *ast.BlockStmt, *ast.LabeledStmt:
			if escapes(s) {
				c.cond = true
			}
		case *ast.RangeStmt, *ast.ForStmt:
			// break and continue stay inside the loop; a return, a goto or a labelled branch may not
			if leavesLoop(s) {
				c.cond = true
			}
		case *ast.BranchStmt, *ast.ReturnStmt:
			c.cond = true
		}
	}
	return c
}

// leavesLoop: does the loop contain a return, a goto or a labelled break / continue (outside function literals)?
func leavesLoop(s ast.Stmt) bool {
	found := false
	ast.Inspect(s, func(n ast.Node) bool {
		switch x := n.(type) {
		case *ast.FuncLit:
			return false
		case *ast.ReturnStmt:
			found = true
		case *ast.BranchStmt:
			if x.Tok == token.GOTO || x.Label != nil {
				found = true
			}
		}
		return !found
	})
	return found
}

func copyEnv(env map[types.Object]binding) map[types.Object]binding {
	out := make(map[types.Object]binding, len(env)+2)
	for k, v := range env {
		out[k] = v
	}
	return out
}

func (rw *resetWalker) stmt(s ast.Stmt, env map[types.Object]binding, c ctx) {
	w := rw.w
	switch x := s.(type) {
	case *ast.BlockStmt:
		rw.walk(x.List, env, c)
	case *ast.ExprStmt:
		if call, ok := x.X.(*ast.CallExpr); ok {
			rw.call(call, env, c)
		}
	case *ast.IncDecStmt:
		if k, _, ok := w.lhsField(x.X); ok && x.Tok == token.INC {
			f := rw.fact(k)
			if why, is := rw.conditional(c, x.X, env); is {
				f.partial = append(f.partial, "incremented "+why+" at "+w.pos(x))
			} else {
				f.bump = true
				f.sites = append(f.sites, w.pos(x))
			}
		}
	case *ast.AssignStmt:
		// a local variable: `x := e` makes x stand for what e stands for; any later assignment to a
		// variable ends what it stood for
		for i, l := range x.Lhs {
			id, ok := l.(*ast.Ident)
			if !ok || id.Name == "_" {
				continue
			}
			if o := w.info.Defs[id]; o != nil && x.Tok == token.DEFINE && len(x.Lhs) == len(x.Rhs) {
				if b := rw.exprBinding(x.Rhs[i], env); b.kind != "" {
					env[o] = b
				}
			} else if o := w.info.Uses[id]; o != nil {
				delete(env, o)
			}
		}
		if x.Tok != token.ASSIGN || len(x.Lhs) != len(x.Rhs) {
			// a call on the right of a define / assignment may still be a reset helper: ignored
			return
		}
		for i, l := range x.Lhs {
			k, ok := w.fieldOf(l) // a direct field selection only: an indexed target is an insert, not a reset
			if !ok {
				if k2, _, ok2 := w.lhsField(l); ok2 {
					rw.fact(k2).partial = append(rw.fact(k2).partial, "element assigned at "+w.pos(x))
				}
				continue
			}
			f := rw.fact(k)
			if !freshValue(x.Rhs[i]) {
				f.partial = append(f.partial, "assigned a value that is not fresh at "+w.pos(x))
				continue
			}
			if why, is := rw.conditional(c, l, env); is {
				f.partial = append(f.partial, "reset "+why+" at "+w.pos(x))
				continue
			}
			b := binding{}
			if id := baseIdent(l); id != nil {
				if o := w.info.Uses[id]; o != nil {
					b = env[o]
				}
			}
			switch {
			case (b.kind == "elem" || b.kind == "module") && w.pureFieldPath(l):
				f.cover = coverOf(f.cover, b.cover)
			case b.kind == "root" && w.pureFieldPath(l):
				f.full = true
			default:
				f.partial = append(f.partial, "reset through a variable that does not stand for every object at "+w.pos(x))
				continue
			}
			f.sites = append(f.sites, w.pos(x))
		}
	case *ast.RangeStmt:
		env2 := copyEnv(env)
		if id, ok := x.Value.(*ast.Ident); ok && id.Name != "_" {
			if val := w.info.Defs[id]; val != nil {
				env2[val] = rw.rangeBinding(x.X, env)
			}
		}
		// a loop over a field itself: every key is visited (for delete-all)
		var over fieldKey
		isOver := false
		if k, ok := w.fieldOf(x.X); ok {
			over, isOver = k, true
			if !c.cond {
				rw.ranging[over] = true
			}
		}
		c2 := c
		c2.loops++
		rw.walk(x.Body.List, env2, c2)
		if isOver {
			delete(rw.ranging, over)
		}
	case *ast.IfStmt:
		thenC, elseC := c, c
		thenC.cond, elseC.cond = true, true
		if x.Init == nil {
			if gs, ok := w.holdGuards(x.Cond); ok {
				thenC = c.with(gs)
			}
			if gs, ok := w.failGuards(x.Cond); ok {
				elseC = c.with(gs)
			}
		}
		rw.walk(x.Body.List, env, thenC)
		if x.Else != nil {
			rw.stmt(x.Else, env, elseC)
		}
	case *ast.SwitchStmt:
		c.cond = true
		rw.walk(x.Body.List, env, c)
	case *ast.CaseClause:
		c.cond = true
		rw.walk(x.Body, env, c)
	case *ast.ForStmt:
		c.cond = true
		c.loops++
		rw.walk(x.Body.List, env, c)
	}
}

// exprBinding: what the expression stands for (see binding), with the keys it was reached through.
func (rw *resetWalker) exprBinding(e ast.Expr, env map[types.Object]binding) binding {
	b := rw.exprKind(e, env, 0)
	b.via = rw.viaOf(e, env)
	return b
}

func (rw *resetWalker) exprKind(e ast.Expr, env map[types.Object]binding, depth int) binding {
	w := rw.w
	switch x := e.(type) {
	case *ast.ParenExpr:
		return rw.exprKind(x.X, env, depth)
	case *ast.UnaryExpr:
		if x.Op == token.AND {
			return rw.exprKind(x.X, env, depth)
		}
	case *ast.FuncLit:
		return binding{kind: "func", fn: &funcVal{lit: x, env: env}}
	case *ast.CompositeLit:
		// []map[string]*Module{ms.Modules, ms.SubModules}
		b := binding{kind: "tables"}
		for _, el := range x.Elts {
			eb := rw.exprKind(el, env, depth)
			if eb.kind != "maps" {
				return binding{}
			}
			b.cover = coverOf(b.cover, eb.cover)
		}
		if b.cover == "" {
			return binding{}
		}
		return b
	case *ast.Ident:
		o := w.objOf(x)
		if o == nil {
			return binding{}
		}
		if b, ok := env[o]; ok {
			return binding{kind: b.kind, cover: b.cover, fn: b.fn}
		}
		if lit := w.localFuncs()[o]; lit != nil {
			return binding{kind: "func", fn: &funcVal{lit: lit, env: env}}
		}
		if fn, ok := o.(*types.Func); ok && fn.Pkg() == w.pkg.Types {
			if fd := w.declOf(fn); fd != nil && fd.Recv == nil {
				return binding{kind: "func", fn: &funcVal{decl: fd}}
			}
		}
	case *ast.SelectorExpr:
		k, ok := w.fieldOf(x)
		if !ok {
			return binding{}
		}
		base := binding{}
		if id := pathIdent(x); id != nil {
			if o := w.objOf(id); o != nil {
				base = env[o]
			}
		}
		if k.Struct == w.cfg.Root && moduleMaps[k.Field] {
			return binding{kind: "maps", cover: k.Field}
		}
		// a slice field of a loaded module
		if _, direct := x.X.(*ast.Ident); direct && base.kind == "module" {
			return binding{kind: "elems", cover: base.cover}
		}
		// an infrastructure object reached from the root by field selections
		if base.kind == "root" && w.pureFieldPath(x) {
			if s := w.namedStruct(w.info.TypeOf(x)); s != "" && !w.isNode(s) {
				return binding{kind: "root"}
			}
		}
	case *ast.CallExpr:
		fd := w.callee(x)
		if fd == nil || fd.Body == nil || depth > 2 {
			return binding{}
		}
		sel, isMethod := x.Fun.(*ast.SelectorExpr)
		// m.Identities(): an accessor of a slice field of a loaded module
		if isMethod && len(x.Args) == 0 {
			if _, isField := w.accessorField(fd); isField {
				if id, direct := sel.X.(*ast.Ident); direct {
					if o := w.objOf(id); o != nil && env[o].kind == "module" {
						return binding{kind: "elems", cover: env[o].cover}
					}
				}
			}
		}
		// a function without parameters whose body is `return <expr>` stands for that expression
		if len(x.Args) == 0 && len(fd.Body.List) == 1 {
			if r, ok := fd.Body.List[0].(*ast.ReturnStmt); ok && len(r.Results) == 1 {
				env2 := rw.frameEnv(fd, x, env)
				return rw.exprKind(r.Results[0], env2, depth+1)
			}
		}
	}
	return binding{}
}

// rangeBinding: what the value variable of `range e` stands for.
func (rw *resetWalker) rangeBinding(e ast.Expr, env map[types.Object]binding) binding {
	b := rw.exprBinding(e, env)
	switch b.kind {
	case "tables":
		b.kind = "maps"
	case "maps":
		b.kind = "module"
	case "elems":
		b.kind = "elem"
	default:
		b.kind, b.cover = "", ""
	}
	b.fn = nil
	return b
}

// frameEnv: the environment a function of the package starts in when it is entered through call
// (nil: entered from outside): its receiver and its parameters stand for what the receiver
// expression and the arguments stand for.  The receiver of a method of the root or of another
// infrastructure struct stands for that one object also when the walker does not know the
// expression it is called on.
func (rw *resetWalker) frameEnv(fd *ast.FuncDecl, call *ast.CallExpr, env map[types.Object]binding) map[types.Object]binding {
	w := rw.w
	env2 := map[types.Object]binding{}
	if fd.Recv != nil && len(fd.Recv.List) == 1 && len(fd.Recv.List[0].Names) == 1 {
		if ro := w.info.Defs[fd.Recv.List[0].Names[0]]; ro != nil {
			b := binding{}
			if call != nil {
				if sel, ok := call.Fun.(*ast.SelectorExpr); ok {
					b = rw.exprBinding(sel.X, env)
				}
			}
			if b.kind == "" && w.recvOf(fd) != nil {
				b.kind = "root"
			}
			env2[ro] = b
		}
	}
	if call != nil {
		rw.bindParams(fd.Type, call.Args, env, env2)
	}
	return env2
}

func (rw *resetWalker) bindParams(ft *ast.FuncType, args []ast.Expr, env, env2 map[types.Object]binding) {
	if ft.Params == nil {
		return
	}
	var names []*ast.Ident
	for _, p := range ft.Params.List {
		if _, variadic := p.Type.(*ast.Ellipsis); variadic {
			return
		}
		if len(p.Names) == 0 {
			return
		}
		names = append(names, p.Names...)
	}
	if len(names) != len(args) {
		return
	}
	for i, id := range names {
		if o := rw.w.info.Defs[id]; o != nil && id.Name != "_" {
			env2[o] = rw.exprBinding(args[i], env)
		}
	}
}

// enter walks the body of a function value with its parameters bound to the arguments of call.
func (rw *resetWalker) enter(fv *funcVal, call *ast.CallExpr, env map[types.Object]binding, c ctx) {
	w := rw.w
	if c.depth > 6 {
		return
	}
	var name string
	var body *ast.BlockStmt
	var env2 map[types.Object]binding
	switch {
	case fv.decl != nil:
		if fv.decl.Body == nil {
			return
		}
		name, body = funcName(fv.decl), fv.decl.Body
		env2 = rw.frameEnv(fv.decl, call, env)
	case fv.lit != nil:
		name, body = "literal at "+w.pos(fv.lit), fv.lit.Body
		env2 = copyEnv(fv.env)
		rw.bindParams(fv.lit.Type, call.Args, env, env2)
	default:
		return
	}
	if rw.stack[name] {
		return
	}
	rw.stack[name] = true
	c.loops = 0
	c.depth++
	rw.walk(body.List, env2, c)
	delete(rw.stack, name)
}

func (rw *resetWalker) rooted(e ast.Expr, env map[types.Object]binding) bool {
	id := baseIdent(e)
	if id == nil {
		return false
	}
	o := rw.w.info.Uses[id]
	return o != nil && env[o].kind == "root" && rw.w.pureFieldPath(e)
}

func (rw *resetWalker) call(c *ast.CallExpr, env map[types.Object]binding, cx ctx) {
	w := rw.w
	if id, ok := c.Fun.(*ast.Ident); ok && len(c.Args) > 0 {
		if _, isBuiltin := w.info.Uses[id].(*types.Builtin); isBuiltin {
			switch id.Name {
			case "clear":
				if k, ok := w.fieldOf(c.Args[0]); ok {
					f := rw.fact(k)
					if !rw.rooted(c.Args[0], env) {
						f.partial = append(f.partial, "cleared through a variable that does not stand for every object at "+w.pos(c))
					} else if why, is := rw.conditional(cx, c.Args[0], env); is {
						f.partial = append(f.partial, "cleared "+why+" at "+w.pos(c))
					} else {
						f.full = true
						f.sites = append(f.sites, w.pos(c))
					}
				}
			case "delete":
				if k, ok := w.fieldOf(c.Args[0]); ok {
					f := rw.fact(k)
					if _, is := rw.conditional(cx, c.Args[0], env); !is && rw.ranging[k] {
						f.full = true
						f.sites = append(f.sites, w.pos(c))
					} else {
						f.partial = append(f.partial, "some keys deleted at "+w.pos(c))
					}
				}
			}
			return
		}
	}
	if w.isMutexCall(c) {
		return
	}
	// a function literal called on the spot, a local closure, a function-valued parameter
	switch f := c.Fun.(type) {
	case *ast.FuncLit:
		rw.enter(&funcVal{lit: f, env: env}, c, env, cx)
		return
	case *ast.Ident:
		if _, isVar := w.objOf(f).(*types.Var); isVar {
			if b := rw.exprKind(f, env, 0); b.kind == "func" {
				rw.enter(b.fn, c, env, cx)
			}
			return
		}
	}
	fd := w.callee(c)
	if fd == nil || fd.Body == nil {
		return
	}
	// an all-modules iterator with a function literal
	if len(c.Args) == 1 && !rw.stack[funcName(fd)] && cx.depth <= 6 {
		if lit, ok := c.Args[0].(*ast.FuncLit); ok {
			if cover, isIter := w.iteratorCoverage(fd); isIter && len(lit.Type.Params.List) == 1 && len(lit.Type.Params.List[0].Names) == 1 {
				env2 := copyEnv(env)
				if o := w.info.Defs[lit.Type.Params.List[0].Names[0]]; o != nil {
					env2[o] = binding{kind: "module", cover: cover}
				}
				cx.loops = 0
				cx.depth++
				rw.walk(lit.Body.List, env2, cx)
				return
			}
		}
	}
	rw.enter(&funcVal{decl: fd}, c, env, cx)
}

// localFuncs: local variables that are defined with a function literal and never assigned again
// (nor have their address taken): a call of such a variable runs that literal.
func (w *world) localFuncs() map[types.Object]*ast.FuncLit {
	if w.localFn != nil {
		return w.localFn
	}
	out := map[types.Object]*ast.FuncLit{}
	spoiled := map[types.Object]bool{}
	for _, f := range w.pkg.Syntax {
		ast.Inspect(f, func(n ast.Node) bool {
			switch x := n.(type) {
			case *ast.AssignStmt:
				for i, l := range x.Lhs {
					id, ok := l.(*ast.Ident)
					if !ok {
						continue
					}
					if x.Tok == token.DEFINE {
						if o := w.info.Defs[id]; o != nil {
							if lit, isLit := rhsAt(x, i).(*ast.FuncLit); isLit && o.Parent() != w.pkg.Types.Scope() {
								out[o] = lit
							}
							continue
						}
					}
					if o := w.info.Uses[id]; o != nil {
						spoiled[o] = true
					}
				}
			case *ast.ValueSpec:
				for i, id := range x.Names {
					if o := w.info.Defs[id]; o != nil && i < len(x.Values) && o.Parent() != w.pkg.Types.Scope() {
						if lit, isLit := x.Values[i].(*ast.FuncLit); isLit {
							out[o] = lit
						}
					}
				}
			case *ast.UnaryExpr:
				if id, ok := unparen(x.X).(*ast.Ident); ok && x.Op == token.AND {
					if o := w.info.Uses[id]; o != nil {
						spoiled[o] = true
					}
				}
			}
			return true
		})
	}
	for o := range spoiled {
		delete(out, o)
	}
	w.localFn = out
	return out
}

func rhsAt(x *ast.AssignStmt, i int) ast.Expr {
	if len(x.Lhs) == len(x.Rhs) {
		return x.Rhs[i]
	}
	return nil
}

// ---------------------------------------------------------------------------------------------
// the prologue

// reachesCall: does fd (transitively, anywhere in its body, function literals included) call the named function?
func (w *world) reachesCall(fd *ast.FuncDecl, name string, seen map[string]bool) bool {
	if fd == nil || fd.Body == nil || seen[funcName(fd)] {
		return false
	}
	seen[funcName(fd)] = true
	found := false
	ast.Inspect(fd.Body, func(n ast.Node) bool {
		if c, ok := n.(*ast.CallExpr); ok {
			if cd := w.callee(c); cd != nil && (funcName(cd) == name || w.reachesCall(cd, name, seen)) {
				found = true
			}
		}
		return !found
	})
	return found
}

// soleCall: the call a statement consists of: `f(...)`, `x := f(...)`, `x = f(...)`, `return f(...)`.
func soleCall(s ast.Stmt) *ast.CallExpr {
	var e ast.Expr
	switch x := s.(type) {
	case *ast.ExprStmt:
		e = x.X
	case *ast.AssignStmt:
		if len(x.Rhs) == 1 {
			e = x.Rhs[0]
		}
	case *ast.ReturnStmt:
		if len(x.Results) == 1 {
			e = x.Results[0]
		}
	}
	if e == nil {
		return nil
	}
	c, _ := unparen(e).(*ast.CallExpr)
	return c
}

// prologue walks what fd runs before the linking pass starts: its top-level statements before the
// first one that contains a call of the linking pass; when the first statement that can reach the
// linking pass is a plain call of a function of the package (`return ms.run()`), the statements
// before it and then the prologue of that function.  It reports whether the linking pass was found.
func (rw *resetWalker) prologue(fd *ast.FuncDecl, env map[types.Object]binding, c ctx) bool {
	w := rw.w
	for i, s := range fd.Body.List {
		if w.containsCallTo(s, w.cfg.LinkingPass) {
			rw.walk(fd.Body.List[:i], env, c)
			return true
		}
		reaches := false
		ast.Inspect(s, func(n ast.Node) bool {
			if call, ok := n.(*ast.CallExpr); ok {
				if cd := w.callee(call); cd != nil && w.reachesCall(cd, w.cfg.LinkingPass, map[string]bool{w.cfg.Process: true}) {
					reaches = true
				}
			}
			return !reaches
		})
		if !reaches {
			continue
		}
		c2 := rw.walk(fd.Body.List[:i], env, c)
		if call := soleCall(s); call != nil && c2.depth < 4 {
			if cd := w.callee(call); cd != nil && cd.Body != nil && !rw.stack[funcName(cd)] &&
				w.reachesCall(cd, w.cfg.LinkingPass, map[string]bool{w.cfg.Process: true}) {
				w.note("the prologue of %s continues in %s (called at %s)", funcName(fd), funcName(cd), w.pos(call))
				rw.stack[funcName(cd)] = true
				c2.loops = 0
				c2.depth++
				return rw.prologue(cd, rw.frameEnv(cd, call, env), c2)
			}
		}
		return true // the linking pass starts somewhere inside s: the prologue ends before s
	}
	return false
}

// containsCallTo: does the statement (outside function literals) call the named function?
func (w *world) containsCallTo(s ast.Node, name string) bool {
	found := false
	ast.Inspect(s, func(n ast.Node) bool {
		if _, ok := n.(*ast.FuncLit); ok {
			return false
		}
		if c, ok := n.(*ast.CallExpr); ok {
			if fd := w.callee(c); fd != nil && funcName(fd) == name {
				found = true
			}
		}
		return !found
	})
	return found
}

// mentionsField: does s select the field, itself or in a function of the package it calls?
func (w *world) mentionsField(s ast.Node, k fieldKey) bool {
	return w.mentionsDeep(s, k, map[string]bool{})
}

func (w *world) mentionsDeep(s ast.Node, k fieldKey, seen map[string]bool) bool {
	found := false
	ast.Inspect(s, func(n ast.Node) bool {
		switch x := n.(type) {
		case *ast.SelectorExpr:
			if k2, ok := w.fieldOf(x); ok && k2 == k {
				found = true
			}
		case *ast.CallExpr:
			if fd := w.callee(x); fd != nil && fd.Body != nil && !seen[funcName(fd)] {
				seen[funcName(fd)] = true
				if w.mentionsDeep(fd.Body, k, seen) {
					found = true
				}
			}
		}
		return !found
	})
	return found
}

// onlyCalledFrom: is every caller of f (transitively) g itself or a function only called from g?
func (w *world) onlyCalledFrom(f, g string, callers map[string]map[string]bool, seen map[string]bool) bool {
	if f == g {
		return true
	}
	if seen[f] {
		return true
	}
	seen[f] = true
	fd := w.decls[f]
	if fd == nil || fd.Name.IsExported() || len(callers[f]) == 0 {
		return false
	}
	for c := range callers[f] {
		if !w.onlyCalledFrom(c, g, callers, seen) {
			return false
		}
	}
	return true
}

func (w *world) callGraph() map[string]map[string]bool {
	callers := map[string]map[string]bool{}
	for name, fd := range w.decls {
		if fd.Body == nil {
			continue
		}
		ast.Inspect(fd.Body, func(n ast.Node) bool {
			if c, ok := n.(*ast.CallExpr); ok {
				if cd := w.callee(c); cd != nil && funcName(cd) != name {
					cn := funcName(cd)
					if callers[cn] == nil {
						callers[cn] = map[string]bool{}
					}
					callers[cn][name] = true
				}
			}
			return true
		})
	}
	return callers
}

// calledUnconditionally: is g reached from f through top-level (unconditional) statements?
func (w *world) calledUnconditionally(f, g string, depth int) bool {
	fd := w.decls[f]
	if fd == nil || fd.Body == nil || depth > 4 {
		return false
	}
	// reached: the call of g (or of a function that calls g unconditionally) stands in n
	reached := func(n ast.Node) bool {
		if n == nil {
			return false
		}
		if w.containsCallTo(n, g) {
			return true
		}
		via := false
		ast.Inspect(n, func(n ast.Node) bool {
			if _, ok := n.(*ast.FuncLit); ok {
				return false
			}
			if c, ok := n.(*ast.CallExpr); ok {
				if cd := w.callee(c); cd != nil && funcName(cd) != f && w.calledUnconditionally(funcName(cd), g, depth+1) {
					via = true
				}
			}
			return !via
		})
		return via
	}
	returns := func(s ast.Stmt) bool {
		found := false
		ast.Inspect(s, func(n ast.Node) bool {
			switch n.(type) {
			case *ast.FuncLit:
				return false
			case *ast.ReturnStmt:
				found = true
			}
			return !found
		})
		return found
	}
	for _, s := range fd.Body.List {
		switch x := s.(type) {
		case *ast.IfStmt:
			// the init statement and the condition run on every path, the branches do not; a branch
			// that returns makes what follows conditional - unless the condition is a disjunction
			// of nil tests `X == nil` of the receiver or of fields reached from it
			if x.Init != nil && reached(x.Init) || reached(x.Cond) {
				return true
			}
			if returns(s) && !w.receiverNilGuard(fd, x) {
				return false
			}
			continue
		case *ast.SwitchStmt:
			if x.Init != nil && reached(x.Init) || x.Tag != nil && reached(x.Tag) {
				return true
			}
			if returns(s) {
				return false
			}
			continue
		case *ast.RangeStmt:
			if reached(x.X) {
				return true
			}
			if returns(s) {
				return false
			}
			continue
		case *ast.ForStmt, *ast.TypeSwitchStmt, *ast.SelectStmt:
			if returns(s) {
				return false
			}
			continue
		case *ast.ReturnStmt:
			return reached(s) // `return f(...)`: what f calls is still reached, what follows is not
		}
		if reached(s) {
			return true
		}
	}
	return false
}

// receiverNilGuard: `if X == nil [|| Y == nil] { ... }` without init and else, every X the receiver
// of fd or a chain of field selections on it.
func (w *world) receiverNilGuard(fd *ast.FuncDecl, x *ast.IfStmt) bool {
	if x.Init != nil || x.Else != nil || fd.Recv == nil || len(fd.Recv.List) != 1 || len(fd.Recv.List[0].Names) != 1 {
		return false
	}
	recv := w.info.Defs[fd.Recv.List[0].Names[0]]
	var ds []ast.Expr
	var split func(e ast.Expr)
	split = func(e ast.Expr) {
		e = unparen(e)
		if b, ok := e.(*ast.BinaryExpr); ok && b.Op == token.LOR {
			split(b.X)
			split(b.Y)
			return
		}
		ds = append(ds, e)
	}
	split(x.Cond)
	for _, d := range ds {
		t, op, ok := w.nilTest(d)
		if !ok || op != token.EQL || !w.pureFieldPath(t) {
			return false
		}
		if id := pathIdent(t); id == nil || recv == nil || w.info.Uses[id] != recv {
			return false
		}
	}
	return true
}

func (w *world) classifyResets(listed []*fieldFact) {
	allow := map[string]AllowField{}
	for _, a := range w.cfg.Fields {
		allow[a.Field] = a
	}
	// the module containers: registry fields of the root whose type mentions *Module
	moduleMaps = map[string]bool{}
	if st := w.structs[w.cfg.Root]; st != nil {
		for i := 0; i < st.NumFields(); i++ {
			k := w.cfg.Root + "." + st.Field(i).Name()
			if al, ok := allow[k]; ok && al.Class == "registry" && w.directMentions(st.Field(i).Type())["Module"] {
				moduleMaps[st.Field(i).Name()] = true
			}
		}
	}
	w.note("module containers (every accepted module is in at least one, possibly in one only): %v", sortedKeys(moduleMaps))
	// the prologue of Process
	proc := w.decls[w.cfg.Process]
	if proc == nil || proc.Body == nil {
		w.note("function %s not found: no field is reset", w.cfg.Process)
		return
	}
	rw := &resetWalker{w: w, facts: map[fieldKey]*resetFact{}, stack: map[string]bool{w.cfg.Process: true}, ranging: map[fieldKey]bool{}}
	if !rw.prologue(proc, rw.frameEnv(proc, nil, nil), ctx{}) {
		w.note("%s does not call the linking pass %s: its prologue is empty", w.cfg.Process, w.cfg.LinkingPass)
		rw.facts = map[fieldKey]*resetFact{}
	}

	for _, f := range listed {
		a, inAllow := allow[f.Key.String()]
		rf := rw.facts[f.Key]
		switch {
		case inAllow && a.ResetIn != "" && a.ResetIn != w.cfg.Process:
			f.Reset, f.Why = w.resetElsewhere(f, a.ResetIn, a)
		case rf != nil && rf.full:
			f.Reset, f.Why = "full-reset", "prologue of "+w.cfg.Process+": "+strings.Join(rf.sites, ", ")
		case rf != nil && rf.cover != "" && covers(rf.cover, w.required(a)):
			f.Reset, f.Why = "full-reset", "prologue of "+w.cfg.Process+", for every element of every module of "+rf.cover+w.requiredNote(a)+": "+strings.Join(rf.sites, ", ")
		case rf != nil && rf.cover != "":
			f.Reset, f.Why = "partial", "reset only for the elements reached from the modules of "+rf.cover+", not of every module container "+strings.Join(w.required(a), ",")+": "+strings.Join(rf.sites, ", ")
		case rf != nil && len(rf.partial) > 0:
			f.Reset, f.Why = "partial", strings.Join(rf.partial, "; ")
		case rf != nil && rf.bump:
			f.Reset, f.Why = "full-reset", "the counter itself: incremented in the prologue at "+strings.Join(rf.sites, ", ")
		}
		if inAllow && a.Stamp != "" && f.Reset != "full-reset" {
			ok, why := w.generationGuarded(f, a, rw)
			if ok {
				f.Reset, f.Why = "generation", why
			} else {
				if f.Reset == "none" {
					f.Why = why
				} else {
					f.Why += "; " + why
				}
			}
		}
	}
}

// resetElsewhere: the field names another function as the place of its reset.
func (w *world) resetElsewhere(f *fieldFact, g string, a AllowField) (string, string) {
	gd := w.decls[g]
	if gd == nil || gd.Body == nil {
		return "none", "reset function " + g + " not found"
	}
	if !w.calledUnconditionally(w.cfg.Process, g, 0) {
		return "none", g + " is not called unconditionally from " + w.cfg.Process
	}
	callers := w.callGraph()
	for wr := range f.Writers {
		if !w.onlyCalledFrom(wr, g, callers, map[string]bool{}) {
			return "none", "also written by " + wr + ", which is not only called from " + g
		}
	}
	for _, s := range gd.Body.List {
		if !w.mentionsField(s, f.Key) {
			continue
		}
		rw := &resetWalker{w: w, facts: map[fieldKey]*resetFact{}, stack: map[string]bool{g: true}, ranging: map[fieldKey]bool{}}
		rw.stmt(s, rw.frameEnv(gd, nil, nil), ctx{})
		rf := rw.facts[f.Key]
		switch {
		case rf != nil && (rf.full || (rf.cover != "" && covers(rf.cover, w.required(a)))) && len(rf.partial) == 0:
			return "full-reset", "first mention in " + g + " (called unconditionally from " + w.cfg.Process + "), for every module of " + rf.cover + w.requiredNote(a) + ": " + strings.Join(rf.sites, ", ")
		case rf != nil && len(rf.partial) > 0:
			return "partial", "first mention in " + g + " at " + w.pos(s) + ": " + strings.Join(rf.partial, "; ")
		case rf != nil && rf.cover != "":
			return "partial", "first mention in " + g + " at " + w.pos(s) + " resets only the elements reached from the modules of " + rf.cover + ", not of every module container " + strings.Join(w.required(a), ",")
		}
		return "none", "first mention in " + g + " at " + w.pos(s) + " is not a full reset"
	}
	return "none", g + " does not mention the field"
}

// generationGuarded checks the generation memo discipline for field f (see the file comment).
func (w *world) generationGuarded(f *fieldFact, a AllowField, rw *resetWalker) (bool, string) {
	split := func(s string) fieldKey {
		i := strings.IndexByte(s, '.')
		if i < 0 {
			return fieldKey{}
		}
		return fieldKey{s[:i], s[i+1:]}
	}
	stamp, counter := split(a.Stamp), split(a.Counter)
	if st := w.structs[stamp.Struct]; st == nil || !hasField(st, stamp.Field) {
		return false, "generation stamp " + a.Stamp + " does not exist"
	}
	if st := w.structs[counter.Struct]; st == nil || !hasField(st, counter.Field) {
		return false, "generation counter " + a.Counter + " does not exist"
	}
	if cf := rw.facts[counter]; cf == nil || !cf.bump {
		return false, "generation counter " + a.Counter + " is not incremented unconditionally in the prologue of " + w.cfg.Process
	}
	if len(f.Writers) == 0 {
		return false, "no writer"
	}
	for _, fn := range sortedKeys(f.Writers) {
		fd := w.decls[fn]
		if fd == nil || fd.Recv == nil || len(fd.Recv.List) != 1 || len(fd.Recv.List[0].Names) != 1 || !strings.HasPrefix(fn, f.Key.Struct+".") {
			return false, "written by " + fn + ", which is not a method of " + f.Key.Struct
		}
		recv := w.info.Defs[fd.Recv.List[0].Names[0]]
		if ok, why := w.memoDiscipline(fd, recv, f.Key, stamp, counter); !ok {
			return false, fn + ": " + why
		}
	}
	return true, "memo stamped with " + a.Stamp + " = " + a.Counter + " (incremented in the prologue of " + w.cfg.Process + "); hit tests in " + strings.Join(sortedKeys(f.Writers), ", ") + " compare the stamp"
}

func hasField(st *types.Struct, name string) bool {
	for i := 0; i < st.NumFields(); i++ {
		if st.Field(i).Name() == name {
			return true
		}
	}
	return false
}

// onRecv: is e the selection recv.F ?
func (w *world) onRecv(e ast.Expr, recv types.Object, k fieldKey) bool {
	sel, ok := e.(*ast.SelectorExpr)
	if !ok {
		return false
	}
	id, ok := sel.X.(*ast.Ident)
	if !ok || w.info.Uses[id] != recv {
		return false
	}
	k2, ok := w.fieldOf(sel)
	return ok && k2 == k
}

func unparen(e ast.Expr) ast.Expr {
	for {
		p, ok := e.(*ast.ParenExpr)
		if !ok {
			return e
		}
		e = p.X
	}
}

func conjuncts(e ast.Expr, out *[]ast.Expr) {
	e = unparen(e)
	if b, ok := e.(*ast.BinaryExpr); ok && b.Op == token.LAND {
		conjuncts(b.X, out)
		conjuncts(b.Y, out)
		return
	}
	*out = append(*out, e)
}

// isStampTest: recv.stamp == x.counter (either order)
func (w *world) isStampTest(e ast.Expr, recv types.Object, stamp, counter fieldKey) bool {
	b, ok := unparen(e).(*ast.BinaryExpr)
	if !ok || b.Op != token.EQL {
		return false
	}
	isCounter := func(x ast.Expr) bool {
		k, ok := w.fieldOf(unparen(x))
		return ok && k == counter
	}
	return (w.onRecv(unparen(b.X), recv, stamp) && isCounter(b.Y)) || (w.onRecv(unparen(b.Y), recv, stamp) && isCounter(b.X))
}

func (w *world) memoDiscipline(fd *ast.FuncDecl, recv types.Object, memo, stamp, counter fieldKey) (bool, string) {
	// parents
	parent := map[ast.Node]ast.Node{}
	var stack []ast.Node
	ast.Inspect(fd.Body, func(n ast.Node) bool {
		if n == nil {
			stack = stack[:len(stack)-1]
			return true
		}
		if len(stack) > 0 {
			parent[n] = stack[len(stack)-1]
		}
		stack = append(stack, n)
		return true
	})
	// (i) the stamp is written from the counter
	stamped := false
	ast.Inspect(fd.Body, func(n ast.Node) bool {
		if as, ok := n.(*ast.AssignStmt); ok && len(as.Lhs) == len(as.Rhs) {
			for i, l := range as.Lhs {
				if w.onRecv(l, recv, stamp) {
					if k, ok := w.fieldOf(unparen(as.Rhs[i])); ok && k == counter {
						stamped = true
					}
				}
			}
		}
		return true
	})
	if memo == stamp {
		// the stamp itself: every write must take the counter's value
		ok, where := true, ""
		ast.Inspect(fd.Body, func(n ast.Node) bool {
			if as, isAs := n.(*ast.AssignStmt); isAs && len(as.Lhs) == len(as.Rhs) {
				for i, l := range as.Lhs {
					if w.onRecv(l, recv, stamp) {
						if k, isF := w.fieldOf(unparen(as.Rhs[i])); !isF || k != counter {
							ok, where = false, w.pos(as)
						}
					}
				}
			}
			return true
		})
		if !ok {
			return false, "the stamp is written with something else than " + counter.String() + " at " + where
		}
		return stamped, "the stamp is never written from " + counter.String()
	}
	if !stamped {
		// only the functions that store a result need to stamp it; one that merely resets does not
		storesResult := false
		ast.Inspect(fd.Body, func(n ast.Node) bool {
			if as, ok := n.(*ast.AssignStmt); ok && len(as.Lhs) == len(as.Rhs) {
				for i, l := range as.Lhs {
					if w.onRecv(l, recv, memo) && !freshValue(as.Rhs[i]) {
						storesResult = true
					}
				}
			}
			return true
		})
		if storesResult {
			return false, "stores the memo without writing the stamp " + stamp.String() + " from " + counter.String()
		}
	}
	// implies: the condition holds only if the stamp equals the counter (one of its conjuncts is
	// the stamp test; a disjunction at the top implies nothing)
	implies := func(cond ast.Expr) bool {
		var cs []ast.Expr
		conjuncts(cond, &cs)
		for _, c := range cs {
			if w.isStampTest(c, recv, stamp, counter) {
				return true
			}
			// !(stamp != counter)
			if u, ok := unparen(c).(*ast.UnaryExpr); ok && u.Op == token.NOT {
				if nb, ok := unparen(u.X).(*ast.BinaryExpr); ok && nb.Op == token.NEQ &&
					w.isStampTest(&ast.BinaryExpr{X: nb.X, Op: token.EQL, Y: nb.Y}, recv, stamp, counter) {
					return true
				}
			}
		}
		return false
	}
	// impliesWhenFalse: if the condition is false the stamp equals the counter (one of its
	// disjuncts is `stamp != counter` or `!(stamp == counter)`)
	var disjuncts func(e ast.Expr, out *[]ast.Expr)
	disjuncts = func(e ast.Expr, out *[]ast.Expr) {
		e = unparen(e)
		if b, ok := e.(*ast.BinaryExpr); ok && b.Op == token.LOR {
			disjuncts(b.X, out)
			disjuncts(b.Y, out)
			return
		}
		*out = append(*out, e)
	}
	impliesWhenFalse := func(cond ast.Expr) bool {
		var ds []ast.Expr
		disjuncts(cond, &ds)
		for _, d := range ds {
			d = unparen(d)
			if b, ok := d.(*ast.BinaryExpr); ok && b.Op == token.NEQ {
				eq := &ast.BinaryExpr{X: b.X, Op: token.EQL, Y: b.Y}
				if w.isStampTest(eq, recv, stamp, counter) {
					return true
				}
			}
			if u, ok := d.(*ast.UnaryExpr); ok && u.Op == token.NOT && w.isStampTest(u.X, recv, stamp, counter) {
				return true
			}
		}
		return false
	}
	// leaves: the block always ends by leaving (return / continue / break / goto / panic)
	leaves := func(b *ast.BlockStmt) bool {
		if b == nil || len(b.List) == 0 {
			return false
		}
		switch x := b.List[len(b.List)-1].(type) {
		case *ast.ReturnStmt, *ast.BranchStmt:
			return true
		case *ast.ExprStmt:
			if c, ok := x.X.(*ast.CallExpr); ok {
				if id, ok := c.Fun.(*ast.Ident); ok && id.Name == "panic" {
					return true
				}
			}
		}
		return false
	}
	// resets: the block assigns a fresh value to the memo, unconditionally
	resets := func(b *ast.BlockStmt) bool {
		for _, s := range b.List {
			if as, ok := s.(*ast.AssignStmt); ok && as.Tok == token.ASSIGN && len(as.Lhs) == len(as.Rhs) {
				for i, l := range as.Lhs {
					if w.onRecv(l, recv, memo) && freshValue(as.Rhs[i]) {
						return true
					}
				}
			}
		}
		return false
	}
	// dominated: the node is only evaluated after a successful test `recv.stamp == d.counter`:
	// right operand of `&&` whose left operand implies it, right operand of `||` whose left operand
	// is its negation, then-branch (case body) of a condition that implies it, else-branch of its
	// negation, or after an earlier `if recv.stamp != d.counter { ... leave / reset the memo }` of
	// an enclosing block.  A function literal ends the search (it runs at another time).
	// inGuardedCondition: the node stands inside the condition of an if (or the single expression
	// of a case of a tagless switch) that implies the stamp test, reached through boolean and
	// comparison operators, parentheses and len() only: whatever it reads only decides whether a
	// condition holds that cannot hold without the stamp test, and the branch taken when it does
	// not hold recomputes or is checked for its own reads.
	inGuardedCondition := func(n ast.Node) bool {
		cur := n
		for p := parent[cur]; p != nil; cur, p = p, parent[p] {
			switch x := p.(type) {
			case *ast.ParenExpr, *ast.BinaryExpr, *ast.UnaryExpr:
				continue
			case *ast.CallExpr:
				if id, ok := x.Fun.(*ast.Ident); ok && id.Name == "len" {
					continue
				}
				return false
			case *ast.IfStmt:
				return ast.Node(x.Cond) == cur && implies(x.Cond)
			case *ast.CaseClause:
				if len(x.List) == 1 && ast.Node(x.List[0]) == cur && implies(x.List[0]) {
					if blk, ok := parent[x].(*ast.BlockStmt); ok {
						if sw, ok := parent[blk].(*ast.SwitchStmt); ok && sw.Tag == nil {
							return true
						}
					}
				}
				return false
			default:
				return false
			}
		}
		return false
	}
	dominatedOnly := func(n ast.Node) bool {
		cur := n
		for p := parent[cur]; p != nil; cur, p = p, parent[p] {
			switch x := p.(type) {
			case *ast.FuncLit:
				return false
			case *ast.BinaryExpr:
				if x.Op == token.LAND && ast.Node(x.Y) == cur && implies(x.X) {
					return true
				}
				if x.Op == token.LOR && ast.Node(x.Y) == cur && impliesWhenFalse(x.X) {
					return true
				}
			case *ast.IfStmt:
				if ast.Node(x.Body) == cur && implies(x.Cond) {
					return true
				}
				if x.Else != nil && ast.Node(x.Else) == cur && impliesWhenFalse(x.Cond) {
					return true
				}
			case *ast.CaseClause:
				inBody := false
				for _, st := range x.Body {
					if ast.Node(st) == cur {
						inBody = true
					}
				}
				if inBody && len(x.List) == 1 && implies(x.List[0]) {
					if blk, ok := parent[x].(*ast.BlockStmt); ok {
						if sw, ok := parent[blk].(*ast.SwitchStmt); ok && sw.Tag == nil {
							return true
						}
					}
				}
			case *ast.BlockStmt:
				for _, st := range x.List {
					if ast.Node(st) == cur {
						break
					}
					if ifs, ok := st.(*ast.IfStmt); ok && ifs.Else == nil && impliesWhenFalse(ifs.Cond) && (leaves(ifs.Body) || resets(ifs.Body)) {
						return true
					}
				}
			}
		}
		return false
	}
	dominated := func(n ast.Node) bool { return dominatedOnly(n) || inGuardedCondition(n) }
	// the unconditional top-level reset `recv.memo = nil`
	resetPos := token.NoPos
	for _, s := range fd.Body.List {
		if as, ok := s.(*ast.AssignStmt); ok && as.Tok == token.ASSIGN && len(as.Lhs) == len(as.Rhs) {
			for i, l := range as.Lhs {
				if w.onRecv(l, recv, memo) && freshValue(as.Rhs[i]) && resetPos == token.NoPos {
					resetPos = s.Pos()
				}
			}
		}
	}
	var bad string
	ast.Inspect(fd.Body, func(n ast.Node) bool {
		if bad != "" {
			return false
		}
		sel, ok := n.(*ast.SelectorExpr)
		if !ok || !w.onRecv(sel, recv, memo) {
			return true
		}
		// a write target?
		if as, ok := parent[sel].(*ast.AssignStmt); ok {
			for _, l := range as.Lhs {
				if l == ast.Expr(sel) {
					return true
				}
			}
		}
		// a nil test?
		p := parent[sel]
		for {
			if pe, ok := p.(*ast.ParenExpr); ok {
				p = parent[pe]
				continue
			}
			break
		}
		if b, ok := p.(*ast.BinaryExpr); ok && (b.Op == token.NEQ || b.Op == token.EQL) {
			other := b.X
			if unparen(b.X) == ast.Expr(sel) {
				other = b.Y
			}
			if id, ok := unparen(other).(*ast.Ident); ok && id.Name == "nil" {
				if b.Op == token.EQL {
					return true // a miss test
				}
				// a hit test: fine when it is only evaluated after a successful stamp test ...
				if dominated(sel) {
					return true
				}
				// ... or when it is a conjunct beside the stamp test (the decision needs both)
				var cur ast.Node = b
				for {
					up := parent[cur]
					if pe, ok := up.(*ast.ParenExpr); ok {
						cur = pe
						continue
					}
					if ub, ok := up.(*ast.BinaryExpr); ok && ub.Op == token.LAND {
						var cs []ast.Expr
						conjuncts(ub, &cs)
						for _, c := range cs {
							if w.isStampTest(c, recv, stamp, counter) {
								return true
							}
						}
						cur = ub
						continue
					}
					break
				}
				bad = "memo-hit test at " + w.pos(sel) + " is neither dominated by nor conjoined with the test " + stamp.String() + " == " + counter.String() + ": a result of an earlier generation is taken for valid"
				return false
			}
		}
		// any other read
		if dominated(sel) {
			return true
		}
		if resetPos != token.NoPos && sel.Pos() > resetPos {
			return true
		}
		bad = "memo read at " + w.pos(sel) + " before it is reset and not dominated by a successful test " + stamp.String() + " == " + counter.String() + ": a result of an earlier generation is used"
		return false
	})
	if bad != "" {
		return false, bad
	}
	return true, ""
}

// ---------------------------------------------------------------------------------------------
// package-level variables written outside initialisation

type globalFact struct {
	Name    string
	Writers []string
}

func (w *world) globalsWritten() []globalFact {
	// functions that run during package initialisation only: init, and functions called only from those
	callers := map[string]map[string]bool{}
	for name, fd := range w.decls {
		if fd.Body == nil {
			continue
		}
		ast.Inspect(fd.Body, func(n ast.Node) bool {
			if c, ok := n.(*ast.CallExpr); ok {
				if cd := w.callee(c); cd != nil && funcName(cd) != name {
					cn := funcName(cd)
					if callers[cn] == nil {
						callers[cn] = map[string]bool{}
					}
					callers[cn][name] = true
				}
			}
			return true
		})
	}
	// references that are not calls (function values) make a function callable from anywhere
	valueRef := map[string]bool{}
	for _, f := range w.pkg.Syntax {
		ast.Inspect(f, func(n ast.Node) bool {
			if c, ok := n.(*ast.CallExpr); ok {
				for _, a := range c.Args {
					if id, ok := a.(*ast.Ident); ok {
						if fn, ok := w.info.Uses[id].(*types.Func); ok && fn.Pkg() == w.pkg.Types {
							valueRef[fn.Name()] = true
						}
					}
				}
			}
			if vs, ok := n.(*ast.ValueSpec); ok {
				for _, v := range vs.Values {
					if id, ok := v.(*ast.Ident); ok {
						if fn, ok := w.info.Uses[id].(*types.Func); ok && fn.Pkg() == w.pkg.Types {
							valueRef[fn.Name()] = true
						}
					}
				}
			}
			return true
		})
	}
	initOnly := map[string]bool{}
	for name := range w.decls {
		if strings.HasPrefix(name, "init@") {
			initOnly[name] = true
		}
	}
	for changed := true; changed; {
		changed = false
		for name, fd := range w.decls {
			if initOnly[name] || fd.Name.IsExported() || valueRef[name] || len(callers[name]) == 0 {
				continue
			}
			all := true
			for c := range callers[name] {
				if !initOnly[c] {
					all = false
				}
			}
			if all {
				initOnly[name] = true
				changed = true
			}
		}
	}
	written := map[string]map[string]bool{}
	addrIsCallArg := map[*ast.UnaryExpr]bool{}
	for _, f := range w.pkg.Syntax {
		ast.Inspect(f, func(n ast.Node) bool {
			if c, ok := n.(*ast.CallExpr); ok {
				for _, a := range c.Args {
					if u, isAddr := unparen(a).(*ast.UnaryExpr); isAddr && u.Op == token.AND {
						addrIsCallArg[u] = true
					}
				}
			}
			return true
		})
	}
	for name, fd := range w.decls {
		if fd.Body == nil || initOnly[name] {
			continue
		}
		globalOf := func(e ast.Expr) *types.Var {
			id := baseIdent(e)
			if id == nil {
				return nil
			}
			v, ok := w.info.Uses[id].(*types.Var)
			if !ok || v.Parent() != w.pkg.Types.Scope() {
				return nil
			}
			return v
		}
		markHow := func(e ast.Expr, how string) {
			v := globalOf(e)
			if v == nil {
				return
			}
			if written[v.Name()] == nil {
				written[v.Name()] = map[string]bool{}
			}
			written[v.Name()][name+how] = true
		}
		mark := func(e ast.Expr) { markHow(e, "") }
		// the call a node is an argument of (for the description), and whether that callee only reads
		ast.Inspect(fd.Body, func(n ast.Node) bool {
			c, ok := n.(*ast.CallExpr)
			if !ok {
				return true
			}
			// (a) &global (or &global.f, &global[i]) handed to a callee: a potential write, unless
			// the callee is known to read only (sync/atomic Load*)
			for _, a := range c.Args {
				if u, isAddr := unparen(a).(*ast.UnaryExpr); isAddr && u.Op == token.AND && globalOf(u.X) != nil {
					callee := calleeName(w, c)
					if strings.HasPrefix(callee, "sync/atomic.Load") {
						continue
					}
					markHow(u.X, " (address passed to "+callee+")")
				}
			}
			// (b) a method called on a package-level variable (or a field / element of one):
			//     of a sync or sync/atomic type: everything but Load / the mutex operations writes;
			//     of a type of this package with a pointer receiver: when the method writes through it
			if sel, isSel := c.Fun.(*ast.SelectorExpr); isSel && globalOf(sel.X) != nil {
				if fn, isFn := w.info.Uses[sel.Sel].(*types.Func); isFn {
					if sig, _ := fn.Type().(*types.Signature); sig != nil && sig.Recv() != nil {
						pkgPath := ""
						if fn.Pkg() != nil {
							pkgPath = fn.Pkg().Path()
						}
						switch {
						case pkgPath == "sync" || pkgPath == "sync/atomic":
							switch fn.Name() {
							case "Load", "Lock", "Unlock", "RLock", "RUnlock", "TryLock", "TryRLock", "RLocker", "Range":
							default:
								markHow(sel.X, " (method "+pkgPath+"."+fn.Name()+")")
							}
						case fn.Pkg() == w.pkg.Types:
							if _, ptr := sig.Recv().Type().(*types.Pointer); ptr {
								if cd := w.callee(c); cd != nil && w.writesThroughReceiver(cd, 0, map[string]bool{}) {
									markHow(sel.X, " (method "+funcName(cd)+" writes through its receiver)")
								}
							}
						}
					}
				}
			}
			return true
		})
		// (c) any other escape of &global: stored, returned, sent
		ast.Inspect(fd.Body, func(n ast.Node) bool {
			switch x := n.(type) {
			case *ast.UnaryExpr:
				if x.Op == token.AND && globalOf(x.X) != nil {
					// skip the ones that are call arguments (already described)
					if !addrIsCallArg[x] {
						markHow(x.X, " (address taken)")
					}
				}
			}
			return true
		})
		ast.Inspect(fd.Body, func(n ast.Node) bool {
			switch x := n.(type) {
			case *ast.AssignStmt:
				if x.Tok != token.DEFINE {
					for _, l := range x.Lhs {
						mark(l)
					}
				}
			case *ast.IncDecStmt:
				mark(x.X)
			case *ast.CallExpr:
				if id, ok := x.Fun.(*ast.Ident); ok && (id.Name == "delete" || id.Name == "clear") && len(x.Args) > 0 {
					if _, isBuiltin := w.info.Uses[id].(*types.Builtin); isBuiltin {
						mark(x.Args[0])
					}
				}
			}
			return true
		})
	}
	var out []globalFact
	for _, v := range sortedKeys(written) {
		out = append(out, globalFact{Name: v, Writers: sortedKeys(written[v])})
	}
	sort.Slice(out, func(i, j int) bool { return out[i].Name < out[j].Name })
	return out
}

// calleeName: pkgpath.Name (or pkgpath.Recv.Name) of what a call names, "?" for a function value.
func calleeName(w *world, c *ast.CallExpr) string {
	var id *ast.Ident
	switch f := c.Fun.(type) {
	case *ast.Ident:
		id = f
	case *ast.SelectorExpr:
		id = f.Sel
	default:
		return "?"
	}
	switch o := w.info.Uses[id].(type) {
	case *types.Func:
		p := ""
		if o.Pkg() != nil {
			p = o.Pkg().Path() + "."
		}
		return p + o.Name()
	case *types.Builtin:
		return o.Name()
	}
	return "?"
}

// writesThroughReceiver: does the method (or a method it calls on its receiver) assign through its
// receiver?
func (w *world) writesThroughReceiver(fd *ast.FuncDecl, depth int, seen map[string]bool) bool {
	if fd == nil || fd.Body == nil || fd.Recv == nil || len(fd.Recv.List) != 1 || len(fd.Recv.List[0].Names) != 1 || depth > 4 || seen[funcName(fd)] {
		return false
	}
	seen[funcName(fd)] = true
	recv := w.info.Defs[fd.Recv.List[0].Names[0]]
	onRecv := func(e ast.Expr) bool {
		id := baseIdent(e)
		return id != nil && recv != nil && w.info.Uses[id] == recv
	}
	found := false
	ast.Inspect(fd.Body, func(n ast.Node) bool {
		switch x := n.(type) {
		case *ast.AssignStmt:
			if x.Tok != token.DEFINE {
				for _, l := range x.Lhs {
					if _, plain := l.(*ast.Ident); !plain && onRecv(l) {
						found = true
					}
				}
			}
		case *ast.IncDecStmt:
			if _, plain := x.X.(*ast.Ident); !plain && onRecv(x.X) {
				found = true
			}
		case *ast.CallExpr:
			if id, ok := x.Fun.(*ast.Ident); ok && (id.Name == "delete" || id.Name == "clear") && len(x.Args) > 0 && onRecv(x.Args[0]) {
				found = true
			}
			if sel, ok := x.Fun.(*ast.SelectorExpr); ok && onRecv(sel.X) {
				if cd := w.callee(x); cd != nil && w.writesThroughReceiver(cd, depth+1, seen) {
					found = true
				}
				if fn, ok := w.info.Uses[sel.Sel].(*types.Func); ok && fn.Pkg() != nil && (fn.Pkg().Path() == "sync" || fn.Pkg().Path() == "sync/atomic") {
					switch fn.Name() {
					case "Load", "Lock", "Unlock", "RLock", "RUnlock", "TryLock", "TryRLock", "RLocker", "Range":
					default:
						found = true
					}
				}
			}
		}
		return !found
	})
	return found
}

// required: the module containers an element-wise reset of the field must range over: all of
// them, unless the allow-list narrows it (with a reason).
func (w *world) required(a AllowField) []string {
	if len(a.Containers) > 0 {
		return a.Containers
	}
	return sortedKeys(moduleMaps)
}

func (w *world) requiredNote(a AllowField) string {
	if len(a.Containers) > 0 {
		return " (the allow-list requires " + strings.Join(a.Containers, ",") + " only: " + a.ContainersReason + ")"
	}
	return ""
}
