package main

import (
	"fmt"
	"go/ast"
	"go/token"
	"go/types"
	"sort"
	"strings"
)

// moduleMaps are the MODULE CONTAINERS: the registry fields of the root struct whose type mentions
// *Module (computed in classifyResets: Modules, SubModules, unrevisioned today).  Every module the
// set has accepted is held by at least one of them - and a module can be held by ONE only (an
// unrevisioned module that a later revision displaced is in unrevisioned alone), so a reset "for
// every module" must range over all of them.
var moduleMaps = map[string]bool{}

// cover is a set of module containers, as a sorted comma-separated list.
func coverOf(names ...string) string {
	set := map[string]bool{}
	for _, n := range names {
		for _, x := range strings.Split(n, ",") {
			if x != "" {
				set[x] = true
			}
		}
	}
	return strings.Join(sortedKeys(set), ",")
}

func covers(cover string, required []string) bool {
	have := map[string]bool{}
	for _, x := range strings.Split(cover, ",") {
		have[x] = true
	}
	for _, r := range required {
		if !have[r] {
			return false
		}
	}
	return true
}

// binding says what a loop variable stands for.
type binding struct {
	kind  string // "maps": one of the module maps; "module": a loaded module; "elem": an element of a slice field of a loaded module
	cover string // which module containers are covered
}

type resetFact struct {
	full    bool   // assigned a fresh value / cleared, unconditionally, on the object reached from the root
	cover   string // the same for every element reached from every module of these module containers
	partial []string
	bump    bool
	sites   []string
}

type resetWalker struct {
	w       *world
	facts   map[fieldKey]*resetFact
	stack   map[string]bool
	ranging map[fieldKey]bool // fields whose every key the enclosing range loop visits
	recv    types.Object      // receiver of the function whose statements are being walked
}

// recvOf: the receiver variable of a method of the root or of another struct that is not an AST
// node (one instance per Modules value: the dictionaries).
func (w *world) recvOf(fd *ast.FuncDecl) types.Object {
	if fd == nil || fd.Recv == nil || len(fd.Recv.List) != 1 || len(fd.Recv.List[0].Names) != 1 {
		return nil
	}
	o := w.info.Defs[fd.Recv.List[0].Names[0]]
	if o == nil {
		return nil
	}
	if s := w.namedStruct(o.Type()); s == "" || w.isNode(s) {
		return nil
	}
	return o
}

// escapes: does the statement contain a continue / break / return / goto (outside function literals)?
func escapes(s ast.Stmt) bool {
	found := false
	ast.Inspect(s, func(n ast.Node) bool {
		switch n.(type) {
		case *ast.FuncLit:
			return false
		case *ast.BranchStmt, *ast.ReturnStmt:
			found = true
		}
		return !found
	})
	return found
}

func (rw *resetWalker) fact(k fieldKey) *resetFact {
	if f := rw.facts[k]; f != nil {
		return f
	}
	f := &resetFact{}
	rw.facts[k] = f
	return f
}

func (w *world) pos(n ast.Node) string {
	p := w.fset.Position(n.Pos())
	return fmt.Sprintf("%s:%d", shortFile(p.Filename), p.Line)
}

func shortFile(f string) string {
	if i := strings.LastIndex(f, "/"); i >= 0 {
		return f[i+1:]
	}
	return f
}

// freshValue: nil, an empty composite literal, make(...), a zero literal.
func freshValue(e ast.Expr) bool {
	switch x := e.(type) {
	case *ast.Ident:
		return x.Name == "nil" || x.Name == "false"
	case *ast.BasicLit:
		return x.Value == "0" || x.Value == `""`
	case *ast.CompositeLit:
		return len(x.Elts) == 0
	case *ast.CallExpr:
		if id, ok := x.Fun.(*ast.Ident); ok && id.Name == "make" {
			return true
		}
	case *ast.ParenExpr:
		return freshValue(x.X)
	}
	return false
}

func (w *world) isMutexCall(c *ast.CallExpr) bool {
	sel, ok := c.Fun.(*ast.SelectorExpr)
	if !ok {
		return false
	}
	switch sel.Sel.Name {
	case "Lock", "Unlock", "RLock", "RUnlock":
		if t := w.info.TypeOf(sel.X); t != nil {
			s := t.String()
			return strings.HasSuffix(s, "sync.Mutex") || strings.HasSuffix(s, "sync.RWMutex")
		}
	}
	return false
}

// callee returns the declaration of the package function or method a call names.
func (w *world) callee(c *ast.CallExpr) *ast.FuncDecl {
	var id *ast.Ident
	switch f := c.Fun.(type) {
	case *ast.Ident:
		id = f
	case *ast.SelectorExpr:
		id = f.Sel
	default:
		return nil
	}
	fn, ok := w.info.Uses[id].(*types.Func)
	if !ok || fn.Pkg() != w.pkg.Types {
		return nil
	}
	name := fn.Name()
	if sig, ok := fn.Type().(*types.Signature); ok && sig.Recv() != nil {
		if s := w.namedStruct(sig.Recv().Type()); s != "" {
			name = s + "." + name
		}
	}
	return w.decls[name]
}

// accessorField: a method whose body is `return recv.F` stands for the field F.
func (w *world) accessorField(fd *ast.FuncDecl) (fieldKey, bool) {
	if fd == nil || fd.Body == nil || len(fd.Body.List) != 1 {
		return fieldKey{}, false
	}
	r, ok := fd.Body.List[0].(*ast.ReturnStmt)
	if !ok || len(r.Results) != 1 {
		return fieldKey{}, false
	}
	return w.fieldOf(r.Results[0])
}

// iteratorCoverage: a function whose body consists only of range loops over module maps of its
// receiver whose bodies are a single call of its function parameter with the loop value; returns
// which maps it covers.
func (w *world) iteratorCoverage(fd *ast.FuncDecl) (cover string, ok bool) {
	if fd == nil || fd.Body == nil || fd.Type.Params == nil || len(fd.Type.Params.List) != 1 {
		return "", false
	}
	p := fd.Type.Params.List[0]
	if _, isFunc := p.Type.(*ast.FuncType); !isFunc || len(p.Names) != 1 {
		return "", false
	}
	for _, s := range fd.Body.List {
		rs, isRange := s.(*ast.RangeStmt)
		if !isRange || len(rs.Body.List) != 1 {
			return "", false
		}
		es, isExpr := rs.Body.List[0].(*ast.ExprStmt)
		if !isExpr {
			return "", false
		}
		c, isCall := es.X.(*ast.CallExpr)
		if !isCall {
			return "", false
		}
		if id, isID := c.Fun.(*ast.Ident); !isID || id.Name != p.Names[0].Name {
			return "", false
		}
		k, isField := w.fieldOf(rs.X)
		if !isField || k.Struct != w.cfg.Root || !moduleMaps[k.Field] {
			return "", false
		}
		cover = coverOf(cover, k.Field)
	}
	return cover, cover != ""
}

func (rw *resetWalker) walk(stmts []ast.Stmt, env map[types.Object]binding, cond bool, depth int) {
	for _, s := range stmts {
		rw.stmt(s, env, cond, depth)
		switch s.(type) {
		case *ast.IfStmt, *ast.SwitchStmt, *ast.TypeSwitchStmt, *ast.SelectStmt:
			if escapes(s) {
				cond = true // what follows is not reached on every path
			}
		case *ast.BranchStmt, *ast.ReturnStmt:
			cond = true
		}
	}
}

func (rw *resetWalker) stmt(s ast.Stmt, env map[types.Object]binding, cond bool, depth int) {
	w := rw.w
	switch x := s.(type) {
	case *ast.BlockStmt:
		rw.walk(x.List, env, cond, depth)
	case *ast.ExprStmt:
		if c, ok := x.X.(*ast.CallExpr); ok {
			rw.call(c, env, cond, depth)
		}
	case *ast.IncDecStmt:
		if k, _, ok := w.lhsField(x.X); ok && x.Tok == token.INC {
			f := rw.fact(k)
			if cond {
				f.partial = append(f.partial, "incremented conditionally at "+w.pos(x))
			} else {
				f.bump = true
				f.sites = append(f.sites, w.pos(x))
			}
		}
	case *ast.AssignStmt:
		if x.Tok != token.ASSIGN || len(x.Lhs) != len(x.Rhs) {
			// a call on the right of a define / assignment may still be a reset helper: ignored
			return
		}
		for i, l := range x.Lhs {
			k, ok := w.fieldOf(l) // a direct field selection only: an indexed target is an insert, not a reset
			if !ok {
				if k2, _, ok2 := w.lhsField(l); ok2 {
					rw.fact(k2).partial = append(rw.fact(k2).partial, "element assigned at "+w.pos(x))
				}
				continue
			}
			f := rw.fact(k)
			switch {
			case !freshValue(x.Rhs[i]):
				f.partial = append(f.partial, "assigned a value that is not fresh at "+w.pos(x))
			case cond:
				f.partial = append(f.partial, "reset conditionally at "+w.pos(x))
			default:
				b, bound := binding{}, false
				if id := baseIdent(l); id != nil {
					if o := w.info.Uses[id]; o != nil {
						b, bound = env[o]
					}
				}
				rooted := false
				if id := baseIdent(l); id != nil && rw.recv != nil && w.info.Uses[id] == rw.recv {
					rooted = true
				}
				switch {
				case bound && (b.kind == "elem" || b.kind == "module"):
					f.cover = coverOf(f.cover, b.cover)
				case rooted:
					f.full = true
				default:
					f.partial = append(f.partial, "reset through a variable that does not stand for every object at "+w.pos(x))
					continue
				}
				f.sites = append(f.sites, w.pos(x))
			}
		}
	case *ast.RangeStmt:
		env2 := map[types.Object]binding{}
		for k, v := range env {
			env2[k] = v
		}
		var val types.Object
		if id, ok := x.Value.(*ast.Ident); ok && id.Name != "_" {
			val = w.info.Defs[id]
		}
		b, known := rw.rangeBinding(x.X, env)
		if known && val != nil {
			env2[val] = b
		}
		// a loop over a field itself: every key is visited (for delete-all)
		var over fieldKey
		isOver := false
		if k, ok := w.fieldOf(x.X); ok {
			over, isOver = k, true
			if !cond {
				rw.ranging[over] = true
			}
		}
		rw.walk(x.Body.List, env2, cond, depth)
		if isOver {
			delete(rw.ranging, over)
		}
	case *ast.IfStmt:
		rw.walk(x.Body.List, env, true, depth)
		if x.Else != nil {
			rw.stmt(x.Else, env, true, depth)
		}
	case *ast.SwitchStmt:
		rw.walk(x.Body.List, env, true, depth)
	case *ast.CaseClause:
		rw.walk(x.Body, env, true, depth)
	case *ast.ForStmt:
		rw.walk(x.Body.List, env, true, depth)
	}
}

// rangeBinding: what the value variable of `range e` stands for.
func (rw *resetWalker) rangeBinding(e ast.Expr, env map[types.Object]binding) (binding, bool) {
	w := rw.w
	switch x := e.(type) {
	case *ast.CompositeLit:
		// []map[string]*Module{ms.Modules, ms.SubModules}
		b := binding{kind: "maps"}
		for _, el := range x.Elts {
			k, ok := w.fieldOf(el)
			if !ok || k.Struct != w.cfg.Root || !moduleMaps[k.Field] {
				return binding{}, false
			}
			b.cover = coverOf(b.cover, k.Field)
		}
		return b, b.cover != ""
	case *ast.Ident:
		if o := w.info.Uses[x]; o != nil {
			if b, ok := env[o]; ok && b.kind == "maps" {
				return binding{kind: "module", cover: b.cover}, true
			}
		}
	case *ast.SelectorExpr:
		if k, ok := w.fieldOf(x); ok {
			if k.Struct == w.cfg.Root && moduleMaps[k.Field] {
				return binding{kind: "module", cover: k.Field}, true
			}
			// a slice field of a loaded module
			if id := baseIdent(x); id != nil {
				if o := w.info.Uses[id]; o != nil {
					if b, ok := env[o]; ok && b.kind == "module" {
						if _, direct := x.X.(*ast.Ident); direct {
							return binding{kind: "elem", cover: b.cover}, true
						}
					}
				}
			}
		}
	case *ast.CallExpr:
		// m.Identities(): an accessor of a slice field of a loaded module
		if sel, ok := x.Fun.(*ast.SelectorExpr); ok && len(x.Args) == 0 {
			if _, isField := w.accessorField(w.callee(x)); isField {
				if id, direct := sel.X.(*ast.Ident); direct {
					if o := w.info.Uses[id]; o != nil {
						if b, ok := env[o]; ok && b.kind == "module" {
							return binding{kind: "elem", cover: b.cover}, true
						}
					}
				}
			}
		}
	}
	return binding{}, false
}

func (rw *resetWalker) call(c *ast.CallExpr, env map[types.Object]binding, cond bool, depth int) {
	w := rw.w
	if id, ok := c.Fun.(*ast.Ident); ok && len(c.Args) > 0 {
		if _, isBuiltin := w.info.Uses[id].(*types.Builtin); isBuiltin {
			switch id.Name {
			case "clear":
				if k, ok := w.fieldOf(c.Args[0]); ok {
					f := rw.fact(k)
					if id := baseIdent(c.Args[0]); id == nil || rw.recv == nil || w.info.Uses[id] != rw.recv {
						f.partial = append(f.partial, "cleared through a variable that does not stand for every object at "+w.pos(c))
					} else if cond {
						f.partial = append(f.partial, "cleared conditionally at "+w.pos(c))
					} else {
						f.full = true
						f.sites = append(f.sites, w.pos(c))
					}
				}
			case "delete":
				if k, ok := w.fieldOf(c.Args[0]); ok {
					f := rw.fact(k)
					if !cond && rw.ranging[k] {
						f.full = true
						f.sites = append(f.sites, w.pos(c))
					} else {
						f.partial = append(f.partial, "some keys deleted at "+w.pos(c))
					}
				}
			}
			return
		}
	}
	if w.isMutexCall(c) {
		return
	}
	fd := w.callee(c)
	if fd == nil || fd.Body == nil || depth > 6 {
		return
	}
	name := funcName(fd)
	if rw.stack[name] {
		return
	}
	// an all-modules iterator with a function literal
	if len(c.Args) == 1 {
		if lit, ok := c.Args[0].(*ast.FuncLit); ok {
			if cover, isIter := w.iteratorCoverage(fd); isIter && len(lit.Type.Params.List) == 1 && len(lit.Type.Params.List[0].Names) == 1 {
				env2 := map[types.Object]binding{}
				for k, v := range env {
					env2[k] = v
				}
				if o := w.info.Defs[lit.Type.Params.List[0].Names[0]]; o != nil {
					env2[o] = binding{kind: "module", cover: cover}
				}
				rw.walk(lit.Body.List, env2, cond, depth+1)
				return
			}
		}
	}
	rw.stack[name] = true
	saved := rw.recv
	rw.recv = w.recvOf(fd)
	rw.walk(fd.Body.List, map[types.Object]binding{}, cond, depth+1)
	rw.recv = saved
	delete(rw.stack, name)
}

// containsCallTo: does the statement (outside function literals) call the named function?
func (w *world) containsCallTo(s ast.Node, name string) bool {
	found := false
	ast.Inspect(s, func(n ast.Node) bool {
		if _, ok := n.(*ast.FuncLit); ok {
			return false
		}
		if c, ok := n.(*ast.CallExpr); ok {
			if fd := w.callee(c); fd != nil && funcName(fd) == name {
				found = true
			}
		}
		return !found
	})
	return found
}

// mentionsField: does s select the field, itself or in a function of the package it calls?
func (w *world) mentionsField(s ast.Node, k fieldKey) bool {
	return w.mentionsDeep(s, k, map[string]bool{})
}

func (w *world) mentionsDeep(s ast.Node, k fieldKey, seen map[string]bool) bool {
	found := false
	ast.Inspect(s, func(n ast.Node) bool {
		switch x := n.(type) {
		case *ast.SelectorExpr:
			if k2, ok := w.fieldOf(x); ok && k2 == k {
				found = true
			}
		case *ast.CallExpr:
			if fd := w.callee(x); fd != nil && fd.Body != nil && !seen[funcName(fd)] {
				seen[funcName(fd)] = true
				if w.mentionsDeep(fd.Body, k, seen) {
					found = true
				}
			}
		}
		return !found
	})
	return found
}

// onlyCalledFrom: is every caller of f (transitively) g itself or a function only called from g?
func (w *world) onlyCalledFrom(f, g string, callers map[string]map[string]bool, seen map[string]bool) bool {
	if f == g {
		return true
	}
	if seen[f] {
		return true
	}
	seen[f] = true
	fd := w.decls[f]
	if fd == nil || fd.Name.IsExported() || len(callers[f]) == 0 {
		return false
	}
	for c := range callers[f] {
		if !w.onlyCalledFrom(c, g, callers, seen) {
			return false
		}
	}
	return true
}

func (w *world) callGraph() map[string]map[string]bool {
	callers := map[string]map[string]bool{}
	for name, fd := range w.decls {
		if fd.Body == nil {
			continue
		}
		ast.Inspect(fd.Body, func(n ast.Node) bool {
			if c, ok := n.(*ast.CallExpr); ok {
				if cd := w.callee(c); cd != nil && funcName(cd) != name {
					cn := funcName(cd)
					if callers[cn] == nil {
						callers[cn] = map[string]bool{}
					}
					callers[cn][name] = true
				}
			}
			return true
		})
	}
	return callers
}

// calledUnconditionally: is g reached from f through top-level (unconditional) statements?
func (w *world) calledUnconditionally(f, g string, depth int) bool {
	fd := w.decls[f]
	if fd == nil || fd.Body == nil || depth > 4 {
		return false
	}
	for _, s := range fd.Body.List {
		switch s.(type) {
		case *ast.IfStmt, *ast.ForStmt, *ast.RangeStmt, *ast.SwitchStmt, *ast.ReturnStmt:
			if _, isRet := s.(*ast.ReturnStmt); isRet {
				return false
			}
			continue
		}
		if w.containsCallTo(s, g) {
			return true
		}
		// through a callee of this statement
		via := false
		ast.Inspect(s, func(n ast.Node) bool {
			if _, ok := n.(*ast.FuncLit); ok {
				return false
			}
			if c, ok := n.(*ast.CallExpr); ok {
				if cd := w.callee(c); cd != nil && funcName(cd) != f && w.calledUnconditionally(funcName(cd), g, depth+1) {
					via = true
				}
			}
			return !via
		})
		if via {
			return true
		}
	}
	return false
}

func (w *world) classifyResets(listed []*fieldFact) {
	allow := map[string]AllowField{}
	for _, a := range w.cfg.Fields {
		allow[a.Field] = a
	}
	// the module containers: registry fields of the root whose type mentions *Module
	moduleMaps = map[string]bool{}
	if st := w.structs[w.cfg.Root]; st != nil {
		for i := 0; i < st.NumFields(); i++ {
			k := w.cfg.Root + "." + st.Field(i).Name()
			if al, ok := allow[k]; ok && al.Class == "registry" && w.directMentions(st.Field(i).Type())["Module"] {
				moduleMaps[st.Field(i).Name()] = true
			}
		}
	}
	w.note("module containers (every accepted module is in at least one, possibly in one only): %v", sortedKeys(moduleMaps))
	// the prologue of Process
	proc := w.decls[w.cfg.Process]
	if proc == nil || proc.Body == nil {
		w.note("function %s not found: no field is reset", w.cfg.Process)
		return
	}
	var prologue []ast.Stmt
	sentinel := false
	for _, s := range proc.Body.List {
		if w.containsCallTo(s, w.cfg.LinkingPass) {
			sentinel = true
			break
		}
		prologue = append(prologue, s)
	}
	if !sentinel {
		w.note("%s does not call the linking pass %s: its prologue is empty", w.cfg.Process, w.cfg.LinkingPass)
		prologue = nil
	}
	rw := &resetWalker{w: w, facts: map[fieldKey]*resetFact{}, stack: map[string]bool{w.cfg.Process: true}, ranging: map[fieldKey]bool{},
		recv: w.recvOf(proc)}
	rw.walk(prologue, map[types.Object]binding{}, false, 0)

	for _, f := range listed {
		a, inAllow := allow[f.Key.String()]
		rf := rw.facts[f.Key]
		switch {
		case inAllow && a.ResetIn != "" && a.ResetIn != w.cfg.Process:
			f.Reset, f.Why = w.resetElsewhere(f, a.ResetIn, a)
		case rf != nil && rf.full:
			f.Reset, f.Why = "full-reset", "prologue of "+w.cfg.Process+": "+strings.Join(rf.sites, ", ")
		case rf != nil && rf.cover != "" && covers(rf.cover, w.required(a)):
			f.Reset, f.Why = "full-reset", "prologue of "+w.cfg.Process+", for every element of every module of "+rf.cover+w.requiredNote(a)+": "+strings.Join(rf.sites, ", ")
		case rf != nil && rf.cover != "":
			f.Reset, f.Why = "partial", "reset only for the elements reached from the modules of "+rf.cover+", not of every module container "+strings.Join(w.required(a), ",")+": "+strings.Join(rf.sites, ", ")
		case rf != nil && len(rf.partial) > 0:
			f.Reset, f.Why = "partial", strings.Join(rf.partial, "; ")
		case rf != nil && rf.bump:
			f.Reset, f.Why = "full-reset", "the counter itself: incremented in the prologue at "+strings.Join(rf.sites, ", ")
		}
		if inAllow && a.Stamp != "" && f.Reset != "full-reset" {
			ok, why := w.generationGuarded(f, a, rw)
			if ok {
				f.Reset, f.Why = "generation", why
			} else {
				if f.Reset == "none" {
					f.Why = why
				} else {
					f.Why += "; " + why
				}
			}
		}
	}
}

// resetElsewhere: the field names another function as the place of its reset.
func (w *world) resetElsewhere(f *fieldFact, g string, a AllowField) (string, string) {
	gd := w.decls[g]
	if gd == nil || gd.Body == nil {
		return "none", "reset function " + g + " not found"
	}
	if !w.calledUnconditionally(w.cfg.Process, g, 0) {
		return "none", g + " is not called unconditionally from " + w.cfg.Process
	}
	callers := w.callGraph()
	for wr := range f.Writers {
		if !w.onlyCalledFrom(wr, g, callers, map[string]bool{}) {
			return "none", "also written by " + wr + ", which is not only called from " + g
		}
	}
	for _, s := range gd.Body.List {
		if !w.mentionsField(s, f.Key) {
			continue
		}
		rw := &resetWalker{w: w, facts: map[fieldKey]*resetFact{}, stack: map[string]bool{g: true}, ranging: map[fieldKey]bool{}, recv: w.recvOf(gd)}
		rw.stmt(s, map[types.Object]binding{}, false, 0)
		rf := rw.facts[f.Key]
		switch {
		case rf != nil && (rf.full || (rf.cover != "" && covers(rf.cover, w.required(a)))) && len(rf.partial) == 0:
			return "full-reset", "first mention in " + g + " (called unconditionally from " + w.cfg.Process + "), for every module of " + rf.cover + w.requiredNote(a) + ": " + strings.Join(rf.sites, ", ")
		case rf != nil && len(rf.partial) > 0:
			return "partial", "first mention in " + g + " at " + w.pos(s) + ": " + strings.Join(rf.partial, "; ")
		case rf != nil && rf.cover != "":
			return "partial", "first mention in " + g + " at " + w.pos(s) + " resets only the elements reached from the modules of " + rf.cover + ", not of every module container " + strings.Join(w.required(a), ",")
		}
		return "none", "first mention in " + g + " at " + w.pos(s) + " is not a full reset"
	}
	return "none", g + " does not mention the field"
}

// generationGuarded checks the generation memo discipline for field f (see the file comment).
func (w *world) generationGuarded(f *fieldFact, a AllowField, rw *resetWalker) (bool, string) {
	split := func(s string) fieldKey {
		i := strings.IndexByte(s, '.')
		if i < 0 {
			return fieldKey{}
		}
		return fieldKey{s[:i], s[i+1:]}
	}
	stamp, counter := split(a.Stamp), split(a.Counter)
	if st := w.structs[stamp.Struct]; st == nil || !hasField(st, stamp.Field) {
		return false, "generation stamp " + a.Stamp + " does not exist"
	}
	if st := w.structs[counter.Struct]; st == nil || !hasField(st, counter.Field) {
		return false, "generation counter " + a.Counter + " does not exist"
	}
	if cf := rw.facts[counter]; cf == nil || !cf.bump {
		return false, "generation counter " + a.Counter + " is not incremented unconditionally in the prologue of " + w.cfg.Process
	}
	if len(f.Writers) == 0 {
		return false, "no writer"
	}
	for _, fn := range sortedKeys(f.Writers) {
		fd := w.decls[fn]
		if fd == nil || fd.Recv == nil || len(fd.Recv.List) != 1 || len(fd.Recv.List[0].Names) != 1 || !strings.HasPrefix(fn, f.Key.Struct+".") {
			return false, "written by " + fn + ", which is not a method of " + f.Key.Struct
		}
		recv := w.info.Defs[fd.Recv.List[0].Names[0]]
		if ok, why := w.memoDiscipline(fd, recv, f.Key, stamp, counter); !ok {
			return false, fn + ": " + why
		}
	}
	return true, "memo stamped with " + a.Stamp + " = " + a.Counter + " (incremented in the prologue of " + w.cfg.Process + "); hit tests in " + strings.Join(sortedKeys(f.Writers), ", ") + " compare the stamp"
}

func hasField(st *types.Struct, name string) bool {
	for i := 0; i < st.NumFields(); i++ {
		if st.Field(i).Name() == name {
			return true
		}
	}
	return false
}

// onRecv: is e the selection recv.F ?
func (w *world) onRecv(e ast.Expr, recv types.Object, k fieldKey) bool {
	sel, ok := e.(*ast.SelectorExpr)
	if !ok {
		return false
	}
	id, ok := sel.X.(*ast.Ident)
	if !ok || w.info.Uses[id] != recv {
		return false
	}
	k2, ok := w.fieldOf(sel)
	return ok && k2 == k
}

func unparen(e ast.Expr) ast.Expr {
	for {
		p, ok := e.(*ast.ParenExpr)
		if !ok {
			return e
		}
		e = p.X
	}
}

func conjuncts(e ast.Expr, out *[]ast.Expr) {
	e = unparen(e)
	if b, ok := e.(*ast.BinaryExpr); ok && b.Op == token.LAND {
		conjuncts(b.X, out)
		conjuncts(b.Y, out)
		return
	}
	*out = append(*out, e)
}

// isStampTest: recv.stamp == x.counter (either order)
func (w *world) isStampTest(e ast.Expr, recv types.Object, stamp, counter fieldKey) bool {
	b, ok := unparen(e).(*ast.BinaryExpr)
	if !ok || b.Op != token.EQL {
		return false
	}
	isCounter := func(x ast.Expr) bool {
		k, ok := w.fieldOf(unparen(x))
		return ok && k == counter
	}
	return (w.onRecv(unparen(b.X), recv, stamp) && isCounter(b.Y)) || (w.onRecv(unparen(b.Y), recv, stamp) && isCounter(b.X))
}

func (w *world) memoDiscipline(fd *ast.FuncDecl, recv types.Object, memo, stamp, counter fieldKey) (bool, string) {
	// parents
	parent := map[ast.Node]ast.Node{}
	var stack []ast.Node
	ast.Inspect(fd.Body, func(n ast.Node) bool {
		if n == nil {
			stack = stack[:len(stack)-1]
			return true
		}
		if len(stack) > 0 {
			parent[n] = stack[len(stack)-1]
		}
		stack = append(stack, n)
		return true
	})
	// (i) the stamp is written from the counter
	stamped := false
	ast.Inspect(fd.Body, func(n ast.Node) bool {
		if as, ok := n.(*ast.AssignStmt); ok && len(as.Lhs) == len(as.Rhs) {
			for i, l := range as.Lhs {
				if w.onRecv(l, recv, stamp) {
					if k, ok := w.fieldOf(unparen(as.Rhs[i])); ok && k == counter {
						stamped = true
					}
				}
			}
		}
		return true
	})
	if memo == stamp {
		// the stamp itself: every write must take the counter's value
		ok, where := true, ""
		ast.Inspect(fd.Body, func(n ast.Node) bool {
			if as, isAs := n.(*ast.AssignStmt); isAs && len(as.Lhs) == len(as.Rhs) {
				for i, l := range as.Lhs {
					if w.onRecv(l, recv, stamp) {
						if k, isF := w.fieldOf(unparen(as.Rhs[i])); !isF || k != counter {
							ok, where = false, w.pos(as)
						}
					}
				}
			}
			return true
		})
		if !ok {
			return false, "the stamp is written with something else than " + counter.String() + " at " + where
		}
		return stamped, "the stamp is never written from " + counter.String()
	}
	if !stamped {
		// only the functions that store a result need to stamp it; one that merely resets does not
		storesResult := false
		ast.Inspect(fd.Body, func(n ast.Node) bool {
			if as, ok := n.(*ast.AssignStmt); ok && len(as.Lhs) == len(as.Rhs) {
				for i, l := range as.Lhs {
					if w.onRecv(l, recv, memo) && !freshValue(as.Rhs[i]) {
						storesResult = true
					}
				}
			}
			return true
		})
		if storesResult {
			return false, "stores the memo without writing the stamp " + stamp.String() + " from " + counter.String()
		}
	}
	// implies: the condition holds only if the stamp equals the counter (one of its conjuncts is
	// the stamp test; a disjunction at the top implies nothing)
	implies := func(cond ast.Expr) bool {
		var cs []ast.Expr
		conjuncts(cond, &cs)
		for _, c := range cs {
			if w.isStampTest(c, recv, stamp, counter) {
				return true
			}
			// !(stamp != counter)
			if u, ok := unparen(c).(*ast.UnaryExpr); ok && u.Op == token.NOT {
				if nb, ok := unparen(u.X).(*ast.BinaryExpr); ok && nb.Op == token.NEQ &&
					w.isStampTest(&ast.BinaryExpr{X: nb.X, Op: token.EQL, Y: nb.Y}, recv, stamp, counter) {
					return true
				}
			}
		}
		return false
	}
	// impliesWhenFalse: if the condition is false the stamp equals the counter (one of its
	// disjuncts is `stamp != counter` or `!(stamp == counter)`)
	var disjuncts func(e ast.Expr, out *[]ast.Expr)
	disjuncts = func(e ast.Expr, out *[]ast.Expr) {
		e = unparen(e)
		if b, ok := e.(*ast.BinaryExpr); ok && b.Op == token.LOR {
			disjuncts(b.X, out)
			disjuncts(b.Y, out)
			return
		}
		*out = append(*out, e)
	}
	impliesWhenFalse := func(cond ast.Expr) bool {
		var ds []ast.Expr
		disjuncts(cond, &ds)
		for _, d := range ds {
			d = unparen(d)
			if b, ok := d.(*ast.BinaryExpr); ok && b.Op == token.NEQ {
				eq := &ast.BinaryExpr{X: b.X, Op: token.EQL, Y: b.Y}
				if w.isStampTest(eq, recv, stamp, counter) {
					return true
				}
			}
			if u, ok := d.(*ast.UnaryExpr); ok && u.Op == token.NOT && w.isStampTest(u.X, recv, stamp, counter) {
				return true
			}
		}
		return false
	}
	// leaves: the block always ends by leaving (return / continue / break / goto / panic)
	leaves := func(b *ast.BlockStmt) bool {
		if b == nil || len(b.List) == 0 {
			return false
		}
		switch x := b.List[len(b.List)-1].(type) {
		case *ast.ReturnStmt, *ast.BranchStmt:
			return true
		case *ast.ExprStmt:
			if c, ok := x.X.(*ast.CallExpr); ok {
				if id, ok := c.Fun.(*ast.Ident); ok && id.Name == "panic" {
					return true
				}
			}
		}
		return false
	}
	// resets: the block assigns a fresh value to the memo, unconditionally
	resets := func(b *ast.BlockStmt) bool {
		for _, s := range b.List {
			if as, ok := s.(*ast.AssignStmt); ok && as.Tok == token.ASSIGN && len(as.Lhs) == len(as.Rhs) {
				for i, l := range as.Lhs {
					if w.onRecv(l, recv, memo) && freshValue(as.Rhs[i]) {
						return true
					}
				}
			}
		}
		return false
	}
	// dominated: the node is only evaluated after a successful test `recv.stamp == d.counter`:
	// right operand of `&&` whose left operand implies it, right operand of `||` whose left operand
	// is its negation, then-branch (case body) of a condition that implies it, else-branch of its
	// negation, or after an earlier `if recv.stamp != d.counter { ... leave / reset the memo }` of
	// an enclosing block.  A function literal ends the search (it runs at another time).
	// inGuardedCondition: the node stands inside the condition of an if (or the single expression
	// of a case of a tagless switch) that implies the stamp test, reached through boolean and
	// comparison operators, parentheses and len() only: whatever it reads only decides whether a
	// condition holds that cannot hold without the stamp test, and the branch taken when it does
	// not hold recomputes or is checked for its own reads.
	inGuardedCondition := func(n ast.Node) bool {
		cur := n
		for p := parent[cur]; p != nil; cur, p = p, parent[p] {
			switch x := p.(type) {
			case *ast.ParenExpr, *ast.BinaryExpr, *ast.UnaryExpr:
				continue
			case *ast.CallExpr:
				if id, ok := x.Fun.(*ast.Ident); ok && id.Name == "len" {
					continue
				}
				return false
			case *ast.IfStmt:
				return ast.Node(x.Cond) == cur && implies(x.Cond)
			case *ast.CaseClause:
				if len(x.List) == 1 && ast.Node(x.List[0]) == cur && implies(x.List[0]) {
					if blk, ok := parent[x].(*ast.BlockStmt); ok {
						if sw, ok := parent[blk].(*ast.SwitchStmt); ok && sw.Tag == nil {
							return true
						}
					}
				}
				return false
			default:
				return false
			}
		}
		return false
	}
	dominatedOnly := func(n ast.Node) bool {
		cur := n
		for p := parent[cur]; p != nil; cur, p = p, parent[p] {
			switch x := p.(type) {
			case *ast.FuncLit:
				return false
			case *ast.BinaryExpr:
				if x.Op == token.LAND && ast.Node(x.Y) == cur && implies(x.X) {
					return true
				}
				if x.Op == token.LOR && ast.Node(x.Y) == cur && impliesWhenFalse(x.X) {
					return true
				}
			case *ast.IfStmt:
				if ast.Node(x.Body) == cur && implies(x.Cond) {
					return true
				}
				if x.Else != nil && ast.Node(x.Else) == cur && impliesWhenFalse(x.Cond) {
					return true
				}
			case *ast.CaseClause:
				inBody := false
				for _, st := range x.Body {
					if ast.Node(st) == cur {
						inBody = true
					}
				}
				if inBody && len(x.List) == 1 && implies(x.List[0]) {
					if blk, ok := parent[x].(*ast.BlockStmt); ok {
						if sw, ok := parent[blk].(*ast.SwitchStmt); ok && sw.Tag == nil {
							return true
						}
					}
				}
			case *ast.BlockStmt:
				for _, st := range x.List {
					if ast.Node(st) == cur {
						break
					}
					if ifs, ok := st.(*ast.IfStmt); ok && ifs.Else == nil && impliesWhenFalse(ifs.Cond) && (leaves(ifs.Body) || resets(ifs.Body)) {
						return true
					}
				}
			}
		}
		return false
	}
	dominated := func(n ast.Node) bool { return dominatedOnly(n) || inGuardedCondition(n) }
	// the unconditional top-level reset `recv.memo = nil`
	resetPos := token.NoPos
	for _, s := range fd.Body.List {
		if as, ok := s.(*ast.AssignStmt); ok && as.Tok == token.ASSIGN && len(as.Lhs) == len(as.Rhs) {
			for i, l := range as.Lhs {
				if w.onRecv(l, recv, memo) && freshValue(as.Rhs[i]) && resetPos == token.NoPos {
					resetPos = s.Pos()
				}
			}
		}
	}
	var bad string
	ast.Inspect(fd.Body, func(n ast.Node) bool {
		if bad != "" {
			return false
		}
		sel, ok := n.(*ast.SelectorExpr)
		if !ok || !w.onRecv(sel, recv, memo) {
			return true
		}
		// a write target?
		if as, ok := parent[sel].(*ast.AssignStmt); ok {
			for _, l := range as.Lhs {
				if l == ast.Expr(sel) {
					return true
				}
			}
		}
		// a nil test?
		p := parent[sel]
		for {
			if pe, ok := p.(*ast.ParenExpr); ok {
				p = parent[pe]
				continue
			}
			break
		}
		if b, ok := p.(*ast.BinaryExpr); ok && (b.Op == token.NEQ || b.Op == token.EQL) {
			other := b.X
			if unparen(b.X) == ast.Expr(sel) {
				other = b.Y
			}
			if id, ok := unparen(other).(*ast.Ident); ok && id.Name == "nil" {
				if b.Op == token.EQL {
					return true // a miss test
				}
				// a hit test: fine when it is only evaluated after a successful stamp test ...
				if dominated(sel) {
					return true
				}
				// ... or when it is a conjunct beside the stamp test (the decision needs both)
				var cur ast.Node = b
				for {
					up := parent[cur]
					if pe, ok := up.(*ast.ParenExpr); ok {
						cur = pe
						continue
					}
					if ub, ok := up.(*ast.BinaryExpr); ok && ub.Op == token.LAND {
						var cs []ast.Expr
						conjuncts(ub, &cs)
						for _, c := range cs {
							if w.isStampTest(c, recv, stamp, counter) {
								return true
							}
						}
						cur = ub
						continue
					}
					break
				}
				bad = "memo-hit test at " + w.pos(sel) + " is neither dominated by nor conjoined with the test " + stamp.String() + " == " + counter.String() + ": a result of an earlier generation is taken for valid"
				return false
			}
		}
		// any other read
		if dominated(sel) {
			return true
		}
		if resetPos != token.NoPos && sel.Pos() > resetPos {
			return true
		}
		bad = "memo read at " + w.pos(sel) + " before it is reset and not dominated by a successful test " + stamp.String() + " == " + counter.String() + ": a result of an earlier generation is used"
		return false
	})
	if bad != "" {
		return false, bad
	}
	return true, ""
}

// ---------------------------------------------------------------------------------------------
// package-level variables written outside initialisation

type globalFact struct {
	Name    string
	Writers []string
}

func (w *world) globalsWritten() []globalFact {
	// functions that run during package initialisation only: init, and functions called only from those
	callers := map[string]map[string]bool{}
	for name, fd := range w.decls {
		if fd.Body == nil {
			continue
		}
		ast.Inspect(fd.Body, func(n ast.Node) bool {
			if c, ok := n.(*ast.CallExpr); ok {
				if cd := w.callee(c); cd != nil && funcName(cd) != name {
					cn := funcName(cd)
					if callers[cn] == nil {
						callers[cn] = map[string]bool{}
					}
					callers[cn][name] = true
				}
			}
			return true
		})
	}
	// references that are not calls (function values) make a function callable from anywhere
	valueRef := map[string]bool{}
	for _, f := range w.pkg.Syntax {
		ast.Inspect(f, func(n ast.Node) bool {
			if c, ok := n.(*ast.CallExpr); ok {
				for _, a := range c.Args {
					if id, ok := a.(*ast.Ident); ok {
						if fn, ok := w.info.Uses[id].(*types.Func); ok && fn.Pkg() == w.pkg.Types {
							valueRef[fn.Name()] = true
						}
					}
				}
			}
			if vs, ok := n.(*ast.ValueSpec); ok {
				for _, v := range vs.Values {
					if id, ok := v.(*ast.Ident); ok {
						if fn, ok := w.info.Uses[id].(*types.Func); ok && fn.Pkg() == w.pkg.Types {
							valueRef[fn.Name()] = true
						}
					}
				}
			}
			return true
		})
	}
	initOnly := map[string]bool{}
	for name := range w.decls {
		if strings.HasPrefix(name, "init@") {
			initOnly[name] = true
		}
	}
	for changed := true; changed; {
		changed = false
		for name, fd := range w.decls {
			if initOnly[name] || fd.Name.IsExported() || valueRef[name] || len(callers[name]) == 0 {
				continue
			}
			all := true
			for c := range callers[name] {
				if !initOnly[c] {
					all = false
				}
			}
			if all {
				initOnly[name] = true
				changed = true
			}
		}
	}
	written := map[string]map[string]bool{}
	addrIsCallArg := map[*ast.UnaryExpr]bool{}
	for _, f := range w.pkg.Syntax {
		ast.Inspect(f, func(n ast.Node) bool {
			if c, ok := n.(*ast.CallExpr); ok {
				for _, a := range c.Args {
					if u, isAddr := unparen(a).(*ast.UnaryExpr); isAddr && u.Op == token.AND {
						addrIsCallArg[u] = true
					}
				}
			}
			return true
		})
	}
	for name, fd := range w.decls {
		if fd.Body == nil || initOnly[name] {
			continue
		}
		globalOf := func(e ast.Expr) *types.Var {
			id := baseIdent(e)
			if id == nil {
				return nil
			}
			v, ok := w.info.Uses[id].(*types.Var)
			if !ok || v.Parent() != w.pkg.Types.Scope() {
				return nil
			}
			return v
		}
		markHow := func(e ast.Expr, how string) {
			v := globalOf(e)
			if v == nil {
				return
			}
			if written[v.Name()] == nil {
				written[v.Name()] = map[string]bool{}
			}
			written[v.Name()][name+how] = true
		}
		mark := func(e ast.Expr) { markHow(e, "") }
		// the call a node is an argument of (for the description), and whether that callee only reads
		ast.Inspect(fd.Body, func(n ast.Node) bool {
			c, ok := n.(*ast.CallExpr)
			if !ok {
				return true
			}
			// (a) &global (or &global.f, &global[i]) handed to a callee: a potential write, unless
			// the callee is known to read only (sync/atomic Load*)
			for _, a := range c.Args {
				if u, isAddr := unparen(a).(*ast.UnaryExpr); isAddr && u.Op == token.AND && globalOf(u.X) != nil {
					callee := calleeName(w, c)
					if strings.HasPrefix(callee, "sync/atomic.Load") {
						continue
					}
					markHow(u.X, " (address passed to "+callee+")")
				}
			}
			// (b) a method called on a package-level variable (or a field / element of one):
			//     of a sync or sync/atomic type: everything but Load / the mutex operations writes;
			//     of a type of this package with a pointer receiver: when the method writes through it
			if sel, isSel := c.Fun.(*ast.SelectorExpr); isSel && globalOf(sel.X) != nil {
				if fn, isFn := w.info.Uses[sel.Sel].(*types.Func); isFn {
					if sig, _ := fn.Type().(*types.Signature); sig != nil && sig.Recv() != nil {
						pkgPath := ""
						if fn.Pkg() != nil {
							pkgPath = fn.Pkg().Path()
						}
						switch {
						case pkgPath == "sync" || pkgPath == "sync/atomic":
							switch fn.Name() {
							case "Load", "Lock", "Unlock", "RLock", "RUnlock", "TryLock", "TryRLock", "RLocker", "Range":
							default:
								markHow(sel.X, " (method "+pkgPath+"."+fn.Name()+")")
							}
						case fn.Pkg() == w.pkg.Types:
							if _, ptr := sig.Recv().Type().(*types.Pointer); ptr {
								if cd := w.callee(c); cd != nil && w.writesThroughReceiver(cd, 0, map[string]bool{}) {
									markHow(sel.X, " (method "+funcName(cd)+" writes through its receiver)")
								}
							}
						}
					}
				}
			}
			return true
		})
		// (c) any other escape of &global: stored, returned, sent
		ast.Inspect(fd.Body, func(n ast.Node) bool {
			switch x := n.(type) {
			case *ast.UnaryExpr:
				if x.Op == token.AND && globalOf(x.X) != nil {
					// skip the ones that are call arguments (already described)
					if !addrIsCallArg[x] {
						markHow(x.X, " (address taken)")
					}
				}
			}
			return true
		})
		ast.Inspect(fd.Body, func(n ast.Node) bool {
			switch x := n.(type) {
			case *ast.AssignStmt:
				if x.Tok != token.DEFINE {
					for _, l := range x.Lhs {
						mark(l)
					}
				}
			case *ast.IncDecStmt:
				mark(x.X)
			case *ast.CallExpr:
				if id, ok := x.Fun.(*ast.Ident); ok && (id.Name == "delete" || id.Name == "clear") && len(x.Args) > 0 {
					if _, isBuiltin := w.info.Uses[id].(*types.Builtin); isBuiltin {
						mark(x.Args[0])
					}
				}
			}
			return true
		})
	}
	var out []globalFact
	for _, v := range sortedKeys(written) {
		out = append(out, globalFact{Name: v, Writers: sortedKeys(written[v])})
	}
	sort.Slice(out, func(i, j int) bool { return out[i].Name < out[j].Name })
	return out
}

// calleeName: pkgpath.Name (or pkgpath.Recv.Name) of what a call names, "?" for a function value.
func calleeName(w *world, c *ast.CallExpr) string {
	var id *ast.Ident
	switch f := c.Fun.(type) {
	case *ast.Ident:
		id = f
	case *ast.SelectorExpr:
		id = f.Sel
	default:
		return "?"
	}
	switch o := w.info.Uses[id].(type) {
	case *types.Func:
		p := ""
		if o.Pkg() != nil {
			p = o.Pkg().Path() + "."
		}
		return p + o.Name()
	case *types.Builtin:
		return o.Name()
	}
	return "?"
}

// writesThroughReceiver: does the method (or a method it calls on its receiver) assign through its
// receiver?
func (w *world) writesThroughReceiver(fd *ast.FuncDecl, depth int, seen map[string]bool) bool {
	if fd == nil || fd.Body == nil || fd.Recv == nil || len(fd.Recv.List) != 1 || len(fd.Recv.List[0].Names) != 1 || depth > 4 || seen[funcName(fd)] {
		return false
	}
	seen[funcName(fd)] = true
	recv := w.info.Defs[fd.Recv.List[0].Names[0]]
	onRecv := func(e ast.Expr) bool {
		id := baseIdent(e)
		return id != nil && recv != nil && w.info.Uses[id] == recv
	}
	found := false
	ast.Inspect(fd.Body, func(n ast.Node) bool {
		switch x := n.(type) {
		case *ast.AssignStmt:
			if x.Tok != token.DEFINE {
				for _, l := range x.Lhs {
					if _, plain := l.(*ast.Ident); !plain && onRecv(l) {
						found = true
					}
				}
			}
		case *ast.IncDecStmt:
			if _, plain := x.X.(*ast.Ident); !plain && onRecv(x.X) {
				found = true
			}
		case *ast.CallExpr:
			if id, ok := x.Fun.(*ast.Ident); ok && (id.Name == "delete" || id.Name == "clear") && len(x.Args) > 0 && onRecv(x.Args[0]) {
				found = true
			}
			if sel, ok := x.Fun.(*ast.SelectorExpr); ok && onRecv(sel.X) {
				if cd := w.callee(x); cd != nil && w.writesThroughReceiver(cd, depth+1, seen) {
					found = true
				}
				if fn, ok := w.info.Uses[sel.Sel].(*types.Func); ok && fn.Pkg() != nil && (fn.Pkg().Path() == "sync" || fn.Pkg().Path() == "sync/atomic") {
					switch fn.Name() {
					case "Load", "Lock", "Unlock", "RLock", "RUnlock", "TryLock", "TryRLock", "RLocker", "Range":
					default:
						found = true
					}
				}
			}
		}
		return !found
	})
	return found
}

// required: the module containers an element-wise reset of the field must range over: all of
// them, unless the allow-list narrows it (with a reason).
func (w *world) required(a AllowField) []string {
	if len(a.Containers) > 0 {
		return a.Containers
	}
	return sortedKeys(moduleMaps)
}

func (w *world) requiredNote(a AllowField) string {
	if len(a.Containers) > 0 {
		return " (the allow-list requires " + strings.Join(a.Containers, ",") + " only: " + a.ContainersReason + ")"
	}
	return ""
}
