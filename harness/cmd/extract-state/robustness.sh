#!/bin/bash
# robustness.sh: evaluate the carried-state obligation (Props/C18State.lean) on seeded changes.
#   must break (with the field named):  the patches listed in MUST_BREAK
#   must stay quiet:                    /verif/seeded/benign/*/patch.diff and the commits in QUIET_COMMITS
# Works on a scratch clone under /tmp (removed at the end); never touches /repo or lean/Goyang/Gen.
# Each patch is applied at the `head` recorded in its result.json (else at /repo's HEAD).
set -u
export GOFLAGS=-mod=mod GOPROXY=off GOSUMDB=off GOTOOLCHAIN=local
MUST_BREAK="C06-b2 C18-b2 C18-c1 C05-c2 C09-b2 C11-b2 C14-c2 C18-2 C18-b1 C18-c2 C18-f2 C19-h22"
# repairs that rewrote a generation-guarded memo test and are harmless for C18
QUIET_COMMITS="673b372"
T=/tmp/c18state.$$; mkdir -p $T; trap "rm -rf $T" EXIT
(cd /verif/harness && go build -o $T/extract-state ./cmd/extract-state) || exit 2
git clone -q /repo $T/wt || exit 2
HEAD=$(git -C /repo rev-parse HEAD)
evalrepo() {   # prints: (justified, owned, globals, [unjustified fields])
  $T/extract-state -repo $T/wt -o $T/State.lean 2>$T/err.txt || { echo "EXTRACT-FAILED $(head -c 200 $T/err.txt)"; return; }
  printf 'open Goyang.Model.StateInv in\n#eval (CarriedStateJustified Goyang.Gen.State.table, OwnedTypesConfined Goyang.Gen.State.owned, GlobalsExplained Goyang.Gen.State.globals, unjustified Goyang.Gen.State.table)\n' >> $T/State.lean
  (cd /verif/lean && lake env lean $T/State.lean 2>&1 | tr '\n' ' '); echo
}
evalpatch() {
  local P=$1 H
  H=$(python3 -c "import json,sys,os; p=os.path.join(os.path.dirname(sys.argv[1]),'result.json'); print(json.load(open(p)).get('head','') if os.path.exists(p) else '')" $P 2>/dev/null)
  (cd $T/wt && git checkout -q -- . && git clean -fdq && git checkout -q --detach ${H:-$HEAD} 2>/dev/null && git apply $P 2>/dev/null) || { echo "APPLY-FAILED"; return; }
  evalrepo
}
fail=0
for p in $MUST_BREAK; do
  r=$(evalpatch /verif/seeded/$p/patch.diff)
  case "$r" in "(true, true, true, [])"*|APPLY-FAILED*|EXTRACT-FAILED*) echo "must-break $p: NOT CAUGHT  $r"; fail=1;; *) echo "must-break $p: breaks  $r";; esac
  grep "NOT DISPOSED\|UNCLASSIFIED\|NOT PINNED\|NEW WRITER\|PACKAGE-LEVEL\|NOT CONFINED" $T/State.notes.txt | sort -u | head -3 | cut -c1-260
done
quiet=0; alarms=0
for d in /verif/seeded/benign/*/; do
  r=$(evalpatch $d/patch.diff)
  case "$r" in "(true, true, true, [])"*) quiet=$((quiet+1));; *) alarms=$((alarms+1)); echo "benign $(basename $d): ALARM  $r"; fail=1;; esac
done
echo "benign: $quiet quiet, $alarms alarm"
for c in $QUIET_COMMITS; do
  (cd $T/wt && git checkout -q -- . && git clean -fdq && git checkout -q --detach $c) || { echo "commit $c: not found"; continue; }
  r=$(evalrepo)
  case "$r" in "(true, true, true, [])"*) echo "commit $c: quiet";; *) echo "commit $c: ALARM  $r"; fail=1;; esac
done
exit $fail
