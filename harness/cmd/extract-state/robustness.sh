#!/bin/bash
# robustness.sh: evaluate the carried-state obligation (Props/C18State.lean) on seeded changes.
#   must break (with the field named):  the patches listed in MUST_BREAK
#   must stay quiet:                    /verif/seeded/benign/*/patch.diff and the commits in QUIET_COMMITS
#   variants/quiet-*.diff must stay quiet, variants/break-*.diff must break: rewrites of the per-run reset at the
#   start of Process (helper, closure, iterator, nil guards, aliases | filter, option, forgotten field, break, lazy
#   init, ...); regenerate them with variants/mk.py <scratch worktree> when they no longer apply
# Works on a scratch clone under /tmp (removed at the end); never touches /repo or lean/Goyang/Gen.
# Each patch is applied at the `head` recorded in its result.json (else at /repo's HEAD).
set -u
export GOFLAGS=-mod=mod GOPROXY=off GOSUMDB=off GOTOOLCHAIN=local
MUST_BREAK="C06-b2 C18-b2 C18-c1 C05-c2 C09-b2 C11-b2 C14-c2 C18-2 C18-b1 C18-c2 C18-f2 C19-h22 C18-i22 C13-j22"
# repairs that rewrote a generation-guarded memo test / widened the unlink loop and are harmless for C18
QUIET_COMMITS="0c84daa"
# commits that MUST break: 673b372 is the tree before the D66 repair (unlink loop without ms.unrevisioned)
BREAK_COMMITS="673b372"
T=/tmp/c18state.$$; mkdir -p $T; trap "rm -rf $T" EXIT
(cd /verif/harness && go build -o $T/extract-state ./cmd/extract-state) || exit 2
git clone -q /repo $T/wt || exit 2
HEAD=$(git -C /repo rev-parse HEAD)
evalrepo() {   # prints: (justified, owned, globals, [unjustified fields])
  $T/extract-state -repo $T/wt -o $T/State.lean 2>$T/err.txt || { echo "EXTRACT-FAILED $(head -c 200 $T/err.txt)"; return; }
  printf 'open Goyang.Model.StateInv in\n#eval (CarriedStateJustified Goyang.Gen.State.table, OwnedTypesConfined Goyang.Gen.State.owned, GlobalsExplained Goyang.Gen.State.globals, unjustified Goyang.Gen.State.table)\n' >> $T/State.lean
  (cd /verif/lean && lake env lean $T/State.lean 2>&1 | tr '\n' ' ')
  # ... and a digest of what the notes say about the offenders (class and reason, without line numbers)
  echo " #$(grep -h 'NOT DISPOSED\|UNCLASSIFIED\|NOT PINNED\|OUTSIDE ITS PINNED\|PACKAGE-LEVEL\|NOT CONFINED' $T/State.notes.txt | sed 's/\.go:[0-9]*/.go/g' | sort -u | md5sum | cut -c1-8)"
}
declare -A BASE
# evalpatch <patch>: applies at /repo's HEAD when the patch applies there, else at the `head` recorded
# in its result.json; prints "<result with the patch> || <result of that tree without the patch>".
# A patch is QUIET when both are equal (older trees have findings of their own, e.g. the unlink loop
# before the D66 repair), it BREAKS when the patched tree has something the base tree has not.
evalpatch() {
  local P=$1 H B
  H=$HEAD
  if ! (cd $T/wt && git checkout -q -- . && git clean -fdq && git checkout -q --detach $H 2>/dev/null && git apply --check $P 2>/dev/null); then
    H=$(python3 -c "import json,sys,os; p=os.path.join(os.path.dirname(sys.argv[1]),'result.json'); print(json.load(open(p)).get('head','') if os.path.exists(p) else '')" $P 2>/dev/null)
    [ -z "$H" ] && { echo "APPLY-FAILED"; return; }
  fi
  if [ -z "${BASE[$H]:-}" ]; then
    (cd $T/wt && git checkout -q -- . && git clean -fdq && git checkout -q --detach $H 2>/dev/null) || { echo "APPLY-FAILED"; return; }
    BASE[$H]=$(evalrepo)
  fi
  (cd $T/wt && git checkout -q -- . && git clean -fdq && git checkout -q --detach $H 2>/dev/null && git apply $P 2>/dev/null) || { echo "APPLY-FAILED"; return; }
  echo "$(evalrepo) || ${BASE[$H]}"
}
same() { [ "${1%% ||*}" == "${1##*|| }" ]; }
fail=0
for p in $MUST_BREAK; do
  r=$(evalpatch /verif/seeded/$p/patch.diff)
  if same "$r" || [[ "$r" == APPLY-FAILED* ]] || [[ "$r" == EXTRACT-FAILED* ]]; then echo "must-break $p: NOT CAUGHT  $r"; fail=1; else echo "must-break $p: breaks  ${r%% ||*}"; fi
  grep "NOT DISPOSED\|UNCLASSIFIED\|NOT PINNED\|OUTSIDE ITS PINNED\|PACKAGE-LEVEL\|NOT CONFINED" $T/State.notes.txt | sort -u | head -3 | cut -c1-260
done
quiet=0; alarms=0
for d in $([ -z "${SKIP_BENIGN:-}" ] && ls -d /verif/seeded/benign/*/); do   # SKIP_BENIGN=1: must-break, variants and commits only
  r=$(evalpatch $d/patch.diff)
  if same "$r" && [[ "$r" != APPLY-FAILED* ]]; then quiet=$((quiet+1)); else alarms=$((alarms+1)); echo "benign $(basename $d): ALARM  $r"; fail=1; fi
done
echo "benign: $quiet quiet, $alarms alarm"
V=$(cd "$(dirname "$0")" && pwd)/variants
vq=0; vb=0
for p in $V/quiet-*.diff; do
  r=$(evalpatch $p)
  if same "$r" && [[ "$r" != APPLY-FAILED* ]]; then vq=$((vq+1)); else echo "variant $(basename $p .diff): ALARM  $r"; fail=1; fi
done
for p in $V/break-*.diff; do
  r=$(evalpatch $p)
  if same "$r" || [[ "$r" == APPLY-FAILED* ]] || [[ "$r" == EXTRACT-FAILED* ]]; then echo "variant $(basename $p .diff): NOT CAUGHT  $r"; fail=1; else vb=$((vb+1)); fi
done
echo "variants: $vq quiet of $(ls $V/quiet-*.diff | wc -l), $vb break of $(ls $V/break-*.diff | wc -l)"
for c in $BREAK_COMMITS; do
  (cd $T/wt && git checkout -q -- . && git clean -fdq && git checkout -q --detach $c) || { echo "commit $c: not found"; continue; }
  r=$(evalrepo)
  case "$r" in "(true, true, true, [])"*) echo "must-break commit $c: NOT CAUGHT"; fail=1;; *) echo "must-break commit $c: breaks  $r";; esac
done
for c in $QUIET_COMMITS; do
  (cd $T/wt && git checkout -q -- . && git clean -fdq && git checkout -q --detach $c) || { echo "commit $c: not found"; continue; }
  r=$(evalrepo)
  case "$r" in "(true, true, true, [])"*) echo "commit $c: quiet";; *) echo "commit $c: ALARM  $r"; fail=1;; esac
done
exit $fail
