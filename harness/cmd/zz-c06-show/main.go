// scratch: print one generated C06 case (removed before hand-in)
package main

import (
	"encoding/json"
	"fmt"
	"math/rand"
	"os"
	"strconv"

	"verif/harness/gen"
)

func main() {
	seed, _ := strconv.Atoi(os.Args[1])
	c := gen.C06Generate(rand.New(rand.NewSource(int64(seed))), gen.C06Default())
	for i := range c.Names {
		fmt.Printf("--- %s\n%s", c.Names[i], c.Texts[i])
	}
	if c.MutTexts != nil {
		fmt.Println("=== mutated variant (changed files only)")
		for i := range c.MutNames {
			if i >= len(c.Names) || c.MutTexts[i] != c.Texts[i] {
				fmt.Printf("--- %s\n%s", c.MutNames[i], c.MutTexts[i])
			}
		}
	}
	b, _ := json.MarshalIndent(map[string]any{"uses": c.Uses, "sites": c.Sites, "mut": c.MutKinds, "late": c.Late, "faulty": c.Faulty}, "", " ")
	fmt.Println(string(b))
	if len(os.Args) > 2 {
		b, _ = json.MarshalIndent(c.Expect, "", " ")
		fmt.Println(string(b))
	}
}
