package main

import (
	"fmt"
	"os"
	"strings"

	"verif/harness/lib"
	"verif/harness/rescorr"
)

func run(name string, texts ...string) {
	var names []string
	for i := range texts {
		names = append(names, fmt.Sprintf("f%d.yang", i))
	}
	o := rescorr.RunGo(rescorr.Case{Names: names, Texts: texts}, nil)
	fmt.Println("==", name, o.ParseErr)
	for _, r := range lib.Project(o.Dump, []string{"kind", "dir", "cfg", "mand", "def", "units", "la", "type"}, true) {
		fmt.Println("   ", rescorr.Readable(r))
	}
}

func main() {
	_ = os.Args
	base := func(body string) string {
		return "module b { namespace \"urn:b\"; prefix b; " + body + " }"
	}
	dev := func(body string) string {
		return "module d { namespace \"urn:d\"; prefix d; import b { prefix b; } " + body + " }"
	}
	_ = strings.Join
	run("L1 add config exists", base("leaf l { type string; config false; }"), dev("deviation /b:l { deviate add { config true; } }"))
	run("L1 add units exists(dev)", base("leaf l { type string; units u0; }"), dev("deviation /b:l { deviate add { units u1; } deviate add { units u2; } }"))
	run("L2 replace absent default", base("leaf l { type string; }"), dev("deviation /b:l { deviate replace { default x; } }"))
	run("L3 delete config mismatch", base("leaf l { type string; config false; }"), dev("deviation /b:l { deviate delete { config true; } }"))
	run("L3 delete mandatory absent", base("leaf l { type string; }"), dev("deviation /b:l { deviate delete { mandatory true; } }"))
	run("L4 delete min 0 absent", base("leaf-list l { type string; }"), dev("deviation /b:l { deviate delete { min-elements 0; } }"))
	run("S1 leaf-list delete default present", base("leaf-list l { type string; default a; default b; }"), dev("deviation /b:l { deviate delete { default a; } }"))
	run("continue: min+max on leaf", base("leaf l { type string; }"), dev("deviation /b:l { deviate add { min-elements 1; max-elements 2; units u; } }"))
	run("ns then add", base("leaf l { type string; } leaf k { type string; }"), dev("deviation /b:l { deviate not-supported; deviate add { units u; } }"))
	run("ns twice", base("leaf l { type string; } leaf k { type string; }"), dev("deviation /b:l { deviate not-supported; deviate not-supported; }"))
	run("replace type on container", base("container c { leaf k { type string; } }"), dev("deviation /b:c { deviate replace { type string; } }"))
	run("add default on container", base("container c { leaf k { type string; } }"), dev("deviation /b:c { deviate add { default x; } }"))
	run("two defaults in deviate", base("leaf-list l { type string; }"), dev("deviation /b:l { deviate add { default x; default y; } }"))
	run("bad type", base("leaf l { type string; }"), dev("deviation /b:l { deviate replace { type nosuch; } }"))
	run("unknown kind", base("leaf l { type string; }"), dev("deviation /b:l { deviate shrink { units u; } }"))
	run("rpc input ns", base("rpc r { input { leaf a { type string; } } output { leaf o { type string; } } }"), dev("deviation /b:r/b:input { deviate not-supported; }"))
	run("rpc absent input add config", base("rpc r { output { leaf o { type string; } } }"), dev("deviation /b:r/b:input { deviate add { config true; } }"))
	run("root target", base("leaf l { type string; }"), dev("deviation /b:. { deviate not-supported; }"))
	run("delete units", base("leaf l { type string; }"), dev("deviation /b:l { deviate add { units u; } } deviation /b:l { deviate delete { units u; } }"))
	run("empty units", base("leaf l { type string; }"), dev("deviation /b:l { deviate add { units \"\"; } }"))
}
