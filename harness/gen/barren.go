package gen

import (
	"fmt"
	"math/rand"
	"strings"
)

// BarrenStats says what AddBarrenAugments planted.
type BarrenStats struct {
	Barren  int // augments whose body contributes no node
	Faulty  int // of these: bodies that carry a fault (an error recorded on the augment entry itself)
	Chained int // of these: target is a node that another (new) augment grafts
	Late    int // of these: target only exists after the implied cases have been inserted
	// Missing lists the grouping names the planted `uses` statements refer to in vain.
	Missing []string
}

// AddBarrenAugments (does not touch Generate; apply it to a generated set) adds augments whose
// BODY CONTRIBUTES NO NODE to the target:
//
//	nothing at all; only when / if-feature / description / status / reference; only `uses` of
//	groupings that are empty (no statement, a description, a nested grouping, a chain of empty ones);
//
// and, for faultPct percent of them, bodies of that kind that CARRY A FAULT, so that the only place
// where the error is recorded is the augment entry itself (it has no child the error could sit on):
//
//	only `uses` of a grouping that does not exist (bare, with the writer's own prefix, with an
//	import's prefix, with a prefix nobody declares, the name of a grouping that exists but is scoped
//	inside a container); uses of empty groupings next to a missing one, in either order; when /
//	if-feature / description next to a missing one; two missing ones; a missing one that has
//	substatements of its own; uses of a grouping whose only statement is a uses of a missing one or
//	of itself (the only child of the body is erroneous in a way that drops it).
//
// Writers: every module and submodule of the set.  Targets, in the writer's own module (for a
// submodule: its owner) or an imported one: container, list, choice, case, notification, explicit
// and lazily created rpc / action input and output; through or at an implied case (applicable in
// the last pass only); a node that another new augment grafts (chained, written before or after the
// augment that needs it).  A few bodies have one real leaf beside the fault (not barren: contrast).
func AddBarrenAugments(r *rand.Rand, set *Set, faultPct int) BarrenStats {
	var st BarrenStats
	seq := 0
	type tgt struct {
		mod *Module
		pfx string
	}
	for pass := 0; pass < 2 && st.Barren == 0; pass++ {
		for _, m := range set.Mods {
			if m.Body == nil || (pass == 0 && r.Intn(10) < 3) {
				continue
			}
			var tgts []tgt
			if m.Sub {
				tgts = append(tgts, tgt{m.Owner, m.Prefix})
			} else {
				tgts = append(tgts, tgt{m, m.Prefix})
			}
			for _, o := range m.Imports {
				if !o.Sub {
					tgts = append(tgts, tgt{o, m.ImportPrefix[o]}, tgt{o, m.ImportPrefix[o]})
				}
			}
			t := tgts[r.Intn(len(tgts))]
			type cand struct {
				path string
				late bool
			}
			var cands []cand
			for _, p := range t.mod.Paths() {
				through := false
				for _, s := range p.ChoiceShorthand {
					through = through || s
				}
				switch p.Kw {
				case "container", "list", "choice", "case", "input", "output", "notification":
					cands = append(cands, cand{pathString(p, t.pfx, false), false})
					if through {
						cands = append(cands, cand{pathString(p, t.pfx, true), true})
					}
				case "rpc", "action":
					// explicit or lazily created
					cands = append(cands, cand{pathString(p, t.pfx, false) + "/" + t.pfx + ":" + []string{"input", "output"}[r.Intn(2)], false})
				}
			}
			if len(cands) == 0 {
				continue
			}
			na := 1 + r.Intn(2)
			for k := 0; k < na; k++ {
				seq++
				id := fmt.Sprintf("%s%d", strings.ReplaceAll(m.Name, "-", ""), seq)
				c := cands[r.Intn(len(cands))]
				target := c.path
				var carrier *Node
				if r.Intn(4) == 0 {
					// chained: another new augment grafts the node this one targets
					carrier = &Node{Kw: "augment", Arg: target}
					bc := carrier.add("container", "bc"+id)
					bc.Kids = append(bc.Kids, lateLeaf("bl"+id))
					target += "/" + m.Prefix + ":bc" + id
					if r.Intn(3) == 0 {
						ch := bc.add("choice", "bh"+id)
						cs := ch.add("case", "bk"+id)
						cs.Kids = append(cs.Kids, lateLeaf("bm"+id))
						target += "/" + m.Prefix + ":bh" + id
						if r.Intn(2) == 0 {
							target += "/" + m.Prefix + ":bk" + id
						}
					}
					st.Chained++
				}
				a := &Node{Kw: "augment", Arg: target}
				faulty := r.Intn(100) < faultPct
				emptyGrouping := func() string {
					seq++
					name := fmt.Sprintf("eg%s%d", strings.ReplaceAll(m.Name, "-", ""), seq)
					g := &Node{Kw: "grouping", Arg: name}
					switch r.Intn(5) {
					case 0:
					case 1:
						g.add("description", "nothing in here")
					case 2:
						in := g.add("grouping", "in"+name)
						in.Kids = append(in.Kids, lateLeaf("never"+name))
					case 3:
						// a chain of empty ones
						seq++
						inner := &Node{Kw: "grouping", Arg: fmt.Sprintf("eg%s%d", strings.ReplaceAll(m.Name, "-", ""), seq)}
						m.Body.Kids = append(m.Body.Kids, inner)
						g.add("uses", inner.Arg).Uses = inner
					default:
						g.add("status", "current")
					}
					m.Body.Kids = append(m.Body.Kids, g)
					return name
				}
				decorate := func(n *Node, atLeastOne bool) {
					did := false
					if r.Intn(2) == 0 {
						n.add("when", "1 = 1")
						did = true
					}
					if r.Intn(3) == 0 {
						m.Body.Kids = append(m.Body.Kids, &Node{Kw: "feature", Arg: "bf" + id})
						n.add("if-feature", "bf"+id)
						did = true
					}
					if r.Intn(2) == 0 || (atLeastOne && !did) {
						n.add("description", "adds no node")
					}
					if r.Intn(4) == 0 {
						n.add("status", "current")
					}
					if r.Intn(4) == 0 {
						n.add("reference", "none")
					}
				}
				missing := func() string {
					name := "nosuch" + id
					switch k := r.Intn(8); {
					case k == 0:
						name = m.Prefix + ":" + name
					case k == 1 && len(m.Imports) > 0:
						name = m.ImportPrefix[m.Imports[r.Intn(len(m.Imports))]] + ":" + name
					case k == 2:
						name = "zz:" + name
					case k == 3:
						// exists, but scoped inside a container: not visible from the augment
						name = "lg" + id
						box := &Node{Kw: "container", Arg: "bx" + id}
						lg := box.add("grouping", name)
						lg.Kids = append(lg.Kids, lateLeaf("ll"+id))
						box.Kids = append(box.Kids, lateLeaf("bz"+id))
						m.Body.Kids = append(m.Body.Kids, box)
					}
					st.Missing = append(st.Missing, name)
					return name
				}
				if !faulty {
					switch r.Intn(4) {
					case 0: // nothing at all
					case 1:
						decorate(a, true)
					case 2:
						a.add("uses", emptyGrouping())
						if r.Intn(2) == 0 {
							a.add("uses", emptyGrouping())
						}
					default:
						decorate(a, false)
						a.add("uses", emptyGrouping())
					}
				} else {
					switch r.Intn(8) {
					case 0, 1: // only a uses of a grouping that does not exist
						a.add("uses", missing())
					case 2: // empty groupings next to it, either order
						if r.Intn(2) == 0 {
							a.add("uses", emptyGrouping())
							a.add("uses", missing())
						} else {
							a.add("uses", missing())
							a.add("uses", emptyGrouping())
						}
						if r.Intn(3) == 0 {
							a.add("uses", emptyGrouping())
						}
					case 3: // when / if-feature / description next to it
						decorate(a, true)
						a.add("uses", missing())
					case 4: // two of them
						a.add("uses", missing())
						seq++
						id = fmt.Sprintf("%s%d", strings.ReplaceAll(m.Name, "-", ""), seq)
						a.add("uses", missing())
					case 5: // with substatements of its own
						u := a.add("uses", missing())
						u.add("when", "2 = 2")
						if r.Intn(2) == 0 {
							u.add("description", "of nothing")
						}
					case 6: // the only child is a grouping whose only statement is dropped
						name := "fg" + id
						g := &Node{Kw: "grouping", Arg: name}
						if r.Intn(3) == 0 {
							g.add("uses", name)
							st.Missing = append(st.Missing, "(circular)"+name)
						} else {
							g.add("uses", missing())
						}
						m.Body.Kids = append(m.Body.Kids, g)
						a.add("uses", name)
					default: // not barren: one real leaf beside the fault
						a.add("uses", missing())
						a.Kids = append(a.Kids, lateLeaf("br"+id))
						if r.Intn(2) == 0 {
							a.Kids[0], a.Kids[1] = a.Kids[1], a.Kids[0]
						}
						st.Barren--
					}
					st.Faulty++
				}
				st.Barren++
				if c.late {
					st.Late++
				}
				switch {
				case carrier == nil:
					m.Body.Kids = append(m.Body.Kids, a)
				case r.Intn(2) == 0:
					m.Body.Kids = append(m.Body.Kids, carrier, a)
				default:
					m.Body.Kids = append(m.Body.Kids, a, carrier)
				}
			}
		}
	}
	return st
}
