package gen

// Generator for property C06 (every use of a grouping is an independent, faithful, locally
// scoped copy).  It builds grouping-heavy module sets together with what the generator itself
// knows about them from its own reading of the YANG scoping rules (RFC 7950 5.5, 7.12, 7.13):
//
//   - for every `uses` statement the grouping it must bind to (nearest enclosing statement that
//     declares the name; at module level the whole module: the (sub)module itself, its includes
//     depth first, for a submodule then the module it belongs to and that module's submodules;
//     a foreign prefix: the top level and the submodules of the module imported under it);
//   - the reference expansion of every module tree (uses inlined recursively, implicit cases
//     inserted), with kind, defaults, list attributes, resolved type kind and identity base of
//     every node (types and identities resolved where the grouping is *defined*);
//   - the instance sites (using node, grouping, contributed names);
//   - a mutated variant of the set in which exactly one or two instances are changed by an
//     augment and by deviations of every kind, and which sites that touches.
//
// Every random choice comes from the *rand.Rand handed in.

import (
	"fmt"
	"math/rand"
	"sort"
	"strings"
)

// C06Config tunes the generator.
type C06Config struct {
	MaxModules int
	Submodules bool
	Mutate     bool
	// BadRate scales the probability of deliberate faults (dangling uses, sibling clashes).
	BadRate float64
	// Extras: nodes, groupings and uses statements carry if-feature / when / status / reference /
	// description and extension statements (Entry.Extra and Entry.Exts of the copies, defect D62).
	Extras bool
	// SubPrefixes: submodules whose belongs-to prefix differs from the prefix of the module they
	// belong to, importing other modules under the module's own prefix or a sibling's belongs-to prefix.
	SubPrefixes bool
	// OldRevisions: one imported module sometimes has a revision and the case carries an older
	// revision of it (C06Case.OldRev).
	OldRevisions bool
}

// C06Default is the configuration the runner uses.
func C06Default() C06Config {
	return C06Config{MaxModules: 3, Submodules: true, Mutate: true, BadRate: 0.05, Extras: true, SubPrefixes: true, OldRevisions: true}
}

// C06UseRef is one `uses` statement and the grouping it must bind to.
type C06UseRef struct {
	Loc  string `json:"loc"`  // file:line:col of the uses statement
	Ref  string `json:"ref"`  // its argument
	GLoc string `json:"gloc"` // file:line:col of the grouping ("" = must not resolve)
	// Site: how the definition is reached (for the distribution): local, ancestor, module,
	// include, nested-include, owner, sibling, import, import-include, none.
	Site string `json:"site"`
}

// C06Site is one instance of a grouping in a module tree.
type C06Site struct {
	Module string   `json:"module"` // module whose tree holds the instance
	Path   []string `json:"path"`   // steps from the module root to the using node, after FixChoice
	GLoc   string   `json:"gloc"`   // the grouping
	GName  string   `json:"gname"`
	Names  []string `json:"names"` // names the grouping contributes to the using node
	// Touched: the mutated variant changes something inside this instance (or removes it).
	Touched bool `json:"touched,omitempty"`
	Nested  bool `json:"nested,omitempty"` // reached through another grouping's expansion
}

// C06Rec is one node of the reference expansion.
type C06Rec struct {
	Path     string   `json:"path"`
	Kind     string   `json:"kind"`
	Def      []string `json:"def,omitempty"`
	LA       string   `json:"la"`
	TypeKind string   `json:"tk,omitempty"` // built-in kind the leaf's type resolves to
	IdBase   string   `json:"idb,omitempty"`
	Key      string   `json:"key,omitempty"`
	Mand     string   `json:"mand"`
	Cfg      string   `json:"cfg"`
	RPC      bool     `json:"rpc,omitempty"`
	// Extra: Entry.Extra restricted to C06ExtraKeys (argument texts, in order); Exts: Entry.Exts as
	// "keyword argument".
	Extra map[string][]string `json:"extra,omitempty"`
	Exts  []string            `json:"exts,omitempty"`
	// IdVals: keys ("owning module:identity", sorted) of every identity derived - directly or through
	// other identities - from the base (Entry.Type.IdentityBase.Values); only the identity-scope family
	IdVals []string `json:"idv,omitempty"`
	// TSig: "kind/range/length" of the resolved type (only the families of c06scope.go, in which
	// every typedef has a restriction of its own, so that the signature names the typedef)
	TSig string `json:"tsig,omitempty"`
}

// C06Late is a module loaded after the first Process: it uses a grouping once more.
type C06Late struct {
	Name  string   `json:"name"`
	Text  string   `json:"text"`
	Path  []string `json:"path"`
	GLoc  string   `json:"gloc"`
	Names []string `json:"names"`
}

// C06AugNode is a node an augment of the mutated variant adds (directly, or as the copy of a
// grouping node through a uses statement in the augment body): it and everything below it belong to
// the namespace of the augmenting module.
type C06AugNode struct {
	Module string   `json:"module"`
	Path   []string `json:"path"`
	NS     string   `json:"ns"`
	IM     string   `json:"im"`
}

// C06OldRev is an older revision of the module at Index of the case's files.
type C06OldRev struct {
	Index int    `json:"index"`
	Name  string `json:"name"`
	Text  string `json:"text"`
}

// C06Case is one generated case.
type C06Case struct {
	Names, Texts       []string // base variant (no augment, no deviation)
	MutNames, MutTexts []string // mutated variant (nil when none could be built)
	Uses               []C06UseRef
	Sites              []C06Site
	Expect             []C06Rec
	Late               *C06Late
	MutKinds           []string // what the mutated variant applies
	AugNodes           []C06AugNode
	OldRev             *C06OldRev // an older revision of one imported module (nil when none)
	MutProps           []string   // "deviate-kind target-keyword property" of every deviate property written
	Groupings          int
	// ExtrasNodes: nodes of the expansion with a non-empty Extra / Exts prediction; ExtrasUses: uses
	// statements with extras of their own; CapSensitive: copied nodes with exactly three own values
	// under a key (or three own extensions) to which a uses statement adds a fourth (Go's append
	// leaves one spare slot after three single appends).
	ExtrasNodes, ExtrasUses, CapSensitive int
	MaxNest                               int // deepest chain of nested uses
	Faulty                                bool
}

var c06NodeNames = []string{"x", "y", "z", "w", "v", "t"}
var c06GroupNames = []string{"g", "h", "k"}
var c06Builtins = []string{"string", "int8", "uint32", "boolean"}

type c06 struct {
	r      *rand.Rand
	cfg    C06Config
	set    *Set
	parent map[*Node]*Node
	mod    map[*Node]*Module // body -> module
	done   map[*Node]bool    // groupings whose body is complete
	used   map[*Node]map[string]bool
	pos    map[*Node]string
	seq    int
	faulty bool
	// pin: revision-date written in the import statement of file -> imported module (revision
	// families, c06rev.go; nil otherwise: imports carry no revision-date)
	pin map[*Module]map[*Module]string
	// sig: when set, the type signature recorded as C06Rec.TSig of every leaf / leaf-list (c06scope.go)
	sig func(leaf *Node) string
	// idvals: when set, the identities derived from an identity key (C06Rec.IdVals; c06ident.go)
	idvals func(key string) []string
}

// c06TreeKey is the key of Modules.Modules under which the tree of m is found: the bare name,
// for a member of a revision family (several loaded revisions of one name) name@revision.
func c06TreeKey(m *Module) string {
	if m.File != "" && len(m.Revisions) > 0 {
		return m.Name + "@" + m.Revisions[0]
	}
	return m.Name
}

func (g *c06) pick(ss []string) string { return ss[g.r.Intn(len(ss))] }
func (g *c06) chance(p float64) bool   { return g.r.Float64() < p }
func (g *c06) bad(p float64) bool {
	if g.r.Float64() < p*g.cfg.BadRate {
		g.faulty = true
		return true
	}
	return false
}

func (g *c06) add(p *Node, kw, arg string) *Node {
	c := &Node{Kw: kw, Arg: arg}
	p.Kids = append(p.Kids, c)
	g.parent[c] = p
	return c
}

func (g *c06) root(n *Node) *Module {
	for g.parent[n] != nil {
		n = g.parent[n]
	}
	return g.mod[n]
}

func c06Owner(m *Module) *Module {
	if m.Sub {
		return m.Owner
	}
	return m
}

// usedOf returns the set of child names taken in n (module-level names are shared by a module
// and all its submodules, whose top-level nodes end up in one tree).
func (g *c06) usedOf(n *Node) map[string]bool {
	if m, ok := g.mod[n]; ok {
		n = c06Owner(m).Body
	}
	u := g.used[n]
	if u == nil {
		u = map[string]bool{}
		g.used[n] = u
	}
	return u
}

// ---- the generator's scope model ----------------------------------------------------------

// searchOrder lists the (sub)modules whose top level is searched for an unprefixed name from m,
// in order: m, its includes depth first, then (for a submodule) the module it belongs to with
// its includes; each once.
func c06SearchOrder(m *Module) []*Module {
	seen := map[*Module]bool{}
	var out []*Module
	var visit func(x *Module)
	visit = func(x *Module) {
		if seen[x] {
			return
		}
		seen[x] = true
		out = append(out, x)
		for _, s := range x.Includes {
			visit(s)
		}
		if x.Sub {
			visit(x.Owner)
		}
	}
	visit(m)
	return out
}

func declared(n *Node, kw, name string) *Node {
	for _, c := range n.Kids {
		if c.Kw == kw && c.Arg == name {
			return c
		}
	}
	return nil
}

func c06Top(m *Module, kw, name string) (*Node, *Module) {
	for _, x := range c06SearchOrder(m) {
		if d := declared(x.Body, kw, name); d != nil {
			return d, x
		}
	}
	return nil, nil
}

// resolve binds the reference ref (to a grouping or typedef, kw) written in statement `at`.
func (g *c06) resolve(at *Node, kw, ref string) (*Node, string) {
	m := g.root(at)
	name := ref
	if i := strings.IndexByte(ref, ':'); i >= 0 {
		pfx, rest := ref[:i], ref[i+1:]
		if pfx == m.Prefix {
			name = rest
		} else {
			for _, o := range m.Imports {
				if m.ImportPrefix[o] == pfx {
					d, x := c06Top(o, kw, rest)
					// the prefix is also what the module this submodule belongs to (or a sibling
					// submodule) calls itself: it still denotes this file's import
					clash := ""
					if m.Sub && pfx == m.Owner.Prefix {
						clash = " under the owner's own prefix"
					} else if m.Sub {
						for _, t := range g.set.Mods {
							if t.Sub && t != m && t.Owner == m.Owner && t.Prefix == pfx {
								clash = " under a sibling's belongs-to prefix"
							}
						}
					}
					if clash != "" {
						if own, _ := c06Top(m, kw, rest); own != nil {
							clash += ", same name in the own module"
						}
					}
					switch {
					case d == nil:
						return nil, "none" + clash
					case x == o:
						return d, "import" + clash
					default:
						return d, "import-include" + clash
					}
				}
			}
			return nil, "none"
		}
	}
	first := true
	for n := at; n != nil; n = g.parent[n] {
		if _, isBody := g.mod[n]; isBody {
			break
		}
		if d := declared(n, kw, name); d != nil {
			if first {
				return d, "local"
			}
			return d, "ancestor"
		}
		first = false
	}
	d, x := c06Top(m, kw, name)
	switch {
	case d == nil:
		return nil, "none"
	case x == m:
		return d, "module"
	case m.Sub && x == m.Owner:
		return d, "owner"
	case x.Sub && containsMod(m.Includes, x):
		return d, "include"
	case m.Sub && !reachableByInclude(m, x):
		return d, "sibling"
	default:
		return d, "nested-include"
	}
}

func containsMod(l []*Module, x *Module) bool {
	for _, y := range l {
		if y == x {
			return true
		}
	}
	return false
}

func reachableByInclude(m, x *Module) bool {
	seen := map[*Module]bool{}
	var visit func(y *Module) bool
	visit = func(y *Module) bool {
		if y == x {
			return true
		}
		if seen[y] {
			return false
		}
		seen[y] = true
		for _, s := range y.Includes {
			if visit(s) {
				return true
			}
		}
		return false
	}
	return visit(m)
}

// typeKind resolves the written type of a leaf to the built-in kind it denotes.
func (g *c06) typeKind(leaf *Node) (kind, idbase string) {
	t := declared2(leaf, "type")
	if t == nil {
		return "", ""
	}
	for depth := 0; depth < 8; depth++ {
		if t.Arg == "identityref" {
			b := declared2(t, "base")
			if b != nil {
				// the identity is looked up from where the type statement is written
				return "identityref", c06IdentityKey(g.root(t), b.Arg)
			}
			return "identityref", ""
		}
		isBuiltin := false
		for _, b := range c06Builtins {
			if t.Arg == b {
				isBuiltin = true
			}
		}
		if isBuiltin {
			return t.Arg, ""
		}
		td, _ := g.resolve(g.parent[t], "typedef", t.Arg)
		if td == nil {
			return "?", ""
		}
		t = declared2(td, "type")
		if t == nil {
			return "?", ""
		}
	}
	return "?", ""
}

// c06IdentityKey is the identity ("owning module:name") a base argument written in file m denotes.
func c06IdentityKey(m *Module, name string) string {
	if i := strings.IndexByte(name, ':'); i >= 0 {
		pfx := name[:i]
		name = name[i+1:]
		if pfx != m.Prefix {
			// a foreign prefix denotes the module that the file in which the base statement
			// is written imports under exactly that prefix
			for _, o := range m.Imports {
				if m.ImportPrefix[o] == pfx {
					return c06Owner(o).Name + ":" + name
				}
			}
			return "?"
		}
	}
	return c06Owner(m).Name + ":" + name
}

func declared2(n *Node, kw string) *Node {
	for _, c := range n.Kids {
		if c.Kw == kw {
			return c
		}
	}
	return nil
}

// contributed lists the names a grouping adds to a node that uses it.
func contributed(gr *Node, depth int) []string {
	var out []string
	if depth > 4000 {
		return out
	}
	for _, c := range gr.Kids {
		switch c.Kw {
		case "uses":
			if c.Uses != nil {
				out = append(out, contributed(c.Uses, depth+1)...)
			}
		default:
			if isData(c.Kw) {
				out = append(out, c.Arg)
			}
		}
	}
	return out
}

func isData(kw string) bool {
	switch kw {
	case "container", "list", "leaf", "leaf-list", "choice", "case", "anydata", "anyxml", "rpc", "action", "notification":
		return true
	}
	return false
}

func nestDepth(gr *Node, depth int) int {
	best := 0
	if depth > 4000 {
		return 0
	}
	var walk func(n *Node)
	walk = func(n *Node) {
		for _, c := range n.Kids {
			if c.Kw == "grouping" {
				continue
			}
			if c.Kw == "uses" && c.Uses != nil {
				if d := 1 + nestDepth(c.Uses, depth+1); d > best {
					best = d
				}
				continue
			}
			walk(c)
		}
	}
	walk(gr)
	return best
}

// ---- construction -------------------------------------------------------------------------

type c06Ctx struct {
	inOps bool // inside rpc / action / notification: no nested operations
}

// usable lists the references that, written in `at`, bind to a complete grouping.
func (g *c06) usable(at *Node) []string {
	m := g.root(at)
	cands := map[string]bool{}
	for _, n := range c06GroupNames {
		cands[n] = true
		cands[m.Prefix+":"+n] = true
		for _, o := range m.Imports {
			cands[m.ImportPrefix[o]+":"+n] = true
		}
	}
	var out []string
	for _, ref := range sortedKeys(cands) {
		if d, _ := g.resolve(at, "grouping", ref); d != nil && g.done[d] {
			out = append(out, ref)
		}
	}
	return out
}

func sortedKeys(m map[string]bool) []string {
	ks := make([]string, 0, len(m))
	for k := range m {
		ks = append(ks, k)
	}
	sort.Strings(ks)
	return ks
}

// placeUses writes `uses ref` into at when the contributed names do not clash.
func (g *c06) placeUses(at *Node, ref string, allowClash bool) *Node {
	d, _ := g.resolve(at, "grouping", ref)
	if d == nil || !g.done[d] {
		return nil
	}
	used := g.usedOf(at)
	names := contributed(d, 0)
	for _, nm := range names {
		if used[nm] && !allowClash {
			return nil
		}
	}
	// a grouping contributing the same name twice through nested uses cannot be used cleanly
	for _, nm := range names {
		used[nm] = true
	}
	u := g.add(at, "uses", ref)
	u.Uses = d
	g.decorate(u, 0.6)
	return u
}

func (g *c06) leafType(n *Node) {
	m := g.root(n)
	switch k := g.r.Intn(10); {
	case k <= 3:
		// a typedef reference when one is in sight: the own module's, or an imported module's
		refs := []string{"t", m.Prefix + ":t"}
		for _, o := range m.Imports {
			refs = append(refs, m.ImportPrefix[o]+":t")
		}
		ref := g.pick(refs)
		if td, _ := g.resolve(n, "typedef", ref); td != nil {
			g.add(n, "type", ref)
			return
		}
		g.add(n, "type", g.pick(c06Builtins))
	case k == 4:
		if declared(c06Owner(m).Body, "identity", "idn") != nil || g.identityVisible(m) {
			t := g.add(n, "type", "identityref")
			g.add(t, "base", g.pick([]string{"idn", m.Prefix + ":idn"}))
			return
		}
		g.add(n, "type", g.pick(c06Builtins))
	default:
		g.add(n, "type", g.pick(c06Builtins))
	}
}

// identityVisible: identity idn is defined in the module m belongs to (in any of its files).
func (g *c06) identityVisible(m *Module) bool {
	o := c06Owner(m)
	if declared(o.Body, "identity", "idn") != nil {
		return true
	}
	for _, x := range g.set.Mods {
		if x.Sub && x.Owner == o && declared(x.Body, "identity", "idn") != nil {
			return true
		}
	}
	return false
}

func (g *c06) leaf(at *Node, name string, ctx c06Ctx) {
	l := g.add(at, "leaf", name)
	g.leafType(l)
	if !ctx.inOps && g.chance(0.2) {
		g.add(l, "config", g.pick([]string{"true", "false"}))
	}
	if g.chance(0.3) {
		g.add(l, "default", g.pick([]string{"d1", "d2"}))
	} else if g.chance(0.15) {
		g.add(l, "mandatory", g.pick([]string{"true", "false"}))
	}
	if g.chance(0.1) {
		g.add(l, "description", "some text")
	}
	g.decorate(l, 0.35)
}

func (g *c06) listAttrs(n *Node) {
	if g.chance(0.4) {
		g.add(n, "min-elements", g.pick([]string{"0", "1", "2"}))
	}
	if g.chance(0.4) {
		g.add(n, "max-elements", g.pick([]string{"unbounded", "3", "10"}))
	}
	if g.chance(0.2) {
		g.add(n, "ordered-by", g.pick([]string{"user", "system"}))
	}
}

// extraCount picks how many if-feature / extension statements a statement gets: three is the case
// in which Go's append leaves exactly one spare slot in the backing array (1, 2, 4).
func (g *c06) extraCount() int { return []int{0, 0, 1, 2, 3, 3, 3, 4}[g.r.Intn(8)] }

// decorate gives statement n (fully built) substatements that ToEntry stores in Entry.Extra and
// Entry.Exts, as far as the statement's AST type accepts them.
func (g *c06) decorate(n *Node, p float64) {
	if !g.cfg.Extras || !g.chance(p) {
		return
	}
	var feat, when, sr, desc bool
	switch n.Kw {
	case "leaf", "leaf-list", "container", "list", "choice", "case", "anydata", "anyxml":
		feat, when, sr = true, true, true
	case "notification", "rpc", "action":
		feat, sr = true, true
	case "grouping":
		sr = true
	case "uses":
		feat, when, sr, desc = true, true, true, true
	case "input", "output":
	default:
		return
	}
	g.seq++
	tag := fmt.Sprint(g.seq)
	if feat {
		for i, k := 0, g.extraCount(); i < k; i++ {
			g.add(n, "if-feature", fmt.Sprintf("f%d", 1+(i+g.seq)%4))
		}
	}
	if when && g.chance(0.35) {
		g.add(n, "when", "w"+tag)
	}
	if sr && g.chance(0.35) {
		g.add(n, "status", g.pick([]string{"current", "deprecated", "obsolete"}))
	}
	if sr && g.chance(0.3) {
		g.add(n, "reference", "r"+tag)
	}
	if desc && g.chance(0.3) && declared2(n, "description") == nil {
		g.add(n, "description", "uses text "+tag)
	}
	pfx := g.root(n).Prefix
	for i, k := 0, g.extraCount(); i < k; i++ {
		g.add(n, pfx+":e1", fmt.Sprintf("x%s-%d", tag, i))
	}
}

// localDefs gives a new scope its own typedef and groupings (stubs first, then their bodies, so
// that every later reference written in this scope has its final binding when it is written).
func (g *c06) localDefs(at *Node, depth int, ctx c06Ctx, pG float64) {
	if g.chance(0.12) {
		td := g.add(at, "typedef", "t")
		g.add(td, "type", g.pick(c06Builtins))
	}
	if !g.chance(pG) {
		return
	}
	n := 1 + g.r.Intn(2)
	var stubs []*Node
	for i := 0; i < n; i++ {
		name := g.pick(c06GroupNames)
		if declared(at, "grouping", name) != nil {
			continue
		}
		stubs = append(stubs, g.add(at, "grouping", name))
	}
	for _, s := range stubs {
		g.fillGrouping(s, depth+1)
	}
}

func (g *c06) fillGrouping(gr *Node, depth int) {
	g.localDefs(gr, depth, c06Ctx{}, 0.15)
	g.fill(gr, depth, c06Ctx{}, 1+g.r.Intn(3))
	if len(contributed(gr, 0)) == 0 {
		g.leaf(gr, g.fresh(gr), c06Ctx{})
	}
	g.decorate(gr, 0.3)
	g.done[gr] = true
}

func (g *c06) fresh(at *Node) string {
	used := g.usedOf(at)
	for _, n := range c06NodeNames {
		if !used[n] {
			used[n] = true
			return n
		}
	}
	g.seq++
	n := fmt.Sprintf("n%d", g.seq)
	used[n] = true
	return n
}

func (g *c06) operation(at *Node, kw, name string, depth int) {
	r := g.add(at, kw, name)
	g.localDefs(r, depth, c06Ctx{inOps: true}, 0.1)
	if g.chance(0.75) {
		in := g.add(r, "input", "")
		g.localDefs(in, depth, c06Ctx{inOps: true}, 0.1)
		g.fill(in, depth+1, c06Ctx{inOps: true}, 1+g.r.Intn(2))
	}
	if g.chance(0.6) {
		out := g.add(r, "output", "")
		g.fill(out, depth+1, c06Ctx{inOps: true}, 1+g.r.Intn(2))
		g.decorate(out, 0.15)
	}
	g.decorate(r, 0.3)
}

const c06MaxDepth = 3

// fill adds about n children to at.
func (g *c06) fill(at *Node, depth int, ctx c06Ctx, n int) {
	used := g.usedOf(at)
	m := g.root(at)
	_, top := g.mod[at]
	for i := 0; i < n; i++ {
		name := g.pick(c06NodeNames)
		if top {
			// top-level names of all files of a module share one tree
			name += strings.ReplaceAll(m.Name, "-", "")
		}
		k := g.r.Intn(14)
		if k >= 9 && k <= 11 {
			// uses
			if at.Kw == "choice" {
				continue
			}
			refs := g.usable(at)
			if len(refs) == 0 {
				if g.bad(0.3) {
					g.add(at, "uses", "nosuch")
				}
				continue
			}
			g.placeUses(at, refs[g.r.Intn(len(refs))], g.bad(0.3))
			continue
		}
		if used[name] && !g.bad(0.2) {
			continue
		}
		used[name] = true
		switch {
		case k <= 2:
			g.leaf(at, name, ctx)
		case k == 3:
			ll := g.add(at, "leaf-list", name)
			g.leafType(ll)
			g.listAttrs(ll)
			if g.chance(0.4) {
				g.add(ll, "default", "a")
				if g.chance(0.5) {
					g.add(ll, "default", "b")
				}
			}
			g.decorate(ll, 0.4)
		case k <= 5:
			if depth >= c06MaxDepth {
				g.leaf(at, name, ctx)
				break
			}
			c := g.add(at, "container", name)
			if !ctx.inOps && g.chance(0.15) {
				g.add(c, "config", g.pick([]string{"true", "false"}))
			}
			g.localDefs(c, depth, ctx, 0.2)
			g.fill(c, depth+1, ctx, g.r.Intn(4))
			if !ctx.inOps && g.chance(0.15) {
				g.operation(c, "action", g.fresh(c), depth+1)
			}
			if !ctx.inOps && g.chance(0.08) {
				nn := g.add(c, "notification", g.fresh(c))
				g.fill(nn, depth+2, c06Ctx{inOps: true}, 1+g.r.Intn(2))
				g.decorate(nn, 0.3)
			}
			g.decorate(c, 0.35)
		case k == 6:
			if depth >= c06MaxDepth {
				g.leaf(at, name, ctx)
				break
			}
			l := g.add(at, "list", name)
			g.add(l, "key", "k")
			g.add(g.add(l, "leaf", "k"), "type", "string")
			g.usedOf(l)["k"] = true
			g.listAttrs(l)
			g.localDefs(l, depth, ctx, 0.15)
			g.fill(l, depth+1, ctx, g.r.Intn(3))
			if !ctx.inOps && g.chance(0.1) {
				g.operation(l, "action", g.fresh(l), depth+1)
			}
			g.decorate(l, 0.3)
		case k == 7:
			if depth >= c06MaxDepth || at.Kw == "choice" {
				g.leaf(at, name, ctx)
				break
			}
			ch := g.add(at, "choice", name)
			nc := 1 + g.r.Intn(3)
			for j := 0; j < nc; j++ {
				cn := g.pick(c06NodeNames) + fmt.Sprint(j)
				g.usedOf(ch)[cn] = true
				switch {
				case g.chance(0.5):
					cs := g.add(ch, "case", cn)
					g.fill(cs, depth+2, ctx, 1+g.r.Intn(2))
					g.decorate(cs, 0.3)
				case g.chance(0.6):
					g.leaf(ch, cn, ctx)
				default:
					c := g.add(ch, "container", cn)
					g.fill(c, depth+2, ctx, g.r.Intn(3))
					g.decorate(c, 0.3)
				}
			}
			if g.chance(0.3) {
				g.add(ch, "default", ch.Kids[0].Arg)
			}
			if g.chance(0.15) {
				g.add(ch, "mandatory", "true")
			}
			g.decorate(ch, 0.3)
		case k == 8:
			ax := g.add(at, g.pick([]string{"anydata", "anyxml"}), name)
			if g.chance(0.3) {
				g.add(ax, "mandatory", "true")
			}
			g.decorate(ax, 0.3)
		case k == 12:
			if ctx.inOps || top || depth >= c06MaxDepth || at.Kw == "case" || at.Kw == "choice" {
				g.leaf(at, name, ctx)
				break
			}
			g.operation(at, "action", name, depth+1)
		default:
			g.leaf(at, name, ctx)
		}
	}
}

// useSite adds `container uN { uses ref; }` to at when ref binds to want there.
func (g *c06) useSite(at *Node, ref string, want *Node) bool {
	g.seq++
	c := &Node{Kw: "container", Arg: fmt.Sprintf("u%d", g.seq)}
	g.parent[c] = at
	d, _ := g.resolve(c, "grouping", ref)
	if d != want {
		delete(g.parent, c)
		return false
	}
	at.Kids = append(at.Kids, c)
	g.usedOf(at)[c.Arg] = true
	return g.placeUses(c, ref, false) != nil
}

// C06Generate builds one case.
func C06Generate(r *rand.Rand, cfg C06Config) *C06Case {
	g := &c06{r: r, cfg: cfg, set: &Set{}, parent: map[*Node]*Node{}, mod: map[*Node]*Module{}, done: map[*Node]bool{},
		used: map[*Node]map[string]bool{}}
	set := g.set
	nm := 1 + r.Intn(cfg.MaxModules)
	names := []string{"a", "b", "c"}
	for i := 0; i < nm; i++ {
		m := &Module{Name: names[i], Prefix: "p" + names[i], Namespace: "urn:" + names[i], ImportPrefix: map[*Module]string{}}
		m.Body = &Node{Kw: "module", Arg: m.Name}
		g.mod[m.Body] = m
		set.Mods = append(set.Mods, m)
	}
	for _, m := range set.Mods {
		for _, o := range set.Mods {
			if o != m && g.chance(0.7) {
				m.Imports = append(m.Imports, o)
				p := o.Prefix
				if g.chance(0.3) {
					p = "q" + o.Name
				}
				m.ImportPrefix[o] = p
			}
		}
	}
	// one imported module sometimes carries a revision, so that an older revision of it can be loaded
	// and processed first (the faithful copy of later uses must not remember it)
	var revised *Module
	if cfg.OldRevisions && g.chance(0.3) {
		var cands []*Module
		for _, m := range set.Mods {
			for _, o := range m.Imports {
				cands = append(cands, o)
			}
		}
		if len(cands) > 0 {
			revised = cands[r.Intn(len(cands))]
			revised.Revisions = []string{"2020-01-01"}
		}
	}
	if cfg.Submodules {
		var subs []*Module
		for _, m := range set.Mods {
			if !g.chance(0.5) {
				continue
			}
			ns := 1 + r.Intn(3)
			var mine []*Module
			for i := 0; i < ns; i++ {
				s := &Module{Name: fmt.Sprintf("%s-s%d", m.Name, i+1), Prefix: m.Prefix, Namespace: m.Namespace, Sub: true, Owner: m,
					ImportPrefix: map[*Module]string{}}
				// prefixes are scoped per file: the belongs-to prefix of a submodule need not be the prefix
				// the module declares for itself
				if cfg.SubPrefixes && g.chance(0.45) {
					s.Prefix = fmt.Sprintf("s%s%d", m.Name, i+1)
				}
				s.Body = &Node{Kw: "submodule", Arg: s.Name}
				g.mod[s.Body] = s
				for _, o := range m.Imports {
					if g.chance(0.7) {
						s.Imports = append(s.Imports, o)
						s.ImportPrefix[o] = m.ImportPrefix[o]
					}
				}
				mine = append(mine, s)
			}
			// ... so a submodule may import another module under the very prefix its module declares for
			// itself, or under the belongs-to prefix of a sibling submodule: the prefix then denotes what
			// this file's import table says (seeded change C06-d2 took it for a local prefix)
			for _, s := range mine {
				if !cfg.SubPrefixes || s.Prefix == m.Prefix {
					continue
				}
				var others []*Module
				for _, o := range set.Mods {
					if o != m && !o.Sub {
						others = append(others, o)
					}
				}
				if len(others) == 0 || !g.chance(0.7) {
					continue
				}
				pfx := m.Prefix
				if g.chance(0.3) {
					for _, t := range mine {
						if t != s && t.Prefix != m.Prefix {
							pfx = t.Prefix
						}
					}
				}
				o := others[r.Intn(len(others))]
				if _, ok := s.ImportPrefix[o]; !ok {
					s.Imports = append(s.Imports, o)
				}
				s.ImportPrefix[o] = pfx
			}
			// include structure: the module includes some; submodules include later ones (chains);
			// every submodule is reachable from the module
			reach := map[*Module]bool{}
			for i, s := range mine {
				for _, t := range mine[i+1:] {
					if g.chance(0.35) {
						s.Includes = append(s.Includes, t)
					}
				}
			}
			var mark func(s *Module)
			mark = func(s *Module) {
				if reach[s] {
					return
				}
				reach[s] = true
				for _, t := range s.Includes {
					mark(t)
				}
			}
			for _, s := range mine {
				if g.chance(0.6) {
					m.Includes = append(m.Includes, s)
					mark(s)
				}
			}
			for _, s := range mine {
				if !reach[s] {
					m.Includes = append(m.Includes, s)
					mark(s)
				}
			}
			subs = append(subs, mine...)
		}
		set.Mods = append(set.Mods, subs...)
	}
	// typedefs and identities: one name everywhere, so that resolving in the wrong scope shows
	for i, m := range set.Mods {
		if m.Sub {
			continue
		}
		files := []*Module{m}
		for _, x := range set.Mods {
			if x.Sub && x.Owner == m {
				files = append(files, x)
			}
		}
		if g.chance(0.8) {
			f := files[r.Intn(len(files))]
			td := g.add(f.Body, "typedef", "t")
			g.add(td, "type", c06Builtins[i%len(c06Builtins)])
			if g.chance(0.5) {
				g.add(td, "units", "tu"+m.Name)
			}
		}
		if g.chance(0.7) {
			f := files[r.Intn(len(files))]
			g.add(f.Body, "identity", "idn")
		}
	}
	if cfg.Extras {
		for _, m := range set.Mods {
			if m.Sub {
				continue
			}
			g.add(g.add(m.Body, "extension", "e1"), "argument", "a")
			for _, f := range []string{"f1", "f2", "f3", "f4"} {
				g.add(m.Body, "feature", f)
			}
		}
	}
	// top-level grouping stubs of every file, then their bodies in a random order
	var stubs []*Node
	for _, m := range set.Mods {
		ng := r.Intn(3)
		if len(stubs) == 0 && m == set.Mods[len(set.Mods)-1] {
			ng = 1 + r.Intn(2)
		}
		for i := 0; i < ng; i++ {
			name := g.pick(c06GroupNames)
			if declared(m.Body, "grouping", name) != nil {
				continue
			}
			// the same top-level name in another file of the module: only as a deliberate fault
			if d, _ := c06Top(c06Owner(m), "grouping", name); d != nil && !g.bad(0.5) {
				continue
			}
			stubs = append(stubs, g.add(m.Body, "grouping", name))
		}
	}
	r.Shuffle(len(stubs), func(i, j int) { stubs[i], stubs[j] = stubs[j], stubs[i] })
	for _, s := range stubs {
		g.fillGrouping(s, 1)
	}
	// data trees
	for _, m := range set.Mods {
		g.fill(m.Body, 0, c06Ctx{}, 1+r.Intn(3))
		tag := strings.ReplaceAll(m.Name, "-", "")
		if g.chance(0.35) {
			g.operation(m.Body, "rpc", "r"+tag, 1)
			g.usedOf(m.Body)["r"+tag] = true
		}
		if g.chance(0.25) {
			nn := g.add(m.Body, "notification", "n"+tag)
			g.usedOf(m.Body)["n"+tag] = true
			g.localDefs(nn, 1, c06Ctx{inOps: true}, 0.1)
			g.fill(nn, 1, c06Ctx{inOps: true}, 1+r.Intn(2))
			g.decorate(nn, 0.3)
		}
	}
	// every grouping that can be reached gets at least two instances
	g.ensureTwo()
	if g.chance(0.04) {
		g.traps()
	}
	// a submodule that imports under its module's own prefix (or a sibling's) uses the imported
	// module's groupings through it
	for _, sm := range set.Mods {
		if !sm.Sub {
			continue
		}
		for _, o := range sm.Imports {
			pfx := sm.ImportPrefix[o]
			clash := pfx == sm.Owner.Prefix
			for _, t := range set.Mods {
				if t.Sub && t != sm && t.Owner == sm.Owner && t.Prefix == pfx {
					clash = true
				}
			}
			if !clash || pfx == sm.Prefix {
				continue
			}
			for _, k := range o.Body.Kids {
				if k.Kw == "grouping" && g.done[k] && g.chance(0.6) {
					if d, _ := c06Top(o, "grouping", k.Arg); d != nil {
						g.useSite(sm.Body, pfx+":"+k.Arg, d)
					}
				}
			}
		}
	}

	c := &C06Case{Faulty: g.faulty}
	c.Names, c.Texts = g.render(nil)
	g.collect(c)
	if revised != nil && !g.faulty && (declared2(revised.Body, "grouping") != nil || declared2(revised.Body, "typedef") != nil) {
		c.OldRev = g.oldRevision(revised)
	}
	if cfg.Mutate && !g.faulty {
		g.mutate(c)
	}
	g.late(c)
	return c
}

// traps plants references that must NOT resolve although a grouping of that name is near: a prefix
// that only an included submodule imports, and a chain of two prefixes (defect D44).
func (g *c06) traps() {
	topGrouping := func(m *Module) string {
		for _, k := range m.Body.Kids {
			if k.Kw == "grouping" {
				return k.Arg
			}
		}
		return ""
	}
	for _, m := range g.set.Mods {
		if m.Sub {
			continue
		}
		// (a) only the submodule imports y (as zz); the module writes uses zz:g
		for _, s := range m.Includes {
			for _, y := range g.set.Mods {
				if y.Sub || y == m {
					continue
				}
				if _, ok := s.ImportPrefix[y]; ok {
					continue
				}
				if gn := topGrouping(y); gn != "" {
					s.Imports = append(s.Imports, y)
					s.ImportPrefix[y] = "zz"
					g.seq++
					c := g.add(m.Body, "container", fmt.Sprintf("trap%d", g.seq))
					g.add(c, "uses", "zz:"+gn)
					g.faulty = true
					return
				}
			}
		}
		// (b) m imports x, x imports z: uses px:pz:g
		for _, x := range m.Imports {
			for _, z := range x.Imports {
				if gn := topGrouping(z); gn != "" && z != m {
					g.seq++
					c := g.add(m.Body, "container", fmt.Sprintf("trap%d", g.seq))
					g.add(c, "uses", m.ImportPrefix[x]+":"+x.ImportPrefix[z]+":"+gn)
					g.faulty = true
					return
				}
			}
		}
	}
}

// dataScopes lists the statements of the data trees (not inside groupings) that may hold a
// container with a uses statement.
func (g *c06) dataScopes() []*Node {
	var out []*Node
	var walk func(n *Node)
	walk = func(n *Node) {
		switch n.Kw {
		case "module", "submodule", "container", "list", "case", "input", "output", "notification":
			out = append(out, n)
		}
		for _, c := range n.Kids {
			if c.Kw != "grouping" {
				walk(c)
			}
		}
	}
	for _, m := range g.set.Mods {
		walk(m.Body)
	}
	return out
}

func (g *c06) ensureTwo() {
	count := map[*Node]int{}
	g.walkSites(func(mod *Module, steps []c06Step, u, gr *Node, nested bool) { count[gr]++ })
	var all []*Node
	var walk func(n *Node)
	walk = func(n *Node) {
		for _, c := range n.Kids {
			if c.Kw == "grouping" {
				all = append(all, c)
			}
			walk(c)
		}
	}
	for _, m := range g.set.Mods {
		walk(m.Body)
	}
	scopes := g.dataScopes()
	for _, gr := range all {
		if !g.done[gr] {
			continue
		}
		need := 2 - count[gr]
		if need <= 0 {
			continue
		}
		gm := g.root(gr)
		perm := g.r.Perm(len(scopes))
		for _, i := range perm {
			if need <= 0 {
				break
			}
			at := scopes[i]
			m := g.root(at)
			refs := []string{gr.Arg, m.Prefix + ":" + gr.Arg}
			if c06Owner(m) != c06Owner(gm) {
				p, ok := m.ImportPrefix[c06Owner(gm)]
				if !ok {
					continue
				}
				refs = []string{p + ":" + gr.Arg}
			}
			if g.useSite(at, refs[g.r.Intn(len(refs))], gr) {
				need--
			}
		}
	}
}

// ---- expansion ----------------------------------------------------------------------------

type c06Step struct {
	Name     string
	Implicit bool // an implicit case of the same name precedes this step after FixChoice
}

func stepsPath(steps []c06Step, afterFix bool) []string {
	var out []string
	for _, s := range steps {
		if afterFix && s.Implicit {
			out = append(out, s.Name)
		}
		out = append(out, s.Name)
	}
	return out
}

// files of the tree of module m: m and every submodule reachable through includes.
func c06TreeFiles(m *Module) []*Module {
	seen := map[*Module]bool{}
	var out []*Module
	var visit func(x *Module)
	visit = func(x *Module) {
		if seen[x] {
			return
		}
		seen[x] = true
		out = append(out, x)
		for _, s := range x.Includes {
			visit(s)
		}
	}
	visit(m)
	return out
}

type c06Visit struct {
	// pend: the uses statements whose extras and extensions merge appends to this node (the node is
	// a direct child of their grouping's expansion), innermost first
	node  func(mod *Module, steps []c06Step, n *Node, via []*Node, pend []*Node)
	site  func(mod *Module, steps []c06Step, u, gr *Node, nested bool)
	depth int
}

func (g *c06) expand(v *c06Visit, mod *Module, n *Node, cur []c06Step, parentKw string, via []*Node, pend []*Node, depth int) {
	if depth > 4000 {
		return
	}
	for _, c := range n.Kids {
		switch {
		case isData(c.Kw) || c.Kw == "input" || c.Kw == "output":
			name := c.Arg
			if c.Kw == "input" || c.Kw == "output" {
				name = c.Kw
			}
			st := append(append([]c06Step{}, cur...), c06Step{Name: name, Implicit: parentKw == "choice" && c.Kw != "case"})
			if v.node != nil {
				v.node(mod, st, c, via, pend)
			}
			g.expand(v, mod, c, st, c.Kw, via, nil, depth+1)
		case c.Kw == "uses" && c.Uses != nil:
			if v.site != nil {
				v.site(mod, cur, c, c.Uses, len(via) > 0)
			}
			g.expand(v, mod, c.Uses, cur, parentKw, append(append([]*Node{}, via...), c), append([]*Node{c}, pend...), depth+1)
		}
	}
}

func (g *c06) walkSites(f func(mod *Module, steps []c06Step, u, gr *Node, nested bool)) {
	v := &c06Visit{site: f}
	for _, m := range g.set.Mods {
		if m.Sub {
			continue
		}
		for _, x := range c06TreeFiles(m) {
			g.expand(v, m, x.Body, nil, "module", nil, nil, 0)
		}
	}
}

func kindOf(kw string) string {
	switch kw {
	case "leaf", "leaf-list":
		return "Leaf"
	case "choice":
		return "Choice"
	case "case":
		return "Case"
	case "anydata":
		return "AnyData"
	case "anyxml":
		return "AnyXML"
	case "input":
		return "Input"
	case "output":
		return "Output"
	case "notification":
		return "Notification"
	}
	return "Directory"
}

func argOf(n *Node, kw, dflt string) string {
	if c := declared2(n, kw); c != nil {
		return c.Arg
	}
	return dflt
}

func (g *c06) rec(mod *Module, steps []c06Step, n *Node, pend []*Node) C06Rec {
	r := C06Rec{Path: "/" + mod.Name + "/" + strings.Join(stepsPath(steps, true), "/"), Kind: kindOf(n.Kw), LA: "-",
		Mand: "unset", Cfg: "unset"}
	switch n.Kw {
	case "leaf":
		if d := declared2(n, "default"); d != nil {
			r.Def = []string{d.Arg}
		}
		r.TypeKind, r.IdBase = g.typeKind(n)
		r.Mand = argOf(n, "mandatory", "unset")
		r.Cfg = argOf(n, "config", "unset")
	case "leaf-list":
		for _, c := range n.Kids {
			if c.Kw == "default" {
				r.Def = append(r.Def, c.Arg)
			}
		}
		r.TypeKind, r.IdBase = g.typeKind(n)
		r.Cfg = argOf(n, "config", "unset")
	case "choice":
		if d := declared2(n, "default"); d != nil {
			r.Def = []string{d.Arg}
		}
		r.Mand = argOf(n, "mandatory", "unset")
	case "anydata", "anyxml":
		r.Mand = argOf(n, "mandatory", "unset")
	case "container":
		r.Cfg = argOf(n, "config", "unset")
	case "list":
		r.Key = argOf(n, "key", "")
	case "rpc", "action":
		r.RPC = true
	}
	if n.Kw == "list" || n.Kw == "leaf-list" {
		min := argOf(n, "min-elements", "0")
		max := argOf(n, "max-elements", "unbounded")
		if max == "unbounded" {
			max = "18446744073709551615"
		}
		u := "0"
		if argOf(n, "ordered-by", "system") == "user" {
			u = "1"
		}
		r.LA = min + ":" + max + ":" + u
	}
	r.Extra, r.Exts = extrasOf(n, pend)
	if g.sig != nil && (n.Kw == "leaf" || n.Kw == "leaf-list") {
		r.TSig = g.sig(n)
	}
	if g.idvals != nil && r.IdBase != "" {
		r.IdVals = g.idvals(r.IdBase)
	}
	return r
}

// C06ExtraKeys are the keys of Entry.Extra the reference expansion predicts.
var C06ExtraKeys = []string{"if-feature", "when", "status", "reference"}

// ownExtras lists what ToEntry stores for statement n itself: per key the arguments of its
// substatements in order, and its extension statements (a leaf-list is converted through a
// synthetic leaf and again as itself: its extensions are recorded twice).
func ownExtras(n *Node) (map[string][]string, []string) {
	extra := map[string][]string{}
	var exts []string
	for _, c := range n.Kids {
		for _, k := range C06ExtraKeys {
			if c.Kw == k {
				extra[k] = append(extra[k], c.Arg)
			}
		}
		if strings.Contains(c.Kw, ":") {
			exts = append(exts, c.Kw+" "+c.Arg)
		}
	}
	if n.Kw == "leaf-list" {
		exts = append(append([]string{}, exts...), exts...)
	}
	return extra, exts
}

// extrasOf predicts Extra and Exts of the entry of n reached through the uses statements pend
// (innermost first): merge appends, per uses, the grouping entry's own values (which the uses
// case of ToEntry extended by those of the uses statement) to every direct child.
func extrasOf(n *Node, pend []*Node) (map[string][]string, []string) {
	extra, exts := ownExtras(n)
	for _, u := range pend {
		for _, src := range []*Node{u.Uses, u} {
			if src == nil {
				continue
			}
			e, x := ownExtras(src)
			for _, k := range C06ExtraKeys {
				extra[k] = append(extra[k], e[k]...)
			}
			exts = append(exts, x...)
		}
	}
	for k, v := range extra {
		if len(v) == 0 {
			delete(extra, k)
		}
	}
	if len(extra) == 0 {
		extra = nil
	}
	return extra, exts
}

// collect fills the generator knowledge of c from the current trees.
func (g *c06) collect(c *C06Case) {
	c.Uses, c.Sites, c.Expect = nil, nil, nil
	c.ExtrasNodes, c.ExtrasUses, c.CapSensitive = 0, 0, 0
	// every uses statement, also those inside groupings
	var walk func(n *Node)
	ng := 0
	walk = func(n *Node) {
		for _, k := range n.Kids {
			if k.Kw == "grouping" {
				ng++
				if d := nestDepth(k, 0); d > c.MaxNest {
					c.MaxNest = d
				}
			}
			if k.Kw == "uses" {
				d, site := g.resolve(n, "grouping", k.Arg)
				if len(k.Kids) > 0 {
					c.ExtrasUses++
				}
				ref := C06UseRef{Loc: g.pos[k], Ref: k.Arg, Site: site}
				if d != nil {
					ref.GLoc = g.pos[d]
				}
				c.Uses = append(c.Uses, ref)
			}
			walk(k)
		}
	}
	for _, m := range g.set.Mods {
		walk(m.Body)
	}
	c.Groupings = ng
	seenImplicit := map[string]bool{}
	v := &c06Visit{
		node: func(mod *Module, steps []c06Step, n *Node, via []*Node, pend []*Node) {
			last := steps[len(steps)-1]
			if last.Implicit {
				// the implicit case above a shorthand choice member
				p := "/" + mod.Name + "/" + strings.Join(stepsPath(steps, true)[:len(stepsPath(steps, true))-1], "/")
				if !seenImplicit[p] {
					seenImplicit[p] = true
					cfg := argOf(n, "config", "unset")
					c.Expect = append(c.Expect, C06Rec{Path: p, Kind: "Case", LA: "-", Mand: "unset", Cfg: cfg})
				}
			}
			r := g.rec(mod, steps, n, pend)
			c.Expect = append(c.Expect, r)
			if len(r.Extra) > 0 || len(r.Exts) > 0 {
				c.ExtrasNodes++
			}
			oe, ox := ownExtras(n)
			if (len(oe["if-feature"]) == 3 && len(r.Extra["if-feature"]) > 3) || (len(ox) == 3 && len(r.Exts) > 3) {
				c.CapSensitive++
			}
		},
		site: func(mod *Module, steps []c06Step, u, gr *Node, nested bool) {
			c.Sites = append(c.Sites, C06Site{Module: c06TreeKey(mod), Path: stepsPath(steps, true), GLoc: g.pos[gr], GName: gr.Arg,
				Names: contributed(gr, 0), Nested: nested})
		},
	}
	for _, m := range g.set.Mods {
		if m.Sub {
			continue
		}
		c.Expect = append(c.Expect, C06Rec{Path: "/" + m.Name, Kind: "Directory", LA: "-", Mand: "unset", Cfg: "unset"})
		for _, x := range c06TreeFiles(m) {
			g.expand(v, m, x.Body, nil, "module", nil, nil, 0)
		}
	}
	sort.SliceStable(c.Expect, func(i, j int) bool { return c.Expect[i].Path < c.Expect[j].Path })
}

// ---- rendering with positions -------------------------------------------------------------

type c06Writer struct {
	sb   strings.Builder
	line int
}

func (w *c06Writer) ln(s string) {
	w.sb.WriteString(s)
	w.sb.WriteByte('\n')
	w.line++
}

func (g *c06) renderNode(w *c06Writer, file string, n *Node, ind string) {
	g.pos[n] = fmt.Sprintf("%s:%d:%d", file, w.line+1, len(ind)+1)
	head := ind + n.Kw
	if !(n.Kw == "input" || n.Kw == "output") {
		head += " " + quote(n.Arg)
	}
	if len(n.Kids) == 0 {
		w.ln(head + ";")
		return
	}
	w.ln(head + " {")
	for _, c := range n.Kids {
		g.renderNode(w, file, c, ind+"  ")
	}
	w.ln(ind + "}")
}

// render prints every file; extra[m] statements are appended to m's body (the mutated variant).
func (g *c06) render(extra map[*Module][]*Node) (names, texts []string) {
	if extra == nil {
		g.pos = map[*Node]string{}
	}
	for _, m := range g.set.Mods {
		names = append(names, m.FileName())
		texts = append(texts, g.renderModule(m, m.FileName(), m.Revisions, m.Body.Kids, extra[m]))
	}
	return
}

// renderModule prints one file (and records the position of every statement it prints).
func (g *c06) renderModule(m *Module, file string, revisions []string, kids, extra []*Node) string {
	w := &c06Writer{}
	kw := "module"
	if m.Sub {
		kw = "submodule"
	}
	w.ln(fmt.Sprintf("%s %s {", kw, m.Name))
	if m.Sub {
		w.ln(fmt.Sprintf("  belongs-to %s { prefix %s; }", m.Owner.Name, m.Prefix))
	} else {
		w.ln(fmt.Sprintf("  namespace %q;", m.Namespace))
		w.ln(fmt.Sprintf("  prefix %s;", m.Prefix))
	}
	for _, o := range m.Imports {
		if rd := g.pin[m][o]; rd != "" {
			w.ln(fmt.Sprintf("  import %s { prefix %s; revision-date %s; }", o.Name, m.ImportPrefix[o], rd))
			continue
		}
		w.ln(fmt.Sprintf("  import %s { prefix %s; }", o.Name, m.ImportPrefix[o]))
	}
	for _, s := range m.Includes {
		w.ln(fmt.Sprintf("  include %s;", s.Name))
	}
	for _, r := range revisions {
		w.ln(fmt.Sprintf("  revision %s;", r))
	}
	for _, c := range kids {
		g.renderNode(w, file, c, "  ")
	}
	for _, c := range extra {
		g.renderNode(w, file, c, "  ")
	}
	w.ln("}")
	return w.sb.String()
}

// oldRevision builds an older revision of module m (which carries revision 2020-01-01): every
// top-level grouping has an extra leaf old-<name>, the typedef t another base type. Loaded first
// and processed, it is what importers' groupings expand to; once the real text is loaded, every
// later run must forget that.
func (g *c06) oldRevision(m *Module) *C06OldRev {
	var kids []*Node
	for _, k := range m.Body.Kids {
		switch k.Kw {
		case "grouping":
			old := &Node{Kw: "leaf", Arg: "old-" + k.Arg, Kids: []*Node{{Kw: "type", Arg: "string"}}}
			kids = append(kids, &Node{Kw: k.Kw, Arg: k.Arg, Kids: append([]*Node{old}, k.Kids...)})
		case "typedef":
			base := "string"
			if t := declared2(k, "type"); t != nil && t.Arg == "string" {
				base = "int8"
			}
			kids = append(kids, &Node{Kw: k.Kw, Arg: k.Arg, Kids: []*Node{{Kw: "type", Arg: base}}})
		default:
			kids = append(kids, k)
		}
	}
	saved := g.pos
	g.pos = map[*Node]string{}
	text := g.renderModule(m, m.Name+"@2019-01-01.yang", []string{"2019-01-01"}, kids, nil)
	g.pos = saved
	idx := 0
	for i, x := range g.set.Mods {
		if x == m {
			idx = i
		}
	}
	return &C06OldRev{Index: idx, Name: m.Name + "@2019-01-01.yang", Text: text}
}

// ---- mutation -----------------------------------------------------------------------------

type c06Target struct {
	mod   *Module
	steps []c06Step
	n     *Node
}

func hasPrefixPath(p, pre []string) bool {
	if len(pre) > len(p) {
		return false
	}
	for i := range pre {
		if p[i] != pre[i] {
			return false
		}
	}
	return true
}

// mutate builds the mutated variant: statements that change nodes inside one instance (sometimes
// two) of a grouping that has at least two instances.
func (g *c06) mutate(c *C06Case) {
	// candidate victims: non-nested sites in data trees whose grouping has another instance
	bySite := map[string][]int{}
	for i, s := range c.Sites {
		bySite[s.GLoc] = append(bySite[s.GLoc], i)
	}
	var cands []int
	for i, s := range c.Sites {
		if len(bySite[s.GLoc]) >= 2 {
			cands = append(cands, i)
		}
	}
	if len(cands) == 0 {
		return
	}
	victims := []int{cands[g.r.Intn(len(cands))]}
	if g.chance(0.4) {
		// a second instance of the same grouping, changed differently
		others := bySite[c.Sites[victims[0]].GLoc]
		o := others[g.r.Intn(len(others))]
		if o != victims[0] && len(others) >= 3 {
			victims = append(victims, o)
		}
	}
	// all nodes of all trees, by path
	var nodes []c06Target
	v := &c06Visit{node: func(mod *Module, steps []c06Step, n *Node, via []*Node, pend []*Node) {
		nodes = append(nodes, c06Target{mod, steps, n})
	}}
	for _, m := range g.set.Mods {
		if m.Sub {
			continue
		}
		for _, x := range c06TreeFiles(m) {
			g.expand(v, m, x.Body, nil, "module", nil, nil, 0)
		}
	}
	extra := map[*Module][]*Node{}
	var zmut *Module
	var touchedPaths [][]string // module name first
	var hostFor func(target *Module) (*Module, string)
	zmutFor := func(target *Module) (*Module, string) {
		if zmut == nil {
			zmut = &Module{Name: "zmut", Prefix: "pz", Namespace: "urn:zmut", ImportPrefix: map[*Module]string{}}
			zmut.Body = &Node{Kw: "module", Arg: "zmut"}
			g.mod[zmut.Body] = zmut
		}
		if _, ok := zmut.ImportPrefix[target]; !ok {
			zmut.Imports = append(zmut.Imports, target)
			zmut.ImportPrefix[target] = "t" + target.Name
		}
		return zmut, zmut.ImportPrefix[target]
	}
	hostFor = func(target *Module) (*Module, string) {
		if g.chance(0.5) {
			return target, target.Prefix
		}
		return zmutFor(target)
	}
	pathText := func(steps []c06Step, pfx string, afterFix bool) string {
		var sb strings.Builder
		for _, s := range stepsPath(steps, afterFix) {
			sb.WriteString("/" + pfx + ":" + s)
		}
		return sb.String()
	}
	for vi, idx := range victims {
		site := c.Sites[idx]
		var inside []c06Target
		for _, t := range nodes {
			if t.mod.Name != site.Module {
				continue
			}
			p := stepsPath(t.steps, true)
			if !hasPrefixPath(p, site.Path) || len(p) == len(site.Path) {
				continue
			}
			first := p[len(site.Path)]
			ok := false
			for _, nm := range site.Names {
				if nm == first {
					ok = true
				}
			}
			if ok {
				inside = append(inside, t)
			}
		}
		if len(inside) == 0 {
			continue
		}
		nmut := 1 + g.r.Intn(3)
		for k := 0; k < nmut; k++ {
			kind := g.pick([]string{"augment", "augment", "not-supported", "add", "replace", "delete", "replace", "add"})
			pool := inside
			if kind == "augment" {
				pool = nil
				for _, t := range inside {
					switch t.n.Kw {
					case "container", "list", "case", "choice", "input", "output", "notification":
						pool = append(pool, t)
					}
				}
				if len(pool) == 0 {
					continue
				}
			}
			t := pool[g.r.Intn(len(pool))]
			// one change per node, and nothing at, inside or above a node that another change names
			// (a removed node cannot be named again; a change above would reach into this one)
			tp := append([]string{t.mod.Name}, stepsPath(t.steps, true)...)
			clash := false
			for _, op := range touchedPaths {
				if hasPrefixPath(tp, op) || hasPrefixPath(op, tp) {
					clash = true
				}
			}
			if clash {
				continue
			}
			host, pfx := hostFor(t.mod)
			var st *Node
			switch kind {
			case "augment":
				switch t.n.Kw {
				case "container", "list", "case", "choice", "input", "output", "notification":
				default:
					continue
				}
				// most augments come from another module, so that the namespace of what they add differs
				// from the target's
				if g.chance(0.6) {
					host, pfx = zmutFor(t.mod)
				}
				st = &Node{Kw: "augment", Arg: pathText(t.steps, pfx, false)}
				g.seq++
				l := g.add(st, "leaf", fmt.Sprintf("aug%d", g.seq))
				g.add(l, "type", "string")
				added := []string{l.Arg}
				// names the target already has
				taken := map[string]bool{}
				for _, o := range nodes {
					op := stepsPath(o.steps, true)
					tpp := stepsPath(t.steps, true)
					if o.mod == t.mod && len(op) > len(tpp) && hasPrefixPath(op, tpp) {
						taken[op[len(tpp)]] = true
					}
				}
				// uses statements written directly in the augment body, and below a container the augment
				// writes: groupings of the target's own module (and its submodules), of a third module,
				// of the augmenting module itself. The copies belong to the augmenting module's namespace.
				type cand struct {
					ref string
					gr  *Node
				}
				var cands []cand
				for _, name := range c06GroupNames {
					if d, _ := c06Top(t.mod, "grouping", name); d != nil && g.done[d] {
						cands = append(cands, cand{pfx + ":" + name, d}, cand{pfx + ":" + name, d})
					}
				}
				if host == zmut && zmut != nil {
					for _, third := range g.set.Mods {
						if third.Sub || third == t.mod || third == zmut {
							continue
						}
						for _, name := range c06GroupNames {
							if d, _ := c06Top(third, "grouping", name); d != nil && g.done[d] {
								_, tpfx := zmutFor(third)
								cands = append(cands, cand{tpfx + ":" + name, d})
								break
							}
						}
					}
					zg := declared(zmut.Body, "grouping", "zg")
					if zg == nil {
						zg = g.add(zmut.Body, "grouping", "zg")
						g.add(g.add(zg, "leaf", "zgl"), "type", "string")
						g.add(g.add(g.add(zg, "container", "zgc"), "leaf", "zgd"), "type", "string")
					}
					cands = append(cands, cand{g.pick([]string{"zg", "pz:zg"}), zg})
				}
				if len(cands) > 0 && g.chance(0.8) && t.n.Kw != "choice" {
					cd := cands[g.r.Intn(len(cands))]
					names := contributed(cd.gr, 0)
					free := true
					for _, nm := range names {
						if taken[nm] {
							free = false
						}
					}
					if free {
						u := g.add(st, "uses", cd.ref)
						u.Uses = cd.gr
						added = append(added, names...)
						c.MutKinds = append(c.MutKinds, "augment with uses directly in its body")
					}
					if g.chance(0.5) {
						cd2 := cands[g.r.Intn(len(cands))]
						g.seq++
						w := g.add(st, "container", fmt.Sprintf("augc%d", g.seq))
						u := g.add(w, "uses", cd2.ref)
						u.Uses = cd2.gr
						added = append(added, w.Arg)
					}
				}
				ns, im := host.Namespace, host.Name
				if host.Sub {
					im = host.Owner.Name
				}
				for _, nm := range added {
					pth := append(append([]string{}, stepsPath(t.steps, true)...), nm)
					if t.n.Kw == "choice" {
						pth = append(pth, nm)
					}
					c.AugNodes = append(c.AugNodes, C06AugNode{Module: t.mod.Name, Path: pth, NS: ns, IM: im})
				}
			case "not-supported":
				st = &Node{Kw: "deviation", Arg: pathText(t.steps, pfx, true)}
				g.add(st, "deviate", "not-supported")
			default:
				st = &Node{Kw: "deviation", Arg: pathText(t.steps, pfx, true)}
				dv := g.add(st, "deviate", kind)
				val := fmt.Sprint(7 + vi)
				// every property the target's kind takes under this deviate kind, chosen so that the
				// deviation applies without error
				type pv struct{ p, v string }
				var cands []pv
				tf := g.pick([]string{"true", "false"})
				switch t.n.Kw {
				case "leaf":
					d := declared2(t.n, "default")
					switch kind {
					case "add":
						cands = []pv{{"units", "du" + val}, {"units", "du" + val}, {"config", tf}, {"mandatory", tf}, {"type", "int32"}}
						if d == nil {
							cands = append(cands, pv{"default", "zz" + val})
						}
					case "replace":
						cands = []pv{{"units", "du" + val}, {"units", "du" + val}, {"config", tf}, {"mandatory", tf}, {"type", "int32"}, {"default", "rr" + val}}
					default:
						cands = []pv{{"units", "du" + val}, {"config", "true"}, {"mandatory", "true"}}
						if d != nil {
							cands = append(cands, pv{"default", d.Arg})
						}
					}
				case "leaf-list", "list":
					min := argOf(t.n, "min-elements", "0")
					max := argOf(t.n, "max-elements", "unbounded")
					if kind == "delete" {
						cands = []pv{{"min-elements", min}, {"max-elements", max}, {"config", "true"}}
					} else {
						cands = []pv{{"min-elements", val}, {"max-elements", "1" + val}, {"config", tf}}
					}
					if t.n.Kw == "leaf-list" {
						cands = append(cands, pv{"units", "du" + val}, pv{"units", "du" + val})
						if kind == "delete" {
							cands = append(cands, pv{"mandatory", "true"})
						} else {
							cands = append(cands, pv{"default", "zz" + val}, pv{"type", "int32"}, pv{"mandatory", tf})
						}
					}
				case "choice":
					if kind == "delete" {
						cands = []pv{{"config", "true"}, {"mandatory", "true"}}
					} else {
						cands = []pv{{"mandatory", tf}, {"config", tf}}
					}
				default:
					if kind == "delete" {
						cands = []pv{{"config", "true"}}
					} else {
						cands = []pv{{"config", tf}}
					}
				}
				used := map[string]bool{}
				for j, np := 0, 1+g.r.Intn(2); j < np; j++ {
					cd := cands[g.r.Intn(len(cands))]
					if used[cd.p] {
						continue
					}
					used[cd.p] = true
					g.add(dv, cd.p, cd.v)
					c.MutProps = append(c.MutProps, kind+" "+t.n.Kw+" "+cd.p)
				}
			}
			extra[host] = append(extra[host], st)
			c.MutKinds = append(c.MutKinds, kind)
			touchedPaths = append(touchedPaths, append([]string{t.mod.Name}, stepsPath(t.steps, true)...))
		}
	}
	if len(touchedPaths) == 0 {
		return
	}
	if zmut != nil {
		g.set.Mods = append(g.set.Mods, zmut)
	}
	c.MutNames, c.MutTexts = g.render(extra)
	if zmut != nil {
		g.set.Mods = g.set.Mods[:len(g.set.Mods)-1]
	}
	for i := range c.Sites {
		s := &c.Sites[i]
		sp := append([]string{s.Module}, s.Path...)
		for _, tp := range touchedPaths {
			within := false
			if hasPrefixPath(tp, sp) && len(tp) > len(sp) {
				for _, nm := range s.Names {
					if nm == tp[len(sp)] {
						within = true
					}
				}
			}
			// the using node itself lies inside something that was changed or removed
			if within || hasPrefixPath(sp, tp) {
				s.Touched = true
			}
		}
	}
}

// late builds a module that is loaded after the first Process and uses a top-level grouping of a
// module once more.
func (g *c06) late(c *C06Case) {
	var cands [][2]interface{}
	for _, m := range g.set.Mods {
		if m.Sub {
			continue
		}
		for _, k := range m.Body.Kids {
			if k.Kw == "grouping" && g.done[k] {
				if d, _ := c06Top(m, "grouping", k.Arg); d == k {
					cands = append(cands, [2]interface{}{m, k})
				}
			}
		}
	}
	if len(cands) == 0 {
		return
	}
	p := cands[g.r.Intn(len(cands))]
	m, gr := p[0].(*Module), p[1].(*Node)
	text := fmt.Sprintf("module late {\n  namespace \"urn:late\";\n  prefix pl;\n  import %s { prefix lx; }\n  container lu {\n    uses lx:%s;\n  }\n}\n",
		m.Name, gr.Arg)
	c.Late = &C06Late{Name: "late.yang", Text: text, Path: []string{"lu"}, GLoc: g.pos[gr], Names: contributed(gr, 0)}
}
