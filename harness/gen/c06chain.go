package gen

// Deterministic deep-chain family for C06 ("arbitrarily nested groupings and uses"): a chain
// g0 uses g1 uses … uses gN, each level adding one leaf, some levels wrapping the uses in a
// container, a list or a choice/case; the definitions written top-down, bottom-up or shuffled;
// within one module, across its submodules, across imported modules (prefixed uses) or
// alternating; one or two instantiation sites. Every site must be the full faithful copy (N+1
// leaves at the right nesting), without error. Whether the deepest recursion is met depends on what
// is converted first: ToEntry converts the uses / rpc / notification / list substatements of a
// module before its groupings and its containers after them, so a chain written bottom-up and used
// only from a container is converted one level at a time, every other combination from the top.

import (
	"fmt"
	"math/rand"
)

// C06ChainSpec describes one chain case.
type C06ChainSpec struct {
	N      int    // gN is the last grouping: N uses statements nested
	Order  string // topdown | bottomup | shuffled
	Layout string // one | subs | imports | alternating
	Site   string // container | list | top | rpc | notification
	Sites  int    // 1 or 2 (the second one a container, in another module when there is one)
}

func (s C06ChainSpec) String() string {
	return fmt.Sprintf("chain N=%d %s %s site=%s x%d", s.N, s.Order, s.Layout, s.Site, s.Sites)
}

// C06ChainFamily lists the specs of a tier.
func C06ChainFamily(thorough bool) []C06ChainSpec {
	var out []C06ChainSpec
	if !thorough {
		return []C06ChainSpec{
			{10, "topdown", "one", "container", 2},
			{33, "shuffled", "subs", "list", 1},
			{49, "topdown", "one", "container", 1},
			{49, "bottomup", "imports", "top", 2},
			{65, "topdown", "alternating", "rpc", 2},
			{65, "bottomup", "one", "list", 1},
			{100, "shuffled", "imports", "notification", 2},
			{100, "topdown", "subs", "top", 1},
			{200, "topdown", "one", "container", 1},
		}
	}
	orders := []string{"topdown", "bottomup", "shuffled"}
	layouts := []string{"one", "subs", "imports", "alternating"}
	sites := []string{"container", "list", "top", "rpc", "notification"}
	i := 0
	for _, n := range []int{10, 33, 47, 48, 49, 50, 65, 100, 200, 300} {
		for _, o := range orders {
			for _, l := range layouts {
				// every site kind at the depths around the interesting ones, a rotating one elsewhere
				ks := []string{sites[i%len(sites)]}
				if n == 49 || n == 65 {
					ks = sites
				}
				for _, k := range ks {
					out = append(out, C06ChainSpec{n, o, l, k, 1 + i%2})
					i++
				}
			}
		}
	}
	return out
}

// C06Chain builds the case of a spec.
func C06Chain(spec C06ChainSpec) *C06Case {
	r := rand.New(rand.NewSource(int64(spec.N)*7919 + int64(len(spec.Order))*31 + int64(len(spec.Layout))))
	g := &c06{r: r, cfg: C06Config{}, set: &Set{}, parent: map[*Node]*Node{}, mod: map[*Node]*Module{}, done: map[*Node]bool{},
		used: map[*Node]map[string]bool{}}
	newMod := func(name string) *Module {
		m := &Module{Name: name, Prefix: "p" + name, Namespace: "urn:" + name, ImportPrefix: map[*Module]string{}}
		m.Body = &Node{Kw: "module", Arg: name}
		g.mod[m.Body] = m
		g.set.Mods = append(g.set.Mods, m)
		return m
	}
	newSub := func(owner *Module, i int) *Module {
		s := &Module{Name: fmt.Sprintf("%s-s%d", owner.Name, i), Prefix: owner.Prefix, Namespace: owner.Namespace, Sub: true, Owner: owner,
			ImportPrefix: map[*Module]string{}}
		s.Body = &Node{Kw: "submodule", Arg: s.Name}
		g.mod[s.Body] = s
		owner.Includes = append(owner.Includes, s)
		return s
	}
	a := newMod("a")
	files := []*Module{a} // where level i is written: files[i % len(files)]
	var subs []*Module
	switch spec.Layout {
	case "subs":
		s1, s2 := newSub(a, 1), newSub(a, 2)
		subs = []*Module{s1, s2}
		files = []*Module{a, s1, s2}
	case "imports":
		b, c := newMod("b"), newMod("c")
		files = []*Module{a, b, c}
	case "alternating":
		b := newMod("b")
		s1, t1 := newSub(a, 1), newSub(b, 1)
		subs = []*Module{s1, t1}
		files = []*Module{a, b, s1, t1, a, b}
	}
	g.set.Mods = append(g.set.Mods, subs...)
	// every file imports every other module
	for _, f := range g.set.Mods {
		for _, o := range g.set.Mods {
			if !o.Sub && o != c06Owner(f) {
				f.Imports = append(f.Imports, o)
				f.ImportPrefix[o] = "i" + o.Name
			}
		}
	}
	// the groupings
	gs := make([]*Node, spec.N+1)
	fileOf := make([]*Module, spec.N+1)
	for i := range gs {
		gs[i] = &Node{Kw: "grouping", Arg: fmt.Sprintf("g%d", i)}
		fileOf[i] = files[i%len(files)]
	}
	ref := func(from *Module, i int) string {
		to := c06Owner(fileOf[i])
		if to == c06Owner(from) {
			if i%2 == 0 {
				return gs[i].Arg
			}
			return from.Prefix + ":" + gs[i].Arg
		}
		return from.ImportPrefix[to] + ":" + gs[i].Arg
	}
	addTo := func(p *Node, kw, arg string) *Node {
		c := &Node{Kw: kw, Arg: arg}
		p.Kids = append(p.Kids, c)
		g.parent[c] = p
		return c
	}
	for i, gr := range gs {
		l := addTo(gr, "leaf", fmt.Sprintf("l%d", i))
		addTo(l, "type", []string{"string", "int8", "boolean"}[i%3])
		if i%11 == 4 {
			addTo(l, "default", "d")
		}
		if i == spec.N {
			break
		}
		at := gr
		switch i % 7 {
		case 3:
			at = addTo(gr, "container", fmt.Sprintf("w%d", i))
		case 5:
			at = addTo(gr, "list", fmt.Sprintf("w%d", i))
			addTo(at, "key", "k")
			addTo(addTo(at, "leaf", "k"), "type", "string")
		case 6:
			at = addTo(addTo(gr, "choice", fmt.Sprintf("c%d", i)), "case", fmt.Sprintf("k%d", i))
		}
		u := addTo(at, "uses", ref(fileOf[i], i+1))
		u.Uses = gs[i+1]
		g.done[gr] = true
	}
	g.done[gs[spec.N]] = true
	// definition order in each file
	order := make([]int, spec.N+1)
	for i := range order {
		order[i] = i
	}
	switch spec.Order {
	case "bottomup":
		for i := range order {
			order[i] = spec.N - i
		}
	case "shuffled":
		r.Shuffle(len(order), func(i, j int) { order[i], order[j] = order[j], order[i] })
	}
	for _, i := range order {
		b := fileOf[i].Body
		b.Kids = append(b.Kids, gs[i])
		g.parent[gs[i]] = b
	}
	// sites
	site := func(m *Module, kind, name string) {
		b := m.Body
		r0 := ref(m, 0)
		var at *Node
		switch kind {
		case "container":
			at = addTo(b, "container", name)
		case "list":
			at = addTo(b, "list", name)
			addTo(at, "key", "k")
			addTo(addTo(at, "leaf", "k"), "type", "string")
		case "top":
			at = b
		case "rpc":
			at = addTo(addTo(b, "rpc", name), "input", "")
		case "notification":
			at = addTo(b, "notification", name)
		}
		u := addTo(at, "uses", r0)
		u.Uses = gs[0]
	}
	site(a, spec.Site, "s1")
	if spec.Sites > 1 {
		other := a
		for _, m := range g.set.Mods {
			if !m.Sub && m != a {
				other = m
			}
		}
		site(other, "container", "s2")
	}
	c := &C06Case{}
	c.Names, c.Texts = g.render(nil)
	g.collect(c)
	// the nested sites of a deep chain are many and large: keep the instantiation sites and every
	// sixteenth nested one for the per-site oracles (the reference expansion covers every node)
	var kept []C06Site
	nested := 0
	for _, s := range c.Sites {
		if s.Nested {
			nested++
			if nested%16 != 0 {
				continue
			}
		}
		kept = append(kept, s)
	}
	c.Sites = kept
	g.late(c)
	return c
}
