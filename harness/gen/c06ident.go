package gen

// C06ScopeIdentities - identity references inside groupings (C06: names inside a grouping -
// types, nested groupings, IDENTITIES - resolve in the scope where the grouping is defined).
//
// Three modules x, y, z define the same identities (pool kind / proto / role, at their top level
// or in a submodule of their own) so that a prefix bound to the wrong module still resolves -
// silently, to another module's identity. Module m has one or two submodules; every file of m
// (m, m-s1, m-s2) and the using module `user` has its OWN import table over the prefixes p, q, r:
// the same prefix bound to different modules in the owner and in a submodule, a prefix bound only
// in the submodule (or only in the owner), sibling submodules disagreeing with each other, the
// using module binding the prefixes to yet other modules. m and its submodules may define the pool
// identities themselves (references without prefix / under the file's own belongs-to prefix).
//
// Every file of m defines a grouping whose leaves and leaf-lists refer to identities through
// every prefix the file binds: directly (type identityref { base p:kind; }), through a typedef of
// the file's top level or of the grouping itself (typedef t { type identityref { base p:kind; } }),
// through an identity statement of the file with a foreign base (identity s1-i { base p:kind; },
// leaf type identityref { base s1-i; }), at the top of the grouping, in nested containers / lists
// and in a nested grouping used on the spot; a grouping may use the grouping of another file of m
// (nested uses across files with different import tables). Every grouping is used from the owner,
// from each submodule (own and sibling) and from the other module (container, list, rpc input /
// output, notification). The reference expansion (C06Rec.IdBase, compared with
// Entry.Type.IdentityBase of every node of every tree as "owning module:identity") resolves every
// base in the import table of the file in which the type / typedef statement is WRITTEN.

import (
	"fmt"
	"math/rand"
	"strings"
)

var c06IdentPool = []string{"kind", "proto", "role"}
var c06IdentPrefixes = []string{"p", "q", "r"}

// C06IdentShapes names the import-table shapes of the first shapes (idx % len); the rest is random.
var C06IdentShapes = []string{"owner-binds-other-module", "only-submodule-binds", "swapped", "only-owner-binds-grouping-in-owner", "siblings-disagree",
	"random", "random", "random"}

type c06IdentGen struct {
	*c06
	info *C06ScopeInfo
	ext  []*Module // x, y, z
}

// bind gives file f the import table tbl (prefix -> module).
func (s *c06IdentGen) bind(f *Module, tbl map[string]*Module) {
	f.Imports = nil
	f.ImportPrefix = map[*Module]string{}
	for _, p := range c06IdentPrefixes {
		if o := tbl[p]; o != nil {
			f.Imports = append(f.Imports, o)
			f.ImportPrefix[o] = p
		}
	}
}

func (s *c06IdentGen) randomTable(keep float64) map[string]*Module {
	perm := s.r.Perm(len(s.ext))
	tbl := map[string]*Module{}
	for i, p := range c06IdentPrefixes {
		if s.chance(keep) {
			tbl[p] = s.ext[perm[i]]
		}
	}
	return tbl
}

func (s *c06IdentGen) lookup(f *Module, pfx string) *Module {
	for _, o := range f.Imports {
		if f.ImportPrefix[o] == pfx {
			return o
		}
	}
	return nil
}

// refs lists the base arguments file f can write: pfx:name for every bound prefix, and name /
// own:name for the identities the module f belongs to defines itself.
func (s *c06IdentGen) refs(f *Module) []string {
	var out []string
	for _, p := range c06IdentPrefixes {
		if s.lookup(f, p) != nil {
			for _, n := range c06IdentPool {
				out = append(out, p+":"+n)
			}
		}
	}
	for _, n := range s.ownIdentities(f) {
		out = append(out, n, f.Prefix+":"+n)
	}
	return out
}

func (s *c06IdentGen) ownIdentities(f *Module) []string {
	var out []string
	o := c06Owner(f)
	files := []*Module{o}
	for _, x := range s.set.Mods {
		if x.Sub && x.Owner == o {
			files = append(files, x)
		}
	}
	for _, x := range files {
		for _, k := range x.Body.Kids {
			if k.Kw == "identity" {
				out = append(out, k.Arg)
			}
		}
	}
	return out
}

// count classifies one written reference for the distribution.
func (s *c06IdentGen) count(f *Module, ref string) {
	s.info.IdRefs++
	i := strings.IndexByte(ref, ':')
	if i < 0 || ref[:i] == f.Prefix {
		s.info.IdOwnRefs++
		return
	}
	s.info.IdForeignRefs++
	if !f.Sub {
		// written in the module: do the submodules agree?
		for _, x := range s.set.Mods {
			if x.Sub && x.Owner == f && s.lookup(x, ref[:i]) != s.lookup(f, ref[:i]) {
				s.info.IdOwnerRefsSubDiffers++
				break
			}
		}
		return
	}
	switch o := s.lookup(f.Owner, ref[:i]); {
	case o == nil:
		s.info.IdSubOnlyRefs++
	case o != s.lookup(f, ref[:i]):
		s.info.IdDifferRefs++
	}
}

// refLeaf writes one leaf / leaf-list into at whose type refers to an identity.
func (s *c06IdentGen) refLeaf(at *Node, ref string) {
	f := s.root(at)
	s.seq++
	kw := "leaf"
	if s.chance(0.2) {
		kw = "leaf-list"
	}
	l := s.add(at, kw, fmt.Sprintf("i%d", s.seq))
	s.count(f, ref)
	switch k := s.r.Intn(10); {
	case k <= 4:
		t := s.add(l, "type", "identityref")
		s.add(t, "base", ref)
	case k <= 6:
		// a typedef at the top level of the file
		s.info.IdTypedefRefs++
		td := s.add(f.Body, "typedef", fmt.Sprintf("tr%d", s.seq))
		t := s.add(td, "type", "identityref")
		s.add(t, "base", ref)
		name := td.Arg
		if s.chance(0.3) {
			name = f.Prefix + ":" + name
		}
		s.add(l, "type", name)
	case k == 7 && at.Kw != "case":
		// a typedef of the enclosing statement itself
		s.info.IdTypedefRefs++
		td := &Node{Kw: "typedef", Arg: fmt.Sprintf("tl%d", s.seq)}
		at.Kids = append([]*Node{td}, at.Kids...)
		s.parent[td] = at
		t := s.add(td, "type", "identityref")
		s.add(t, "base", ref)
		s.add(l, "type", td.Arg)
	default:
		// an identity of this file derived from the referred one; the leaf refers to that
		s.info.IdIdentityBases++
		id := s.add(f.Body, "identity", fmt.Sprintf("%s-i%d", strings.ReplaceAll(f.Name, "m-", ""), s.seq))
		s.add(id, "base", ref)
		t := s.add(l, "type", "identityref")
		own := id.Arg
		if s.chance(0.3) {
			own = f.Prefix + ":" + own
		}
		s.add(t, "base", own)
	}
}

// body fills a grouping (or a statement inside one) of file f.
func (s *c06IdentGen) body(at *Node, depth int) {
	f := s.root(at)
	refs := s.refs(f)
	n := 2 + s.r.Intn(3)
	if len(refs) == 0 {
		n = 0
	}
	// every bound prefix at least once at the top of a grouping
	if depth == 0 {
		for _, p := range c06IdentPrefixes {
			if s.lookup(f, p) != nil {
				s.refLeaf(at, p+":"+s.pick(c06IdentPool))
			}
		}
	}
	for i := 0; i < n; i++ {
		s.refLeaf(at, s.pick(refs))
	}
	s.seq++
	s.add(s.add(at, "leaf", fmt.Sprintf("b%d", s.seq)), "type", s.pick(c06Builtins))
	if depth >= 2 {
		return
	}
	for i, m := 0, s.r.Intn(3); i < m; i++ {
		s.seq++
		name := fmt.Sprintf("n%d", s.seq)
		k := s.r.Intn(4)
		if k == 2 && at.Kw == "case" {
			k = 0 // a case statement holds neither typedefs nor groupings
		}
		switch k {
		case 0:
			s.body(s.add(at, "container", name), depth+1)
		case 1:
			l := s.add(at, "list", name)
			s.add(l, "key", "k")
			s.add(s.add(l, "leaf", "k"), "type", "string")
			s.body(l, depth+1)
		case 2:
			h := s.add(at, "grouping", "h"+name)
			s.body(h, depth+1)
			s.done[h] = true
			u := s.add(at, "uses", h.Arg)
			u.Uses = h
		default:
			c := s.add(at, "choice", name)
			s.body(s.add(c, "case", name+"a"), depth+1)
		}
	}
}

// use writes `uses ref` into at and binds it by the scope model.
func (s *c06IdentGen) use(at *Node, ref string) {
	u := s.add(at, "uses", ref)
	d, _ := s.resolve(at, "grouping", ref)
	u.Uses = d
}

// C06ScopeIdentities builds one case of the identity-scope family.
func C06ScopeIdentities(r *rand.Rand, idx int) (*C06Case, C06ScopeInfo) {
	info := C06ScopeInfo{Family: "identity-scopes"}
	g := newC06(r)
	s := &c06IdentGen{c06: g, info: &info}
	shape := C06IdentShapes[idx%len(C06IdentShapes)]
	info.IdShape = shape
	// the modules that define the identities
	var extra []*Module
	for _, n := range []string{"x", "y", "z"} {
		e := g.newModule(n, n)
		s.ext = append(s.ext, e)
		def := e
		if g.chance(0.3) {
			def = g.newSubmodule(e, n+"-s1", n)
			extra = append(extra, def)
			info.IdInSubmodule++
		}
		for _, id := range c06IdentPool {
			at := def
			if g.chance(0.3) {
				at = e
			}
			g.add(at.Body, "identity", id)
			d := g.add(at.Body, "identity", n+"-"+id)
			g.add(d, "base", id)
		}
	}
	ownPfx := g.pick([]string{"m", "pm", "o"})
	m := g.newModule("m", ownPfx)
	s1 := g.newSubmodule(m, "m-s1", g.pick([]string{ownPfx, "ms"}))
	files := []*Module{m, s1}
	if shape == "siblings-disagree" || g.chance(0.5) {
		files = append(files, g.newSubmodule(m, "m-s2", g.pick([]string{ownPfx, "ms", "mt"})))
		info.Submodule = true
	}
	user := g.newModule("user", "u")
	g.set.Mods = append(append(append([]*Module{}, s.ext...), extra...), files...)
	g.set.Mods = append(g.set.Mods, user)
	// import tables
	x, y, z := s.ext[0], s.ext[1], s.ext[2]
	for _, f := range files {
		s.bind(f, s.randomTable(0.7))
	}
	switch shape {
	case "owner-binds-other-module":
		s.bind(m, map[string]*Module{"p": y})
		s.bind(s1, map[string]*Module{"p": x})
	case "only-submodule-binds":
		s.bind(m, map[string]*Module{})
		s.bind(s1, map[string]*Module{"p": x, "q": z})
	case "swapped":
		s.bind(m, map[string]*Module{"p": x, "q": y})
		s.bind(s1, map[string]*Module{"p": y, "q": x})
	case "only-owner-binds-grouping-in-owner":
		s.bind(m, map[string]*Module{"p": x, "r": z})
		s.bind(s1, map[string]*Module{"q": x, "p": y})
	case "siblings-disagree":
		s.bind(m, map[string]*Module{"p": z})
		s.bind(s1, map[string]*Module{"p": x, "q": y})
		s.bind(files[2], map[string]*Module{"p": y, "q": x})
	}
	// the using module imports m under um and binds p, q, r its own way
	ut := s.randomTable(0.6)
	s.bind(user, ut)
	user.Imports = append(user.Imports, m)
	user.ImportPrefix[m] = "um"
	// identities of m's own files (the same names as the foreign ones)
	for _, id := range c06IdentPool {
		if g.chance(0.35) {
			g.add(files[g.r.Intn(len(files))].Body, "identity", id)
			info.IdOwnDefined++
		}
	}
	// one grouping per file of m; a grouping may use those later in a random order
	order := g.r.Perm(len(files))
	grs := make([]*Node, len(files))
	for _, i := range order {
		grs[i] = g.add(files[i].Body, "grouping", "g-"+strings.ReplaceAll(files[i].Name, "m-", ""))
	}
	for k := len(order) - 1; k >= 0; k-- {
		i := order[k]
		s.body(grs[i], 0)
		for _, j := range order[k+1:] {
			if g.chance(0.4) {
				// in a container of its own: two routes to one grouping must not meet in one node
				g.seq++
				at := g.add(grs[i], "container", fmt.Sprintf("w%d", g.seq))
				ref := grs[j].Arg
				if g.chance(0.3) {
					ref = files[i].Prefix + ":" + ref
				}
				s.use(at, ref)
				info.IdCrossFileUses++
			}
		}
		g.done[grs[i]] = true
	}
	// sites: every grouping from every file of m ...
	for fi, f := range files {
		for gi, gr := range grs {
			if fi != gi && len(files) > 2 && g.chance(0.3) {
				continue
			}
			c := g.add(f.Body, "container", fmt.Sprintf("c%d%d", fi, gi))
			ref := gr.Arg
			if g.chance(0.3) {
				ref = f.Prefix + ":" + ref
			}
			s.use(c, ref)
			switch {
			case fi == gi:
				info.SiteKinds = append(info.SiteKinds, "defining-file")
			case !f.Sub:
				info.SiteKinds = append(info.SiteKinds, "owner-uses-submodules")
			case gi == 0:
				info.SiteKinds = append(info.SiteKinds, "submodule-uses-owners")
			default:
				info.SiteKinds = append(info.SiteKinds, "sibling-submodule")
			}
		}
	}
	// ... and from the other module, which has decoy leaves through its own table
	kinds := []string{"container", "rpc-output", "notification", "list", "rpc-input"}
	for gi, gr := range grs {
		kind := g.pick(kinds)
		info.SiteKinds = append(info.SiteKinds, "other-module-"+kind)
		name := fmt.Sprintf("u%d", gi)
		var at *Node
		switch kind {
		case "container":
			at = g.add(user.Body, "container", name)
		case "list":
			at = g.add(user.Body, "list", name)
			g.add(at, "key", "k")
			g.add(g.add(at, "leaf", "k"), "type", "string")
		case "rpc-output":
			at = g.add(g.add(user.Body, "rpc", name), "output", "")
		case "rpc-input":
			at = g.add(g.add(user.Body, "rpc", name), "input", "")
		case "notification":
			at = g.add(user.Body, "notification", name)
		}
		if refs := s.refs(user); len(refs) > 0 && g.chance(0.6) {
			g.seq++
			l := g.add(at, "leaf", fmt.Sprintf("d%d", g.seq))
			t := g.add(l, "type", "identityref")
			g.add(t, "base", g.pick(refs))
		}
		s.use(at, "um:"+gr.Arg)
	}
	// the identities derived from each identity: every identity statement's bases are resolved in
	// the file that holds the statement
	derived := map[string]map[string]bool{} // base key -> keys of the identities directly derived
	for _, f := range g.set.Mods {
		for _, k := range f.Body.Kids {
			if k.Kw != "identity" {
				continue
			}
			for _, b := range k.Kids {
				if b.Kw == "base" {
					bk := c06IdentityKey(f, b.Arg)
					if derived[bk] == nil {
						derived[bk] = map[string]bool{}
					}
					derived[bk][c06Owner(f).Name+":"+k.Arg] = true
				}
			}
		}
	}
	g.idvals = func(key string) []string {
		seen := map[string]bool{}
		var visit func(k string)
		visit = func(k string) {
			for d := range derived[k] {
				if !seen[d] {
					seen[d] = true
					visit(d)
				}
			}
		}
		visit(key)
		return sortedKeys(seen)
	}
	// any load order
	g.r.Shuffle(len(g.set.Mods), func(i, j int) { g.set.Mods[i], g.set.Mods[j] = g.set.Mods[j], g.set.Mods[i] })
	c := &C06Case{}
	g.pos = map[*Node]string{}
	c.Names, c.Texts = g.render(nil)
	g.collect(c)
	if g.chance(0.4) {
		// one or two instances changed by augments / deviations: the others, the groupings' own
		// entries and the shared YangType of every type statement (its identity base) stay
		g.mutate(c)
	}
	g.late(c)
	return c, info
}
