package gen

// On-demand family for C06: the copy a `uses` receives must not depend on HOW the defining modules
// were loaded. The sets here are built so that the caller can hand over only some modules (the
// roots) and let Process find the rest on the search path while it links imports and includes:
//
//	top:  container s1 { uses pb:g1; }              handed over
//	b:    grouping g1 { leaf l1; uses pc:g2; }      found through top's import
//	c:    grouping g2 { leaf l2; uses pd:g3; }      found through b's import
//	d:    grouping g3 { leaf l3; }                  found through c's import
//
// Chains of depth 2-4; a level's grouping lives at the top of its module or in a submodule of it
// (which then carries the import of the next module itself); a level may hop through an unprefixed
// grouping h<k> of a submodule of its own module (the include link of a module that was found on
// the path); the levels are spread over distinct modules or zigzag between two of them; imports
// as needed only (a line), every file importing every module, or with back imports (the next module
// importing the previous one); typedefs t<k> declared beside each grouping, so that the copies
// show the defining scope; the modules found on demand have sites of their own; a second handed-over
// module may use a grouping from the middle of the chain. RootSets lists sets of files that, handed
// over, reach every file of the set through import / include statements.
//
// The generator knowledge (binding of every uses, reference expansion, sites) is that of c06.go.

import (
	"fmt"
	"math/rand"
)

// C06OnDemandInfo describes one case of the family (for the distribution).
type C06OnDemandInfo struct {
	Depth        int    // levels of the chain below the handed-over module
	Pattern      string // distinct | zigzag
	Topology     string // line | all | back
	SubGroupings int    // levels whose grouping lives in a submodule
	IncludeHops  int    // levels that go through an unprefixed grouping of an own submodule
	SecondRoot   bool
	TopSub       bool // the handed-over module has a submodule with a site of its own
	OwnSites     int  // sites in the modules found on demand
	Files        int
	// RootSets: indices into Names; every set reaches every file through import / include statements.
	RootSets [][]int
}

// C06OnDemand builds case idx of the family.
func C06OnDemand(r *rand.Rand, idx int) (*C06Case, C06OnDemandInfo) {
	g := &c06{r: r, cfg: C06Config{}, set: &Set{}, parent: map[*Node]*Node{}, mod: map[*Node]*Module{}, done: map[*Node]bool{},
		used: map[*Node]map[string]bool{}}
	info := C06OnDemandInfo{Depth: 2 + idx%3}
	info.Pattern = "distinct"
	if info.Depth >= 3 && (idx/3)%4 == 3 {
		info.Pattern = "zigzag"
	}
	info.Topology = []string{"line", "line", "all", "back"}[(idx/12)%4]
	newMod := func(name string) *Module {
		m := &Module{Name: name, Prefix: "p" + name, Namespace: "urn:" + name, ImportPrefix: map[*Module]string{}}
		m.Body = &Node{Kw: "module", Arg: name}
		g.mod[m.Body] = m
		return m
	}
	var subs []*Module
	newSub := func(owner *Module) *Module {
		n := 1
		for _, s := range subs {
			if s.Owner == owner {
				n++
			}
		}
		s := &Module{Name: fmt.Sprintf("%s-s%d", owner.Name, n), Prefix: owner.Prefix, Namespace: owner.Namespace, Sub: true, Owner: owner,
			ImportPrefix: map[*Module]string{}}
		if r.Intn(3) == 0 {
			s.Prefix = fmt.Sprintf("s%s%d", owner.Name, n) // a belongs-to prefix of its own
		}
		s.Body = &Node{Kw: "submodule", Arg: s.Name}
		g.mod[s.Body] = s
		owner.Includes = append(owner.Includes, s)
		subs = append(subs, s)
		return s
	}
	ensureImport := func(f, o *Module) string {
		if p, ok := f.ImportPrefix[o]; ok {
			return p
		}
		f.Imports = append(f.Imports, o)
		p := "i" + o.Name
		if r.Intn(2) == 0 {
			p = o.Prefix // the imported module's own prefix, as is customary
		}
		f.ImportPrefix[o] = p
		return p
	}
	top := newMod("top")
	mods := []*Module{top}
	var top2 *Module
	if r.Intn(5) < 2 {
		top2 = newMod("top2")
		mods = append(mods, top2)
		info.SecondRoot = true
	}
	pool := []string{"b", "c", "d", "e"}
	byName := map[string]*Module{}
	level := make([]*Module, info.Depth+1) // level[k]: module of g<k>, k = 1..Depth
	for k := 1; k <= info.Depth; k++ {
		name := pool[k-1]
		if info.Pattern == "zigzag" {
			name = pool[(k-1)%2]
		}
		if byName[name] == nil {
			byName[name] = newMod(name)
			mods = append(mods, byName[name])
		}
		level[k] = byName[name]
	}
	// where each grouping is written
	file := make([]*Module, info.Depth+1)
	gs := make([]*Node, info.Depth+1)
	for k := 1; k <= info.Depth; k++ {
		file[k] = level[k]
		if r.Intn(20) < 7 {
			file[k] = newSub(level[k])
			info.SubGroupings++
		}
		td := g.add(file[k].Body, "typedef", fmt.Sprintf("t%d", k))
		g.add(td, "type", c06Builtins[(k+idx)%len(c06Builtins)])
		gs[k] = g.add(file[k].Body, "grouping", fmt.Sprintf("g%d", k))
	}
	place := func(at *Node, ref string, want *Node) {
		u := g.add(at, "uses", ref)
		d, _ := g.resolve(at, "grouping", ref)
		if d != want {
			panic(fmt.Sprintf("c06path: %s written in %s does not denote the intended grouping", ref, g.root(at).Name))
		}
		u.Uses = d
	}
	for k := info.Depth; k >= 1; k-- {
		gr := gs[k]
		l := g.add(gr, "leaf", fmt.Sprintf("l%d", k))
		tn := fmt.Sprintf("t%d", k)
		if r.Intn(3) == 0 {
			tn = file[k].Prefix + ":" + tn
		}
		g.add(l, "type", tn)
		if r.Intn(3) == 0 {
			l2 := g.add(gr, "leaf", fmt.Sprintf("d%d", k))
			g.add(l2, "type", "string")
			g.add(l2, "default", fmt.Sprintf("v%d", k))
		}
		if k < info.Depth {
			at := gr
			switch r.Intn(5) {
			case 1:
				at = g.add(gr, "container", fmt.Sprintf("w%d", k))
			case 2:
				at = g.add(gr, "list", fmt.Sprintf("w%d", k))
				g.add(at, "key", "k")
				g.add(g.add(at, "leaf", "k"), "type", "string")
			case 3:
				at = g.add(g.add(gr, "choice", fmt.Sprintf("c%d", k)), "case", fmt.Sprintf("k%d", k))
			}
			writer, wat := file[k], at
			if !file[k].Sub && r.Intn(10) < 3 {
				// hop through a grouping of a submodule of the own module: g<k> uses h<k> (found through
				// the include link), h<k> uses the next level under the submodule's own import
				hs := newSub(level[k])
				h := g.add(hs.Body, "grouping", fmt.Sprintf("h%d", k))
				g.add(g.add(h, "leaf", fmt.Sprintf("m%d", k)), "type", "int8")
				place(at, h.Arg, h)
				g.done[h] = true
				writer, wat = hs, h
				info.IncludeHops++
			}
			p := ensureImport(writer, level[k+1])
			place(wat, p+":"+gs[k+1].Arg, gs[k+1])
		}
		g.done[gr] = true
	}
	// the handed-over module: two sites
	site := func(f *Module, kind, name, ref string, want *Node) {
		b := f.Body
		var at *Node
		switch kind {
		case "list":
			at = g.add(b, "list", name)
			g.add(at, "key", "k")
			g.add(g.add(at, "leaf", "k"), "type", "string")
		case "top":
			at = b
		case "rpc":
			at = g.add(g.add(b, "rpc", name), "input", "")
		case "notification":
			at = g.add(b, "notification", name)
		default:
			at = g.add(b, "container", name)
		}
		place(at, ref, want)
	}
	kinds := []string{"container", "list", "top", "rpc", "notification"}
	site(top, kinds[(idx/2)%len(kinds)], "s1", ensureImport(top, level[1])+":g1", gs[1])
	second := top
	if r.Intn(3) == 0 {
		second = newSub(top)
		info.TopSub = true
	}
	site(second, "container", "s2", ensureImport(second, level[1])+":g1", gs[1])
	if top2 != nil {
		j := 1 + r.Intn(info.Depth)
		site(top2, "container", "s3", ensureImport(top2, level[j])+":"+gs[j].Arg, gs[j])
		if r.Intn(2) == 0 {
			site(top2, "list", "s4", ensureImport(top2, level[1])+":g1", gs[1])
		}
	}
	// sites of their own in the modules found on demand
	for k := 1; k <= info.Depth; k++ {
		if r.Intn(2) == 0 {
			ref := gs[k].Arg
			if r.Intn(2) == 0 {
				ref = level[k].Prefix + ":" + ref
			}
			site(level[k], "container", fmt.Sprintf("own%d", k), ref, gs[k])
			info.OwnSites++
		}
	}
	switch info.Topology {
	case "all":
		for _, f := range append(append([]*Module{}, mods...), subs...) {
			for _, o := range mods {
				if o != c06Owner(f) && o != top && o != top2 {
					ensureImport(f, o)
				}
			}
		}
	case "back":
		for k := 1; k < info.Depth; k++ {
			if level[k+1] != level[k] {
				ensureImport(level[k+1], level[k])
			}
		}
	}
	g.set.Mods = append(append([]*Module{}, mods...), subs...)
	c := &C06Case{}
	c.Names, c.Texts = g.render(nil)
	g.collect(c)
	g.late(c)
	info.Files = len(c.Names)
	// root sets
	base := []int{0}
	if top2 != nil {
		base = append(base, 1)
	}
	if top2 != nil && r.Intn(2) == 0 {
		base[0], base[1] = base[1], base[0]
	}
	info.RootSets = append(info.RootSets, base)
	if info.Depth >= 2 {
		// the first level found on demand, a later one handed over
		j := 2 + r.Intn(info.Depth-1)
		for i, m := range g.set.Mods {
			if m == level[j] && m != level[1] {
				with := append(append([]int{}, base...), i)
				if r.Intn(2) == 0 {
					with = append([]int{i}, base...)
				}
				info.RootSets = append(info.RootSets, with)
			}
		}
	}
	return c, info
}
