package gen

// Revision families for C06: the module that defines the groupings is loaded in two or three
// revisions whose same-named groupings differ (another typedef behind the same type name, other
// leaves, other defaults, a list where the other revision has a container, another nested uses, a
// grouping that only one revision has), and the importers designate different revisions of it by
// revision-date - in different modules, in ONE module under two prefixes, in a submodule that pins
// another revision than the module it belongs to (also under the very same prefix), through a
// grouping of another importer (the nested uses follows the import of the module that DEFINES the
// grouping) - next to imports without revision-date (bare name = the latest loaded revision).
// The files are handed over in every order. Every uses statement must expand to a copy of the
// grouping of exactly the revision its own file's import statement designates (RFC 7950 5.1.1),
// nested uses included; a grouping that the designated revision lacks must not resolve, however
// many other loaded revisions have it.
//
// The generator's knowledge (binding of every uses, instance sites, reference expansion) comes
// from the same scope model as for the other C06 families (c06.resolve over the per-file import
// table, which here maps a prefix to one revision object).

import (
	"fmt"
	"math/rand"
)

// C06RevInfo describes one revision-family case (for the runner's distribution).
type C06RevInfo struct {
	Revisions   int    // loaded revisions of the defining module
	Pinned      int    // import statements of it with a revision-date
	Unpinned    int    // ... without
	Designated  int    // distinct revisions the set's import statements designate
	TwoPrefixes bool   // one module imports two revisions under two prefixes
	SubPin      bool   // a submodule designates another revision than the module it belongs to
	SamePrefix  bool   // ... under the same prefix
	Chain       bool   // a grouping of one importer is used from another importer that designates another revision
	OnlyIn      bool   // a grouping that not every loaded revision has is used
	Dangling    bool   // ... through an import that designates a revision without it (must not resolve)
	Minimal     bool   // the systematic block: 2 revisions, 2 importers, every load order
	LibName     string // name of the defining module (its place in the sorted order of module names varies)
}

var c06RevDates = []string{"2019-03-01", "2020-01-01", "2021-06-15"}

type c06RevEntry struct {
	pfx string
	pin string // "" = no revision-date
	to  *Module
}

// C06RevMinimalCount is the size of the systematic block at the start of the family.
const C06RevMinimalCount = 6 * 24

// C06Rev builds case idx of the family. idx < C06RevMinimalCount: the systematic block (two
// revisions, two importers with one import each: every one of the 6 ordered pairs of distinct
// designations out of {older by date, newer by date, no date} x every one of the 24 load orders);
// beyond it the structure follows idx and r.
func C06Rev(r *rand.Rand, idx int) (*C06Case, C06RevInfo) {
	g := &c06{r: r, cfg: C06Config{}, set: &Set{}, parent: map[*Node]*Node{}, mod: map[*Node]*Module{}, done: map[*Node]bool{},
		used: map[*Node]map[string]bool{}, pin: map[*Module]map[*Module]string{}}
	info := C06RevInfo{Minimal: idx < C06RevMinimalCount}
	minimal := info.Minimal
	k := idx
	if !minimal {
		k = idx - C06RevMinimalCount
	}
	sets := [][]int{{0, 1}, {1, 2}, {0, 2}, {0, 1, 2}}
	revIdx := sets[k%4]
	if minimal {
		revIdx = sets[(idx/24)%3]
	}
	libName := []string{"c", "a0", "p", "zz"}[(k/4)%4]
	info.LibName = libName
	info.Revisions = len(revIdx)
	builtins := []string{"string", "int8", "uint32"}
	rot := r.Intn(3)
	common := g.chance(0.5)

	// ---- the revisions of the defining module ----
	libs := map[int]*Module{}
	only := map[int]bool{}
	inner2 := map[int]bool{}
	for _, j := range revIdx {
		v := c06RevDates[j]
		m := &Module{Name: libName, Prefix: "l", Namespace: "urn:" + libName, Revisions: []string{v}, File: libName + "@" + v + ".yang",
			ImportPrefix: map[*Module]string{}}
		m.Body = &Node{Kw: "module", Arg: libName}
		g.mod[m.Body] = m
		g.set.Mods = append(g.set.Mods, m)
		libs[j] = m
		b := builtins[(j+rot)%3]
		ty := b
		if g.chance(0.75) {
			g.add(g.add(m.Body, "typedef", "t"), "type", b)
			ty = "t"
			if g.chance(0.3) {
				ty = "l:t"
			}
		}
		in := g.add(m.Body, "grouping", "inner")
		d := g.add(in, "leaf", "d")
		g.add(d, "type", ty)
		if g.chance(0.5) {
			g.add(d, "default", fmt.Sprint(j+1))
		}
		if g.chance(0.6) {
			g.add(g.add(in, "leaf", fmt.Sprintf("v%d", j)), "type", "string")
		}
		if common {
			g.add(g.add(in, "leaf", "c"), "type", "boolean")
		}
		if g.chance(0.5) {
			inner2[j] = true
			i2 := g.add(m.Body, "grouping", "inner2")
			g.add(g.add(i2, "leaf", "e"), "type", builtins[(j+rot+1)%3])
			if g.chance(0.4) {
				g.add(g.add(i2, "leaf-list", fmt.Sprintf("ee%d", j)), "type", "string")
			}
		}
		gr := g.add(m.Body, "grouping", "gr")
		var box *Node
		if g.chance(0.25) {
			box = g.add(gr, "list", "box")
			g.add(box, "key", "k")
			g.add(g.add(box, "leaf", "k"), "type", "string")
		} else {
			box = g.add(gr, "container", "box")
		}
		refs := []string{"inner", "l:inner"}
		if inner2[j] {
			refs = append(refs, "inner2", "inner2")
		}
		g.add(box, "uses", g.pick(refs))
		if g.chance(0.4) {
			it := g.add(gr, "list", "items")
			g.add(it, "key", "k")
			g.add(g.add(it, "leaf", "k"), "type", "string")
			if inner2[j] && g.chance(0.5) {
				g.add(it, "uses", "l:inner2")
			}
		}
		if g.chance(0.3) {
			ch := g.add(gr, "choice", "ch")
			g.add(g.add(ch, "leaf", fmt.Sprintf("a%d", j)), "type", "string")
			if g.chance(0.5) {
				g.add(g.add(g.add(ch, "case", "k2"), "leaf", "b"), "type", b)
			}
		}
		if !minimal && g.chance(0.5) {
			only[j] = true
			o := g.add(m.Body, "grouping", fmt.Sprintf("only%d", j))
			g.add(g.add(o, "leaf", fmt.Sprintf("o%d", j)), "type", "string")
		}
		// the revisions' own trees: the same paths in every revision, with each revision's own content
		g.add(g.add(m.Body, "container", "top"), "uses", g.pick([]string{"gr", "l:gr"}))
		if g.chance(0.4) {
			g.add(g.add(m.Body, "container", "top2"), "uses", "l:inner")
		}
	}
	latest := revIdx[len(revIdx)-1]
	target := func(pin string) *Module {
		for _, j := range revIdx {
			if c06RevDates[j] == pin {
				return libs[j]
			}
		}
		return libs[latest]
	}
	revOf := func(m *Module) int {
		for _, j := range revIdx {
			if libs[j] == m {
				return j
			}
		}
		return -1
	}

	// ---- what every importing file designates ----
	// choices: every loaded revision by date, and "" (latest)
	var choices []string
	for _, j := range revIdx {
		choices = append(choices, c06RevDates[j])
	}
	choices = append(choices, "")
	impNames := []string{"b", "n", "y"}
	nImp := 2
	if !minimal && g.chance(0.4) {
		nImp = 3
	}
	type importer struct {
		m       *Module
		entries []c06RevEntry
		sub     *Module
		subE    c06RevEntry
	}
	var imps []*importer
	pinAt := func(i int) string { return choices[(k/16+i)%len(choices)] }
	if minimal {
		// ordered pairs of distinct designations out of {first loaded revision, second, no date}
		pairs := [][2]int{{0, 1}, {1, 0}, {2, 0}, {0, 2}, {1, 2}, {2, 1}}
		p := pairs[(idx/24)%6]
		pinAt = func(i int) string { return choices[p[i]] }
	}
	slot := 0
	for i := 0; i < nImp; i++ {
		nm := impNames[i]
		m := &Module{Name: nm, Prefix: "p" + nm, Namespace: "urn:" + nm, ImportPrefix: map[*Module]string{}}
		m.Body = &Node{Kw: "module", Arg: nm}
		g.mod[m.Body] = m
		g.pin[m] = map[*Module]string{}
		im := &importer{m: m}
		e1 := c06RevEntry{pfx: "l", pin: pinAt(slot)}
		slot++
		e1.to = target(e1.pin)
		im.entries = append(im.entries, e1)
		if !minimal && g.chance(0.35) {
			// two prefixes for two revisions in one module
			for try := 0; try < len(choices); try++ {
				e2 := c06RevEntry{pfx: "l2", pin: pinAt(slot)}
				slot++
				e2.to = target(e2.pin)
				if e2.to != e1.to {
					im.entries[0].pfx = "l1"
					im.entries = append(im.entries, e2)
					info.TwoPrefixes = true
					break
				}
			}
		}
		for _, e := range im.entries {
			m.Imports = append(m.Imports, e.to)
			m.ImportPrefix[e.to] = e.pfx
			g.pin[m][e.to] = e.pin
		}
		if !minimal && g.chance(0.3) {
			s := &Module{Name: nm + "-s1", Prefix: m.Prefix, Namespace: m.Namespace, Sub: true, Owner: m, ImportPrefix: map[*Module]string{}}
			s.Body = &Node{Kw: "submodule", Arg: s.Name}
			g.mod[s.Body] = s
			g.pin[s] = map[*Module]string{}
			se := c06RevEntry{pfx: "ls", pin: pinAt(slot)}
			slot++
			if g.chance(0.5) {
				se.pfx = im.entries[0].pfx
			}
			se.to = target(se.pin)
			s.Imports = []*Module{se.to}
			s.ImportPrefix[se.to] = se.pfx
			g.pin[s][se.to] = se.pin
			m.Includes = append(m.Includes, s)
			im.sub, im.subE = s, se
			if se.to != im.entries[0].to {
				info.SubPin = true
				if se.pfx == im.entries[0].pfx {
					info.SamePrefix = true
				}
			}
		}
		imps = append(imps, im)
		g.set.Mods = append(g.set.Mods, m)
	}
	for _, im := range imps {
		if im.sub != nil {
			g.set.Mods = append(g.set.Mods, im.sub)
		}
	}
	// a chain: importer 1 uses a grouping of importer 0, which uses l:gr as importer 0 designates it
	chain := !minimal && g.chance(0.45)
	if chain {
		a, b := imps[0], imps[1]
		b.m.Imports = append(b.m.Imports, a.m)
		b.m.ImportPrefix[a.m] = "x"
		if a.entries[0].to != b.entries[0].to {
			info.Chain = true
		}
	}
	dangle := !minimal && g.chance(0.08)

	// ---- bodies ----
	body := func(at *Node, e c06RevEntry, tag string) {
		j := revOf(e.to)
		g.add(g.add(at, "container", "c"+tag), "uses", e.pfx+":gr")
		if g.chance(0.6) {
			q := g.add(at, "list", "q"+tag)
			g.add(q, "key", "k")
			g.add(g.add(q, "leaf", "k"), "type", "string")
			g.add(q, "uses", e.pfx+":inner")
		}
		if g.chance(0.5) {
			g.add(g.add(at, "container", "c"+tag+"b"), "uses", e.pfx+":gr")
		}
		if only[j] && g.chance(0.7) {
			g.add(g.add(at, "container", "o"+tag), "uses", fmt.Sprintf("%s:only%d", e.pfx, j))
			info.OnlyIn = true
		}
		if inner2[j] && g.chance(0.5) {
			g.add(g.add(at, "container", "e"+tag), "uses", e.pfx+":inner2")
			if len(inner2) < len(revIdx) {
				info.OnlyIn = true
			}
		}
		if g.chance(0.2) {
			g.add(g.add(g.add(at, "rpc", "r"+tag), "input", ""), "uses", e.pfx+":inner")
		}
		if dangle {
			// a grouping other loaded revisions have, the designated one has not
			for _, o := range revIdx {
				if o != j && only[o] {
					g.add(g.add(at, "container", "x"+tag), "uses", fmt.Sprintf("%s:only%d", e.pfx, o))
					info.Dangling = true
					g.faulty = true
					break
				}
				if o != j && inner2[o] && !inner2[j] {
					g.add(g.add(at, "container", "x"+tag), "uses", e.pfx+":inner2")
					info.Dangling = true
					g.faulty = true
					break
				}
			}
			dangle = false
		}
	}
	for i, im := range imps {
		for n, e := range im.entries {
			body(im.m.Body, e, fmt.Sprintf("%s%d", im.m.Name, n+1))
		}
		if i == 0 && chain {
			w := g.add(im.m.Body, "grouping", "wrap")
			g.add(w, "uses", im.entries[0].pfx+":gr")
			g.add(g.add(w, "leaf", "w"), "type", "string")
			g.add(g.add(im.m.Body, "container", "cw"), "uses", g.pick([]string{"wrap", im.m.Prefix + ":wrap"}))
		}
		if i == 1 && chain {
			g.add(g.add(im.m.Body, "container", "cx"), "uses", "x:wrap")
		}
		if im.sub != nil {
			s := im.sub
			g.add(g.add(s.Body, "container", "s"+im.m.Name), "uses", im.subE.pfx+":gr")
			sg := g.add(s.Body, "grouping", "sg")
			g.add(sg, "uses", im.subE.pfx+":inner")
			g.add(g.add(sg, "leaf", "sl"), "type", "string")
			// the module uses the submodule's grouping: its nested uses follows the submodule's import
			g.add(g.add(im.m.Body, "container", "csg"), "uses", "sg")
			if g.chance(0.5) {
				g.add(g.add(s.Body, "container", "csg2"), "uses", im.m.Prefix+":sg")
			}
		}
	}

	// ---- bind every uses statement through the scope model ----
	var bind func(n *Node)
	bind = func(n *Node) {
		for _, c := range n.Kids {
			if c.Kw == "grouping" {
				g.done[c] = true
			}
			if c.Kw == "uses" {
				c.Uses, _ = g.resolve(n, "grouping", c.Arg)
			}
			bind(c)
		}
	}
	for _, m := range g.set.Mods {
		bind(m.Body)
	}

	// ---- the import statements, counted ----
	des := map[*Module]bool{}
	for _, m := range g.set.Mods {
		for to, pin := range g.pin[m] {
			des[to] = true
			if pin == "" {
				info.Unpinned++
			} else {
				info.Pinned++
			}
		}
	}
	info.Designated = len(des)

	c := &C06Case{Faulty: g.faulty}
	c.Names, c.Texts = g.render(nil)
	g.collect(c)
	// load order: the systematic block walks through all 24 orders of its four files, the rest is shuffled
	n := len(c.Names)
	perm := r.Perm(n)
	if minimal && n == 4 {
		perm = nthPerm(4, idx%24)
	}
	names, texts := make([]string, n), make([]string, n)
	for i, p := range perm {
		names[i], texts[i] = c.Names[p], c.Texts[p]
	}
	c.Names, c.Texts = names, texts
	// a module loaded after the first Process designates a revision of its own
	if !g.faulty {
		pin := choices[r.Intn(len(choices))]
		to := target(pin)
		gr := declared(to.Body, "grouping", "gr")
		rd := ""
		if pin != "" {
			rd = " revision-date " + pin + ";"
		}
		text := fmt.Sprintf("module late {\n  namespace \"urn:late\";\n  prefix pl;\n  import %s { prefix lx;%s }\n  container lu {\n    uses lx:gr;\n  }\n}\n",
			libName, rd)
		c.Late = &C06Late{Name: "late.yang", Text: text, Path: []string{"lu"}, GLoc: g.pos[gr], Names: contributed(gr, 0)}
	}
	return c, info
}

// nthPerm returns permutation number k (0 <= k < n!) of 0..n-1 in lexicographic order.
func nthPerm(n, k int) []int {
	items := make([]int, n)
	for i := range items {
		items[i] = i
	}
	fact := 1
	for i := 2; i < n; i++ {
		fact *= i
	}
	var out []int
	for i := n - 1; i >= 0; i-- {
		q := 0
		if fact > 0 {
			q = k / fact
			k %= fact
		}
		out = append(out, items[q])
		items = append(items[:q], items[q+1:]...)
		if i > 0 {
			fact /= i
		}
	}
	return out
}
