package gen

// Two small families for C06's "locally scoped" clause (names inside a grouping resolve in the scope
// where the grouping is defined; a prefixed uses denotes the grouping of the module imported under
// exactly that prefix).
//
// C06ScopeTypedefs - typedef scopes inside groupings. A grouping of module lib declares typedefs
// from the pool {ta, tb, tc} and contains nested statements that are typedef scopes of their own
// (container, list, nested grouping used on the spot, action input / output, notification; two to
// four levels), each level declaring its own subset of the pool - some names shadowing an outer
// level, some not, some levels declaring only OTHER names than the ones referred to. Every level
// has one leaf per visible pool name (unprefixed or under the file's own prefix), so there are
// references from every level to every visible level, also references that must skip one or two
// nearer typedef-bearing scopes. Every typedef carries a restriction of its own (range / length
// with a unique bound) or is a one-step chain to a typedef of an outer level, so the resolved
// type's "kind/range/length" (C06Rec.TSig) names the typedef that was chosen. The module level of
// lib (or its submodule), the module level of the using module and the using container / output
// declare decoy typedefs of the same names. The grouping is used in lib, in another module
// (prefixed), under rpc output, in a notification, in a list, through a second grouping that wraps
// the uses in a typedef-bearing container, and in the body of an augment of another module.
//
// C06ScopePrefixes - prefix pools. Two or three modules and sometimes a submodule whose own
// prefixes and import prefixes are related as substrings (if / oc-if / if-ext / i / iff / if-if /
// xif), grouping names from a pool that contains the prefixes themselves and names containing them
// (if, oc-if, if-top, oc-top, top, i, ext); every file uses groupings of every module it imports
// through the import prefix and its own groupings unprefixed and under its own prefix, at the top
// of containers and nested inside groupings. For every prefixed reference the file also declares
// decoy local groupings of every name that cutting the own prefix out of the reference (anywhere,
// with or without the colon), or dropping the prefix, would leave.
//
// Expected bindings, sites and the reference expansion come from the scope model of c06.go
// (g.resolve / g.collect), which compares prefixes as whole strings and walks every ancestor.

import (
	"fmt"
	"math/rand"
	"strings"
)

// C06ScopeInfo describes one case for the runner's distribution.
type C06ScopeInfo struct {
	Family        string // typedef-scopes | prefix-pools
	Levels        int    // deepest nesting of typedef-bearing statements inside the grouping
	TypedefScopes int    // statements inside groupings that declare typedefs
	Refs          int    // type references to pool names written inside groupings
	SkipRefs      int    // ... that must skip at least one nearer statement declaring other typedefs
	ShadowRefs    int    // ... whose name is declared again further out (the nearer one wins)
	ModuleRefs    int    // ... that reach the module level of the defining module
	Chained       int    // typedefs defined by a typedef of an outer level
	Augment       bool   // the grouping is also used in an augment body
	Wrapped       bool   // ... and through a second grouping
	Submodule     bool
	SiteKinds     []string
	// prefix pools
	PrefixedUses  int // uses through an import prefix
	SubstringUses int // ... whose import prefix contains the file's own prefix
	SuffixUses    int // ... whose import prefix ends with the file's own prefix
	PrefixOfUses  int // ... whose import prefix starts with the own prefix (or the other way round)
	OwnPrefixUses int // uses under the file's own prefix
	PlainUses     int // unprefixed uses
	Decoys        int // decoy local groupings of spliced names
	NameIsPrefix  int // uses of a grouping whose name is a prefix of the file, or contains one
	// identity scopes (c06ident.go)
	IdShape               string // shape of the import tables of the owner and its submodules
	IdRefs                int    // identity references written inside groupings and at the sites
	IdOwnRefs             int    // ... without prefix / under the file's own prefix
	IdForeignRefs         int    // ... through an import prefix of the file
	IdDifferRefs          int    // ... written in a submodule whose owner binds the prefix to ANOTHER module
	IdSubOnlyRefs         int    // ... written in a submodule whose owner does not bind the prefix
	IdOwnerRefsSubDiffers int    // ... written in the module, a submodule binding the prefix differently (or not)
	IdTypedefRefs         int    // references made through a typedef (file level or local)
	IdIdentityBases       int    // references made through an identity statement of the file with that base
	IdInSubmodule         int    // defining modules whose identities live in a submodule
	IdOwnDefined          int    // pool identities the using module m defines itself as well
	IdCrossFileUses       int    // groupings using the grouping of another file of the module
}

func newC06(r *rand.Rand) *c06 {
	return &c06{r: r, cfg: C06Config{}, set: &Set{}, parent: map[*Node]*Node{}, mod: map[*Node]*Module{}, done: map[*Node]bool{},
		used: map[*Node]map[string]bool{}}
}

func (g *c06) newModule(name, prefix string) *Module {
	m := &Module{Name: name, Prefix: prefix, Namespace: "urn:" + name, ImportPrefix: map[*Module]string{}}
	m.Body = &Node{Kw: "module", Arg: name}
	g.mod[m.Body] = m
	return m
}

func (g *c06) newSubmodule(owner *Module, name, prefix string) *Module {
	s := &Module{Name: name, Prefix: prefix, Namespace: owner.Namespace, Sub: true, Owner: owner, ImportPrefix: map[*Module]string{}}
	s.Body = &Node{Kw: "submodule", Arg: name}
	g.mod[s.Body] = s
	owner.Includes = append(owner.Includes, s)
	return s
}

var c06ScopePool = []string{"ta", "tb", "tc"}

// scopeSig resolves the written type of a leaf by the scoping rules and returns kind/range/length
// of the restricted built-in type at the end of the chain.
func (g *c06) scopeSig(leaf *Node) string {
	t := declared2(leaf, "type")
	for depth := 0; t != nil && depth < 16; depth++ {
		for _, b := range c06Builtins {
			if t.Arg == b {
				return b + "/" + argOf(t, "range", "") + "/" + argOf(t, "length", "")
			}
		}
		td, _ := g.resolve(g.parent[t], "typedef", t.Arg)
		if td == nil {
			return "?"
		}
		t = declared2(td, "type")
	}
	return "?"
}

// restricted adds a built-in type with a restriction nobody else has.
func (g *c06) restricted(p *Node) {
	g.seq++
	switch {
	case g.seq%3 == 0 && g.seq < 120:
		g.add(g.add(p, "type", "int8"), "range", fmt.Sprintf("0..%d", g.seq))
	case g.seq%2 == 0:
		g.add(g.add(p, "type", "uint32"), "range", fmt.Sprintf("0..%d", 1000+g.seq))
	default:
		g.add(g.add(p, "type", "string"), "length", fmt.Sprintf("0..%d", 2000+g.seq))
	}
}

type c06ScopeGen struct {
	*c06
	info     *C06ScopeInfo
	maxDepth int
}

// visible lists the pool names that resolve from statement at.
func (s *c06ScopeGen) visible(at *Node) []string {
	var out []string
	for _, n := range c06ScopePool {
		if td, _ := s.resolve(at, "typedef", n); td != nil {
			out = append(out, n)
		}
	}
	return out
}

// declare gives statement at its own typedefs: each pool name with probability p; a typedef is a
// restricted built-in type or a chain to a name visible from outside that at does not declare.
func (s *c06ScopeGen) declare(at *Node, p float64, inGrouping bool) []string {
	outer := s.visible(at)
	var mine []string
	for _, n := range c06ScopePool {
		if s.chance(p) {
			mine = append(mine, n)
		}
	}
	isMine := map[string]bool{}
	for _, n := range mine {
		isMine[n] = true
	}
	var chainTo []string
	for _, n := range outer {
		if !isMine[n] {
			chainTo = append(chainTo, n)
		}
	}
	for _, n := range mine {
		td := s.add(at, "typedef", n)
		if len(chainTo) > 0 && s.chance(0.3) {
			ref := s.pick(chainTo)
			if s.chance(0.3) {
				ref = s.root(at).Prefix + ":" + ref
			}
			s.add(td, "type", ref)
			s.info.Chained++
		} else {
			s.restricted(td)
		}
	}
	if inGrouping && len(mine) > 0 {
		s.info.TypedefScopes++
	}
	return mine
}

// refLeaves writes one leaf per visible pool name into at and counts what the reference has to do.
func (s *c06ScopeGen) refLeaves(at *Node, inGrouping bool) {
	m := s.root(at)
	for _, n := range s.visible(at) {
		s.seq++
		kw := "leaf"
		if s.chance(0.15) {
			kw = "leaf-list"
		}
		l := s.add(at, kw, fmt.Sprintf("r%d-%s", s.seq, n))
		ref := n
		if s.chance(0.3) {
			ref = m.Prefix + ":" + n
		}
		s.add(l, "type", ref)
		if !inGrouping {
			continue
		}
		s.info.Refs++
		// walk up: statements that declare typedefs but not this name are skipped; after the binding,
		// another declaration further out means the reference shadows
		skipped, found, shadow := false, false, false
		for x := at; x != nil; x = s.parent[x] {
			_, isBody := s.mod[x]
			has := declared(x, "typedef", n) != nil
			switch {
			case !found && has:
				found = true
				if isBody {
					s.info.ModuleRefs++
				}
			case !found && !isBody && declared2(x, "typedef") != nil:
				skipped = true
			case found && has:
				shadow = true
			}
		}
		if !found {
			s.info.ModuleRefs++ // another file of the module
		}
		if skipped {
			s.info.SkipRefs++
		}
		if shadow {
			s.info.ShadowRefs++
		}
	}
	s.seq++
	s.restricted(s.add(at, "leaf", fmt.Sprintf("b%d", s.seq)))
}

// scope fills statement at (a grouping, container, list, input, output, notification inside a
// grouping) as one typedef scope level and nests further levels below it.
func (s *c06ScopeGen) scope(at *Node, depth int) {
	if depth > s.info.Levels {
		s.info.Levels = depth
	}
	s.declare(at, 0.45, true)
	s.refLeaves(at, true)
	if depth >= s.maxDepth {
		return
	}
	inOps := false
	for x := at; x != nil; x = s.parent[x] {
		if x.Kw == "input" || x.Kw == "output" || x.Kw == "notification" {
			inOps = true
		}
	}
	n := 1 + s.r.Intn(2)
	for i := 0; i < n; i++ {
		s.seq++
		name := fmt.Sprintf("n%d", s.seq)
		switch k := s.r.Intn(10); {
		case k <= 2:
			s.scope(s.add(at, "container", name), depth+1)
		case k <= 4:
			l := s.add(at, "list", name)
			s.add(l, "key", "k")
			s.restricted(s.add(l, "leaf", "k"))
			s.scope(l, depth+1)
		case k <= 6:
			h := s.add(at, "grouping", "h"+name)
			s.scope(h, depth+1)
			s.done[h] = true
			u := s.add(at, "uses", h.Arg)
			if s.chance(0.3) {
				u.Arg = s.root(at).Prefix + ":" + h.Arg
			}
			u.Uses = h
		case k <= 8 && !inOps && at.Kw != "grouping":
			// an action (itself a typedef scope) with input and output
			a := s.add(at, "action", name)
			s.declare(a, 0.3, true)
			s.scope(s.add(a, "input", ""), depth+1)
			if s.chance(0.6) {
				s.scope(s.add(a, "output", ""), depth+1)
			}
		case k == 9 && !inOps && at.Kw == "container":
			s.scope(s.add(at, "notification", name), depth+1)
		default:
			s.scope(s.add(at, "container", name), depth+1)
		}
	}
}

var c06ScopePrefixSets = [][3]string{ // lib's own prefix, the user's own prefix, the user's prefix for lib
	{"pl", "pu", "pl"}, {"lib", "if", "oc-if"}, {"if", "u", "oc-if"}, {"if", "iff", "if"}, {"i", "if", "i"}, {"if-ext", "ext", "if-ext"},
	{"l", "u", "l"}, {"oc-if", "if", "oc-if"},
}

// C06ScopeTypedefs builds one case of the typedef-scope family.
func C06ScopeTypedefs(r *rand.Rand, idx int) (*C06Case, C06ScopeInfo) {
	info := C06ScopeInfo{Family: "typedef-scopes"}
	g := newC06(r)
	g.sig = g.scopeSig
	s := &c06ScopeGen{c06: g, info: &info, maxDepth: 2 + r.Intn(3)}
	ps := c06ScopePrefixSets[idx%len(c06ScopePrefixSets)]
	lib := g.newModule("lib", ps[0])
	user := g.newModule("user", ps[1])
	user.Imports = []*Module{lib}
	user.ImportPrefix[lib] = ps[2]
	g.set.Mods = []*Module{lib, user}
	defFile := lib // the file that holds the groupings
	if g.chance(0.3) {
		sub := g.newSubmodule(lib, "lib-s1", g.pick([]string{ps[0], "ls"}))
		g.set.Mods = append(g.set.Mods, sub)
		info.Submodule = true
		if g.chance(0.6) {
			defFile = sub
		}
	}
	// module-level typedefs of the defining module (in either file) and decoys in the using module
	for _, n := range c06ScopePool {
		if g.chance(0.6) {
			f := lib
			if info.Submodule && g.chance(0.5) {
				f = g.set.Mods[2]
			}
			g.restricted(g.add(f.Body, "typedef", n))
		}
		if g.chance(0.5) {
			g.restricted(g.add(user.Body, "typedef", n))
		}
	}
	gr := g.add(defFile.Body, "grouping", "g")
	s.scope(gr, 1)
	g.done[gr] = true
	target := gr // what the sites use
	// a second grouping that wraps the uses of g in a typedef-bearing container
	var gr2 *Node
	if g.chance(0.5) {
		info.Wrapped = true
		gr2 = g.add(lib.Body, "grouping", "g2")
		s.declare(gr2, 0.4, true)
		w := g.add(gr2, "container", "w")
		s.declare(w, 0.5, true)
		s.refLeaves(w, true)
		u := g.add(w, "uses", "g")
		u.Uses = gr
		g.done[gr2] = true
	}
	pickTarget := func() *Node {
		if gr2 != nil && g.chance(0.4) {
			return gr2
		}
		return target
	}
	// sites in lib
	c0 := g.add(lib.Body, "container", "c0")
	s.declare(c0, 0.4, false)
	u0 := g.add(c0, "uses", "g")
	u0.Uses = gr
	t0 := g.add(lib.Body, "container", "t0")
	g.restricted(g.add(t0, "leaf", "z"))
	// sites in user
	kinds := []string{"container", "rpc-output", "notification", "list", "rpc-input", "nested-container"}
	r.Shuffle(len(kinds), func(i, j int) { kinds[i], kinds[j] = kinds[j], kinds[i] })
	for i, kind := range kinds[:2+r.Intn(2)] {
		info.SiteKinds = append(info.SiteKinds, kind)
		name := fmt.Sprintf("u%d", i)
		var at *Node
		switch kind {
		case "container":
			at = g.add(user.Body, "container", name)
		case "nested-container":
			o := g.add(user.Body, "container", name)
			s.declare(o, 0.5, false)
			at = g.add(o, "container", "in")
		case "list":
			at = g.add(user.Body, "list", name)
			g.add(at, "key", "k")
			g.restricted(g.add(at, "leaf", "k"))
		case "rpc-output":
			at = g.add(g.add(user.Body, "rpc", name), "output", "")
		case "rpc-input":
			at = g.add(g.add(user.Body, "rpc", name), "input", "")
		case "notification":
			at = g.add(user.Body, "notification", name)
		}
		s.declare(at, 0.5, false)
		t := pickTarget()
		u := g.add(at, "uses", ps[2]+":"+t.Arg)
		u.Uses = t
	}
	// the body of an augment of the using module into lib's tree
	extra := map[*Module][]*Node{}
	var aug *Node
	if g.chance(0.45) {
		info.Augment = true
		info.SiteKinds = append(info.SiteKinds, "augment-body")
		aug = &Node{Kw: "augment", Arg: "/" + ps[2] + ":t0"}
		g.parent[aug] = user.Body
		t := pickTarget()
		at := aug
		if g.chance(0.4) {
			at = g.add(aug, "container", "ac")
			s.declare(at, 0.5, false)
		}
		u := g.add(at, "uses", ps[2]+":"+t.Arg)
		u.Uses = t
		extra[user] = []*Node{aug}
	}
	c := &C06Case{}
	g.pos = map[*Node]string{}
	c.Names, c.Texts = g.render(extra)
	g.collect(c)
	if aug != nil {
		// what the augment adds hangs below /lib/t0 and belongs to the using module
		var walk func(n *Node)
		walk = func(n *Node) {
			for _, k := range n.Kids {
				if k.Kw == "uses" {
					d, site := g.resolve(n, "grouping", k.Arg)
					ref := C06UseRef{Loc: g.pos[k], Ref: k.Arg, Site: site}
					if d != nil {
						ref.GLoc = g.pos[d]
					}
					c.Uses = append(c.Uses, ref)
				}
				walk(k)
			}
		}
		walk(aug)
		base := []c06Step{{Name: "t0"}}
		v := &c06Visit{
			node: func(mod *Module, steps []c06Step, n *Node, via []*Node, pend []*Node) {
				c.Expect = append(c.Expect, g.rec(mod, steps, n, pend))
				if len(steps) == len(base)+1 {
					c.AugNodes = append(c.AugNodes, C06AugNode{Module: "lib", Path: stepsPath(steps, true), NS: user.Namespace, IM: "user"})
				}
			},
			site: func(mod *Module, steps []c06Step, u, grp *Node, nested bool) {
				c.Sites = append(c.Sites, C06Site{Module: "lib", Path: stepsPath(steps, true), GLoc: g.pos[grp], GName: grp.Arg,
					Names: contributed(grp, 0), Nested: nested})
			},
		}
		g.expand(v, lib, aug, base, "container", nil, nil, 0)
		sortRecs(c.Expect)
	} else if g.chance(0.6) {
		g.mutate(c)
	}
	g.late(c)
	return c, info
}

func sortRecs(rs []C06Rec) {
	for i := 1; i < len(rs); i++ {
		for j := i; j > 0 && rs[j].Path < rs[j-1].Path; j-- {
			rs[j], rs[j-1] = rs[j-1], rs[j]
		}
	}
}

// ---- prefix pools -------------------------------------------------------------------------

var c06PoolPrefixes = []string{"if", "oc-if", "if-ext", "i", "iff", "oc", "ext", "f", "if-if"}
var c06PoolGroupings = []string{"top", "if", "oc-if", "if-top", "oc-top", "i", "ext", "oc", "f", "-top"}

func validIdent(s string) bool {
	if s == "" {
		return false
	}
	for i, ch := range s {
		switch {
		case ch >= 'a' && ch <= 'z', ch >= 'A' && ch <= 'Z', ch == '_':
		case (ch >= '0' && ch <= '9' || ch == '-' || ch == '.') && i > 0:
		default:
			return false
		}
	}
	return true
}

// related derives prefixes that contain, end with, start with or are a part of own.
func relatedPrefixes(own string) []string {
	out := []string{"oc-" + own, own + "-ext", own + own[len(own)-1:], "x" + own, own + "-" + own, "x-oc-" + own}
	if len(own) > 1 {
		out = append(out, own[:1], own[:len(own)-1])
	}
	if i := strings.LastIndexByte(own, '-'); i > 0 {
		out = append(out, own[i+1:], own[:i])
	}
	return out
}

// splices lists what is left of the reference pfx:name when the file's own prefix is cut out of
// it somewhere (with or without the colon), or when the prefix is dropped.
func splices(own, ref string) []string {
	seen := map[string]bool{}
	var out []string
	put := func(s string) {
		if !seen[s] && s != ref && !strings.Contains(s, ":") && validIdent(s) {
			seen[s] = true
			out = append(out, s)
		}
	}
	for _, cut := range []string{own + ":", own, own + "-"} {
		for from := 0; from < len(ref); {
			i := strings.Index(ref[from:], cut)
			if i < 0 {
				break
			}
			i += from
			put(ref[:i] + ref[i+len(cut):])
			put(ref[i+len(cut):])
			from = i + 1
		}
	}
	if i := strings.IndexByte(ref, ':'); i >= 0 {
		put(ref[i+1:])
		put(ref[:i] + ref[i+1:])
		put(ref[:i] + "-" + ref[i+1:])
		put(strings.TrimPrefix(ref[:i], own) + ref[i+1:])
		put(strings.TrimSuffix(ref[:i], own) + ref[i+1:])
	}
	return out
}

// C06ScopePrefixes builds one case of the prefix-pool family.
func C06ScopePrefixes(r *rand.Rand, idx int) (*C06Case, C06ScopeInfo) {
	info := C06ScopeInfo{Family: "prefix-pools"}
	g := newC06(r)
	own := func() string { return g.pick(c06PoolPrefixes) }
	user := g.newModule("user", c06PoolPrefixes[idx%len(c06PoolPrefixes)])
	liba := g.newModule("liba", own())
	g.set.Mods = []*Module{user, liba}
	var libb *Module
	if g.chance(0.65) {
		libb = g.newModule("libb", own())
		g.set.Mods = append(g.set.Mods, libb)
	}
	var sub *Module
	if g.chance(0.35) {
		p := user.Prefix
		if g.chance(0.6) {
			p = own()
		}
		sub = g.newSubmodule(user, "user-s1", p)
		g.set.Mods = append(g.set.Mods, sub)
		info.Submodule = true
	}
	imp := func(f, o *Module) {
		taken := map[string]bool{f.Prefix: true}
		for _, p := range f.ImportPrefix {
			taken[p] = true
		}
		cands := relatedPrefixes(f.Prefix)
		if g.chance(0.25) {
			cands = c06PoolPrefixes
		}
		for try := 0; try < 20; try++ {
			p := g.pick(cands)
			if !taken[p] && validIdent(p) {
				f.Imports = append(f.Imports, o)
				f.ImportPrefix[o] = p
				return
			}
		}
		f.Imports = append(f.Imports, o)
		f.ImportPrefix[o] = "z" + o.Name
	}
	imp(user, liba)
	if libb != nil {
		if g.chance(0.8) {
			imp(user, libb)
		}
		if g.chance(0.7) {
			imp(liba, libb)
		}
	}
	if sub != nil {
		imp(sub, liba)
		if libb != nil && g.chance(0.6) {
			imp(sub, libb)
		}
	}
	// groupings: libb first, then liba, then the user's files (nested uses point to complete groupings)
	order := []*Module{liba, user}
	if libb != nil {
		order = []*Module{libb, liba, user}
	}
	if sub != nil {
		order = append(order, sub)
	}
	isPrefixName := func(f *Module, name string) bool {
		ps := []string{f.Prefix}
		for _, p := range f.ImportPrefix {
			ps = append(ps, p)
		}
		for _, p := range ps {
			if name == p || strings.Contains(name, p) {
				return true
			}
		}
		return false
	}
	count := func(f *Module, ref string) {
		i := strings.IndexByte(ref, ':')
		name := ref[i+1:]
		if isPrefixName(f, name) {
			info.NameIsPrefix++
		}
		switch {
		case i < 0:
			info.PlainUses++
		case ref[:i] == f.Prefix:
			info.OwnPrefixUses++
		default:
			info.PrefixedUses++
			q := ref[:i]
			if strings.Contains(q, f.Prefix) {
				info.SubstringUses++
			}
			if strings.HasSuffix(q, f.Prefix) {
				info.SuffixUses++
			}
			if strings.HasPrefix(q, f.Prefix) || strings.HasPrefix(f.Prefix, q) {
				info.PrefixOfUses++
			}
		}
	}
	// refsFrom lists references that bind to a complete grouping when written at the top of file f
	refsFrom := func(f *Module) []string {
		var out []string
		for _, n := range c06PoolGroupings {
			for _, ref := range []string{n, f.Prefix + ":" + n} {
				if d, _ := g.resolve(f.Body, "grouping", ref); d != nil && g.done[d] {
					out = append(out, ref)
				}
			}
			for _, o := range f.Imports {
				ref := f.ImportPrefix[o] + ":" + n
				if d, _ := g.resolve(f.Body, "grouping", ref); d != nil && g.done[d] {
					// prefixed references three times as likely
					out = append(out, ref, ref, ref)
				}
			}
		}
		return out
	}
	decoys := func(f *Module, ref string) {
		if !strings.Contains(ref, ":") {
			return
		}
		for _, sp := range splices(f.Prefix, ref) {
			if d, _ := c06Top(f, "grouping", sp); d != nil || !g.chance(0.8) {
				continue
			}
			g.seq++
			d := g.add(f.Body, "grouping", sp)
			g.add(g.add(d, "leaf", fmt.Sprintf("decoy%d", g.seq)), "type", "boolean")
			g.done[d] = true
			info.Decoys++
		}
	}
	for _, f := range order {
		names := append([]string{}, c06PoolGroupings...)
		r.Shuffle(len(names), func(i, j int) { names[i], names[j] = names[j], names[i] })
		for _, n := range names[:2+r.Intn(3)] {
			if !validIdent(n) {
				continue
			}
			if d, _ := c06Top(f, "grouping", n); d != nil {
				continue
			}
			// refs are computed before the grouping exists: no self reference
			refs := refsFrom(f)
			gr := g.add(f.Body, "grouping", n)
			g.seq++
			g.add(g.add(gr, "leaf", fmt.Sprintf("l%d", g.seq)), "type", g.pick(c06Builtins))
			if len(refs) > 0 && g.chance(0.5) {
				ref := g.pick(refs)
				at := gr
				if g.chance(0.4) {
					g.seq++
					at = g.add(gr, "container", fmt.Sprintf("w%d", g.seq))
				}
				d, _ := g.resolve(at, "grouping", ref)
				u := g.add(at, "uses", ref)
				u.Uses = d
				count(f, ref)
				decoys(f, ref)
			}
			g.done[gr] = true
		}
	}
	// instantiation sites: every file uses groupings of each import and its own
	for _, f := range order {
		refs := refsFrom(f)
		if len(refs) == 0 {
			continue
		}
		n := 2 + r.Intn(3)
		if f == user || f == sub {
			n += 2
		}
		for i := 0; i < n; i++ {
			ref := g.pick(refs)
			g.seq++
			var at *Node
			name := fmt.Sprintf("u%d", g.seq)
			switch g.r.Intn(6) {
			case 0:
				at = g.add(g.add(f.Body, "rpc", name), "output", "")
			case 1:
				at = g.add(g.add(f.Body, "container", name), "container", "in")
			default:
				at = g.add(f.Body, "container", name)
			}
			d, _ := g.resolve(at, "grouping", ref)
			if d == nil {
				continue
			}
			u := g.add(at, "uses", ref)
			u.Uses = d
			count(f, ref)
			decoys(f, ref)
		}
	}
	// the decoys may have changed what an unprefixed reference binds to only if they were declared
	// where one was already declared: c06Top excluded that; bind again all the same
	var rebind func(n *Node)
	rebind = func(n *Node) {
		for _, k := range n.Kids {
			if k.Kw == "uses" {
				k.Uses, _ = g.resolve(n, "grouping", k.Arg)
			}
			rebind(k)
		}
	}
	for _, m := range g.set.Mods {
		rebind(m.Body)
	}
	c := &C06Case{}
	c.Names, c.Texts = g.render(nil)
	g.collect(c)
	g.late(c)
	return c, info
}
