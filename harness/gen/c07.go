// c07.go: augment-heavy module sets for property C07 ("augments are applied exactly once,
// order-independently, or reported") together with *generator knowledge*: what each augment
// statement is expected to do, computed by a small reference graft that is independent of the
// order in which anything is written (least fixpoint of "apply every augment whose target exists").
// Add-only: nothing here changes Generate.
package gen

import (
	"fmt"
	"math/rand"
	"sort"
	"strings"
)

// Shapes of GenerateC07. C07Mixed draws several of the others at random.
const (
	C07Mixed        = iota
	C07ChainWorst   // chain of depth 3-5 across modules and submodules, declared in the worst order
	C07ChainRandom  // chain with random writers and random written order
	C07UsesTarget   // target produced by a uses (own / imported grouping, two instances, one augmented)
	C07ChoiceCase   // target is a choice, an explicit case, a container inside a case
	C07RPC          // rpc/action input/output (written and implicit), notifications
	C07Collision    // conflicting augments
	C07NonContainer // leaf, leaf-list, anyxml, anydata targets, rpc and action nodes themselves
	C07Missing      // missing targets, unknown prefix, broken chain
	C07BodyError    // uses of an unknown grouping inside the augment body
	C07Submodule    // targets in submodule trees, augments written inside submodules
	C07BodyVariety  // bodies with uses, containers, lists, choices, cases, leaf-lists, anydata
	C07ImplicitCase // outside the claim: target is (or lies below) a shorthand choice member
	C07SubNoPrefix  // augment inside a submodule whose first step carries no prefix
	C07ActionNoIO   // action without input/output statement, augment of its implicit input/output
	C07EmptyDir     // childless containers inside a grouping used at 2-3 places, augmented at some instances only
	C07SharedUses   // collision family: the clashing children of two or three augments come from uses of ONE grouping
	C07MultiRev     // a module (or a submodule) loaded in two or three revisions; the older revisions carry augments of their own
	C07DevGone      // an augment that collides or has a faulty body, and a deviate not-supported that removes its target afterwards
	C07PrefixClash  // a module and its submodules bind one prefix to different modules and augment the same path string
	C07IONames      // ordinary data nodes that are called input or output (the step names Find treats specially below an rpc)
	C07NumShapes    // number of shapes
)

// C07ShapeNames names the shapes (Distribution keys).
var C07ShapeNames = [...]string{"mixed", "chain-worst", "chain-random", "uses-target", "choice-case", "rpc-notif", "collision",
	"non-container", "missing", "body-error", "submodule", "body-variety", "implicit-case(outside-claim)", "sub-noprefix", "action-no-io", "childless-grouping-node", "collision-shared-grouping", "multi-revision", "error-then-not-supported", "per-file-prefix", "nodes-named-input-output"}

// Expectations for one augment statement.
const (
	C07Apply      = "apply"
	C07MissingT   = "missing"     // target does not exist
	C07NoChildren = "no-children" // target is a leaf, leaf-list, anyxml or anydata
	C07Collide    = "collision"   // a child name exists already (in the target or by another augment)
	C07BodyErr    = "body-error"  // target exists but the body has an error (uses of an unknown grouping)
	C07Unknown    = "unknown"     // generator knowledge is not certain
)

// C07Node is one node of the expected forest.
type C07Node struct {
	Mod   string `json:"m"`
	Path  string `json:"p"`             // Entry.Path()
	NS    string `json:"ns"`            // expected namespace
	AnyNS bool   `json:"any,omitempty"` // library-made implicit case directly above a grafted node: namespace not judged
	// Opt: the node may be present or absent, neither is judged (nodes of a shared submodule in an
	// older revision of a module: known finding D63; c07revsub.go).
	Opt bool `json:"opt,omitempty"`
}

// C07Aug is what the generator knows about one augment statement.
type C07Aug struct {
	ID           int      `json:"id"`
	File         string   `json:"file"`
	Line         int      `json:"line"` // line of the statement in the base layout
	Module       string   `json:"module"`
	Owner        string   `json:"owner"` // the module whose namespace the augment carries
	NS           string   `json:"ns"`
	TargetModule string   `json:"tmod"`
	TargetArg    string   `json:"arg"`
	TargetPath   string   `json:"tpath,omitempty"` // expected final Entry.Path() of the target ("" when it never exists)
	Defines      []string `json:"defines"`         // names the body defines after expanding uses
	// Nodes: expected final position of every node of Defines (only when Expect == apply).
	Nodes        []C07Node `json:"nodes,omitempty"`
	UniqueNames  bool      `json:"unique,omitempty"` // every name of Defines occurs nowhere else in the set
	Expect       string    `json:"expect"`
	Shape        string    `json:"shape"`
	Origin       string    `json:"origin,omitempty"` // why the target exists: base | augment | uses | submodule | implicit-io
	DependsOn    []int     `json:"deps,omitempty"`
	OutsideClaim bool      `json:"outside,omitempty"`
	SubNoPrefix  bool      `json:"subnoprefix,omitempty"`
	ActionNoIO   bool      `json:"actionnoio,omitempty"`
	// Childless: the target is an instance of a childless container of a grouping that is used at several places.
	Childless bool `json:"childless,omitempty"`
	// SharedUses: one of two or three augments of one target whose clashing children all come from
	// uses of the same grouping (the same statement nodes reach the target twice).
	SharedUses bool `json:"shareduses,omitempty"`
	// OldRevision: the statement is written in a revision of a module or submodule that is not the latest loaded one.
	OldRevision bool `json:"oldrev,omitempty"`
	// DevRemoved: a deviation with deviate not-supported removes the target (or an ancestor of it)
	// after the augment stage; what went wrong while merging must be reported all the same.
	DevRemoved bool `json:"devremoved,omitempty"`
	// PrefixClash: the statement's path string is also written in another file of the same module
	// (owner or sibling submodule) where the same prefix is bound to a different module.
	PrefixClash bool `json:"prefixclash,omitempty"`
	// IOName: "target" when the target is an ordinary data node (not the input/output of an rpc or
	// action) that is called input or output, "through" when the path passes through such a node.
	IOName string `json:"ioname,omitempty"`
}

// C07Set is a generated set plus knowledge.
type C07Set struct {
	*Set
	Shape        string
	Shapes       []string // shapes of the operations that went into the set
	Augs         []*C07Aug
	AugBlocks    map[string][2]int // file -> first line and number of the one-line augment statements
	ExpectClean  bool              // every augment is expected to apply
	OutsideClaim bool
	IONamed      bool      // some ordinary data node of the final forest is called input or output
	Forest       []C07Node // complete expected forest of all module trees (only when ExpectClean and inside the claim)
	names, texts []string
}

// Files returns names and texts in load order (own layout: every augment on one line, all augments
// of a module in one block at the end).
func (s *C07Set) Files() (names, texts []string) { return s.names, s.texts }

// ---------------------------------------------------------------------------------------------

type c07sn struct {
	name, kw string
	kids     []*c07sn
	parent   *c07sn
	ns       string // module roots and graft roots
	aug      int    // grafting augment (graft roots), -1 otherwise
	viaUses  bool
	viaSub   bool
	implicit bool // input/output that the source does not write, or implicit case
	touched  bool // implicit input/output that a path walked through
	noTarget bool
	stmt     *Node
}

type c07aug struct {
	info    *C07Aug
	writer  *Module
	tmod    *Module
	steps   []string
	stmt    *Node
	created int
}

type c07g struct {
	r       *rand.Rand
	set     *Set
	mods    []*Module // modules and submodules
	seq     int
	augs    []*c07aug
	work    map[string]*c07sn
	byNS    map[string]*Module
	shapes  []string
	outside bool
	// childless containers inside groupings that are used at several places (statement nodes)
	empties   []*Node
	wantEmpty bool
	// revisions: modules/submodules that are loaded in several revisions. They are kept apart from
	// mods: only revOp writes augments in them or aims at their trees.
	wantRev   bool
	revs      []*Module
	revGroups [][]*Module                    // revisions of one name, oldest first
	pins      map[*Module]map[*Module]string // importer/includer -> imported revision -> pinned date
	devs      []c07dev
	// per-file prefix bindings: files of one module (owner, submodules) that bind the prefix "t" to
	// modules with identically named top-level nodes
	wantClash bool
	clash     []c07bind
	wantIO    bool
	ioTop     map[*Module]map[string]bool // top-level names input/output taken in a module's tree
	// groupings that define no data node (c07barren.go)
	barren map[*Node]bool
}

// ioName: a fresh name, or with probability p one of the names input / output (only for a node
// whose parent was just created, so that no sibling has it).
func (g *c07g) ioName(letter string, m *Module, p float64) string {
	if g.chance(p) {
		return g.pick([]string{"input", "output"})
	}
	return g.name(letter, m)
}

// c07ioNamed: an ordinary data node called input or output.
func c07ioNamed(n *c07sn) bool {
	return (n.name == "input" || n.name == "output") && n.kw != "input" && n.kw != "output"
}

type c07bind struct{ file, target *Module }

// c07dev is one deviation with deviate not-supported.
type c07dev struct {
	tmod  *Module
	steps []string
}

// c07full is the name goyang files a module under (name@latest revision statement).
func c07full(m *Module) string {
	rev := ""
	for _, r := range m.Revisions {
		if r > rev {
			rev = r
		}
	}
	if rev == "" {
		return m.Name
	}
	return m.Name + "@" + rev
}

// c07file: revisions of one module need different file names.
func c07file(m *Module) string { return c07full(m) + ".yang" }

func (g *c07g) chance(p float64) bool   { return g.r.Float64() < p }
func (g *c07g) pick(ss []string) string { return ss[g.r.Intn(len(ss))] }

func c07tag(m *Module) string { return strings.ReplaceAll(m.Name, "-", "") }

func c07owner(m *Module) *Module {
	if m.Sub {
		return m.Owner
	}
	return m
}

func (g *c07g) name(letter string, m *Module) string {
	g.seq++
	return fmt.Sprintf("%s%s%d", letter, c07tag(m), g.seq)
}

func (g *c07g) leaf(p *Node, name string) *Node {
	l := p.add("leaf", name)
	l.add("type", g.pick(leafTypes))
	return l
}

// GenerateC07 builds one set of the given shape.
func GenerateC07(r *rand.Rand, shape int) *C07Set {
	g := &c07g{r: r, set: &Set{}, byNS: map[string]*Module{}}
	g.wantEmpty = shape == C07EmptyDir || (shape == C07Mixed && g.chance(0.35))
	g.wantRev = shape == C07MultiRev || (shape == C07Mixed && g.chance(0.15))
	g.wantClash = shape == C07PrefixClash || (shape == C07Mixed && g.chance(0.08))
	g.wantIO = shape == C07IONames || (shape == C07Mixed && g.chance(0.15))
	g.modules(shape)
	if g.wantRev {
		g.revisions(shape)
	}
	g.groupings()
	g.bases(shape)
	g.work = g.forest()
	order := r.Intn(3) // 0 worst (dependents first), 1 as created, 2 random
	switch shape {
	case C07Mixed:
		n := 1 + r.Intn(4)
		for i := 0; i < n; i++ {
			g.op(g.cleanOp())
		}
		if g.chance(0.45) {
			k := 1 + r.Intn(2)
			for i := 0; i < k; i++ {
				g.op([]int{C07Collision, C07NonContainer, C07Missing, C07BodyError, C07Collision, C07Missing}[r.Intn(6)])
			}
		}
		if g.wantEmpty {
			g.op(C07EmptyDir)
		}
		if g.chance(0.12) {
			g.op(C07SharedUses)
		}
		if g.wantRev {
			g.op(C07MultiRev)
		}
		if g.wantClash {
			g.op(C07PrefixClash)
		}
		if g.wantIO {
			g.op(C07IONames)
		}
		if g.chance(0.08) {
			g.op(C07DevGone)
		}
		if g.chance(0.03) {
			g.op(C07ImplicitCase)
		}
		if g.chance(0.1) {
			g.op(C07SubNoPrefix)
		}
		if g.chance(0.05) {
			g.op(C07ActionNoIO)
		}
	case C07ChainWorst:
		order = 0
		g.op(shape)
	case C07EmptyDir, C07MultiRev, C07PrefixClash, C07IONames:
		n := 1 + r.Intn(2)
		if shape == C07MultiRev || shape == C07IONames {
			n++
		}
		for i := 0; i < n; i++ {
			g.op(shape)
		}
		if g.chance(0.4) {
			g.op(g.cleanOp())
		}
	default:
		g.op(shape)
		if g.chance(0.4) {
			g.op(g.cleanOp())
		}
	}
	return g.finish(shape, order)
}

func (g *c07g) cleanOp() int {
	return []int{C07ChainWorst, C07ChainRandom, C07UsesTarget, C07ChoiceCase, C07RPC, C07Submodule, C07BodyVariety,
		C07ChainRandom, C07BodyVariety}[g.r.Intn(9)]
}

func (g *c07g) modules(shape int) {
	r := g.r
	nm := 2 + r.Intn(2)
	switch {
	case shape == C07ChainWorst || shape == C07ChainRandom:
		nm = 2 + r.Intn(3)
	case g.chance(0.1) && shape != C07EmptyDir && !g.wantRev:
		nm = 1
	}
	names := []string{"a", "b", "c", "d"}
	if g.wantClash {
		// the modules that the files of module a import under one and the same prefix
		if shape == C07PrefixClash {
			nm = 1 + r.Intn(2)
		}
		names = append(append([]string{}, names[:nm]...), "alpha", "beta")
		if g.chance(0.4) {
			names = append(names, "gamma")
		}
		nm = len(names)
	}
	for i := 0; i < nm; i++ {
		m := &Module{Name: names[i], Prefix: "p" + names[i], Namespace: "urn:" + names[i], ImportPrefix: map[*Module]string{}}
		m.Body = &Node{Kw: "module", Arg: m.Name}
		g.set.Mods = append(g.set.Mods, m)
		g.byNS[m.Namespace] = m
	}
	for _, m := range g.set.Mods {
		for _, o := range g.set.Mods {
			if o != m {
				m.Imports = append(m.Imports, o)
				p := o.Prefix
				if g.chance(0.15) {
					p = "q" + o.Name
				}
				m.ImportPrefix[o] = p
			}
		}
	}
	psub := 0.35
	switch shape {
	case C07Submodule, C07SubNoPrefix:
		psub = 1
	case C07ChainWorst, C07ChainRandom:
		psub = 0.5
	}
	var subs []*Module
	first := true
	for _, m := range g.set.Mods {
		p := psub
		if psub == 1 && !first {
			p = 0.3
		}
		if g.wantClash {
			p = 0.15
			if m.Name == "a" {
				p = 1
			}
		}
		if !g.chance(p) {
			continue
		}
		first = false
		ns := 1 + r.Intn(2)
		for i := 0; i < ns; i++ {
			s := &Module{Name: fmt.Sprintf("%s-s%d", m.Name, i+1), Prefix: m.Prefix, Namespace: m.Namespace, Sub: true, Owner: m,
				ImportPrefix: map[*Module]string{}}
			s.Body = &Node{Kw: "submodule", Arg: s.Name}
			for _, o := range m.Imports {
				s.Imports = append(s.Imports, o)
				s.ImportPrefix[o] = m.ImportPrefix[o]
			}
			m.Includes = append(m.Includes, s)
			subs = append(subs, s)
		}
		if len(m.Includes) == 2 && g.chance(0.25) {
			m.Includes[0].Includes = append(m.Includes[0].Includes, m.Includes[1])
		}
	}
	if g.wantClash {
		g.bindPrefixes()
	}
	g.set.Mods = append(g.set.Mods, subs...)
	g.mods = append([]*Module{}, g.set.Mods...)
	// load order of the base set: random
	r.Shuffle(len(g.set.Mods), func(i, j int) { g.set.Mods[i], g.set.Mods[j] = g.set.Mods[j], g.set.Mods[i] })
}

func (g *c07g) groupings() {
	for _, m := range g.mods {
		ng := g.r.Intn(3)
		for i := 0; i < ng; i++ {
			gr := &Node{Kw: "grouping", Arg: g.name("g", m)}
			c := gr.add("container", g.name("c", m))
			g.leaf(c, g.name("f", m))
			if g.chance(0.4) {
				l := c.add("list", g.name("l", m))
				l.add("key", "k")
				l.add("leaf", "k").add("type", "string")
				g.leaf(l.add("container", g.name("c", m)), g.name("f", m))
			}
			if g.chance(0.5) {
				g.leaf(gr, g.name("f", m))
			}
			if g.chance(0.3) {
				ch := gr.add("choice", g.name("h", m))
				cs := ch.add("case", g.name("s", m))
				g.leaf(cs.add("container", g.name("c", m)), g.name("f", m))
				g.leaf(ch, g.name("f", m))
			}
			if len(m.Groupings) > 0 && g.chance(0.3) {
				u := c.add("uses", m.Groupings[0].Arg)
				u.Uses = m.Groupings[0]
			}
			m.Groupings = append(m.Groupings, gr)
			m.Body.Kids = append(m.Body.Kids, gr)
		}
	}
}

// visible lists (reference text, grouping) usable from m (same rule as schema.go).
func (g *c07g) visible(m *Module) (refs []string, grs []*Node) {
	if m.Sub && len(m.Revisions) > 0 {
		// a submodule revision that its module does not include has unlinked imports: a uses of an
		// imported module's grouping is an "unknown group" error there (reported; not C07's subject)
		return
	}
	for _, gr := range m.Groupings {
		refs, grs = append(refs, gr.Arg), append(grs, gr)
		if g.chance(0.3) {
			refs[len(refs)-1] = m.Prefix + ":" + gr.Arg
		}
	}
	for _, s := range m.Includes {
		for _, gr := range s.Groupings {
			refs, grs = append(refs, gr.Arg), append(grs, gr)
		}
	}
	for _, o := range m.Imports {
		for _, gr := range o.Groupings {
			refs, grs = append(refs, m.ImportPrefix[o]+":"+gr.Arg), append(grs, gr)
		}
	}
	return
}

func (g *c07g) rpcBody(m *Module, r *Node, variant int) {
	// 0 none, 1 input only, 2 output only, 3 both
	if variant&1 != 0 {
		in := r.add("input", "")
		g.leaf(in, g.name("f", m))
		if g.chance(0.5) {
			g.leaf(in.add("container", g.name("c", m)), g.name("f", m))
		}
	}
	if variant&2 != 0 {
		out := r.add("output", "")
		g.leaf(out.add("container", g.name("c", m)), g.name("f", m))
	}
}

// feature adds one top-level construct to m's body.
func (g *c07g) feature(m *Module, f int) {
	b := m.Body
	switch f {
	case 0: // container tree
		c := b.add("container", g.name("c", m))
		g.leaf(c, g.name("f", m))
		c2 := c.add("container", g.ioName("c", m, 0.06))
		g.leaf(c2, g.name("f", m))
		if g.chance(0.5) {
			l := c.add("list", g.name("l", m))
			l.add("key", "k")
			l.add("leaf", "k").add("type", "string")
			g.leaf(l, g.name("f", m))
		}
	case 1: // list
		l := b.add("list", g.name("l", m))
		l.add("key", "k")
		l.add("leaf", "k").add("type", "string")
		g.leaf(l.add("container", g.ioName("c", m, 0.06)), g.name("f", m))
	case 2: // choice (top level or inside a container)
		p := b
		if g.chance(0.5) {
			p = b.add("container", g.name("c", m))
		}
		ch := p.add("choice", g.name("h", m))
		cs := ch.add("case", g.ioName("s", m, 0.04))
		g.leaf(cs.add("container", g.ioName("c", m, 0.06)), g.name("f", m))
		g.leaf(cs, g.name("f", m))
		if g.chance(0.7) {
			g.leaf(ch.add("container", g.name("c", m)), g.name("f", m))
		}
		if g.chance(0.5) {
			g.leaf(ch, g.name("f", m))
		}
	case 3: // rpc
		g.rpcBody(m, b.add("rpc", g.name("r", m)), g.r.Intn(4))
	case 4: // action in a container
		c := b.add("container", g.name("c", m))
		g.leaf(c, g.name("f", m))
		g.rpcBody(m, c.add("action", g.name("t", m)), g.r.Intn(4))
	case 5: // notification
		n := b.add("notification", g.name("n", m))
		g.leaf(n.add("container", g.name("c", m)), g.name("f", m))
		g.leaf(n, g.name("f", m))
	case 6: // nodes that cannot have children
		c := b.add("container", g.name("c", m))
		g.leaf(c, g.name("f", m))
		c.add("leaf-list", g.name("e", m)).add("type", "string")
		c.add("anyxml", g.name("x", m))
		c.add("anydata", g.name("d", m))
		if g.chance(0.5) {
			g.leaf(b, g.name("f", m))
		}
	case 7: // two uses of one grouping
		refs, grs := g.visible(m)
		if len(grs) == 0 {
			g.feature(m, 0)
			return
		}
		i := g.r.Intn(len(grs))
		for k := 0; k < 2; k++ {
			c := b.add("container", g.name("c", m))
			u := c.add("uses", refs[i])
			u.Uses = grs[i]
			if k == 0 && g.chance(0.4) {
				break
			}
		}
	case 8: // action without input and output
		c := b.add("container", g.name("c", m))
		g.leaf(c, g.name("f", m))
		c.add("action", g.name("t", m))
	}
}

func (g *c07g) bases(shape int) {
	var need []int
	switch shape {
	case C07UsesTarget:
		need = []int{7, 7}
	case C07ChoiceCase, C07ImplicitCase:
		need = []int{2, 2}
	case C07RPC:
		need = []int{3, 3, 4, 5}
	case C07NonContainer:
		need = []int{6, 3, 4}
	case C07ActionNoIO:
		need = []int{8}
	case C07Mixed:
		need = []int{0, 2, 3, 6, 7}
	default:
		need = []int{0}
	}
	for _, f := range need {
		g.feature(g.mods[g.r.Intn(len(g.mods))], f)
	}
	if g.wantEmpty {
		g.emptyBase()
	}
	if g.wantIO {
		n := 1
		if shape == C07IONames {
			n = 2 + g.r.Intn(2)
		}
		for i := 0; i < n; i++ {
			g.ioBase(g.mods[g.r.Intn(len(g.mods))])
		}
	}
	for i, t := range g.clashTargets() {
		// identically named nodes in every one of them, so that one path string exists in each
		top := t.Body.add("container", "top")
		g.leaf(top, "own")
		g.leaf(top.add("container", "in"), "x")
		if i == 0 {
			g.leaf(top.add("container", "only"), "y") // only the first one has /top/only
		}
	}
	for _, m := range g.mods {
		n := 1 + g.r.Intn(2)
		for i := 0; i < n; i++ {
			g.feature(m, g.r.Intn(8))
		}
	}
}

// revisions adds modules that are loaded in several revisions at once: module "ext" in two or three
// revisions (every other module imports one of them: the latest by a plain import, or a pinned one
// with revision-date), and/or a submodule "<m>-r" of a regular module in two revisions (the module
// includes one of them; the other one is loaded all the same). What was verified on the real code and
// is relied upon: a path with the own prefix or without prefix written in a revision leads into that
// revision's own tree; a path with the prefix of an import leads into the revision that import
// resolves to; the augments of every loaded revision of a module or submodule are applied (for a
// submodule revision also when its module includes another revision), the nodes of a submodule
// revision reach the module's tree only when it is the included one.
func (g *c07g) revisions(shape int) {
	g.pins = map[*Module]map[*Module]string{}
	pin := func(m, o *Module, date string) {
		if g.pins[m] == nil {
			g.pins[m] = map[*Module]string{}
		}
		g.pins[m][o] = date
	}
	var regular []*Module
	for _, m := range g.mods {
		if !m.Sub {
			regular = append(regular, m)
		}
	}
	dates := []string{"2019-06-01", "2020-01-01", "2021-01-01"}
	kind := g.r.Intn(10) // 0-5 module, 6-7 submodule, 8-9 both
	if kind < 6 || kind >= 8 {
		n := 2
		if g.chance(0.25) {
			n = 3
		}
		var grp []*Module
		for i := 0; i < n; i++ {
			d := dates[len(dates)-n+i]
			e := &Module{Name: "ext", Prefix: "pext", Namespace: "urn:ext", ImportPrefix: map[*Module]string{}, Revisions: []string{d}}
			if i > 0 && g.chance(0.5) {
				e.Revisions = append(e.Revisions, dates[len(dates)-n+i-1]) // a newer file may list the older dates too
			}
			e.Body = &Node{Kw: "module", Arg: "ext"}
			for _, o := range regular {
				e.Imports = append(e.Imports, o)
				e.ImportPrefix[o] = o.Prefix
			}
			// every revision has the container extown (same name, a tree of its own each) and something of its own
			own := e.Body.add("container", "extown")
			g.leaf(own, "extleaf")
			g.leaf(own.add("container", g.name("c", e)), g.name("f", e))
			grp = append(grp, e)
		}
		// importers: the latest by a plain import, or one pinned revision
		pinnedOld := false
		for k, m := range regular {
			r := grp[len(grp)-1]
			date := ""
			if g.chance(0.4) || (!pinnedOld && k == len(regular)-1) {
				r = grp[g.r.Intn(len(grp))]
				if k == len(regular)-1 && !pinnedOld {
					r = grp[g.r.Intn(len(grp)-1)]
				}
				date = r.Revisions[0]
				if r != grp[len(grp)-1] {
					pinnedOld = true
				}
			}
			pfx := "pext"
			if g.chance(0.15) {
				pfx = "qext"
			}
			for _, im := range g.mods {
				if c07owner(im) == m {
					im.Imports = append(im.Imports, r)
					im.ImportPrefix[r] = pfx
					if date != "" {
						pin(im, r, date)
					}
				}
			}
		}
		g.revGroups = append(g.revGroups, grp)
		g.revs = append(g.revs, grp...)
	}
	if kind >= 6 {
		m := regular[g.r.Intn(len(regular))]
		var grp []*Module
		for i := 0; i < 2; i++ {
			d := dates[1+i]
			sm := &Module{Name: m.Name + "-r", Prefix: m.Prefix, Namespace: m.Namespace, Sub: true, Owner: m, ImportPrefix: map[*Module]string{},
				Revisions: []string{d}}
			sm.Body = &Node{Kw: "submodule", Arg: sm.Name}
			for _, o := range m.Imports {
				sm.Imports = append(sm.Imports, o)
				sm.ImportPrefix[o] = m.ImportPrefix[o]
				if dt := g.pins[m][o]; dt != "" {
					pin(sm, o, dt)
				}
			}
			g.leaf(sm.Body.add("container", g.name("c", sm)), g.name("f", sm))
			grp = append(grp, sm)
		}
		inc := grp[1]
		if g.chance(0.5) {
			inc = grp[g.r.Intn(2)]
			pin(m, inc, inc.Revisions[0])
		}
		m.Includes = append(m.Includes, inc)
		g.revGroups = append(g.revGroups, grp)
		g.revs = append(g.revs, grp...)
	}
	g.set.Mods = append(g.set.Mods, g.revs...)
	g.r.Shuffle(len(g.set.Mods), func(i, j int) { g.set.Mods[i], g.set.Mods[j] = g.set.Mods[j], g.set.Mods[i] })
}

// candsIn lists the augmentable nodes of one module tree of the working forest.
func (g *c07g) candsIn(m *Module) []c07cand {
	var out []c07cand
	root := g.work[c07full(m)]
	if root == nil {
		return nil
	}
	for _, k := range root.kids {
		k.walk(func(n *c07sn) {
			if n.flagged(func(x *c07sn) bool { return x.noTarget }) || n.shorthandOnPath() || !c07augmentable(n) {
				return
			}
			out = append(out, c07cand{m, n})
		})
	}
	return out
}

// revOp: augments written in the revisions of one name, the older ones above all.
func (g *c07g) revOp() {
	name := C07ShapeNames[C07MultiRev]
	if len(g.revGroups) == 0 {
		return
	}
	grp := g.revGroups[g.r.Intn(len(g.revGroups))]
	old := grp[g.r.Intn(len(grp)-1)]
	latest := grp[len(grp)-1]
	sub := old.Sub
	// targets in the trees of the regular modules; for a submodule revision not the nodes that come from submodules
	target := func() (c07cand, bool) {
		return g.anyTarget(func(n *c07sn) bool {
			return !(sub && n.flagged(func(x *c07sn) bool { return x.viaSub }))
		})
	}
	mode := func() int { return g.r.Intn(2) } // the first step always carries a prefix
	noTarget := func(c c07cand, a *c07aug) {
		c.n.walk(func(x *c07sn) {
			if x.aug == a.info.ID {
				x.noTarget = true
			}
		})
	}
	k := g.r.Intn(15)
	switch {
	case k == 14 && !sub: // (h) a regular module with a plain import aims at a node that only an older revision has: missing
		var own *c07sn
		for _, x := range g.work[c07full(old)].kids {
			if x.name != "extown" && x.kw == "container" {
				own = x
			}
		}
		for _, w := range g.mods {
			if own == nil || g.chance(0.5) {
				continue
			}
			for _, r := range w.Imports {
				if r == latest && g.pins[w][r] == "" {
					a := g.newAug(w, latest, own.names(), g.pathArg(w, own, 0), name)
					g.leaf(a.stmt, g.augName(w))
					return
				}
			}
		}
	case k <= 1: // (a) into the tree of another module
		if c, ok := target(); ok {
			g.augOn(old, c, name, mode(), g.body(old, false))
		}
	case k <= 3 && !sub: // (b) into its own tree, own prefix or none; sometimes the latest does the same in its tree
		if cs := g.candsIn(old); len(cs) > 0 {
			g.augOn(old, cs[g.r.Intn(len(cs))], name, g.r.Intn(3), g.body(old, false))
		}
		if g.chance(0.5) {
			if cs := g.candsIn(latest); len(cs) > 0 {
				g.augOn(latest, cs[g.r.Intn(len(cs))], name, g.r.Intn(3), g.body(latest, false))
			}
		}
	case k == 4: // (c) a target that does not exist: reported in the old revision's file
		if c, ok := target(); ok {
			steps := append(append([]string{}, c.n.names()...), "nosuch")
			arg := g.pathArg(old, c.n, 0) + "/" + g.prefixFor(old, c.mod.Namespace) + ":nosuch"
			a := g.newAug(old, c.mod, steps, arg, name)
			g.leaf(a.stmt, g.augName(old))
		}
	case k <= 7: // (d) first link of a chain that a regular module continues (one that pins this revision if there is one)
		c, ok := target()
		if !ok {
			return
		}
		a := g.augOn(old, c, name, mode(), g.body(old, true))
		nx := g.cands(false, func(n *c07sn) bool {
			return c07augmentable(n) && n.flagged(func(x *c07sn) bool { return x.aug == a.info.ID })
		})
		if len(nx) == 0 {
			return
		}
		w := g.writer(nil)
		for _, m := range g.mods {
			if g.pins[m][old] != "" && g.chance(0.7) {
				w = m
			}
		}
		c2 := nx[g.r.Intn(len(nx))]
		g.augOn(w, c2, name, g.pathMode(w, c2), g.body(w, false))
	case k <= 9: // (e) old and latest augment one target with different child names
		if c, ok := target(); ok {
			g.augOn(old, c, name, mode(), g.body(old, false))
			g.augOn(latest, c, name, mode(), g.body(latest, false))
		}
	case k == 10: // (f) old and latest add the same child name: collision
		c, ok := g.anyTarget(func(n *c07sn) bool {
			return n.kw != "choice" && !(sub && n.flagged(func(x *c07sn) bool { return x.viaSub }))
		})
		if !ok {
			return
		}
		g.seq++
		dup := fmt.Sprintf("dup%d", g.seq)
		for _, w := range []*Module{old, latest} {
			w := w
			a := g.augOn(w, c, name, mode(), func(a *Node, t *c07sn) {
				if g.chance(0.4) {
					g.leaf(a, g.augName(w))
				}
				g.leaf(a, dup)
			})
			noTarget(c, a)
		}
	default: // (g) a regular module aims at the tree of the revision its import resolves to
		if sub {
			if c, ok := target(); ok {
				g.augOn(old, c, name, mode(), g.body(old, false))
			}
			return
		}
		w := g.writer(nil)
		for _, r := range w.Imports {
			if r.Name == old.Name {
				if cs := g.candsIn(r); len(cs) > 0 {
					g.augOn(w, cs[g.r.Intn(len(cs))], name, mode(), g.body(w, false))
				}
			}
		}
	}
}

// ioBase adds ordinary data nodes called input and output to m: at the top level (once per module
// tree), below a container, below a list, as a case and inside a case, inside a grouping that is
// used, inside the input of an rpc (path /r/input/input); real rpc / action input and output, written
// and implicit, are put beside them so that both readings of the step names occur in one set.
func (g *c07g) ioBase(m *Module) {
	b := m.Body
	if g.ioTop == nil {
		g.ioTop = map[*Module]map[string]bool{}
	}
	own := c07owner(m)
	if g.ioTop[own] == nil {
		g.ioTop[own] = map[string]bool{}
	}
	inner := func(p *Node, name string) {
		// container input { leaf; container queues; [container output] }
		c := p.add("container", name)
		g.leaf(c, g.name("f", m))
		g.leaf(c.add("container", g.name("c", m)), g.name("f", m))
		if g.chance(0.3) {
			other := "output"
			if name == "output" {
				other = "input"
			}
			g.leaf(c.add("container", other), g.name("f", m))
		}
	}
	done := 0
	for _, k := range g.r.Perm(7) {
		if done >= 2+g.r.Intn(2) {
			break
		}
		done++
		switch k {
		case 0: // top level
			nm := g.pick([]string{"input", "output"})
			if g.ioTop[own][nm] {
				done--
				continue
			}
			g.ioTop[own][nm] = true
			switch g.r.Intn(4) {
			case 0:
				l := b.add("list", nm)
				l.add("key", "k")
				l.add("leaf", "k").add("type", "string")
				g.leaf(l.add("container", g.name("c", m)), g.name("f", m))
			case 1:
				ch := b.add("choice", nm)
				cs := ch.add("case", g.pick([]string{"input", "output"}))
				g.leaf(cs, g.name("f", m))
				g.leaf(cs.add("container", g.name("c", m)), g.name("f", m))
			default:
				inner(b, nm)
			}
		case 1: // below a container: a container input and a leaf or container output
			c := b.add("container", g.name("c", m))
			inner(c, "input")
			if g.chance(0.5) {
				g.leaf(c, "output")
			} else {
				c.add("container", "output")
			}
		case 2: // below a list
			l := b.add("list", g.name("l", m))
			l.add("key", "k")
			l.add("leaf", "k").add("type", "string")
			l2 := l.add("list", g.pick([]string{"input", "output"}))
			l2.add("key", "k")
			l2.add("leaf", "k").add("type", "string")
			g.leaf(l2.add("container", g.name("c", m)), g.name("f", m))
		case 3: // a case called input, a container output inside another case
			p := b
			if g.chance(0.5) {
				p = b.add("container", g.name("c", m))
			}
			ch := p.add("choice", g.name("h", m))
			cs := ch.add("case", "input")
			g.leaf(cs, g.name("f", m))
			g.leaf(cs.add("container", g.name("c", m)), g.name("f", m))
			cs2 := ch.add("case", g.name("s", m))
			inner(cs2, "output")
		case 4: // through a grouping
			gr := &Node{Kw: "grouping", Arg: g.name("g", m)}
			inner(gr, "output")
			l := gr.add("list", "input")
			l.add("key", "k")
			l.add("leaf", "k").add("type", "string")
			m.Groupings = append(m.Groupings, gr)
			b.Kids = append(b.Kids, gr)
			for i := 0; i < 1+g.r.Intn(2); i++ {
				u := b.add("container", g.name("c", m)).add("uses", gr.Arg)
				u.Uses = gr
			}
		case 5: // inside the input / output of an rpc, beside an rpc without input and output
			r := b.add("rpc", g.name("r", m))
			inner(r.add("input", ""), "input")
			if g.chance(0.5) {
				inner(r.add("output", ""), g.pick([]string{"input", "output"}))
			}
			b.add("rpc", g.name("r", m))
		default: // an action (written or implicit input/output) beside a container input in one container
			c := b.add("container", g.name("c", m))
			g.rpcBody(m, c.add("action", g.name("t", m)), g.r.Intn(4))
			inner(c, "input")
		}
	}
}

// ioOp: augments that aim at an ordinary node called input or output, pass through one, chain below
// one, collide with one, create one; an rpc / action input or output is augmented in the same set.
func (g *c07g) ioOp() {
	name := C07ShapeNames[C07IONames]
	at := g.cands(false, func(n *c07sn) bool { return c07augmentable(n) && c07ioNamed(n) })
	below := g.cands(false, func(n *c07sn) bool {
		return c07augmentable(n) && !c07ioNamed(n) && n.flagged(c07ioNamed)
	})
	pick := func(cs []c07cand) (c07cand, bool) {
		if len(cs) == 0 {
			return c07cand{}, false
		}
		return cs[g.r.Intn(len(cs))], true
	}
	w := g.writer(nil)
	switch k := g.r.Intn(12); {
	case k <= 2: // the node itself
		if c, ok := pick(at); ok {
			g.augOn(w, c, name, g.pathMode(w, c), g.body(w, false))
		}
	case k <= 4: // through it
		if c, ok := pick(below); ok {
			g.augOn(w, c, name, g.pathMode(w, c), g.body(w, false))
		}
	case k <= 6: // a chain below it: the second link aims at what the first grafted
		c, ok := pick(append(at, below...))
		if !ok {
			return
		}
		a := g.augOn(w, c, name, g.pathMode(w, c), g.body(w, true))
		nx := g.cands(false, func(n *c07sn) bool {
			return c07augmentable(n) && n.flagged(func(x *c07sn) bool { return x.aug == a.info.ID })
		})
		if c2, ok := pick(nx); ok {
			w2 := g.writer(nil)
			g.augOn(w2, c2, name, g.pathMode(w2, c2), g.body(w2, false))
		}
	case k == 7: // a leaf called input / output as target: cannot have children
		cs := g.cands(false, func(n *c07sn) bool { return c07leafish(n.kw) && c07ioNamed(n) })
		if c, ok := pick(cs); ok {
			a := g.newAug(w, c.mod, c.n.names(), g.pathArg(w, c.n, g.r.Intn(2)), name)
			g.leaf(a.stmt, g.augName(w))
		}
	case k == 8: // a child called input where the target has an ordinary child of that name: collision
		cs := g.cands(false, func(n *c07sn) bool {
			if !c07augmentable(n) || n.kw == "choice" {
				return false
			}
			for _, x := range n.kids {
				if c07ioNamed(x) && x.aug < 0 {
					return true
				}
			}
			return false
		})
		if c, ok := pick(cs); ok {
			// (only a child that is there from the start: when the existing child is itself grafted, which
			// of the two augments loses depends on the order, and with it what a chain below finds)
			dup := ""
			for _, x := range c.n.kids {
				if c07ioNamed(x) && x.aug < 0 {
					dup = x.name
				}
			}
			a := g.augOn(w, c, name, g.pathMode(w, c), func(a *Node, t *c07sn) {
				g.leaf(a, g.augName(w))
				g.leaf(a.add("container", dup), g.augName(w))
			})
			c.n.walk(func(x *c07sn) {
				if x.aug == a.info.ID {
					x.noTarget = true
				}
			})
		}
	default: // a NEW child called input / output in an ordinary container or list; a second augment aims at it
		cs := g.cands(false, func(n *c07sn) bool {
			return (n.kw == "container" || n.kw == "list" || n.kw == "case" || n.kw == "input" || n.kw == "output") &&
				n.kid("input") == nil && n.kid("output") == nil
		})
		c, ok := pick(cs)
		if !ok {
			return
		}
		nm := g.pick([]string{"input", "output"})
		a := g.augOn(w, c, name, g.pathMode(w, c), func(a *Node, t *c07sn) {
			cc := a.add("container", nm)
			g.leaf(cc, g.augName(w))
			if g.chance(0.5) {
				g.leaf(cc.add("container", g.augName(w)), g.augName(w))
			}
		})
		nx := g.cands(false, func(n *c07sn) bool {
			return c07augmentable(n) && n.flagged(func(x *c07sn) bool { return x.aug == a.info.ID })
		})
		if c2, ok := pick(nx); ok {
			w2 := g.writer(nil)
			g.augOn(w2, c2, name, g.pathMode(w2, c2), g.body(w2, false))
		}
	}
	// and an rpc or action input / output in the same set
	if g.chance(0.5) {
		rio := g.cands(false, func(n *c07sn) bool { return n.kw == "input" || n.kw == "output" })
		if c, ok := pick(rio); ok {
			w3 := g.writer(nil)
			g.augOn(w3, c, name, g.pathMode(w3, c), g.body(w3, false))
		}
	}
}

// clashTargets: the distinct modules bound to the shared prefix, the owner's first.
func (g *c07g) clashTargets() []*Module {
	var out []*Module
	seen := map[*Module]bool{}
	for _, b := range g.clash {
		if !seen[b.target] {
			seen[b.target] = true
			out = append(out, b.target)
		}
	}
	return out
}

// bindPrefixes: import tables are per file. Module a and its submodules (or two sibling submodules)
// bind the prefix "t" to different modules among alpha, beta, gamma; a third file sometimes binds it
// to the same module as the first.
func (g *c07g) bindPrefixes() {
	var owner *Module
	var targets []*Module
	for _, m := range g.set.Mods {
		switch m.Name {
		case "a":
			owner = m
		case "alpha", "beta", "gamma":
			targets = append(targets, m)
		}
	}
	if owner == nil || len(owner.Includes) == 0 || len(targets) < 2 {
		return
	}
	files := []*Module{owner, owner.Includes[0]}
	if len(owner.Includes) == 2 {
		switch g.r.Intn(3) {
		case 0:
			files = []*Module{owner.Includes[0], owner.Includes[1]} // two sibling submodules
		case 1:
			files = append(files, owner.Includes[1])
		}
	}
	for i, f := range files {
		t := targets[i%len(targets)]
		if i == 2 && (len(targets) < 3 || g.chance(0.5)) {
			t = targets[0] // the same module as the first file: both augments meet in one target
		}
		f.ImportPrefix[t] = "t"
		g.clash = append(g.clash, c07bind{f, t})
	}
}

// clashOp: every bound file writes an augment with the SAME path string ("/t:top", "/t:top/t:in",
// "/t:top/t:only"); each one has to land in the module its own file imports under that prefix.
func (g *c07g) clashOp() {
	name := C07ShapeNames[C07PrefixClash]
	if len(g.clash) < 2 {
		return
	}
	node := func(t *Module, steps ...string) *c07sn { return c07resolve(g.work[c07full(t)], steps) }
	steps := []string{"top"}
	if g.chance(0.4) {
		steps = []string{"top", "in"}
	}
	k := g.r.Intn(10)
	if k >= 8 {
		steps = []string{"top", "only"}
	}
	g.seq++
	same := fmt.Sprintf("same%d", g.seq)
	var grafted []*c07aug
	for i, b := range g.clash {
		b := b
		n := node(b.target, steps...)
		if n == nil {
			// this file's module has no such node: to be reported for this file only
			arg := ""
			for _, st := range steps {
				arg += "/t:" + st
			}
			a := g.newAug(b.file, b.target, steps, arg, name)
			g.leaf(a.stmt, g.augName(b.file))
			a.info.PrefixClash = true
			continue
		}
		fill := g.body(b.file, k == 6 || k == 7)
		if (k == 4 || k == 5) && (i < 2 || b.target != g.clash[0].target) {
			// the same child name into different targets: no collision
			fill = func(a *Node, t *c07sn) {
				if t.kid(same) == nil {
					g.leaf(a, same)
				}
				g.leaf(a, g.augName(b.file))
			}
		}
		a := g.augOn(b.file, c07cand{b.target, n}, name, 0, fill)
		a.info.PrefixClash = true
		grafted = append(grafted, a)
	}
	if (k == 6 || k == 7) && len(grafted) > 0 {
		// a chain continues on what one of them grafted
		a := grafted[g.r.Intn(len(grafted))]
		nx := g.cands(false, func(n *c07sn) bool {
			return c07augmentable(n) && n.flagged(func(x *c07sn) bool { return x.aug == a.info.ID })
		})
		if len(nx) > 0 {
			w := g.writer(nil)
			c2 := nx[g.r.Intn(len(nx))]
			g.augOn(w, c2, name, g.pathMode(w, c2), g.body(w, false))
		}
	}
}

// devOp: an augment whose merge goes wrong (a child name the target has already, two augments with
// one child name, an unknown grouping or type in the body) and a deviation with deviate
// not-supported, written in the augmenting module, the target's module or a third one, that removes
// the target or one of its ancestors. Deviations are applied after the augments: the node that holds
// the record of what went wrong disappears, the report must not. One variant in ten is a control: a
// clean augment whose nodes vanish with the target. The path to the target has containers and lists
// only (deviation paths are looked up after implicit cases have been inserted).
func (g *c07g) devOp() {
	name := C07ShapeNames[C07DevGone]
	plain := func(n *c07sn) bool {
		for x := n; x != nil && x.parent != nil; x = x.parent {
			if x.kw != "container" && x.kw != "list" {
				return false
			}
		}
		return true
	}
	k := g.r.Intn(10)
	// (a clash with a child that is there from the start: a grafted one may have a chain below it, and
	// then the order decides which of the two colliding augments loses and what the chain finds)
	baseKids := func(n *c07sn) []string {
		var out []string
		for _, x := range n.kids {
			if x.aug < 0 {
				out = append(out, x.name)
			}
		}
		return out
	}
	c, found := g.anyTarget(func(n *c07sn) bool { return plain(n) && (k > 3 || len(baseKids(n)) > 0) })
	if !found {
		return
	}
	var regular []*Module
	for _, m := range g.mods {
		if !m.Sub {
			regular = append(regular, m)
		}
	}
	mark := func(a *c07aug) {
		c.n.walk(func(x *c07sn) {
			if x.aug == a.info.ID {
				x.noTarget = true
			}
		})
	}
	w1 := g.writer(nil)
	extra := func(a *Node, w *Module) {
		if g.chance(0.4) {
			g.leaf(a, g.augName(w))
		}
	}
	var as []*c07aug
	switch {
	case k <= 3: // a child name the target has already
		bk := baseKids(c.n)
		dup := bk[g.r.Intn(len(bk))]
		as = append(as, g.augOn(w1, c, name, g.pathMode(w1, c), func(a *Node, t *c07sn) {
			extra(a, w1)
			g.leaf(a, dup)
			extra(a, w1)
		}))
	case k <= 5: // two augments, one new child name
		g.seq++
		dup := fmt.Sprintf("dup%d", g.seq)
		for _, w := range []*Module{w1, g.writer(w1)} {
			w := w
			as = append(as, g.augOn(w, c, name, g.pathMode(w, c), func(a *Node, t *c07sn) {
				extra(a, w)
				g.leaf(a, dup)
			}))
		}
	case k <= 8: // error in the body
		as = append(as, g.augOn(w1, c, name, g.pathMode(w1, c), func(a *Node, t *c07sn) {
			extra(a, w1)
			switch g.r.Intn(4) {
			case 0:
				a.add("uses", "nosuchgrouping")
			case 1:
				cc := a.add("container", g.augName(w1))
				g.leaf(cc, g.augName(w1))
				cc.add("uses", "nosuchgrouping")
			case 2:
				a.add("leaf", g.augName(w1)).add("type", "nosuchtype")
			default:
				a.add("container", g.augName(w1)).add("leaf", g.augName(w1)).add("type", "nosuchtype")
			}
		}))
	default: // control: a clean augment, its nodes vanish with the target
		as = append(as, g.augOn(w1, c, name, g.pathMode(w1, c), g.body(w1, false)))
	}
	for _, a := range as {
		mark(a)
		a.info.DevRemoved = true
	}
	// the node that is removed: the target or an ancestor
	gone := c.n
	for gone.parent != nil && gone.parent.parent != nil && g.chance(0.4) {
		gone = gone.parent
	}
	// where the deviation is written
	dw := c07owner(w1)
	switch g.r.Intn(3) {
	case 0:
		dw = c.mod
	case 1:
		dw = regular[g.r.Intn(len(regular))]
	}
	d := dw.Body.add("deviation", g.pathArg(dw, gone, 0))
	d.add("deviate", "not-supported")
	g.devs = append(g.devs, c07dev{tmod: c.mod, steps: gone.names()})
	gone.noTarget = true
}

// emptyBase adds a grouping that holds childless containers (empty, presence, nested one level inside
// a non-empty container) and uses it at 2-3 places: in its own module at different containers and in
// other modules through the import prefix. Every instance must stay an independent node: what an
// augment puts into one instance may not show up in another.
func (g *c07g) emptyBase() {
	var homes []*Module
	for _, m := range g.mods {
		if !m.Sub {
			homes = append(homes, m)
		}
	}
	home := homes[g.r.Intn(len(homes))]
	gr := &Node{Kw: "grouping", Arg: g.name("g", home)}
	empty := func(p *Node) {
		e := p.add("container", g.name("c", home))
		if g.chance(0.35) {
			e.add("presence", "p")
		}
		g.empties = append(g.empties, e)
	}
	nested := func() {
		o := gr.add("container", g.name("c", home))
		g.leaf(o, g.name("f", home))
		empty(o)
	}
	switch g.r.Intn(4) {
	case 0:
		empty(gr)
	case 1:
		nested()
	case 2:
		empty(gr)
		nested()
	default:
		empty(gr)
		empty(gr)
		if g.chance(0.5) {
			g.leaf(gr, g.name("f", home))
		}
	}
	home.Groupings = append(home.Groupings, gr)
	home.Body.Kids = append(home.Body.Kids, gr)
	// users: the home module itself, other modules and submodules of other modules (they import home)
	var others []*Module
	for _, m := range g.mods {
		if c07owner(m) != home {
			others = append(others, m)
		}
	}
	nu := 2 + g.r.Intn(2)
	for i := 0; i < nu; i++ {
		um := home
		if len(others) > 0 && (i == nu-1 || (i > 0 && g.chance(0.4))) {
			um = others[g.r.Intn(len(others))]
		}
		ref := gr.Arg
		switch {
		case um != home:
			ref = um.ImportPrefix[home] + ":" + gr.Arg
		case g.chance(0.3):
			ref = home.Prefix + ":" + gr.Arg
		}
		c := um.Body.add("container", g.name("c", um))
		if g.chance(0.4) {
			g.leaf(c, g.name("f", um))
		}
		u := c.add("uses", ref)
		u.Uses = gr
	}
}

// emptyOp augments instances of one childless grouping container.
func (g *c07g) emptyOp() {
	name := C07ShapeNames[C07EmptyDir]
	if len(g.empties) == 0 {
		return
	}
	e := g.empties[g.r.Intn(len(g.empties))]
	inst := g.cands(false, func(n *c07sn) bool { return n.stmt == e })
	if len(inst) == 0 {
		return
	}
	g.r.Shuffle(len(inst), func(i, j int) { inst[i], inst[j] = inst[j], inst[i] })
	// writers of different modules (namespaces) where possible
	ws := []*Module{g.writer(nil)}
	for len(ws) < len(inst) {
		var w *Module
		for try := 0; try < 8; try++ {
			w = g.writer(nil)
			if c07owner(w) != c07owner(ws[len(ws)-1]) {
				break
			}
		}
		ws = append(ws, w)
	}
	on := func(i int, fill func(a *Node, t *c07sn)) {
		w := ws[i]
		if fill == nil {
			fill = g.body(w, false)
		}
		g.augOn(w, inst[i], name, g.pathMode(w, inst[i]), fill)
	}
	g.seq++
	same := fmt.Sprintf("same%d", g.seq)
	sameFill := func(i int) func(a *Node, t *c07sn) {
		w := ws[i]
		kind := g.r.Intn(2)
		return func(a *Node, t *c07sn) {
			if kind == 0 {
				g.leaf(a, same)
			} else {
				g.leaf(a.add("container", same), g.augName(w))
			}
			if g.chance(0.3) {
				g.leaf(a, g.augName(w))
			}
		}
	}
	k := g.r.Intn(5)
	if len(inst) < 2 {
		k = 0
	}
	switch k {
	case 0: // (a) one instance only: the others must stay empty
		on(0, nil)
	case 1: // (b) two instances from two modules
		on(0, nil)
		on(1, nil)
	case 2: // (c) the same child name into two instances: no collision
		on(0, sameFill(0))
		on(1, sameFill(1))
	case 3: // (d) into the empty node at one instance, into the parent node of another instance
		on(0, nil)
		if p := inst[1].n.parent; p != nil && p.parent != nil && c07augmentable(p) {
			w := ws[1]
			g.augOn(w, c07cand{inst[1].mod, p}, name, g.pathMode(w, inst[1]), g.body(w, false))
		} else {
			on(1, nil)
		}
	default: // every instance, the same child name everywhere
		for i := range inst {
			on(i, sameFill(i))
		}
	}
}

// ---- semantic trees --------------------------------------------------------------------------

func c07expand(stmts []*Node, viaUses, viaSub bool, depth int, bodyErr *bool) []*c07sn {
	var out []*c07sn
	if depth > 10 {
		return out
	}
	for _, c := range stmts {
		switch c.Kw {
		case "container", "list", "leaf", "leaf-list", "choice", "case", "anydata", "anyxml", "rpc", "action", "notification", "input", "output":
			n := &c07sn{name: c.Arg, kw: c.Kw, aug: -1, viaUses: viaUses, viaSub: viaSub, stmt: c}
			if c.Kw == "input" || c.Kw == "output" {
				n.name = c.Kw
			}
			n.kids = c07expand(c.Kids, viaUses, viaSub, depth+1, bodyErr)
			for _, t := range c.Kids {
				if t.Kw == "type" && t.Arg == "nosuchtype" && bodyErr != nil {
					*bodyErr = true
				}
			}
			if c.Kw == "rpc" || c.Kw == "action" {
				for _, io := range []string{"input", "output"} {
					if n.kid(io) == nil {
						n.kids = append(n.kids, &c07sn{name: io, kw: io, aug: -1, viaUses: viaUses, viaSub: viaSub, implicit: true})
					}
				}
			}
			for _, k := range n.kids {
				k.parent = n
			}
			out = append(out, n)
		case "uses":
			if c.Uses == nil {
				if bodyErr != nil {
					*bodyErr = true
				}
				continue
			}
			out = append(out, c07expand(c.Uses.Kids, true, viaSub, depth+1, bodyErr)...)
		}
	}
	return out
}

func (n *c07sn) kid(name string) *c07sn {
	for _, k := range n.kids {
		if k.name == name {
			return k
		}
	}
	return nil
}

func (n *c07sn) attach(k *c07sn) {
	k.parent = n
	n.kids = append(n.kids, k)
}

func (n *c07sn) nsOf() string {
	for ; n != nil; n = n.parent {
		if n.ns != "" {
			return n.ns
		}
	}
	return ""
}

func (n *c07sn) path() string {
	if n.parent == nil {
		return "/" + n.name
	}
	return n.parent.path() + "/" + n.name
}

func (n *c07sn) names() []string {
	if n.parent == nil {
		return nil
	}
	return append(n.parent.names(), n.name)
}

// shorthandOnPath: n is, or lies below, a shorthand choice member (its address goes through an implicit case).
func (n *c07sn) shorthandOnPath() bool {
	for ; n != nil && n.parent != nil; n = n.parent {
		if n.parent.kw == "choice" && n.kw != "case" {
			return true
		}
	}
	return false
}

func (n *c07sn) flagged(f func(*c07sn) bool) bool {
	for ; n != nil; n = n.parent {
		if f(n) {
			return true
		}
	}
	return false
}

func (n *c07sn) walk(f func(*c07sn)) {
	f(n)
	for _, k := range n.kids {
		k.walk(f)
	}
}

// forest builds the module trees (own body plus included submodules, each once) from the statements.
func (g *c07g) forest() map[string]*c07sn {
	out := map[string]*c07sn{}
	for _, m := range g.set.Mods {
		if m.Sub {
			continue
		}
		root := &c07sn{name: m.Name, kw: "module", ns: m.Namespace, aug: -1}
		for _, k := range c07expand(m.Body.Kids, false, false, 0, nil) {
			root.attach(k)
		}
		seen := map[*Module]bool{}
		var inc func(s *Module)
		inc = func(s *Module) {
			if seen[s] {
				return
			}
			seen[s] = true
			for _, k := range c07expand(s.Body.Kids, false, true, 0, nil) {
				root.attach(k)
			}
			for _, s2 := range s.Includes {
				inc(s2)
			}
		}
		for _, s := range m.Includes {
			inc(s)
		}
		out[c07full(m)] = root
	}
	return out
}

func c07leafish(kw string) bool {
	return kw == "leaf" || kw == "leaf-list" || kw == "anyxml" || kw == "anydata"
}

// c07noChildren: targets that cannot be given children by an augment: leaf-like nodes, and rpc and
// action nodes themselves (their only children are input and output).
func c07noChildren(kw string) bool { return c07leafish(kw) || kw == "rpc" || kw == "action" }

func c07resolve(root *c07sn, steps []string) *c07sn {
	cur := root
	for _, s := range steps {
		cur = cur.kid(s)
		if cur == nil {
			return nil
		}
		if cur.implicit && (cur.kw == "input" || cur.kw == "output") {
			cur.touched = true
		}
	}
	return cur
}

// c07graft copies the body of a below t; it reports the names that exist already.
func c07graft(t *c07sn, a *c07aug, bodyErr *bool) (collide []*c07sn) {
	for _, k := range c07expand(a.stmt.Kids, false, false, 0, bodyErr) {
		if ex := t.kid(k.name); ex != nil {
			collide = append(collide, ex)
			continue
		}
		k.ns = a.info.NS
		k.aug = a.info.ID
		t.attach(k)
	}
	return
}

func c07fix(n *c07sn) {
	if n.kw == "choice" {
		for i, k := range n.kids {
			if k.kw != "case" {
				cs := &c07sn{name: k.name, kw: "case", aug: -1, implicit: true, parent: n, kids: []*c07sn{k}}
				k.parent = cs
				n.kids[i] = cs
			}
		}
	}
	for _, k := range n.kids {
		c07fix(k)
	}
}

// ---- augments ----------------------------------------------------------------------------------

type c07cand struct {
	mod *Module
	n   *c07sn
}

// cands lists nodes of the working forest accepted by ok; nodes below noTarget nodes and (unless
// shorthand) nodes addressed through an implicit case are left out.
func (g *c07g) cands(shorthand bool, ok func(*c07sn) bool) []c07cand {
	var out []c07cand
	for _, m := range g.mods {
		if m.Sub {
			continue
		}
		root := g.work[c07full(m)]
		for _, k := range root.kids {
			k.walk(func(n *c07sn) {
				if n.flagged(func(x *c07sn) bool { return x.noTarget }) {
					return
				}
				if n.shorthandOnPath() != shorthand {
					return
				}
				if ok(n) {
					out = append(out, c07cand{m, n})
				}
			})
		}
	}
	return out
}

func c07augmentable(n *c07sn) bool {
	switch n.kw {
	case "container", "list", "choice", "case", "input", "output", "notification":
		return true
	}
	return false
}

func (g *c07g) prefixFor(w *Module, ns string) string {
	if c07owner(w).Namespace == ns {
		return w.Prefix
	}
	for _, o := range w.Imports {
		if o.Namespace == ns {
			return w.ImportPrefix[o]
		}
	}
	return "zz"
}

// pathArg renders the path of n as written in w. mode 0: every step prefixed; 1: prefix left out on
// steps in w's own namespace except the first step; 2: as 1 and also on the first step.
func (g *c07g) pathArg(w *Module, n *c07sn, mode int) string {
	var nodes []*c07sn
	for x := n; x.parent != nil; x = x.parent {
		nodes = append([]*c07sn{x}, nodes...)
	}
	var sb strings.Builder
	own := c07owner(w).Namespace
	for i, x := range nodes {
		ns := x.nsOf()
		sb.WriteByte('/')
		if mode == 0 || ns != own || (i == 0 && mode == 1) {
			sb.WriteString(g.prefixFor(w, ns) + ":")
		}
		sb.WriteString(x.name)
	}
	return sb.String()
}

func (g *c07g) writer(except *Module) *Module {
	for i := 0; i < 8; i++ {
		m := g.mods[g.r.Intn(len(g.mods))]
		if m != except {
			return m
		}
	}
	return g.mods[g.r.Intn(len(g.mods))]
}

// newAug registers an augment of w with the given target argument.
func (g *c07g) newAug(w *Module, tmod *Module, steps []string, arg, shape string) *c07aug {
	a := &c07aug{writer: w, tmod: tmod, steps: steps, stmt: &Node{Kw: "augment", Arg: arg}, created: len(g.augs)}
	a.info = &C07Aug{ID: len(g.augs), File: c07file(w), Module: w.Name, Owner: c07owner(w).Name, NS: c07owner(w).Namespace,
		TargetArg: arg, Shape: shape}
	if tmod != nil {
		a.info.TargetModule = c07full(tmod)
	}
	for _, grp := range g.revGroups {
		for _, r := range grp[:len(grp)-1] {
			if r == w {
				a.info.OldRevision = true
			}
		}
	}
	g.augs = append(g.augs, a)
	return a
}

// augOn creates an augment of w onto node t (of module tm's working tree); the body is filled by fill
// and grafted into the working forest.
func (g *c07g) augOn(w *Module, c c07cand, shape string, mode int, fill func(a *Node, t *c07sn)) *c07aug {
	a := g.newAug(w, c.mod, c.n.names(), g.pathArg(w, c.n, mode), shape)
	fill(a.stmt, c.n)
	c07graft(c.n, a, nil)
	return a
}

func (g *c07g) pathMode(w *Module, c c07cand) int {
	switch {
	case g.chance(0.6):
		return 0
	case g.chance(0.5):
		return 2
	}
	return 1
}

func (g *c07g) augName(w *Module) string {
	g.seq++
	return fmt.Sprintf("aug%s%d", c07tag(w), g.seq)
}

// item adds one body node of the given kind to the augment statement a whose target has keyword tkw.
// It avoids names that exist in t already. chainable kinds: 1, 2, 5, 6, 7 (and 0 for choice targets).
func (g *c07g) item(w *Module, a *Node, t *c07sn, kind int) {
	if t.kw == "choice" {
		switch kind % 3 {
		case 0:
			cs := a.add("case", g.augName(w))
			g.leaf(cs, g.augName(w))
			g.leaf(cs.add("container", g.augName(w)), g.augName(w))
		case 1:
			g.leaf(a.add("container", g.augName(w)), g.augName(w))
		default:
			g.leaf(a, g.augName(w))
		}
		return
	}
	switch kind {
	case 0:
		g.leaf(a, g.augName(w))
	case 1:
		c := a.add("container", g.augName(w))
		g.leaf(c, g.augName(w))
		if g.chance(0.4) {
			inner := g.augName(w)
			if g.chance(0.08) {
				inner = g.pick([]string{"input", "output"}) // an ordinary node with one of Find's special step names
			}
			g.leaf(c.add("container", inner), g.augName(w))
		}
	case 2:
		l := a.add("list", g.augName(w))
		l.add("key", "k")
		l.add("leaf", "k").add("type", "string")
		if g.chance(0.5) {
			g.leaf(l.add("container", g.augName(w)), g.augName(w))
		}
	case 3:
		a.add("leaf-list", g.augName(w)).add("type", g.pick(leafTypes))
	case 4:
		a.add("anydata", g.augName(w))
	case 5:
		ch := a.add("choice", g.augName(w))
		cs := ch.add("case", g.augName(w))
		g.leaf(cs, g.augName(w))
		g.leaf(cs.add("container", g.augName(w)), g.augName(w))
		if g.chance(0.6) {
			g.leaf(ch, g.augName(w))
		}
	case 6:
		refs, grs := g.visible(w)
		if len(grs) > 0 {
			i := g.r.Intn(len(grs))
			clash := false
			have := map[string]bool{}
			for _, c := range a.Kids {
				have[c.Arg] = true
			}
			for _, c := range a.Kids {
				if c.Kw == "uses" && c.Uses != nil {
					for _, nm := range topNames(c.Uses, 0) {
						have[nm] = true
					}
				}
			}
			for _, nm := range topNames(grs[i], 0) {
				if t.kid(nm) != nil || have[nm] {
					clash = true
				}
			}
			if !clash {
				u := a.add("uses", refs[i])
				u.Uses = grs[i]
				return
			}
		}
		g.item(w, a, t, 1)
	case 7:
		c := a.add("container", g.augName(w))
		ch := c.add("choice", g.augName(w))
		cs := ch.add("case", g.augName(w))
		g.leaf(cs.add("container", g.augName(w)), g.augName(w))
		g.leaf(ch.add("container", g.augName(w)), g.augName(w))
	}
}

// body fills an augment statement with 1-3 nodes; the first one is of a chainable kind when chain is set.
func (g *c07g) body(w *Module, chain bool) func(a *Node, t *c07sn) {
	return func(a *Node, t *c07sn) {
		n := 1 + g.r.Intn(3)
		for i := 0; i < n; i++ {
			k := g.r.Intn(8)
			if chain && i == 0 {
				k = []int{1, 2, 5, 6, 7, 1}[g.r.Intn(6)]
				if t.kw == "choice" {
					k = 0
				}
			}
			g.item(w, a, t, k)
		}
		// a chain link must offer a target: when a uses happened to add none, add a container
		if chain {
			found := false
			for _, k := range c07expand(a.Kids, false, false, 0, nil) {
				k.walk(func(x *c07sn) {
					if c07augmentable(x) && !x.shorthandOnPath() {
						found = true
					}
				})
			}
			if !found {
				g.item(w, a, t, 1)
			}
		}
	}
}

func (g *c07g) anyTarget(ok func(*c07sn) bool) (c07cand, bool) {
	cs := g.cands(false, func(n *c07sn) bool { return c07augmentable(n) && (ok == nil || ok(n)) })
	if len(cs) == 0 {
		return c07cand{}, false
	}
	return cs[g.r.Intn(len(cs))], true
}

// sortedMods: modules and submodules in the order the augment loop visits them.
func (g *c07g) sortedMods() []*Module {
	ms := append([]*Module{}, g.mods...)
	sort.Slice(ms, func(i, j int) bool { return ms[i].Name < ms[j].Name })
	return ms
}

func (g *c07g) chain(shape int) {
	depth := 3 + g.r.Intn(3)
	first, ok := g.anyTarget(nil)
	if !ok {
		return
	}
	sm := g.sortedMods()
	cur := first
	name := C07ShapeNames[shape]
	for i := 1; i <= depth; i++ {
		var w *Module
		if shape == C07ChainWorst {
			w = sm[(depth-i)%len(sm)]
		} else {
			w = g.writer(nil)
		}
		a := g.augOn(w, cur, name, g.pathMode(w, cur), g.body(w, i < depth))
		if i == depth {
			break
		}
		// next target: an augmentable node grafted by a
		nx := g.cands(false, func(n *c07sn) bool {
			return c07augmentable(n) && n.flagged(func(x *c07sn) bool { return x.aug == a.info.ID })
		})
		if len(nx) == 0 {
			break
		}
		cur = nx[g.r.Intn(len(nx))]
	}
}

func (g *c07g) op(shape int) {
	g.shapes = append(g.shapes, C07ShapeNames[shape])
	name := C07ShapeNames[shape]
	simple := func(ok func(*c07sn) bool, n int) {
		for i := 0; i < n; i++ {
			c, found := g.anyTarget(ok)
			if !found {
				c, found = g.anyTarget(nil)
				if !found {
					return
				}
			}
			w := g.writer(nil)
			g.augOn(w, c, name, g.pathMode(w, c), g.body(w, false))
		}
	}
	switch shape {
	case C07ChainWorst, C07ChainRandom:
		g.chain(shape)
	case C07UsesTarget:
		// one instance of a grouping only
		simple(func(n *c07sn) bool { return n.viaUses }, 1+g.r.Intn(2))
	case C07ChoiceCase:
		simple(func(n *c07sn) bool {
			return n.kw == "choice" || n.flagged(func(x *c07sn) bool { return x.kw == "case" })
		}, 1+g.r.Intn(3))
	case C07RPC:
		simple(func(n *c07sn) bool {
			return n.flagged(func(x *c07sn) bool { return x.kw == "input" || x.kw == "output" || x.kw == "notification" })
		}, 1+g.r.Intn(3))
		if g.chance(0.6) {
			simple(func(n *c07sn) bool { return n.implicit }, 1)
		}
	case C07BodyVariety:
		simple(nil, 1+g.r.Intn(3))
	case C07Submodule:
		// targets defined in submodules; writers that are submodules
		simple(func(n *c07sn) bool { return n.viaSub }, 1+g.r.Intn(2))
		var subs []*Module
		for _, m := range g.mods {
			if m.Sub {
				subs = append(subs, m)
			}
		}
		if len(subs) > 0 {
			for i := 0; i < 1+g.r.Intn(2); i++ {
				w := subs[g.r.Intn(len(subs))]
				if c, found := g.anyTarget(nil); found {
					mode := g.r.Intn(3)
					g.augOn(w, c, name, mode, g.body(w, g.chance(0.3)))
				}
			}
		}
	case C07EmptyDir:
		g.emptyOp()
	case C07SharedUses:
		g.sharedCollision()
	case C07MultiRev:
		g.revOp()
	case C07DevGone:
		g.devOp()
	case C07PrefixClash:
		g.clashOp()
	case C07IONames:
		g.ioOp()
	case C07Collision:
		if g.chance(0.2) {
			g.sharedCollision()
		} else {
			g.collision()
		}
	case C07NonContainer:
		var cs []c07cand
		rpcish := func(n *c07sn) bool { return n.kw == "rpc" || n.kw == "action" }
		switch k := g.r.Intn(10); {
		case k < 3:
			// a leaf created by another augment
			if c, found := g.anyTarget(nil); found && c.n.kw != "choice" {
				w := g.writer(nil)
				a := g.augOn(w, c, name, 0, func(a *Node, t *c07sn) { g.item(w, a, t, []int{0, 3, 4}[g.r.Intn(3)]) })
				cs = g.cands(false, func(n *c07sn) bool { return c07leafish(n.kw) && n.aug == a.info.ID })
			}
		case k < 6:
			// an rpc or action node itself (with or without written input/output)
			cs = g.cands(false, rpcish)
		case k == 6:
			// an action grafted by another augment (inside a container of its body)
			if c, found := g.anyTarget(func(n *c07sn) bool {
				return n.kw != "choice" && !n.flagged(func(x *c07sn) bool {
					return x.kw == "rpc" || x.kw == "action" || x.kw == "notification"
				})
			}); found {
				w := g.writer(nil)
				a := g.augOn(w, c, name, 0, func(a *Node, t *c07sn) {
					cc := a.add("container", g.augName(w))
					g.leaf(cc, g.augName(w))
					g.rpcBody(w, cc.add("action", g.augName(w)), g.r.Intn(4))
				})
				cs = g.cands(false, func(n *c07sn) bool {
					return n.kw == "action" && n.flagged(func(x *c07sn) bool { return x.aug == a.info.ID })
				})
			}
		}
		if len(cs) == 0 {
			cs = g.cands(false, func(n *c07sn) bool { return c07leafish(n.kw) })
		}
		if len(cs) == 0 {
			return
		}
		c := cs[g.r.Intn(len(cs))]
		w := g.writer(nil)
		a := g.newAug(w, c.mod, c.n.names(), g.pathArg(w, c.n, g.r.Intn(2)), name)
		g.leaf(a.stmt, g.augName(w))
	case C07Missing:
		g.missing()
	case C07BodyError:
		c, found := g.anyTarget(func(n *c07sn) bool { return n.kw != "choice" })
		if !found {
			return
		}
		w := g.writer(nil)
		g.augOn(w, c, name, g.pathMode(w, c), func(a *Node, t *c07sn) {
			if g.chance(0.5) {
				g.leaf(a, g.augName(w))
			}
			switch g.r.Intn(4) {
			case 0:
				a.add("uses", "nosuchgrouping")
			case 1:
				cc := a.add("container", g.augName(w))
				g.leaf(cc, g.augName(w))
				cc.add("uses", "nosuchgrouping")
			case 2:
				a.add("leaf", g.augName(w)).add("type", "nosuchtype")
			default:
				cc := a.add("container", g.augName(w))
				cc.add("leaf", g.augName(w)).add("type", "nosuchtype")
			}
		})
		// nothing may depend on what this augment grafts
		c.n.walk(func(x *c07sn) {
			if x.aug == len(g.augs)-1 {
				x.noTarget = true
			}
		})
	case C07ImplicitCase:
		cs := g.cands(true, func(n *c07sn) bool { return c07augmentable(n) })
		if len(cs) == 0 {
			return
		}
		c := cs[g.r.Intn(len(cs))]
		w := g.writer(nil)
		arg := g.pathArg(w, c.n, 0)
		if g.chance(0.5) {
			// RFC style: the implicit case is spelled out (found only after FixChoice)
			var nodes []*c07sn
			for x := c.n; x.parent != nil; x = x.parent {
				nodes = append([]*c07sn{x}, nodes...)
			}
			var sb strings.Builder
			for _, x := range nodes {
				step := "/" + g.prefixFor(w, x.nsOf()) + ":" + x.name
				sb.WriteString(step)
				if x.parent.kw == "choice" && x.kw != "case" {
					sb.WriteString(step)
				}
			}
			arg = sb.String()
		}
		a := g.newAug(w, c.mod, c.n.names(), arg, name)
		g.leaf(a.stmt, g.augName(w))
		a.info.OutsideClaim = true
		g.outside = true
	case C07SubNoPrefix:
		var subs []*Module
		for _, m := range g.mods {
			if m.Sub {
				subs = append(subs, m)
			}
		}
		if len(subs) == 0 {
			return
		}
		w := subs[g.r.Intn(len(subs))]
		// a base target of the owner's tree whose whole path lies in the owner's namespace
		cs := g.cands(false, func(n *c07sn) bool {
			return c07augmentable(n) && !n.flagged(func(x *c07sn) bool { return x.aug >= 0 })
		})
		var own []c07cand
		for _, c := range cs {
			if c.mod == w.Owner {
				own = append(own, c)
			}
		}
		if len(own) == 0 {
			return
		}
		c := own[g.r.Intn(len(own))]
		a := g.augOn(w, c, name, 2, g.body(w, false))
		a.info.SubNoPrefix = true
	case C07ActionNoIO:
		cs := g.cands(false, func(n *c07sn) bool {
			return n.implicit && n.parent != nil && n.parent.kw == "action" && n.parent.kid("input").implicit && n.parent.kid("output").implicit
		})
		if len(cs) == 0 {
			return
		}
		c := cs[g.r.Intn(len(cs))]
		w := g.writer(nil)
		a := g.augOn(w, c, name, g.pathMode(w, c), g.body(w, g.chance(0.3)))
		a.info.ActionNoIO = true
	}
}

// groupRef: how writer w refers to grouping name defined at the top level of h ("" when w cannot see it
// under the conservative visibility rule of visible()).
func (g *c07g) groupRef(w, h *Module, name string) string {
	switch {
	case h == w:
		if !w.Sub && g.chance(0.3) {
			return w.Prefix + ":" + name
		}
		return name
	case h.Sub:
		for _, s := range w.Includes {
			if s == h {
				return name
			}
		}
		return ""
	case c07owner(w) != h:
		return w.ImportPrefix[h] + ":" + name
	}
	return "" // a submodule and the module it belongs to
}

// sharedCollision: two or three augments of one target that each add the nodes of the SAME grouping
// through uses. Every instance of a grouping node refers to the same statement, so this is the one
// collision in which the clashing children are the very same definition; it is a collision all the
// same: the second augment cannot be applied and has to be reported. Nothing else in what this adds
// can fail.
func (g *c07g) sharedCollision() {
	name := C07ShapeNames[C07SharedUses]
	c, found := g.anyTarget(func(n *c07sn) bool { return n.kw != "choice" })
	if !found {
		return
	}
	var mods, subs []*Module
	for _, m := range g.mods {
		if m.Sub {
			subs = append(subs, m)
		} else {
			mods = append(mods, m)
		}
	}
	pickMod := func(not *Module) *Module {
		for try := 0; try < 8; try++ {
			if m := mods[g.r.Intn(len(mods))]; m != not {
				return m
			}
		}
		return mods[g.r.Intn(len(mods))]
	}
	var w1, w2, home *Module
	for try := 0; try < 12 && home == nil; try++ {
		switch k := g.r.Intn(4); {
		case k == 0: // one module (or submodule) twice
			w1 = g.writer(nil)
			w2 = w1
		case k == 1: // two different modules
			w1 = pickMod(nil)
			w2 = pickMod(w1)
		case k == 2 && len(subs) > 0: // a module and its submodule
			w2 = subs[g.r.Intn(len(subs))]
			w1 = w2.Owner
		case len(subs) > 0: // a submodule and another module
			w1 = subs[g.r.Intn(len(subs))]
			w2 = pickMod(w1.Owner)
		default:
			w1 = pickMod(nil)
			w2 = pickMod(w1)
		}
		if g.chance(0.5) {
			w1, w2 = w2, w1
		}
		// where the grouping lives: the target's module, an augmenting module, a third module
		cand := []*Module{c.mod, w1, w2, pickMod(nil), pickMod(c.mod)}
		h := cand[g.r.Intn(len(cand))]
		if g.groupRef(w1, h, "x") != "" && g.groupRef(w2, h, "x") != "" {
			home = h
		}
	}
	if home == nil {
		w1 = pickMod(nil)
		w2, home = w1, w1
	}
	writers := []*Module{w1, w2}
	if g.chance(0.2) { // three-way
		for try := 0; try < 8; try++ {
			if w3 := g.writer(nil); g.groupRef(w3, home, "x") != "" {
				writers = append(writers, w3)
				break
			}
		}
	}
	gr := &Node{Kw: "grouping", Arg: g.name("g", home)}
	switch g.r.Intn(3) {
	case 0:
		g.leaf(gr, g.name("f", home))
	case 1:
		g.leaf(gr, g.name("f", home))
		g.leaf(gr.add("container", g.name("c", home)), g.name("f", home))
	default:
		g.leaf(gr.add("container", g.name("c", home)), g.name("f", home))
	}
	home.Groupings = append(home.Groupings, gr)
	home.Body.Kids = append(home.Body.Kids, gr)
	control := g.chance(0.12) // the first graft is hand written: different statements, same names
	mode := g.pathMode(w1, c)
	for i, w := range writers {
		w := w
		hand := control && i == 0
		a := g.augOn(w, c, name, mode, func(a *Node, t *c07sn) {
			if g.chance(0.35) {
				g.leaf(a, g.augName(w))
			}
			if hand {
				first := gr.Kids[0]
				if first.Kw == "leaf" {
					g.leaf(a, first.Arg)
				} else {
					g.leaf(a.add("container", first.Arg), g.augName(w))
				}
			} else {
				u := a.add("uses", g.groupRef(w, home, gr.Arg))
				u.Uses = gr
			}
			if g.chance(0.35) {
				g.leaf(a, g.augName(w))
			}
		})
		a.info.SharedUses = !control
		c.n.walk(func(x *c07sn) {
			if x.aug == a.info.ID {
				x.noTarget = true
			}
		})
		if i > 0 && g.chance(0.3) {
			mode = g.pathMode(w, c)
		}
	}
}

func (g *c07g) collision() {
	name := C07ShapeNames[C07Collision]
	c, found := g.anyTarget(func(n *c07sn) bool { return n.kw != "choice" })
	if !found {
		return
	}
	g.seq++
	dup := fmt.Sprintf("dup%d", g.seq)
	mark := func(a *c07aug) {
		c.n.walk(func(x *c07sn) {
			if x.aug == a.info.ID {
				x.noTarget = true
			}
		})
	}
	one := func(w *Module, kind int) {
		a := g.augOn(w, c, name, g.pathMode(w, c), func(a *Node, t *c07sn) {
			if g.chance(0.4) {
				g.leaf(a, g.augName(w))
			}
			if kind == 0 {
				g.leaf(a, dup)
			} else {
				g.leaf(a.add("container", dup), g.augName(w))
			}
		})
		mark(a)
	}
	switch g.r.Intn(4) {
	case 0: // two modules, same child name
		w1 := g.writer(nil)
		w2 := g.writer(w1)
		one(w1, g.r.Intn(2))
		one(w2, g.r.Intn(2))
		if g.chance(0.2) {
			one(g.writer(nil), 0)
		}
	case 1: // one module, two augments
		w := g.writer(nil)
		one(w, g.r.Intn(2))
		one(w, g.r.Intn(2))
	case 2: // a name the target has already
		var names []string
		for _, k := range c.n.kids {
			if k.aug < 0 {
				names = append(names, k.name)
			}
		}
		if len(names) == 0 {
			w := g.writer(nil)
			one(w, 0)
			one(w, 1)
			return
		}
		dup = names[g.r.Intn(len(names))]
		one(g.writer(nil), g.r.Intn(2))
	case 3: // inside a node created by another augment, a name that augment defines
		w1 := g.writer(nil)
		inner := g.augName(w1)
		a1 := g.augOn(w1, c, name, 0, func(a *Node, t *c07sn) {
			cc := a.add("container", g.augName(w1))
			g.leaf(cc, inner)
		})
		mark(a1)
		var t2 *c07sn
		c.n.walk(func(x *c07sn) {
			if x.aug == a1.info.ID && x.kw == "container" {
				t2 = x
			}
		})
		if t2 == nil {
			return
		}
		w2 := g.writer(nil)
		a2 := g.newAug(w2, c.mod, t2.names(), g.pathArg(w2, t2, 0), name)
		g.leaf(a2.stmt, inner)
		if g.chance(0.5) {
			g.leaf(a2.stmt, g.augName(w2))
		}
	}
}

func (g *c07g) missing() {
	name := C07ShapeNames[C07Missing]
	c, found := g.anyTarget(nil)
	if !found {
		return
	}
	w := g.writer(nil)
	if g.chance(0.25) {
		// broken chain: the first link misses, the second depends on it
		wc := g.writer(nil)
		a1 := g.augOn(wc, c, name, 0, func(a *Node, t *c07sn) {
			if t.kw == "choice" {
				g.item(wc, a, t, 0)
			} else {
				g.item(wc, a, t, 1)
			}
		})
		nx := g.cands(false, func(n *c07sn) bool {
			return c07augmentable(n) && n.flagged(func(x *c07sn) bool { return x.aug == a1.info.ID })
		})
		if len(nx) > 0 {
			c2 := nx[g.r.Intn(len(nx))]
			g.augOn(w, c2, name, 0, g.body(w, false))
		}
		// now break the first link and mark everything it grafted
		c.n.walk(func(x *c07sn) {
			if x.aug == a1.info.ID {
				x.noTarget = true
			}
		})
		a1.steps = append(append([]string{}, a1.steps[:len(a1.steps)-1]...), "nosuch")
		i := strings.LastIndex(a1.stmt.Arg, "/")
		a1.stmt.Arg = a1.stmt.Arg[:i] + "/" + g.prefixFor(wc, c.mod.Namespace) + ":nosuch"
		a1.info.TargetArg = a1.stmt.Arg
		return
	}
	steps := c.n.names()
	arg := g.pathArg(w, c.n, 0)
	parts := strings.Split(arg, "/")[1:]
	pfx := g.prefixFor(w, c.mod.Namespace)
	var tmod = c.mod
	switch k := g.r.Intn(5); {
	case k == 0: // first step
		parts[0] = pfx + ":nosuch"
		steps = append([]string{"nosuch"}, steps[1:]...)
	case k == 1 && len(parts) > 2: // middle
		i := 1 + g.r.Intn(len(parts)-2)
		parts[i] = pfx + ":nosuch"
		steps = append([]string{}, steps...)
		steps[i] = "nosuch"
	case k == 2: // last
		parts[len(parts)-1] = pfx + ":nosuch"
		steps = append(append([]string{}, steps[:len(steps)-1]...), "nosuch")
	case k == 3: // unknown prefix on the first step
		i := strings.Index(parts[0], ":")
		parts[0] = "zz" + parts[0][i:]
		tmod = nil
	default: // one step too many
		parts = append(parts, pfx+":nosuch")
		steps = append(append([]string{}, steps...), "nosuch")
	}
	a := g.newAug(w, tmod, steps, "/"+strings.Join(parts, "/"), name)
	g.leaf(a.stmt, g.augName(w))
}

// ---- evaluation and rendering ------------------------------------------------------------------

func c07line(sb *strings.Builder, n *Node) {
	sb.WriteString(n.Kw)
	if !(n.Kw == "input" || n.Kw == "output") {
		sb.WriteByte(' ')
		sb.WriteString(quote(n.Arg))
	}
	if len(n.Kids) == 0 {
		sb.WriteString(";")
		return
	}
	sb.WriteString(" {")
	for _, c := range n.Kids {
		sb.WriteByte(' ')
		c07line(sb, c)
	}
	sb.WriteString(" }")
}

// C07Render renders module m: header, body (multi-line), then every augment statement of
// augs on one line each. It returns the text and the line number of the first augment.
func C07Render(m *Module, augs []*Node, pins ...map[*Module]string) (string, int) {
	pin := func(o *Module) string {
		for _, p := range pins {
			if d := p[o]; d != "" {
				return " revision-date " + d + ";"
			}
		}
		return ""
	}
	var sb strings.Builder
	kw := "module"
	if m.Sub {
		kw = "submodule"
	}
	fmt.Fprintf(&sb, "%s %s {\n", kw, m.Name)
	if m.Sub {
		fmt.Fprintf(&sb, "  belongs-to %s { prefix %s; }\n", m.Owner.Name, m.Prefix)
	} else {
		fmt.Fprintf(&sb, "  namespace %q;\n  prefix %s;\n", m.Namespace, m.Prefix)
	}
	for _, o := range m.Imports {
		fmt.Fprintf(&sb, "  import %s { prefix %s;%s }\n", o.Name, m.ImportPrefix[o], pin(o))
	}
	for _, s := range m.Includes {
		if p := pin(s); p != "" {
			fmt.Fprintf(&sb, "  include %s {%s }\n", s.Name, p)
		} else {
			fmt.Fprintf(&sb, "  include %s;\n", s.Name)
		}
	}
	revs := append([]string{}, m.Revisions...)
	sort.Sort(sort.Reverse(sort.StringSlice(revs)))
	for _, r := range revs {
		fmt.Fprintf(&sb, "  revision %s;\n", r)
	}
	for _, c := range m.Body.Kids {
		if c.Kw != "augment" {
			render(&sb, c, "  ")
		}
	}
	first := strings.Count(sb.String(), "\n") + 1
	for _, a := range augs {
		sb.WriteString("  ")
		c07line(&sb, a)
		sb.WriteString("\n")
	}
	sb.WriteString("}\n")
	return sb.String(), first
}

func (g *c07g) finish(shape, order int) *C07Set {
	s := &C07Set{Set: g.set, Shape: C07ShapeNames[shape], Shapes: g.shapes, AugBlocks: map[string][2]int{}, OutsideClaim: g.outside}
	// written order inside each module
	per := map[*Module][]*c07aug{}
	for _, a := range g.augs {
		per[a.writer] = append(per[a.writer], a)
	}
	for _, m := range g.set.Mods {
		as := per[m]
		switch order {
		case 0:
			sort.SliceStable(as, func(i, j int) bool { return as[i].created > as[j].created })
		case 2:
			g.r.Shuffle(len(as), func(i, j int) { as[i], as[j] = as[j], as[i] })
		}
		var stmts []*Node
		for _, a := range as {
			stmts = append(stmts, a.stmt)
			m.Body.Kids = append(m.Body.Kids, a.stmt)
		}
		text, first := C07Render(m, stmts, g.pins[m])
		for i, a := range as {
			a.info.Line = first + i
		}
		if len(as) > 0 {
			s.AugBlocks[c07file(m)] = [2]int{first, len(as)}
		}
		s.names = append(s.names, c07file(m))
		s.texts = append(s.texts, text)
	}
	g.evaluate(s)
	return s
}

// evaluate computes the expectations by a reference graft on a fresh forest: apply any augment whose
// target exists until nothing changes. Without collisions the result does not depend on the order.
func (g *c07g) evaluate(s *C07Set) {
	forest := g.forest()
	// how often a name occurs among all statements of the set (for UniqueNames)
	count := map[string]int{}
	var cnt func(n *Node)
	cnt = func(n *Node) {
		switch n.Kw {
		case "container", "list", "leaf", "leaf-list", "choice", "case", "anydata", "anyxml", "rpc", "action", "notification":
			count[n.Arg]++
		}
		for _, k := range n.Kids {
			cnt(k)
		}
	}
	for _, m := range g.set.Mods {
		cnt(m.Body)
	}
	target := map[int]*c07sn{}
	pending := append([]*c07aug{}, g.augs...)
	for _, a := range g.augs {
		a.info.Expect = ""
		berr := false
		for _, k := range c07expand(a.stmt.Kids, false, false, 0, &berr) {
			a.info.Defines = append(a.info.Defines, k.name)
		}
		a.info.UniqueNames = true
		for _, n := range a.info.Defines {
			if count[n] != 1 || n == "input" || n == "output" {
				// (the input and output of rpcs and actions carry these names too)
				a.info.UniqueNames = false
			}
		}
		for _, k := range a.stmt.Kids {
			if k.Kw == "uses" {
				a.info.UniqueNames = false
			}
		}
	}
	for progress := true; progress; {
		progress = false
		var rest []*c07aug
		for _, a := range pending {
			if a.tmod == nil {
				rest = append(rest, a)
				continue
			}
			t := c07resolve(forest[c07full(a.tmod)], a.steps)
			if t == nil {
				rest = append(rest, a)
				continue
			}
			target[a.info.ID] = t
			switch {
			case c07ioNamed(t):
				a.info.IOName = "target"
			case t.flagged(c07ioNamed):
				a.info.IOName = "through"
			}
			for _, e := range g.empties {
				if t.stmt == e {
					a.info.Childless = true
				}
			}
			// why the target exists
			switch {
			case t.flagged(func(x *c07sn) bool { return x.aug >= 0 }):
				a.info.Origin = "augment"
				seen := map[int]bool{}
				for x := t; x != nil; x = x.parent {
					if x.aug >= 0 && !seen[x.aug] {
						seen[x.aug] = true
						a.info.DependsOn = append(a.info.DependsOn, x.aug)
					}
				}
			case t.flagged(func(x *c07sn) bool { return x.implicit }):
				a.info.Origin = "implicit-io"
			case t.flagged(func(x *c07sn) bool { return x.viaUses }):
				a.info.Origin = "uses"
			case t.flagged(func(x *c07sn) bool { return x.viaSub }):
				a.info.Origin = "submodule"
			default:
				a.info.Origin = "base"
			}
			if c07noChildren(t.kw) {
				a.info.Expect = C07NoChildren
				continue
			}
			berr := false
			coll := c07graft(t, a, &berr)
			progress = true
			switch {
			case len(coll) > 0:
				a.info.Expect = C07Collide
				for _, ex := range coll {
					if ex.aug >= 0 {
						g.augs[ex.aug].info.Expect = C07Collide
					}
				}
			case berr:
				a.info.Expect = C07BodyErr
			case a.info.Expect == "":
				a.info.Expect = C07Apply
			}
		}
		pending = rest
	}
	for _, a := range pending {
		a.info.Expect = C07MissingT
	}
	s.ExpectClean = true
	for _, a := range g.augs {
		if a.info.OutsideClaim {
			a.info.Expect = C07Unknown
		}
		if a.info.Expect != C07Apply {
			s.ExpectClean = false
		}
		s.Augs = append(s.Augs, a.info)
	}
	// deviations with deviate not-supported run after the augment stage: the subtree goes
	removed := map[*c07sn]bool{}
	for _, d := range g.devs {
		if t := c07resolve(forest[c07full(d.tmod)], d.steps); t != nil && t.parent != nil {
			for i, k := range t.parent.kids {
				if k == t {
					t.parent.kids = append(t.parent.kids[:i:i], t.parent.kids[i+1:]...)
					break
				}
			}
			removed[t] = true
		}
	}
	for _, r := range forest {
		c07fix(r)
		r.walk(func(x *c07sn) {
			if c07ioNamed(x) {
				s.IONamed = true
			}
		})
	}
	for _, a := range g.augs {
		t := target[a.info.ID]
		if t == nil {
			continue
		}
		a.info.TargetPath = t.path()
		if a.info.Expect != C07Apply {
			continue
		}
		if t.flagged(func(x *c07sn) bool { return removed[x] }) {
			// applied, then removed together with the target: nothing of it is left to look at
			a.info.UniqueNames = false
			continue
		}
		for _, k := range t.kids {
			x := k
			if x.implicit && x.kw == "case" && len(x.kids) == 1 && x.kids[0].aug == a.info.ID {
				x = x.kids[0]
			}
			if x.aug == a.info.ID {
				a.info.Nodes = append(a.info.Nodes, C07Node{Mod: c07full(a.tmod), Path: x.path(), NS: a.info.NS})
			}
		}
	}
	if s.ExpectClean && !s.OutsideClaim {
		names := make([]string, 0, len(forest))
		for n := range forest {
			names = append(names, n)
		}
		sort.Strings(names)
		for _, mn := range names {
			forest[mn].walk(func(x *c07sn) {
				if x.implicit && (x.kw == "input" || x.kw == "output") && !x.touched {
					return
				}
				// an untouched implicit input/output has no descendants, so skipping it alone is enough
				nd := C07Node{Mod: mn, Path: x.path(), NS: x.nsOf()}
				if x.implicit && x.kw == "case" && len(x.kids) == 1 && x.kids[0].aug >= 0 {
					nd.AnyNS = true
				}
				s.Forest = append(s.Forest, nd)
			})
		}
	}
}
