// c07barren.go: augment statements whose body defines NO data node (empty, only description / when /
// status / reference, uses of a grouping that defines no nodes) against every kind of target:
// container, list, choice, case, rpc / action input and output, notification (accepted: applied,
// nothing added) and leaf, leaf-list, anyxml, anydata, rpc, action (reported: the target cannot have
// children), base nodes and nodes another augment made, and missing targets (reported).
// Whether a target can have children does not depend on what the augment would add.
// Same machinery and reference graft as c07.go. Add-only: GenerateC07 is unchanged for every seed.
package gen

import (
	"math/rand"
)

// C07BarrenShape names the family (Shape of the sets and of the statements without nodes).
const C07BarrenShape = "body-without-nodes"

// c07barrenClasses: target kinds, drawn in turn so that every one is met often.
var c07barrenClasses = []string{"container", "list", "choice", "case", "input", "output", "notification",
	"leaf", "leaf-list", "anyxml", "anydata", "rpc", "action", "leaf", "rpc", "anyxml", "action", "missing", "made-by-augment"}

// barrenGroupings gives every module one or two top-level groupings that define no data node.
func (g *c07g) barrenGroupings() {
	g.barren = map[*Node]bool{}
	for _, m := range g.mods {
		n := 1 + g.r.Intn(2)
		for i := 0; i < n; i++ {
			gr := &Node{Kw: "grouping", Arg: g.name("g", m)}
			switch g.r.Intn(4) {
			case 0: // nothing at all
			case 1:
				gr.add("description", "defines no nodes")
			case 2:
				gr.add("typedef", g.name("y", m)).add("type", "string")
			default:
				// a nested grouping (with nodes) that nobody uses
				in := gr.add("grouping", g.name("g", m))
				g.leaf(in.add("container", g.name("c", m)), g.name("f", m))
			}
			g.barren[gr] = true
			m.Groupings = append(m.Groupings, gr)
			m.Body.Kids = append(m.Body.Kids, gr)
		}
	}
}

// barrenBody fills augment statement a of writer w with statements that define no data node.
func (g *c07g) barrenBody(w *Module, a *Node) {
	uses := func() bool {
		refs, grs := g.visible(w)
		var ix []int
		for i, gr := range grs {
			if g.barren[gr] {
				ix = append(ix, i)
			}
		}
		if len(ix) == 0 {
			return false
		}
		i := ix[g.r.Intn(len(ix))]
		u := a.add("uses", refs[i])
		u.Uses = grs[i]
		return true
	}
	switch g.r.Intn(9) {
	case 0, 1: // augment "...";
	case 2:
		a.add("description", "nothing")
	case 3:
		a.add("when", "1 = 1")
	case 4:
		a.add("status", "current")
		a.add("reference", "none")
	case 5, 6:
		uses()
	case 7:
		a.add("when", "true()")
		if uses() {
			a.add("description", "nothing")
		}
	default:
		uses()
		uses()
	}
}

// barrenOp writes one augment without nodes onto a target of the given class.
func (g *c07g) barrenOp(class string) {
	name := C07BarrenShape
	g.shapes = append(g.shapes, name)
	w := g.writer(nil)
	switch class {
	case "missing":
		cs := g.cands(false, func(n *c07sn) bool { return n.kw == "container" || n.kw == "list" })
		if len(cs) == 0 {
			return
		}
		c := cs[g.r.Intn(len(cs))]
		steps := append(append([]string{}, c.n.names()...), "nosuch")
		arg := g.pathArg(w, c.n, 0) + "/" + g.prefixFor(w, c.mod.Namespace) + ":nosuch"
		a := g.newAug(w, c.mod, steps, arg, name)
		g.barrenBody(w, a.stmt)
		return
	case "made-by-augment":
		// first an ordinary augment that grafts a container with a leaf, a leaf and an anyxml; then
		// augments without nodes onto what it made
		c, found := g.anyTarget(func(n *c07sn) bool { return n.kw == "container" || n.kw == "list" })
		if !found {
			return
		}
		w1 := g.writer(nil)
		a1 := g.augOn(w1, c, name+":maker", 0, func(a *Node, t *c07sn) {
			cc := a.add("container", g.augName(w1))
			g.leaf(cc, g.augName(w1))
			g.leaf(a, g.augName(w1))
			a.add("anyxml", g.augName(w1))
		})
		cs := g.cands(false, func(n *c07sn) bool {
			return n.flagged(func(x *c07sn) bool { return x.aug == a1.info.ID })
		})
		n := 1 + g.r.Intn(2)
		for i := 0; i < n && len(cs) > 0; i++ {
			t := cs[g.r.Intn(len(cs))]
			a := g.newAug(w, t.mod, t.n.names(), g.pathArg(w, t.n, 0), name)
			g.barrenBody(w, a.stmt)
		}
		return
	}
	cs := g.cands(false, func(n *c07sn) bool { return n.kw == class })
	if len(cs) == 0 {
		cs = g.cands(false, func(n *c07sn) bool { return c07noChildren(n.kw) })
	}
	if len(cs) == 0 {
		return
	}
	c := cs[g.r.Intn(len(cs))]
	a := g.newAug(w, c.mod, c.n.names(), g.pathArg(w, c.n, g.pathMode(w, c)), name)
	g.barrenBody(w, a.stmt)
}

// GenerateC07Barren builds set j of the family: a base with every kind of node, two to four
// augments without nodes (the classes of targets are drawn in turn from j), sometimes ordinary
// augments beside them (also onto the same targets).
func GenerateC07Barren(r *rand.Rand, j int) *C07Set {
	g := &c07g{r: r, set: &Set{}, byNS: map[string]*Module{}}
	g.modules(C07NonContainer)
	g.groupings()
	g.barrenGroupings()
	// every kind of target: container tree, list, choice, rpc, action, notification, leaf-like nodes
	for _, f := range []int{0, 1, 2, 3, 4, 5, 6} {
		g.feature(g.mods[g.r.Intn(len(g.mods))], f)
	}
	g.work = g.forest()
	if g.chance(0.4) {
		g.op(g.cleanOp())
	}
	n := 2 + r.Intn(3)
	for i := 0; i < n; i++ {
		g.barrenOp(c07barrenClasses[(j*3+i*7+r.Intn(2))%len(c07barrenClasses)])
	}
	if g.chance(0.3) {
		g.op(g.cleanOp())
	}
	s := g.finish(C07NonContainer, r.Intn(3))
	s.Shape = C07BarrenShape
	return s
}
