// c07revsub.go: the family "several revisions of one module loaded at once that include the same
// submodule(s)" of property C07, with generator knowledge in the vocabulary of c07.go (C07Aug,
// C07Node). Add-only: nothing here changes GenerateC07.
//
// A set consists of groups. A group is one module name: one text without revision, or two or three
// revisions loaded together (name@date.yang each), plus the submodules every revision includes (one;
// two side by side; two of which the first also includes the second; or the second reached through
// the first only). Group t is always there in two or three revisions with submodules; a second group
// e of that kind in part of the sets (an augmenting module that is itself loaded in revisions sharing
// a submodule); b (and c) are plain modules, b sometimes with a submodule of its own. Every file
// imports every other group: without revision-date, with the date of the latest loaded revision, with
// a date that is not loaded (all three denote the latest revision), or pinned to an older loaded
// revision; some files import a group a second time under another prefix with another pin.
//
// What the reference relies on (verified on the real code, and the reason for the Opt nodes): the
// tree a path denotes is chosen by its first step: a prefix of an import leads into the revision that
// import resolves to; the own prefix or no prefix written in a module leads into that text's own
// tree, written in a submodule into the LATEST revision of the module it belongs to. The latest
// revision of a module (the one filed under the bare name) holds the nodes of every submodule in its
// include closure exactly once. Older revisions do not receive the nodes of a submodule the latest
// revision has received already (known finding D63): the reference lists those nodes as optional
// (present or absent, not judged) and no augment is aimed at them.
//
// Augments are written in every kind of file (revisions old and latest, the shared submodules, plain
// modules and their submodules) and are grafted in the reference the moment they are created, so a
// later augment may aim at what an earlier one made: targets are nodes defined in a shared submodule,
// nodes below such nodes, nodes created there by another augment (chains across files), and for
// contrast nodes of the module bodies. Failing augments (a missing target below a submodule node, a
// leaf of a submodule as target, two augments adding the same name to a submodule node) are added to
// part of the sets.
package gen

import (
	"fmt"
	"math/rand"
	"sort"
	"strings"
)

// C07RevSubShape is the shape name of the family (Distribution key, C07Aug.Shape).
const C07RevSubShape = "revisions-sharing-submodule"

// C07RevSubSet is one generated set of the family.
type C07RevSubSet struct {
	Names, Texts []string
	Augs         []*C07Aug
	AugBlocks    map[string][2]int
	ExpectClean  bool
	Forest       []C07Node // complete expected forest (only when ExpectClean)
	NSMod        map[string]string
	Layout       string // k=<revisions of t> subs=<layout> ...
	// SubTargets: number of applying augments whose target is defined in a shared submodule of a
	// module loaded in several revisions, or lies below such a node.
	SubTargets int
}

type rsNode struct {
	name, kw string
	ns       string // tree roots and graft roots
	kids     []*rsNode
	parent   *rsNode
	sub      bool // defined by a submodule
	aug      int  // grafting augment at graft roots, -1 otherwise
}

func (n *rsNode) add(kw, name string) *rsNode {
	k := &rsNode{name: name, kw: kw, parent: n, aug: -1}
	n.kids = append(n.kids, k)
	return k
}

func (n *rsNode) leaf(name string) *rsNode { return n.add("leaf", name) }

func (n *rsNode) path() string {
	if n.parent == nil {
		return "/" + n.name
	}
	return n.parent.path() + "/" + n.name
}

func (n *rsNode) nsOf() string {
	for x := n; x != nil; x = x.parent {
		if x.ns != "" {
			return x.ns
		}
	}
	return ""
}

func (n *rsNode) up(f func(*rsNode) bool) bool {
	for x := n; x != nil; x = x.parent {
		if f(x) {
			return true
		}
	}
	return false
}

func (n *rsNode) walk(f func(*rsNode)) {
	f(n)
	for _, k := range n.kids {
		k.walk(f)
	}
}

// clone copies the subtree below a new parent.
func (n *rsNode) clone(parent *rsNode) *rsNode {
	c := &rsNode{name: n.name, kw: n.kw, ns: n.ns, parent: parent, sub: n.sub, aug: n.aug}
	for _, k := range n.kids {
		c.kids = append(c.kids, k.clone(c))
	}
	return c
}

func rsAugmentable(n *rsNode) bool {
	switch n.kw {
	case "container", "list", "choice", "case", "input", "output", "notification":
		return true
	}
	return false
}

// rsText renders a statement on one line.
func rsText(n *rsNode) string {
	var sb strings.Builder
	switch n.kw {
	case "leaf":
		return "leaf " + n.name + " { type string; }"
	case "input", "output":
		sb.WriteString(n.kw)
	default:
		sb.WriteString(n.kw + " " + n.name)
	}
	if len(n.kids) == 0 {
		if n.kw == "container" {
			return sb.String() + ";"
		}
		return sb.String() + " { }"
	}
	sb.WriteString(" {")
	if n.kw == "list" {
		sb.WriteString(" key k;")
	}
	for _, k := range n.kids {
		sb.WriteString(" " + rsText(k))
	}
	sb.WriteString(" }")
	return sb.String()
}

type rsGroup struct {
	name, ns string
	revs     []*rsFile // oldest first; a single text without revision for a plain module
	subs     []*rsFile
}

func (g *rsGroup) latest() *rsFile { return g.revs[len(g.revs)-1] }
func (g *rsGroup) multi() bool     { return len(g.revs) > 1 }

type rsImport struct {
	grp    *rsGroup
	prefix string
	date   string
	to     *rsFile // the module text the import resolves to
}

type rsFile struct {
	grp      *rsGroup
	name     string
	sub      bool
	rev      string
	older    []string // further revision statements (older dates)
	prefix   string
	imports  []*rsImport
	includes []string
	lines    []string  // body lines
	own      []*rsNode // prototypes of the top-level data nodes the text defines
	tree     *rsNode   // module texts: the reference tree
	augs     []*rsAug
}

func (f *rsFile) full() string {
	if f.rev != "" {
		return f.name + "@" + f.rev
	}
	return f.name
}
func (f *rsFile) file() string { return f.full() + ".yang" }

// tag: what the names made for a text carry (module name and the year of its revision).
func (f *rsFile) tag() string {
	t := strings.ReplaceAll(f.name, "-", "")
	if len(f.rev) >= 4 {
		t += f.rev[2:4]
	}
	return t
}

type rsAug struct {
	info    *C07Aug
	writer  *rsFile
	text    string
	created int
}

type rsCand struct {
	imp  *rsImport // nil: the writer's own tree (own prefix or none)
	tree *rsFile
	n    *rsNode
}

type rsGen struct {
	r      *rand.Rand
	seq    int
	groups []*rsGroup
	files  []*rsFile
	augs   []*rsAug
	sub    int
}

func (g *rsGen) chance(p float64) bool { return g.r.Float64() < p }
func (g *rsGen) n() int                { g.seq++; return g.seq }

// feature adds one base construct to a text: a line and the prototype nodes.
func (g *rsGen) feature(f *rsFile, kind int) {
	i := g.n()
	t := f.tag()
	nm := func(l string) string { return fmt.Sprintf("%s%sn%d", l, t, i) }
	root := &rsNode{aug: -1}
	switch kind % 7 {
	case 0:
		c := root.add("container", nm("top"))
		c.leaf(nm("l"))
		c.add("container", nm("in")).leaf(nm("x"))
	case 1:
		l := root.add("list", nm("li"))
		l.leaf("k")
		l.add("container", nm("lc"))
	case 2:
		ch := root.add("choice", nm("ch"))
		ch.add("case", nm("ca")).add("container", nm("cc")).leaf(nm("q"))
		ch.add("case", nm("cb")).leaf(nm("r"))
	case 3:
		rp := root.add("rpc", nm("rp"))
		rp.add("input", "input").leaf(nm("i"))
		rp.add("output", "output").add("container", nm("oc")).leaf(nm("o"))
	case 4:
		root.add("notification", nm("nt")).add("container", nm("nc")).leaf(nm("m"))
	case 5:
		// a container filled by a uses of a grouping of the same text
		f.lines = append(f.lines, fmt.Sprintf("grouping %s { container %s { leaf %s { type string; } } }", nm("g"), nm("gc"), nm("gl")))
		u := root.add("container", nm("u"))
		u.add("container", nm("gc")).leaf(nm("gl"))
		f.lines = append(f.lines, fmt.Sprintf("container %s { uses %s; }", nm("u"), nm("g")))
		f.own = append(f.own, root.kids...)
		return
	case 6:
		d := root.add("container", nm("deep"))
		d.add("container", nm("d1")).add("container", nm("d2")).leaf(nm("z"))
		d.leaf(nm("y"))
	}
	for _, k := range root.kids {
		f.lines = append(f.lines, rsText(k))
	}
	f.own = append(f.own, root.kids...)
}

var rsDates = []string{"2019-01-01", "2020-01-01", "2021-06-01"}

const rsStale = "2018-03-03"

// newGroup: k = 0 for a plain module without revision; layout of the submodules: 0 none, 1 one,
// 2 two side by side, 3 two and the first includes the second as well, 4 only the first is included by
// the module, the second by the first.
func (g *rsGen) newGroup(name string, k, layout int) *rsGroup {
	grp := &rsGroup{name: name, ns: "urn:" + name}
	pfx := name
	if g.chance(0.3) {
		pfx = "p" + name
	}
	var subs []string
	switch layout {
	case 1:
		subs = []string{name + "s1"}
	case 2, 3, 4:
		subs = []string{name + "s1", name + "s2"}
	}
	n := k
	if n == 0 {
		n = 1
	}
	for i := 0; i < n; i++ {
		f := &rsFile{grp: grp, name: name, prefix: pfx}
		if k > 0 {
			f.rev = rsDates[len(rsDates)-k+i]
			if i > 0 && g.chance(0.4) {
				f.older = []string{rsDates[len(rsDates)-k+i-1]}
			}
		}
		f.includes = append(f.includes, subs...)
		if layout == 4 {
			f.includes = f.includes[:1]
		}
		if len(f.includes) == 2 && g.chance(0.5) {
			f.includes[0], f.includes[1] = f.includes[1], f.includes[0]
		}
		// every revision has a container "own" (a tree of its own each) and something of its own
		j := g.n()
		own := &rsNode{name: "own", kw: "container", aug: -1}
		own.leaf("o")
		own.add("container", fmt.Sprintf("oin%sn%d", f.tag(), j)).leaf(fmt.Sprintf("ox%d", j))
		f.lines = append(f.lines, rsText(own))
		f.own = append(f.own, own)
		if g.chance(0.6) {
			g.feature(f, g.r.Intn(7))
		}
		grp.revs = append(grp.revs, f)
		g.files = append(g.files, f)
	}
	for si, sn := range subs {
		s := &rsFile{grp: grp, name: sn, sub: true, prefix: pfx}
		if g.chance(0.2) {
			s.prefix = pfx + "b" // the belongs-to prefix need not be the module's
		}
		if si == 0 && layout >= 3 {
			s.includes = []string{subs[1]}
		}
		g.feature(s, 0)
		nf := 1 + g.r.Intn(2)
		for i := 0; i < nf; i++ {
			g.feature(s, 1+g.r.Intn(6))
		}
		grp.subs = append(grp.subs, s)
		g.files = append(g.files, s)
	}
	g.groups = append(g.groups, grp)
	return grp
}

func (g *rsGen) link() {
	for _, f := range g.files {
		for _, o := range g.groups {
			if o == f.grp {
				continue
			}
			add := func(pfx string, kind int) {
				im := &rsImport{grp: o, prefix: pfx, to: o.latest()}
				if o.multi() {
					switch kind {
					case 1:
						im.date = o.latest().rev
					case 2:
						im.date = rsStale
					case 3:
						im.to = o.revs[g.r.Intn(len(o.revs)-1)]
						im.date = im.to.rev
					}
				}
				f.imports = append(f.imports, im)
			}
			pfx := o.revs[0].prefix
			if g.chance(0.2) {
				pfx = "q" + o.name
			}
			kind := 0
			switch x := g.r.Intn(10); {
			case x < 4:
			case x < 6:
				kind = 1
			case x < 7:
				kind = 2
			default:
				kind = 3
			}
			add(pfx, kind)
			if o.multi() && g.chance(0.25) {
				add(pfx+"o", (kind+1+g.r.Intn(3))%4)
			}
		}
	}
	// the reference trees
	for _, grp := range g.groups {
		for _, f := range grp.revs {
			f.tree = &rsNode{name: grp.name, kw: "module", ns: grp.ns, aug: -1}
			for _, p := range f.own {
				f.tree.kids = append(f.tree.kids, p.clone(f.tree))
			}
		}
		lt := grp.latest().tree
		for _, s := range grp.subs {
			for _, p := range s.own {
				c := p.clone(lt)
				c.sub = true
				lt.kids = append(lt.kids, c)
			}
		}
	}
}

// cands lists what file w can aim at: per import the tree it resolves to, and the own tree.
func (g *rsGen) cands(w *rsFile, ok func(*rsNode) bool) []rsCand {
	var out []rsCand
	collect := func(im *rsImport, t *rsFile) {
		old := t != t.grp.latest()
		for _, k := range t.tree.kids {
			k.walk(func(n *rsNode) {
				if !ok(n) {
					return
				}
				if old && n.up(func(x *rsNode) bool { return x.sub }) {
					return
				}
				out = append(out, rsCand{im, t, n})
			})
		}
	}
	for _, im := range w.imports {
		collect(im, im.to)
	}
	if w.sub {
		collect(nil, w.grp.latest())
	} else {
		collect(nil, w)
	}
	return out
}

// prefixIn: a prefix that file w binds to the module of namespace ns ("" none).
func (g *rsGen) prefixIn(w *rsFile, ns string, first *rsImport) string {
	if ns == w.grp.ns {
		return w.prefix
	}
	if first != nil && first.grp.ns == ns {
		return first.prefix
	}
	for _, im := range w.imports {
		if im.grp.ns == ns {
			return im.prefix
		}
	}
	return "nopfx"
}

func (g *rsGen) arg(w *rsFile, c rsCand) (arg string, steps []string) {
	var ns []*rsNode
	for x := c.n; x.parent != nil; x = x.parent {
		ns = append([]*rsNode{x}, ns...)
	}
	bare := c.imp == nil && g.chance(0.3) // own tree: the first step may go without prefix
	for i, x := range ns {
		p := g.prefixIn(w, x.nsOf(), c.imp)
		if i == 0 && c.imp != nil {
			p = c.imp.prefix
		}
		if i == 0 && c.imp == nil {
			p = w.prefix
		}
		if x.nsOf() == w.grp.ns && (bare || (i > 0 && g.chance(0.2))) {
			arg += "/" + x.name
		} else {
			arg += "/" + p + ":" + x.name
		}
		steps = append(steps, x.name)
	}
	return
}

func (g *rsGen) origin(n *rsNode) string {
	switch {
	case n.up(func(x *rsNode) bool { return x.aug >= 0 }):
		return "augment"
	case n.up(func(x *rsNode) bool { return x.sub }):
		return "submodule"
	}
	return "base"
}

func (g *rsGen) newAug(w *rsFile, c rsCand, arg string, body []*rsNode, expect string) *rsAug {
	info := &C07Aug{ID: len(g.augs), File: w.file(), Module: w.name, Owner: w.grp.name, NS: w.grp.ns, TargetModule: c.tree.full(),
		TargetArg: arg, TargetPath: c.n.path(), Expect: expect, Shape: C07RevSubShape, Origin: g.origin(c.n), UniqueNames: true,
		OldRevision: !w.sub && w != w.grp.latest()}
	var parts []string
	for _, b := range body {
		parts = append(parts, rsText(b))
		info.Defines = append(info.Defines, b.name)
	}
	a := &rsAug{info: info, writer: w, created: len(g.augs),
		text: fmt.Sprintf("augment \"%s\" { %s }", arg, strings.Join(parts, " "))}
	g.augs = append(g.augs, a)
	w.augs = append(w.augs, a)
	return a
}

// body: one or two nodes; below a choice only cases.
func (g *rsGen) body(w *rsFile, t *rsNode) []*rsNode {
	root := &rsNode{aug: -1}
	nm := func() string { return fmt.Sprintf("a%sn%d", w.tag(), g.n()) }
	one := func() {
		if t.kw == "choice" {
			root.add("case", nm()).add("container", nm()).leaf(nm())
			return
		}
		switch x := g.r.Intn(10); {
		case x < 2:
			root.leaf(nm())
		case x < 6:
			root.add("container", nm()).leaf(nm())
		case x < 7:
			c := root.add("container", nm())
			c.add("container", nm()).leaf(nm())
		case x < 8:
			l := root.add("list", nm())
			l.leaf("k")
			l.add("container", nm())
		case x < 9:
			root.add("choice", nm()).add("case", nm()).add("container", nm()).leaf(nm())
		default:
			root.add("container", nm())
		}
	}
	one()
	if g.chance(0.3) {
		one()
	}
	return root.kids
}

// apply creates an augment of w on c and grafts it in the reference.
func (g *rsGen) apply(w *rsFile, c rsCand) *rsAug {
	arg, _ := g.arg(w, c)
	body := g.body(w, c.n)
	a := g.newAug(w, c, arg, body, C07Apply)
	for _, b := range body {
		k := b.clone(c.n)
		k.ns = w.grp.ns
		k.aug = a.info.ID
		c.n.kids = append(c.n.kids, k)
		a.info.Nodes = append(a.info.Nodes, C07Node{Mod: c.tree.full(), Path: k.path(), NS: w.grp.ns})
	}
	if c.tree.grp.multi() && c.n.up(func(x *rsNode) bool { return x.sub }) {
		g.sub++
	}
	return a
}

// pick prefers targets in or below the nodes of a shared submodule of a group loaded in revisions.
func (g *rsGen) pick(cs []rsCand, want func(rsCand) bool) (rsCand, bool) {
	var pref []rsCand
	for _, c := range cs {
		if want(c) {
			pref = append(pref, c)
		}
	}
	switch {
	case len(pref) > 0 && (len(pref) == len(cs) || g.chance(0.8)):
		return pref[g.r.Intn(len(pref))], true
	case len(cs) > 0:
		return cs[g.r.Intn(len(cs))], true
	}
	return rsCand{}, false
}

func rsInSharedSub(c rsCand) bool {
	return c.tree.grp.multi() && c.n.up(func(x *rsNode) bool { return x.sub })
}

// C07RevSub generates set number j of the family: the number of revisions of t and the layout of its
// submodules cycle with j, everything else is drawn from r.
func C07RevSub(r *rand.Rand, j int) *C07RevSubSet {
	g := &rsGen{r: r}
	k := 2 + j%2
	layout := 1 + (j/2)%4
	g.newGroup("t", k, layout)
	second := ""
	if g.chance(0.4) {
		// an augmenting module that is itself loaded in revisions sharing a submodule
		g.newGroup("e", 2, 1+g.r.Intn(2))
		second = " e=2"
	}
	bl := 0
	if g.chance(0.3) {
		bl = 1
	}
	g.newGroup("b", 0, bl)
	if g.chance(0.5) {
		g.newGroup("c", 0, 0)
	}
	g.link()

	na := 2 + g.r.Intn(5)
	var last *rsAug
	for i := 0; i < na; i++ {
		w := g.files[g.r.Intn(len(g.files))]
		if i == 0 || g.chance(0.3) {
			// a writer outside group t, so that the target is reached through an import
			for tries := 0; tries < 8 && w.grp == g.groups[0]; tries++ {
				w = g.files[g.r.Intn(len(g.files))]
			}
		}
		cs := g.cands(w, rsAugmentable)
		if i == 0 {
			// the first augment comes from a text that reaches a node of a shared submodule of t
			reaches := func(cs []rsCand) bool {
				for _, c := range cs {
					if rsInSharedSub(c) && c.tree.grp == g.groups[0] {
						return true
					}
				}
				return false
			}
			for tries := 0; tries < 12 && !reaches(cs); tries++ {
				w = g.files[g.r.Intn(len(g.files))]
				cs = g.cands(w, rsAugmentable)
			}
		}
		want := rsInSharedSub
		if last != nil && g.chance(0.45) {
			// continue the chain: below what the previous augment made
			id := last.info.ID
			want = func(c rsCand) bool { return c.n.up(func(x *rsNode) bool { return x.aug == id }) }
		}
		c, ok := g.pick(cs, want)
		if !ok {
			continue
		}
		last = g.apply(w, c)
	}
	clean := true
	if g.chance(0.35) {
		nf := 1 + g.r.Intn(2)
		for i := 0; i < nf; i++ {
			w := g.files[g.r.Intn(len(g.files))]
			switch g.r.Intn(3) {
			case 0: // missing: a step that does not exist below an existing node
				c, ok := g.pick(g.cands(w, rsAugmentable), rsInSharedSub)
				if !ok {
					continue
				}
				arg, _ := g.arg(w, c)
				x := &rsNode{name: fmt.Sprintf("nosuch%d", g.n()), kw: "container", parent: c.n, aug: -1}
				arg += "/" + g.prefixIn(w, c.n.nsOf(), c.imp) + ":" + x.name
				lf := &rsNode{name: fmt.Sprintf("a%sn%d", w.tag(), g.n()), kw: "leaf", aug: -1}
				a := g.newAug(w, rsCand{c.imp, c.tree, x}, arg, []*rsNode{lf}, C07MissingT)
				a.info.TargetPath, a.info.Origin = "", ""
				clean = false
			case 1: // a leaf as target
				c, ok := g.pick(g.cands(w, func(n *rsNode) bool { return n.kw == "leaf" && n.name != "k" }), rsInSharedSub)
				if !ok {
					continue
				}
				arg, _ := g.arg(w, c)
				lf := &rsNode{name: fmt.Sprintf("a%sn%d", w.tag(), g.n()), kw: "leaf", aug: -1}
				g.newAug(w, c, arg, []*rsNode{lf}, C07NoChildren)
				clean = false
			case 2: // two augments add the same name to one node
				w2 := g.files[g.r.Intn(len(g.files))]
				c, ok := g.pick(g.cands(w, func(n *rsNode) bool { return rsAugmentable(n) && n.kw != "choice" }), rsInSharedSub)
				if !ok {
					continue
				}
				var c2 *rsCand
				for _, o := range g.cands(w2, rsAugmentable) {
					if o.n == c.n {
						o := o
						c2 = &o
						break
					}
				}
				if c2 == nil {
					continue
				}
				dup := fmt.Sprintf("dup%d", g.n())
				for _, p := range []struct {
					w *rsFile
					c rsCand
				}{{w, c}, {w2, *c2}} {
					arg, _ := g.arg(p.w, p.c)
					lf := &rsNode{name: dup, kw: "leaf", aug: -1}
					a := g.newAug(p.w, p.c, arg, []*rsNode{lf}, C07Collide)
					a.info.UniqueNames = false
				}
				clean = false
			}
		}
	}
	return g.finish(clean, fmt.Sprintf("t=%d subs=%d%s", k, layout, second))
}

func (g *rsGen) finish(clean bool, layout string) *C07RevSubSet {
	s := &C07RevSubSet{AugBlocks: map[string][2]int{}, ExpectClean: clean, NSMod: map[string]string{}, Layout: layout, SubTargets: g.sub}
	order := g.r.Intn(3) // written order inside each text: 0 dependents first, 1 as created, 2 random
	files := append([]*rsFile{}, g.files...)
	g.r.Shuffle(len(files), func(i, j int) { files[i], files[j] = files[j], files[i] })
	for _, grp := range g.groups {
		s.NSMod[grp.ns] = grp.name
	}
	for _, f := range files {
		switch order {
		case 0:
			sort.SliceStable(f.augs, func(i, j int) bool { return f.augs[i].created > f.augs[j].created })
		case 2:
			g.r.Shuffle(len(f.augs), func(i, j int) { f.augs[i], f.augs[j] = f.augs[j], f.augs[i] })
		}
		var sb strings.Builder
		if f.sub {
			fmt.Fprintf(&sb, "submodule %s {\n  belongs-to %s { prefix %s; }\n", f.name, f.grp.name, f.prefix)
		} else {
			fmt.Fprintf(&sb, "module %s {\n  namespace \"%s\";\n  prefix %s;\n", f.name, f.grp.ns, f.prefix)
		}
		for _, im := range f.imports {
			if im.date != "" {
				fmt.Fprintf(&sb, "  import %s { prefix %s; revision-date %s; }\n", im.grp.name, im.prefix, im.date)
			} else {
				fmt.Fprintf(&sb, "  import %s { prefix %s; }\n", im.grp.name, im.prefix)
			}
		}
		for _, in := range f.includes {
			fmt.Fprintf(&sb, "  include %s;\n", in)
		}
		if f.rev != "" {
			fmt.Fprintf(&sb, "  revision %s;\n", f.rev)
		}
		for _, o := range f.older {
			fmt.Fprintf(&sb, "  revision %s;\n", o)
		}
		for _, l := range f.lines {
			sb.WriteString("  " + l + "\n")
		}
		first := strings.Count(sb.String(), "\n") + 1
		for i, a := range f.augs {
			a.info.Line = first + i
			sb.WriteString("  " + a.text + "\n")
		}
		sb.WriteString("}\n")
		if len(f.augs) > 0 {
			s.AugBlocks[f.file()] = [2]int{first, len(f.augs)}
		}
		s.Names = append(s.Names, f.file())
		s.Texts = append(s.Texts, sb.String())
	}
	for _, a := range g.augs {
		s.Augs = append(s.Augs, a.info)
	}
	if clean {
		for _, grp := range g.groups {
			for _, f := range grp.revs {
				f.tree.walk(func(x *rsNode) {
					s.Forest = append(s.Forest, C07Node{Mod: f.full(), Path: x.path(), NS: x.nsOf()})
				})
				if f == grp.latest() {
					continue
				}
				// nodes of the shared submodules in an older revision: present or absent (D63), not judged
				for _, sf := range grp.subs {
					for _, p := range sf.own {
						c := p.clone(f.tree)
						c.walk(func(x *rsNode) {
							s.Forest = append(s.Forest, C07Node{Mod: f.full(), Path: x.path(), NS: grp.ns, Opt: true})
						})
					}
				}
			}
		}
	}
	return s
}
