package gen

// C08: base schemas and sets of deviations for the with / without-deviating-module comparison.
// Nothing here changes Generate: the random part calls it with Deviations switched off and adds
// its own deviating modules.

import (
	"fmt"
	"math/rand"
	"sort"
	"strings"
)

// DevStmt is one deviate statement; "-" (or nil Def) = substatement not given.
type DevStmt struct {
	Kind  string  `json:"kind"`
	Cfg   string  `json:"cfg"`  // unset | true | false
	Mand  string  `json:"mand"` // unset | true | false
	Def   *string `json:"def,omitempty"`
	Min   string  `json:"min"`   // - | decimal
	Max   string  `json:"max"`   // - | unbounded | decimal
	Units string  `json:"units"` // - | text
	Type  string  `json:"type"`  // - | type name
}

func NewDevStmt(kind string) DevStmt {
	return DevStmt{Kind: kind, Cfg: "unset", Mand: "unset", Min: "-", Max: "-", Units: "-", Type: "-"}
}

// Set sets property p of the statement to v.
func (s *DevStmt) Set(p, v string) {
	switch p {
	case "config":
		s.Cfg = v
	case "mandatory":
		s.Mand = v
	case "default":
		s.Def = &v
	case "min-elements":
		s.Min = v
	case "max-elements":
		s.Max = v
	case "units":
		s.Units = v
	case "type":
		s.Type = v
	}
}

func (s DevStmt) text(ind string) string {
	var sb strings.Builder
	sb.WriteString(ind + "deviate " + s.Kind)
	var subs []string
	// written in an order different from the one the library visits them in
	if s.Units != "-" {
		subs = append(subs, "units "+quote(s.Units))
	}
	if s.Def != nil {
		subs = append(subs, "default "+quote(*s.Def))
	}
	if s.Cfg != "unset" {
		subs = append(subs, "config "+s.Cfg)
	}
	if s.Max != "-" {
		subs = append(subs, "max-elements "+s.Max)
	}
	if s.Mand != "unset" {
		subs = append(subs, "mandatory "+s.Mand)
	}
	if s.Type != "-" {
		subs = append(subs, "type "+s.Type)
	}
	if s.Min != "-" {
		subs = append(subs, "min-elements "+s.Min)
	}
	if len(subs) == 0 {
		sb.WriteString(";\n")
		return sb.String()
	}
	sb.WriteString(" {\n")
	for _, x := range subs {
		if strings.HasSuffix(x, "}") {
			sb.WriteString(ind + "  " + x + "\n") // a type with a body
			continue
		}
		sb.WriteString(ind + "  " + x + ";\n")
	}
	sb.WriteString(ind + "}\n")
	return sb.String()
}

// Deviation is one deviation statement of a deviating module.
type Deviation struct {
	Module string `json:"module"` // deviating module
	Arg    string `json:"arg"`    // the written target path
	// Target is the path of the target as the dump prints it ("/b/t/input"); Missing: the path is
	// meant not to resolve.
	Target string `json:"target"`
	// TargetMod is the full name (name or name@revision) of the module whose tree holds the target.
	TargetMod string `json:"target_mod"`
	Missing   bool   `json:"missing,omitempty"`
	// Sub: the deviation is written in a submodule (submodules take their turn after all modules).
	Sub bool `json:"sub,omitempty"`
	// Implicit: the target is an rpc input / output that the base does not write (the path lookup
	// creates it).
	Implicit bool      `json:"implicit,omitempty"`
	Stmts   []DevStmt `json:"stmts"`
	// Spelt (with Missing and TargetMod): a near miss (c08near.go).  The dump path the written steps
	// spell ("/b/top/port" for /b:top/b:port) in the tree TargetMod; the runner lets the specification
	// decide on the Go dump of the run without the deviating modules whether it names a node (then it
	// is an ordinary target) or not (then the deviation must be reported).  Near: which steps were left out.
	Spelt string `json:"spelt,omitempty"`
	Near  string `json:"near,omitempty"`
}

// C08Case is one base schema with its deviating modules.
type C08Case struct {
	Label     string      `json:"label"`
	BaseNames []string    `json:"base_names"`
	BaseTexts []string    `json:"base_texts"`
	DevNames  []string    `json:"dev_names"`
	DevTexts  []string    `json:"dev_texts"`
	DevMods   []string    `json:"dev_mods"` // module names of the deviating modules
	Devs      []Deviation `json:"devs"`     // in source order per module, modules in load order
	IgnoreNS  bool        `json:"ignore_ns,omitempty"`
	// BadType: contains a replacement type that does not resolve (compared on the Go side only
	// while the resolver model runs with the placeholder type layer).
	BadType bool `json:"bad_type,omitempty"`
	// Combo describes the enumerated combination (exhaustive part) for the coverage count.
	Combo string `json:"combo,omitempty"`
	// WithBaseTexts, when set, are the texts of the base files in the run WITH the deviations (same
	// names as BaseNames): deviations written inside a submodule of the base itself.
	WithBaseTexts []string `json:"with_base_texts,omitempty"`
	// StrippedDevTexts, when set (same length as DevTexts), are the deviating modules without their
	// deviation statements: the deviating modules define schema nodes of their own, so the run WITHOUT
	// the deviations loads them too, and their own trees take part in the frame comparison.
	StrippedDevTexts []string `json:"stripped_dev_texts,omitempty"`
	// PathRoots, when set, makes the run WITH the deviations a files-on-disk run: only these files are
	// handed to Parse, every other file is on the search path and is loaded by the first Process when an
	// import or include reaches it.  LoaderNames / LoaderTexts: modules added to that run only, whose
	// imports reach the deviating modules (they define nothing).
	PathRoots   []string `json:"path_roots,omitempty"`
	LoaderNames []string `json:"loader_names,omitempty"`
	LoaderTexts []string `json:"loader_texts,omitempty"`
	// Malformed: a deviate substatement has a value its keyword does not admit (config "", min-elements "");
	// the conversion of the deviating module must report it.
	Malformed bool `json:"malformed,omitempty"`
	// Hist: the runner also runs HISTORIES on one Modules value for this case (Process, ParseOptions
	// changed with or without a load in between, Process again / GetModule) and requires every last
	// outcome to be what a fresh Modules value gives under the options then in force (c08hist.go).
	Hist bool `json:"hist,omitempty"`
}

// Nodes renders the deviation as statements (for deviations placed into a generated (sub)module).
func (d Deviation) Node() *Node {
	n := &Node{Kw: "deviation", Arg: d.Arg}
	for _, s := range d.Stmts {
		dv := n.add("deviate", s.Kind)
		if s.Units != "-" {
			dv.add("units", s.Units)
		}
		if s.Def != nil {
			dv.add("default", *s.Def)
		}
		if s.Cfg != "unset" {
			dv.add("config", s.Cfg)
		}
		if s.Max != "-" {
			dv.add("max-elements", s.Max)
		}
		if s.Mand != "unset" {
			dv.add("mandatory", s.Mand)
		}
		if s.Type != "-" {
			dv.add("type", s.Type)
		}
		if s.Min != "-" {
			dv.add("min-elements", s.Min)
		}
	}
	return n
}

// devModuleText renders a deviating module that imports the given (module, prefix) pairs.
func devModuleText(name string, imports [][2]string, devs []Deviation) string {
	return devModuleTextX(name, imports, devs, "", false)
}

// devModuleTextX: own = schema nodes the deviating module defines itself (rendered text); strip = leave
// the deviation statements out (the module as it is "without its deviations").
func devModuleTextX(name string, imports [][2]string, devs []Deviation, own string, strip bool) string {
	var sb strings.Builder
	fmt.Fprintf(&sb, "module %s {\n  namespace \"urn:%s\";\n  prefix %s;\n", name, name, name)
	for _, im := range imports {
		if i := strings.IndexByte(im[0], '@'); i > 0 {
			// "name@date": the import pins that revision
			fmt.Fprintf(&sb, "  import %s { prefix %s; revision-date %s; }\n", im[0][:i], im[1], im[0][i+1:])
			continue
		}
		fmt.Fprintf(&sb, "  import %s { prefix %s; }\n", im[0], im[1])
	}
	// typedefs of the deviating module itself, usable as replacement types: with units and a default,
	// derived from that one, and without either
	sb.WriteString("  typedef dtu { type string; units seconds; default 5; }\n  typedef dtc { type dtu; }\n  typedef dtn { type int8; }\n")
	// one reference leaf per replacement type used here: its record shows how that type is dumped
	seen := map[string]bool{}
	for _, d := range devs {
		for _, s := range d.Stmts {
			if d.Module == name && s.Type != "-" && !seen[s.Type] && C08KnownType(s.Type) {
				seen[s.Type] = true
				fmt.Fprintf(&sb, "  leaf %s { type %s; }\n", C08TypeRefLeaf(s.Type), s.Type)
			}
		}
	}
	sb.WriteString(own)
	for _, d := range devs {
		if d.Module != name || strip {
			continue
		}
		fmt.Fprintf(&sb, "  deviation %s {\n", quote(d.Arg))
		for _, s := range d.Stmts {
			sb.WriteString(s.text("    "))
		}
		sb.WriteString("  }\n")
	}
	sb.WriteString("}\n")
	return sb.String()
}

// C08KnownType: the replacement types the generator uses that resolve: built-ins, the typedefs every
// deviating module defines (dtu, dtc, dtn), and prefixed references to typedefs of imported modules.
func C08KnownType(t string) bool {
	if strings.Contains(t, "{") {
		return false // inline restriction: no reference leaf (used for unresolvable restrictions only)
	}
	if t == "dtu" || t == "dtc" || t == "dtn" || strings.Contains(t, ":") {
		return true
	}
	for _, x := range leafTypes {
		if x == t {
			return true
		}
	}
	return false
}

// C08TypeRefLeaf is the name of the reference leaf of type t in a deviating module.
func C08TypeRefLeaf(t string) string { return "zt-" + strings.ReplaceAll(t, ":", "..") }

// ---------------------------------------------------------------------------------------------
// exhaustive part

// c08Targets: target kinds with the properties that can be written on them in the base schema.
var c08Targets = []string{"leaf", "leaf-list", "list", "container", "choice", "anyxml", "rpc-input"}
var c08Props = []string{"config", "default", "mandatory", "min-elements", "max-elements", "units", "type"}

// writable says whether property p can be present on target kind t in a base schema so that the
// schema tree records it.
func c08Writable(t, p string) bool {
	switch t {
	case "leaf":
		return p == "config" || p == "default" || p == "mandatory" || p == "type"
	case "leaf-list":
		return p == "config" || p == "default" || p == "min-elements" || p == "max-elements" || p == "type"
	case "list":
		return p == "config" || p == "min-elements" || p == "max-elements"
	case "container":
		return p == "config"
	case "choice":
		return p == "config" || p == "default" || p == "mandatory"
	case "anyxml":
		return p == "config" || p == "mandatory"
	}
	return false
}

// value of property p in the deviate statement, and in the base for state "same" / "different".
func c08Values(t, p string) (dev, same, diff string) {
	switch p {
	case "config":
		return "true", "true", "false"
	case "mandatory":
		return "true", "true", "false"
	case "default":
		if t == "choice" {
			return "c1", "c1", "c2"
		}
		if t == "leaf-list" {
			return "a", "a", "z"
		}
		return "d1", "d1", "d2"
	case "min-elements":
		return "2", "2", "3"
	case "max-elements":
		return "10", "10", "3"
	case "units":
		return "u1", "u1", "u2"
	case "type":
		return "int8", "int8", "string"
	}
	return "", "", ""
}

// c08Base renders the base module b with one target node t of the given kind carrying the given
// property substatements, between siblings and above children (so that there is a frame to check).
func c08Base(kind string, props [][2]string) (text string, arg string, target string) {
	var sb strings.Builder
	sb.WriteString("module b {\n  namespace \"urn:b\";\n  prefix b;\n")
	sb.WriteString("  leaf s0 { type string; default keep; }\n")
	has := func(p string) bool {
		for _, kv := range props {
			if kv[0] == p {
				return true
			}
		}
		return false
	}
	ps := func() string {
		var x strings.Builder
		for _, kv := range props {
			if kv[0] == "default" && kind == "leaf-list" {
				// a leaf-list carries two defaults: the given one and another
				fmt.Fprintf(&x, "    default %s;\n    default b;\n", kv[1])
				continue
			}
			fmt.Fprintf(&x, "    %s %s;\n", kv[0], kv[1])
		}
		return x.String()
	}
	arg, target = "/b:t", "/b/t"
	switch kind {
	case "leaf":
		sb.WriteString("  leaf t {\n")
		if !has("type") {
			sb.WriteString("    type string;\n")
		}
		sb.WriteString(ps() + "  }\n")
	case "leaf-list":
		sb.WriteString("  leaf-list t {\n")
		if !has("type") {
			sb.WriteString("    type string;\n")
		}
		sb.WriteString(ps() + "  }\n")
	case "list":
		sb.WriteString("  list t {\n    key k;\n    leaf k { type string; }\n    leaf v { type int8; units below; }\n" + ps() + "  }\n")
	case "container":
		sb.WriteString("  container t {\n    leaf v { type int8; default 1; }\n    container w { leaf x { type string; } }\n" + ps() + "  }\n")
	case "choice":
		sb.WriteString("  choice t {\n    leaf c1 { type string; }\n    container c2 { leaf x { type string; } }\n" + ps() + "  }\n")
	case "anyxml":
		sb.WriteString("  anyxml t {\n" + ps() + "  }\n")
	case "rpc-input":
		sb.WriteString("  rpc t {\n    input { leaf i { type string; } }\n    output { leaf o { type string; } }\n  }\n")
		arg, target = "/b:t/b:input", "/b/t/input"
	}
	sb.WriteString("  leaf-list s1 { type string; min-elements 1; max-elements 5; default keep; }\n")
	sb.WriteString("  container s2 { config false; leaf y { type string; mandatory true; } }\n")
	sb.WriteString("}\n")
	return sb.String(), arg, target
}

func c08One(label, combo, baseText string, devs []Deviation, mods []string, ignoreNS bool) C08Case {
	for i := range devs {
		devs[i].TargetMod = "b"
	}
	c := C08Case{Label: label, Combo: combo, BaseNames: []string{"b.yang"}, BaseTexts: []string{baseText}, Devs: devs,
		DevMods: mods, IgnoreNS: ignoreNS}
	for _, m := range mods {
		c.DevNames = append(c.DevNames, m+".yang")
		c.DevTexts = append(c.DevTexts, devModuleText(m, [][2]string{{"b", "b"}}, devs))
	}
	return c
}

// C08Exhaustive enumerates deviate kind x property x target kind x state of the property in the
// target (absent / present with the statement's value / present with another value), i.e. every
// way the precondition of the statement can hold or fail, plus not-supported under both options,
// unknown kinds, missing targets, unresolvable replacement types, boundary values of the element
// bounds, and all ordered pairs of statements on one property (written order).
func C08Exhaustive() []C08Case {
	var out []C08Case
	for _, t := range c08Targets {
		for _, p := range c08Props {
			states := []string{"absent"}
			if c08Writable(t, p) {
				states = []string{"absent", "same", "different"}
				if p == "type" {
					states = []string{"same", "different"} // a leaf always has a type
				}
			}
			for _, st := range states {
				dv, same, diff := c08Values(t, p)
				var props [][2]string
				switch st {
				case "same":
					props = [][2]string{{p, same}}
				case "different":
					props = [][2]string{{p, diff}}
				}
				for _, k := range []string{"add", "replace", "delete"} {
					text, arg, target := c08Base(t, props)
					s := NewDevStmt(k)
					s.Set(p, dv)
					combo := fmt.Sprintf("%s/%s/%s/%s", k, p, t, st)
					out = append(out, c08One(combo, combo, text, []Deviation{{Module: "dv", Arg: arg, Target: target, Stmts: []DevStmt{s}}},
						[]string{"dv"}, false))
				}
			}
		}
		// not-supported under both options, twice, followed by another statement; unknown kind
		for _, ins := range []bool{false, true} {
			text, arg, target := c08Base(t, nil)
			combo := fmt.Sprintf("not-supported/-/%s/ignore=%v", t, ins)
			out = append(out, c08One(combo, combo, text, []Deviation{{Module: "dv", Arg: arg, Target: target,
				Stmts: []DevStmt{NewDevStmt("not-supported")}}}, []string{"dv"}, ins))
			combo = fmt.Sprintf("not-supported-twice/-/%s/ignore=%v", t, ins)
			out = append(out, c08One(combo, combo, text, []Deviation{{Module: "dv", Arg: arg, Target: target,
				Stmts: []DevStmt{NewDevStmt("not-supported"), NewDevStmt("not-supported")}}}, []string{"dv"}, ins))
			s := NewDevStmt("add")
			s.Set("units", "u9")
			combo = fmt.Sprintf("not-supported-then-add/units/%s/ignore=%v", t, ins)
			out = append(out, c08One(combo, combo, text, []Deviation{{Module: "dv", Arg: arg, Target: target,
				Stmts: []DevStmt{NewDevStmt("not-supported"), s}}}, []string{"dv"}, ins))
			// a second deviation (other module) naming the removed node
			combo = fmt.Sprintf("not-supported-then-deviation/units/%s/ignore=%v", t, ins)
			out = append(out, c08One(combo, combo, text, []Deviation{
				{Module: "dva", Arg: arg, Target: target, Stmts: []DevStmt{NewDevStmt("not-supported")}},
				{Module: "dvb", Arg: arg, Target: target, Stmts: []DevStmt{s}}}, []string{"dvb", "dva"}, ins))
		}
		{
			text, arg, target := c08Base(t, nil)
			s := NewDevStmt("shrink")
			s.Set("units", "u9")
			combo := fmt.Sprintf("unknown-kind/units/%s", t)
			out = append(out, c08One(combo, combo, text, []Deviation{{Module: "dv", Arg: arg, Target: target, Stmts: []DevStmt{s}}},
				[]string{"dv"}, false))
		}
	}
	// an rpc input / output the base does not write: the lookup creates it, then it is deviated
	for _, io := range []string{"input", "output"} {
		base := "module b {\n  namespace \"urn:b\";\n  prefix b;\n  leaf s0 { type string; }\n  rpc t { " +
			map[string]string{"input": "output { leaf o { type string; } }", "output": "input { leaf i { type string; } }"}[io] + " }\n}\n"
		for _, k := range []string{"add", "not-supported"} {
			for _, ins := range []bool{false, true} {
				s := NewDevStmt(k)
				if k == "add" {
					s.Set("config", "true")
				}
				combo := fmt.Sprintf("implicit-%s/%s/ignore=%v", io, k, ins)
				out = append(out, c08One(combo, combo, base, []Deviation{{Module: "dv", Arg: "/b:t/b:" + io, Target: "/b/t/" + io,
					Implicit: true, Stmts: []DevStmt{s}}}, []string{"dv"}, ins))
			}
		}
	}
	// missing target, every kind
	for _, k := range []string{"add", "replace", "delete", "not-supported"} {
		text, _, _ := c08Base("leaf", nil)
		s := NewDevStmt(k)
		if k != "not-supported" {
			s.Set("config", "true")
		}
		for i, arg := range []string{"/b:nosuch", "/b:t/b:nosuch", "/b:s2/b:y/b:deeper"} {
			combo := fmt.Sprintf("missing-target/%s/%d", k, i)
			out = append(out, c08One(combo, combo, text, []Deviation{{Module: "dv", Arg: arg, Missing: true, Stmts: []DevStmt{s}}},
				[]string{"dv"}, false))
		}
	}
	// a node below a removed node is gone too: deviating it afterwards has no target
	{
		text, _, _ := c08Base("container", nil)
		s := NewDevStmt("add")
		s.Set("units", "u9")
		for _, ins := range []bool{false, true} {
			combo := fmt.Sprintf("below-removed/ignore=%v", ins)
			out = append(out, c08One(combo, combo, text, []Deviation{
				{Module: "dv", Arg: "/b:t", Target: "/b/t", Stmts: []DevStmt{NewDevStmt("not-supported")}},
				{Module: "dv", Arg: "/b:t/b:w/b:x", Target: "/b/t/w/x", Stmts: []DevStmt{s}}}, []string{"dv"}, ins))
			combo = fmt.Sprintf("child-removed/ignore=%v", ins)
			out = append(out, c08One(combo, combo, text, []Deviation{
				{Module: "dv", Arg: "/b:t/b:w", Target: "/b/t/w", Stmts: []DevStmt{NewDevStmt("not-supported")}},
				{Module: "dv", Arg: "/b:t", Target: "/b/t", Stmts: []DevStmt{s}}}, []string{"dv"}, ins))
		}
	}
	// unresolvable replacement type
	for _, k := range []string{"add", "replace"} {
		for _, t := range []string{"leaf", "leaf-list", "container"} {
			text, arg, target := c08Base(t, nil)
			s := NewDevStmt(k)
			s.Set("type", "nosuchtype")
			combo := fmt.Sprintf("bad-type/%s/%s", k, t)
			c := c08One(combo, combo, text, []Deviation{{Module: "dv", Arg: arg, Target: target, Stmts: []DevStmt{s}}}, []string{"dv"}, false)
			c.BadType = true
			out = append(out, c)
		}
	}
	// a replacement type that resolves to a built-in but whose restriction is wrong is unresolvable too
	for _, k := range []string{"add", "replace"} {
		for _, t := range []string{"leaf", "leaf-list"} {
			for i, ty := range []string{`int8 { range "5..1"; }`, `string { length "a..b"; }`, `int8 { range "1000"; }`, `uint8 { range "-1..2"; }`} {
				text, arg, target := c08Base(t, nil)
				s := NewDevStmt(k)
				s.Set("type", ty)
				combo := fmt.Sprintf("bad-type-restriction/%s/%s/%d", k, t, i)
				c := c08One(combo, combo, text, []Deviation{{Module: "dv", Arg: arg, Target: target, Stmts: []DevStmt{s}}}, []string{"dv"}, false)
				c.BadType = true
				out = append(out, c)
			}
		}
	}
	// boundary values of the element bounds
	for _, t := range []string{"leaf-list", "list", "leaf"} {
		for _, k := range []string{"add", "replace", "delete"} {
			for _, pv := range [][2]string{{"min-elements", "0"}, {"max-elements", "unbounded"}, {"max-elements", "18446744073709551615"},
				{"min-elements", "18446744073709551615"}, {"max-elements", "1"}} {
				for _, st := range []string{"absent", "present"} {
					var props [][2]string
					if st == "present" {
						if t == "leaf" {
							continue
						}
						props = [][2]string{{"min-elements", "2"}, {"max-elements", "10"}}
					}
					text, arg, target := c08Base(t, props)
					s := NewDevStmt(k)
					s.Set(pv[0], pv[1])
					combo := fmt.Sprintf("bound-value/%s/%s=%s/%s/%s", k, pv[0], pv[1], t, st)
					out = append(out, c08One(combo, combo, text, []Deviation{{Module: "dv", Arg: arg, Target: target, Stmts: []DevStmt{s}}},
						[]string{"dv"}, false))
				}
			}
		}
	}
	// both bounds in one statement on a non-list (the second is never looked at), and with other properties
	for _, k := range []string{"add", "replace", "delete"} {
		text, arg, target := c08Base("leaf", nil)
		s := NewDevStmt(k)
		s.Set("min-elements", "1")
		s.Set("max-elements", "2")
		s.Set("units", "u9")
		s.Set("config", "false")
		combo := fmt.Sprintf("bounds-and-more/%s/leaf", k)
		out = append(out, c08One(combo, combo, text, []Deviation{{Module: "dv", Arg: arg, Target: target, Stmts: []DevStmt{s}}}, []string{"dv"}, false))
	}
	// written order: every ordered pair of kinds on one property, in one deviation, in two deviations
	// of one module, and in two modules (applied in module name order, whatever the load order)
	type pp struct{ t, p string }
	for _, x := range []pp{{"leaf", "default"}, {"leaf-list", "default"}, {"list", "min-elements"}, {"leaf-list", "max-elements"}, {"leaf", "config"}} {
		dv, same, _ := c08Values(x.t, x.p)
		for _, st := range []string{"absent", "same"} {
			var props [][2]string
			if st == "same" {
				props = [][2]string{{x.p, same}}
			}
			for _, k1 := range []string{"add", "replace", "delete"} {
				for _, k2 := range []string{"add", "replace", "delete"} {
					text, arg, target := c08Base(x.t, props)
					s1, s2 := NewDevStmt(k1), NewDevStmt(k2)
					s1.Set(x.p, dv)
					s2.Set(x.p, dv)
					if k2 == "replace" {
						_, _, other := c08Values(x.t, x.p)
						s2.Set(x.p, other)
					}
					combo := fmt.Sprintf("order/%s+%s/%s/%s/%s", k1, k2, x.p, x.t, st)
					out = append(out, c08One(combo+"/one-deviation", combo+"/one-deviation", text,
						[]Deviation{{Module: "dv", Arg: arg, Target: target, Stmts: []DevStmt{s1, s2}}}, []string{"dv"}, false))
					out = append(out, c08One(combo+"/two-deviations", combo+"/two-deviations", text,
						[]Deviation{{Module: "dv", Arg: arg, Target: target, Stmts: []DevStmt{s1}},
							{Module: "dv", Arg: arg, Target: target, Stmts: []DevStmt{s2}}}, []string{"dv"}, false))
					// dva is applied before dvb although dvb is loaded first
					out = append(out, c08One(combo+"/two-modules", combo+"/two-modules", text,
						[]Deviation{{Module: "dva", Arg: arg, Target: target, Stmts: []DevStmt{s1}},
							{Module: "dvb", Arg: arg, Target: target, Stmts: []DevStmt{s2}}}, []string{"dvb", "dva"}, false))
				}
			}
		}
	}
	out = append(out, c08TypedefCases()...)
	out = append(out, c08EmptyStringCases()...)
	out = append(out, c08SubmoduleCases()...)
	out = append(out, c08TypeOnlyCases()...)
	out = append(out, c08ShadowCases()...)
	out = append(out, c08RevisionCases()...)
	out = append(out, c08AugmentedCases()...)
	out = append(out, c08NearMissCases()...)
	out = append(out, c08HistoryCases()...) // last: the indices of the older cases stay what they were
	out = append(out, c08LateCases()...)    // (after them, for the same reason) targets grafted by the left-over augment stage: c08late.go
	return out
}

// c08AugmentedCases: deviation targets at and below nodes that OTHER modules augmented into the base:
// a shorthand leaf / container augmented into a foreign choice (the implied case around it is the
// library's), an explicit case, nodes below them, nodes augmented into an rpc input, into a container,
// and a chain (a second module augmenting what the first one added).  Paths in the RFC spelling (every
// step carries the prefix of the module that defines the node) and in the other spellings the library
// accepts (only the first prefix selects the tree: the base prefix on every step, later steps without
// prefix, later steps all with the augmenting module's prefix).
func c08AugmentedCases() []C08Case {
	var out []C08Case
	st := func(kind string, pv ...string) DevStmt {
		s := NewDevStmt(kind)
		for i := 0; i+1 < len(pv); i += 2 {
			s.Set(pv[i], pv[i+1])
		}
		return s
	}
	bText := "module b {\n  namespace \"urn:b\";\n  prefix b;\n  leaf s0 { type string; default keep; }\n" +
		"  container c { choice ch { leaf own { type string; default d1; } } leaf cl { type string; } }\n" +
		"  rpc r { input { leaf i { type string; } } output { leaf o { type string; } } }\n}\n"
	aText := "module a {\n  namespace \"urn:a\";\n  prefix a;\n  import b { prefix b; }\n" +
		"  augment /b:c/b:ch {\n    leaf x { type string; default d1; }\n    container k { leaf kx { type string; default d1; } }\n" +
		"    case cs { leaf y { type string; default d1; } }\n  }\n" +
		"  augment /b:r/b:input {\n    leaf ai { type string; default d1; }\n    container ac { leaf z { type string; default d1; } }\n  }\n" +
		"  augment /b:c {\n    container ac { leaf z { type string; default d1; } }\n  }\n}\n"
	a2Text := "module a2 {\n  namespace \"urn:a2\";\n  prefix a2;\n  import b { prefix b; }\n  import a { prefix a; }\n" +
		"  augment /b:c/a:ac {\n    leaf z2 { type string; default d1; }\n  }\n" +
		"  augment /b:r/b:input/a:ac {\n    leaf-list zl { type string; default d1; }\n  }\n}\n"
	type step struct{ pfx, name string }
	targets := []struct {
		name  string
		steps []step
	}{
		{"choice-shorthand-leaf", []step{{"b", "c"}, {"b", "ch"}, {"a", "x"}, {"a", "x"}}},
		{"choice-shorthand-implied-case", []step{{"b", "c"}, {"b", "ch"}, {"a", "k"}}},
		{"choice-shorthand-container", []step{{"b", "c"}, {"b", "ch"}, {"a", "k"}, {"a", "k"}}},
		{"below-choice-shorthand-container", []step{{"b", "c"}, {"b", "ch"}, {"a", "k"}, {"a", "k"}, {"a", "kx"}}},
		{"explicit-case", []step{{"b", "c"}, {"b", "ch"}, {"a", "cs"}}},
		{"below-explicit-case", []step{{"b", "c"}, {"b", "ch"}, {"a", "cs"}, {"a", "y"}}},
		{"own-shorthand-next-to-augmented", []step{{"b", "c"}, {"b", "ch"}, {"b", "own"}, {"b", "own"}}},
		{"rpc-input-leaf", []step{{"b", "r"}, {"b", "input"}, {"a", "ai"}}},
		{"below-rpc-input-container", []step{{"b", "r"}, {"b", "input"}, {"a", "ac"}, {"a", "z"}}},
		{"container", []step{{"b", "c"}, {"a", "ac"}}},
		{"below-container", []step{{"b", "c"}, {"a", "ac"}, {"a", "z"}}},
		{"chain", []step{{"b", "c"}, {"a", "ac"}, {"a2", "z2"}}},
		{"chain-rpc-input", []step{{"b", "r"}, {"b", "input"}, {"a", "ac"}, {"a2", "zl"}}},
	}
	spell := func(steps []step, how string) string {
		var sb strings.Builder
		last := steps[len(steps)-1].pfx
		for i, x := range steps {
			p := x.pfx
			switch {
			case i == 0:
			case how == "base-prefix":
				p = "b"
			case how == "no-prefix":
				p = ""
			case how == "last-prefix":
				p = last
			}
			if p == "" {
				sb.WriteString("/" + x.name)
			} else {
				sb.WriteString("/" + p + ":" + x.name)
			}
		}
		return sb.String()
	}
	stmts := []struct {
		name string
		s    []DevStmt
	}{
		{"replace-default", []DevStmt{st("replace", "default", "x")}},
		{"add-units", []DevStmt{st("add", "units", "u1")}},
		{"add-config", []DevStmt{st("add", "config", "false")}},
		{"not-supported", []DevStmt{NewDevStmt("not-supported")}},
	}
	for _, t := range targets {
		dump := "/b"
		for _, x := range t.steps {
			dump += "/" + x.name
		}
		for _, how := range []string{"rfc", "base-prefix", "no-prefix", "last-prefix"} {
			for _, x := range stmts {
				devs := []Deviation{{Module: "dv", Arg: spell(t.steps, how), Target: dump, TargetMod: "b", Stmts: x.s}}
				combo := fmt.Sprintf("augmented/%s/%s/%s", t.name, how, x.name)
				c := C08Case{Label: combo, Combo: combo, BaseNames: []string{"b.yang", "a.yang", "a2.yang"}, BaseTexts: []string{bText, aText, a2Text},
					Devs: devs, DevMods: []string{"dv"}}
				c.DevNames = []string{"dv.yang"}
				c.DevTexts = []string{devModuleText("dv", [][2]string{{"b", "b"}, {"a", "a"}, {"a2", "a2"}}, devs)}
				out = append(out, c)
			}
		}
	}
	return out
}

// c08RevisionCases: two revisions of the deviated module are loaded.  The deviating module's import
// says which one it means (revision-date: that one; none: the newest), and that tree — and only that
// tree — is deviated: the other revision's tree is part of the frame.  The revisions differ: a node
// only in the old one, a node only in the new one, equal nodes with different defaults.
func c08RevisionCases() []C08Case {
	var out []C08Case
	st := func(kind string, pv ...string) DevStmt {
		s := NewDevStmt(kind)
		for i := 0; i+1 < len(pv); i += 2 {
			s.Set(pv[i], pv[i+1])
		}
		return s
	}
	rev := func(date, def, only string) string {
		return "module b {\n  namespace \"urn:b\";\n  prefix b;\n  revision " + date + ";\n  leaf s0 { type string; default keep; }\n" +
			"  leaf t { type string; default " + def + "; }\n  leaf " + only + " { type string; default d1; }\n" +
			"  container c { leaf x { type string; default " + def + "; } leaf y { type string; } }\n}\n"
	}
	newT, oldT := rev("2020-01-01", "dnew", "newonly"), rev("2019-01-01", "dold", "oldonly")
	const newN, oldN = "b@2020-01-01", "b@2019-01-01"
	has := map[string]map[string]bool{newN: {"t": true, "c/x": true, "newonly": true}, oldN: {"t": true, "c/x": true, "oldonly": true}}
	stmts := []struct {
		name string
		s    []DevStmt
	}{
		{"replace-default", []DevStmt{st("replace", "default", "x")}},
		{"delete-default-old", []DevStmt{st("delete", "default", "dold")}},
		{"delete-default-new", []DevStmt{st("delete", "default", "dnew")}},
		{"add-units", []DevStmt{st("add", "units", "u1")}},
		{"not-supported", []DevStmt{NewDevStmt("not-supported")}},
	}
	mk := func(combo string, newFirst bool, devs []Deviation, imp map[string]string) {
		c := C08Case{Label: combo, Combo: combo, Devs: devs}
		if newFirst {
			c.BaseNames, c.BaseTexts = []string{"b@2020-01-01.yang", "b@2019-01-01.yang"}, []string{newT, oldT}
		} else {
			c.BaseNames, c.BaseTexts = []string{"b@2019-01-01.yang", "b@2020-01-01.yang"}, []string{oldT, newT}
		}
		for _, m := range []string{"dvb", "dva"} {
			if imp[m] == "" {
				continue
			}
			c.DevMods = append(c.DevMods, m)
			c.DevNames = append(c.DevNames, m+".yang")
			c.DevTexts = append(c.DevTexts, devModuleText(m, [][2]string{{imp[m], "b"}}, devs))
		}
		out = append(out, c)
	}
	dev := func(m, tree, path string, s []DevStmt) Deviation {
		d := Deviation{Module: m, Arg: "/b:" + strings.ReplaceAll(path, "/", "/b:"), Stmts: s}
		if has[tree][path] {
			d.Target, d.TargetMod = "/b/"+path, tree
		} else {
			d.Missing = true
		}
		return d
	}
	pins := []struct{ name, imp, tree string }{{"pinned-old", oldN, oldN}, {"pinned-new", newN, newN}, {"unpinned", "b", newN}}
	for _, newFirst := range []bool{true, false} {
		for _, pin := range pins {
			for _, path := range []string{"t", "c/x", "oldonly", "newonly"} {
				for _, x := range stmts {
					combo := fmt.Sprintf("revisions/%s/%s/%s/new-loaded-first=%v", pin.name, strings.ReplaceAll(path, "/", "."), x.name, newFirst)
					mk(combo, newFirst, []Deviation{dev("dva", pin.tree, path, x.s)}, map[string]string{"dva": pin.imp})
				}
			}
		}
		// two deviating modules meaning different revisions: each tree gets its own deviation
		for _, x := range stmts {
			for _, path := range []string{"t", "c/x"} {
				combo := fmt.Sprintf("revisions/two-modules/%s/%s/new-loaded-first=%v", strings.ReplaceAll(path, "/", "."), x.name, newFirst)
				mk(combo+"/old+newest", newFirst, []Deviation{dev("dva", oldN, path, x.s), dev("dvb", newN, path, []DevStmt{st("replace", "default", "y")})},
					map[string]string{"dva": oldN, "dvb": "b"})
				mk(combo+"/newest+old", newFirst, []Deviation{dev("dva", newN, path, x.s), dev("dvb", oldN, path, []DevStmt{st("add", "units", "u2")})},
					map[string]string{"dva": "b", "dvb": oldN})
			}
		}
	}
	return out
}

// c08ShadowCases: the deviating module defines nodes of its own with the same names as the nodes of
// the base (a shadow of the targeted subtree).  A deviation path whose first prefix is not known in
// the deviating module (the base module's own prefix where the import uses another, a typo, a prefix
// only another module imports) names nothing: it must be reported, and must not be walked in the
// deviating module's own tree.  With the right prefix the base is deviated and the shadow stays as it
// is; with the module's own prefix or no prefix the module deviates its own node and the base stays.
func c08ShadowCases() []C08Case {
	var out []C08Case
	st := func(kind string, pv ...string) DevStmt {
		s := NewDevStmt(kind)
		for i := 0; i+1 < len(pv); i += 2 {
			s.Set(pv[i], pv[i+1])
		}
		return s
	}
	bText := "module b {\n  namespace \"urn:b\";\n  prefix sys;\n  leaf s0 { type string; default keep; }\n" +
		"  leaf t { type string; default d1; }\n  container c { leaf x { type string; default d1; } leaf y { type string; } }\n}\n"
	cText := "module c {\n  namespace \"urn:c\";\n  prefix c;\n  leaf t { type string; default d1; }\n" +
		"  container c { leaf x { type string; default d1; } }\n}\n"
	shadow := "  leaf t { type string; default d1; }\n  container c { leaf x { type string; default d1; } leaf y { type string; } }\n"
	type pa struct {
		name, arg, target, mod string // target == "": names nothing
		needShadow            bool
	}
	paths := []pa{
		{"base-own-prefix/top", "/sys:t", "", "", false},
		{"base-own-prefix/nested", "/sys:c/sys:x", "", "", false},
		{"base-own-prefix/nested-mixed", "/sys:c/s:x", "", "", false},
		{"typo-prefix/top", "/zz:t", "", "", false},
		{"typo-prefix/nested", "/zz:c/zz:x", "", "", false},
		{"other-modules-prefix/top", "/c:t", "", "", false},
		{"other-modules-prefix/nested", "/c:c/c:x", "", "", false},
		{"import-prefix/top", "/s:t", "/b/t", "b", false},
		{"import-prefix/nested", "/s:c/s:x", "/b/c/x", "b", false},
		{"own-prefix/top", "/dva:t", "/dva/t", "dva", true},
		{"own-prefix/nested", "/dva:c/dva:x", "/dva/c/x", "dva", true},
		{"no-prefix/top", "/t", "/dva/t", "dva", true},
		{"no-prefix/nested", "/c/x", "/dva/c/x", "dva", true},
	}
	stmts := []struct {
		name string
		s    []DevStmt
	}{
		{"replace-default", []DevStmt{st("replace", "default", "x")}},
		{"delete-default", []DevStmt{st("delete", "default", "d1")}},
		{"add-units", []DevStmt{st("add", "units", "u1")}},
		{"not-supported", []DevStmt{NewDevStmt("not-supported")}},
		{"replace-then-not-supported", []DevStmt{st("replace", "default", "x"), NewDevStmt("not-supported")}},
	}
	for _, p := range paths {
		for _, x := range stmts {
			for _, sh := range []bool{true, false} {
				if p.needShadow && !sh {
					continue
				}
				for _, ins := range []bool{false, true} {
					if ins && !strings.Contains(x.name, "not-supported") {
						continue
					}
					own := ""
					if sh {
						own = shadow
					}
					d := Deviation{Module: "dva", Arg: p.arg, Target: p.target, TargetMod: p.mod, Stmts: x.s, Missing: p.target == ""}
					// a valid deviation of the base next to it, so that the case is not only about the error
					devs := []Deviation{d}
					combo := fmt.Sprintf("shadow/%s/%s/shadow=%v/ignore=%v", p.name, x.name, sh, ins)
					c := C08Case{Label: combo, Combo: combo, BaseNames: []string{"b.yang", "c.yang"}, BaseTexts: []string{bText, cText},
						Devs: devs, DevMods: []string{"dvb", "dva"}, IgnoreNS: ins}
					c.DevNames = []string{"dvb.yang", "dva.yang"}
					// dvb imports c under the prefix dva does not know; it defines the shadow too
					c.DevTexts = []string{devModuleTextX("dvb", [][2]string{{"c", "c"}}, devs, own, false),
						devModuleTextX("dva", [][2]string{{"b", "s"}}, devs, own, false)}
					c.StrippedDevTexts = []string{devModuleTextX("dvb", [][2]string{{"c", "c"}}, devs, own, true),
						devModuleTextX("dva", [][2]string{{"b", "s"}}, devs, own, true)}
					out = append(out, c)
				}
			}
		}
	}
	return out
}

// c08TypeOnlyCases: a deviate that names only `type` changes only the type.  The replacement types
// carry units and a default of their own (typedef of the deviating module, derived from it, typedef of
// the deviated module directly and through a chain, typedef of a third module): those are properties of
// the TYPE and stay there; the target's units and default are what they were.  Ordered pairs with
// units / default statements before and after, and both in one statement (the written one wins).
func c08TypeOnlyCases() []C08Case {
	var out []C08Case
	cText := "module c {\n  namespace \"urn:c\";\n  prefix c;\n  typedef tdi { type string; default idv; units iu; }\n}\n"
	base := func(target string) string {
		return "module b {\n  namespace \"urn:b\";\n  prefix b;\n  import c { prefix c; }\n" +
			"  typedef td1 { type string; default tdv; units tu; }\n  typedef td2 { type td1; }\n" +
			"  leaf s0 { type td1; }\n" + target + "  container s3 { leaf y { type td2; } }\n}\n"
	}
	one := func(combo, target string, stmts ...DevStmt) {
		devs := []Deviation{{Module: "dv", Arg: "/b:t", Target: "/b/t", TargetMod: "b", Stmts: stmts}}
		c := C08Case{Label: combo, Combo: combo, BaseNames: []string{"c.yang", "b.yang"}, BaseTexts: []string{cText, base(target)},
			Devs: devs, DevMods: []string{"dv"}}
		c.DevNames = []string{"dv.yang"}
		c.DevTexts = []string{devModuleText("dv", [][2]string{{"b", "b"}, {"c", "c"}}, devs)}
		out = append(out, c)
	}
	st := func(kind string, pv ...string) DevStmt {
		s := NewDevStmt(kind)
		for i := 0; i+1 < len(pv); i += 2 {
			s.Set(pv[i], pv[i+1])
		}
		return s
	}
	targets := map[string]string{
		"leaf":         "  leaf t { type string; }\n",
		"leaf-default": "  leaf t { type string; default own; }\n",
		"leaf-typedef": "  leaf t { type td2; }\n",
		"leaf-list":    "  leaf-list t { type string; default a; default b; }\n",
	}
	for _, tn := range []string{"leaf", "leaf-default", "leaf-typedef", "leaf-list"} {
		target := targets[tn]
		for _, ty := range []string{"dtu", "dtc", "dtn", "b:td1", "b:td2", "c:tdi", "int8"} {
			tag := fmt.Sprintf("type-only/%s/%s", tn, strings.ReplaceAll(ty, ":", "_"))
			for _, k := range []string{"add", "replace"} {
				one(tag+"/"+k, target, st(k, "type", ty))
				one(tag+"/units-then-"+k, target, st("add", "units", "ms"), st(k, "type", ty))
				one(tag+"/"+k+"-then-units", target, st(k, "type", ty), st("add", "units", "ms"))
				one(tag+"/"+k+"-with-units", target, st(k, "type", ty, "units", "ms"))
			}
			one(tag+"/default-then-replace", target, st("replace", "default", "q"), st("replace", "type", ty))
			one(tag+"/replace-then-default", target, st("replace", "type", ty), st("replace", "default", "q"))
			one(tag+"/replace-with-default", target, st("replace", "type", ty, "default", "q"))
			one(tag+"/replace-then-delete-units", target, st("replace", "type", ty), st("delete", "units", "seconds"))
			one(tag+"/replace-twice", target, st("replace", "type", ty), st("replace", "type", "dtn"))
			if tn == "leaf" {
				one(tag+"/replace-then-delete-type-default", target, st("replace", "type", ty), st("delete", "default", "5"))
				one(tag+"/replace-then-add-default", target, st("replace", "type", ty), st("add", "default", "q"))
			}
		}
	}
	return out
}

// c08EmptyStringCases: the empty string is a value like any other for `default` (as the argument
// of the deviate substatement and as the target's own default); an empty `units` argument is the
// same as no units substatement; an empty config / mandatory / element bound is malformed and reported.
func c08EmptyStringCases() []C08Case {
	var out []C08Case
	st := func(kind, p, v string) DevStmt {
		s := NewDevStmt(kind)
		s.Set(p, v)
		return s
	}
	one := func(combo, text string, stmts []DevStmt) *C08Case {
		_, arg, target := c08Base("leaf", nil)
		c := c08One(combo, combo, text, []Deviation{{Module: "dv", Arg: arg, Target: target, Stmts: stmts}}, []string{"dv"}, false)
		out = append(out, c)
		return &out[len(out)-1]
	}
	for _, t := range []string{"leaf", "leaf-list"} {
		owns := map[string][][2]string{"none": nil, "empty": {{"default", `""`}}, "d1": {{"default", "d1"}}}
		for _, own := range []string{"none", "empty", "d1"} {
			// (a leaf-list gets the given default plus "b")
			text, _, _ := c08Base(t, owns[own])
			for _, k := range []string{"add", "replace", "delete"} {
				for _, v := range []string{"", "d1", "b"} {
					vn := v
					if v == "" {
						vn = "empty"
					}
					one(fmt.Sprintf("empty-string/default/%s/own=%s/%s=%s", t, own, k, vn), text, []DevStmt{st(k, "default", v)})
				}
			}
			tag := fmt.Sprintf("empty-string/default/%s/own=%s", t, own)
			one(tag+"/delete-empty-then-add-empty", text, []DevStmt{st("delete", "default", ""), st("add", "default", "")})
			one(tag+"/add-empty-then-add-x", text, []DevStmt{st("add", "default", ""), st("add", "default", "x")})
			one(tag+"/replace-empty-then-delete-empty", text, []DevStmt{st("replace", "default", ""), st("delete", "default", "")})
			one(tag+"/replace-x-then-replace-empty", text, []DevStmt{st("replace", "default", "x"), st("replace", "default", "")})
			// together with another property, so that the statement is not empty when the default is dropped
			s := st("replace", "default", "")
			s.Set("config", "false")
			one(tag+"/replace-empty-and-config", text, []DevStmt{s})
		}
	}
	{
		text, _, _ := c08Base("choice", [][2]string{{"default", "c1"}})
		one("empty-string/default/choice/own=c1/replace=empty", text, []DevStmt{st("replace", "default", "")})
		one("empty-string/default/choice/own=c1/delete=empty", text, []DevStmt{st("delete", "default", "")})
	}
	// units: an empty argument is no argument
	for _, t := range []string{"leaf", "leaf-list", "container"} {
		text, arg, target := c08Base(t, nil)
		for _, k := range []string{"add", "replace", "delete"} {
			combo := fmt.Sprintf("empty-string/units/%s/%s", t, k)
			out = append(out, c08One(combo, combo, text, []Deviation{{Module: "dv", Arg: arg, Target: target,
				Stmts: []DevStmt{st(k, "units", "")}}}, []string{"dv"}, false))
		}
		combo := fmt.Sprintf("empty-string/units/%s/add-u1-then-replace-empty", t)
		out = append(out, c08One(combo, combo, text, []Deviation{{Module: "dv", Arg: arg, Target: target,
			Stmts: []DevStmt{st("add", "units", "u1"), st("replace", "units", "")}}}, []string{"dv"}, false))
	}
	// malformed values
	for _, p := range []string{"config", "mandatory", "min-elements", "max-elements"} {
		for _, k := range []string{"add", "replace", "delete"} {
			t := "leaf"
			if strings.HasSuffix(p, "elements") {
				t = "leaf-list"
			}
			text, arg, target := c08Base(t, nil)
			s := NewDevStmt(k)
			s.Set(p, `""`)
			combo := fmt.Sprintf("empty-string/malformed/%s/%s", p, k)
			c := c08One(combo, combo, text, []Deviation{{Module: "dv", Arg: arg, Target: target, Stmts: []DevStmt{s}}}, []string{"dv"}, false)
			c.Malformed = true
			out = append(out, c)
		}
	}
	return out
}

// c08SubmoduleCases: deviations written in a submodule of the module they deviate, with the
// belongs-to prefix or without prefix: they take effect in the tree of the module the submodule
// belongs to (not in a private tree of the submodule), after the deviations of all modules.
func c08SubmoduleCases() []C08Case {
	var out []C08Case
	st := func(kind, p, v string) DevStmt {
		s := NewDevStmt(kind)
		s.Set(p, v)
		return s
	}
	bText := "module b {\n  namespace \"urn:b\";\n  prefix b;\n  include b-s1;\n" +
		"  leaf s0 { type string; default keep; }\n  leaf t { type string; default d1; }\n" +
		"  container c { leaf x { type string; } list l { key k; leaf k { type string; } min-elements 2; } }\n}\n"
	sub := func(devs []Deviation) string {
		var sb strings.Builder
		sb.WriteString("submodule b-s1 {\n  belongs-to b { prefix pb; }\n  leaf ts { type string; default d1; }\n" +
			"  container cs { leaf y { type string; } }\n")
		for _, d := range devs {
			if d.Module == "b-s1" {
				render(&sb, d.Node(), "  ")
			}
		}
		sb.WriteString("}\n")
		return sb.String()
	}
	type tg struct{ name, arg, target string }
	targets := []tg{
		{"owner-leaf/prefix", "/pb:t", "/b/t"}, {"owner-leaf/no-prefix", "/t", "/b/t"},
		{"own-leaf/prefix", "/pb:ts", "/b/ts"}, {"own-leaf/no-prefix", "/ts", "/b/ts"},
		{"owner-nested/prefix", "/pb:c/pb:x", "/b/c/x"}, {"own-nested/no-prefix", "/cs/y", "/b/cs/y"},
	}
	stmts := []struct {
		name string
		s    []DevStmt
	}{
		{"replace-default", []DevStmt{st("replace", "default", "x")}},
		{"add-units", []DevStmt{st("add", "units", "u1")}},
		{"add-default", []DevStmt{st("add", "default", "x")}},
		{"delete-default-d1", []DevStmt{st("delete", "default", "d1")}},
		{"delete-default-other", []DevStmt{st("delete", "default", "zz")}},
		{"not-supported", []DevStmt{NewDevStmt("not-supported")}},
		{"add-config-then-not-supported", []DevStmt{st("add", "config", "false"), NewDevStmt("not-supported")}},
	}
	for _, t := range targets {
		for _, x := range stmts {
			for _, withMod := range []bool{false, true} {
				devs := []Deviation{{Module: "b-s1", Sub: true, Arg: t.arg, Target: t.target, TargetMod: "b", Stmts: x.s}}
				combo := fmt.Sprintf("submodule-deviation/%s/%s", t.name, x.name)
				c := C08Case{BaseNames: []string{"b.yang", "b-s1.yang"}, BaseTexts: []string{bText, sub(nil)}}
				if withMod {
					// a deviating module on the same target as well: it is applied first although "dv" > "b-s1"
					combo += "/after-module"
					devs = append([]Deviation{{Module: "dv", Arg: "/b:" + strings.ReplaceAll(strings.TrimPrefix(t.target, "/b/"), "/", "/b:"),
						Target: t.target, TargetMod: "b", Stmts: []DevStmt{st("replace", "config", "true")}}}, devs...)
					c.DevMods = []string{"dv"}
					c.DevNames = []string{"dv.yang"}
					c.DevTexts = []string{devModuleText("dv", [][2]string{{"b", "b"}}, devs)}
				}
				c.Label, c.Combo, c.Devs = combo, combo, devs
				c.WithBaseTexts = []string{bText, sub(devs)}
				out = append(out, c)
			}
		}
	}
	return out
}

// c08TypedefCases: targets whose TYPE carries a default / units (typedef local, chained two levels,
// imported).  The type's default is not the node's default statement: `deviate add { default }` is
// legitimate on such a leaf without own default, `deviate delete { default <typedef value> }` has
// nothing to delete.  Accessors that fall back to the type (Entry.SingleDefaultValue, DefaultValues,
// which also look at mandatory / min-elements) must not be what the deviation logic reads.
func c08TypedefCases() []C08Case {
	var out []C08Case
	cText := "module c {\n  namespace \"urn:c\";\n  prefix c;\n  typedef tdi { type string; default idv; units iu; }\n}\n"
	base := func(target string) string {
		return "module b {\n  namespace \"urn:b\";\n  prefix b;\n  import c { prefix c; }\n" +
			"  typedef td1 { type string; default tdv; units tu; }\n  typedef td2 { type td1; }\n" +
			"  leaf s0 { type td1; }\n  leaf-list s1 { type td2; }\n" + target +
			"  leaf s2 { type c:tdi; mandatory true; }\n  container s3 { leaf y { type td2; units keep; } }\n}\n"
	}
	one := func(combo, target string, stmts []DevStmt) {
		devs := []Deviation{{Module: "dv", Arg: "/b:t", Target: "/b/t", TargetMod: "b", Stmts: stmts}}
		c := C08Case{Label: combo, Combo: combo, BaseNames: []string{"c.yang", "b.yang"}, BaseTexts: []string{cText, base(target)},
			Devs: devs, DevMods: []string{"dv"}}
		c.DevNames = []string{"dv.yang"}
		c.DevTexts = []string{devModuleText("dv", [][2]string{{"b", "b"}}, devs)}
		out = append(out, c)
	}
	st := func(kind, p, v string) DevStmt {
		s := NewDevStmt(kind)
		s.Set(p, v)
		return s
	}
	types := []struct{ name, def, units string }{{"td1", "tdv", "tu"}, {"td2", "tdv", "tu"}, {"c:tdi", "idv", "iu"}}
	for _, ty := range types {
		tn := strings.ReplaceAll(ty.name, ":", "_")
		// leaf: own default or none x mandatory
		for _, own := range []string{"", "own"} {
			for _, mand := range []string{"", "true", "false"} {
				if own != "" && mand == "true" {
					continue
				}
				target := "  leaf t {\n    type " + ty.name + ";\n"
				if own != "" {
					target += "    default " + own + ";\n"
				}
				if mand != "" {
					target += "    mandatory " + mand + ";\n"
				}
				target += "  }\n"
				tag := fmt.Sprintf("typedef-default/leaf/%s/own=%s/mandatory=%s", tn, own, mand)
				one(tag+"/add", target, []DevStmt{st("add", "default", "x")})
				one(tag+"/replace", target, []DevStmt{st("replace", "default", "x")})
				one(tag+"/delete-type-value", target, []DevStmt{st("delete", "default", ty.def)})
				one(tag+"/delete-other", target, []DevStmt{st("delete", "default", "zz")})
				if own != "" {
					one(tag+"/delete-own", target, []DevStmt{st("delete", "default", own)})
					one(tag+"/delete-own-then-add", target, []DevStmt{st("delete", "default", own), st("add", "default", "x")})
					one(tag+"/delete-own-then-delete-type-value", target, []DevStmt{st("delete", "default", own), st("delete", "default", ty.def)})
				} else {
					one(tag+"/add-then-delete", target, []DevStmt{st("add", "default", "x"), st("delete", "default", "x")})
					one(tag+"/add-type-value-then-add", target, []DevStmt{st("add", "default", ty.def), st("add", "default", "x")})
				}
			}
		}
		// leaf-list: the type's default counts for DefaultValues() only when min-elements is 0
		for _, mn := range []string{"", "0", "1"} {
			for _, own := range []bool{false, true} {
				target := "  leaf-list t {\n    type " + ty.name + ";\n"
				if mn != "" {
					target += "    min-elements " + mn + ";\n"
				}
				if own {
					target += "    default a;\n    default b;\n"
				}
				target += "  }\n"
				tag := fmt.Sprintf("typedef-default/leaf-list/%s/own=%v/min=%s", tn, own, mn)
				one(tag+"/add", target, []DevStmt{st("add", "default", "x")})
				one(tag+"/add-type-value", target, []DevStmt{st("add", "default", ty.def)})
				one(tag+"/replace", target, []DevStmt{st("replace", "default", "x")})
				one(tag+"/delete-type-value", target, []DevStmt{st("delete", "default", ty.def)})
				one(tag+"/delete-a", target, []DevStmt{st("delete", "default", "a")})
				one(tag+"/delete-min-0", target, []DevStmt{st("delete", "min-elements", "0")})
				one(tag+"/replace-min-1-then-add", target, []DevStmt{st("replace", "min-elements", "1"), st("add", "default", "x")})
			}
		}
		// units: the type's units are not the node's units statement either
		for _, own := range []string{"", "lu"} {
			target := "  leaf t {\n    type " + ty.name + ";\n"
			if own != "" {
				target += "    units " + own + ";\n"
			}
			target += "  }\n"
			tag := fmt.Sprintf("typedef-units/leaf/%s/own=%s", tn, own)
			one(tag+"/add", target, []DevStmt{st("add", "units", "u1")})
			one(tag+"/replace", target, []DevStmt{st("replace", "units", "u1")})
			one(tag+"/delete-type-value", target, []DevStmt{st("delete", "units", ty.units)})
			one(tag+"/delete-own", target, []DevStmt{st("delete", "units", "lu")})
			one(tag+"/add-then-add", target, []DevStmt{st("add", "units", "u1"), st("add", "units", "u2")})
		}
	}
	return out
}

// ---------------------------------------------------------------------------------------------
// random part

// c08Node is a schema node of a generated base with the statement that defines it.
type c08Node struct {
	SchemaPath
	n *Node
}

// c08Expand is expand (schema.go) keeping the defining statement of every node.
func c08Expand(n *Node, cur []string, short []bool, parentKw string, depth int, out *[]c08Node) {
	if depth > 8 {
		return
	}
	for _, c := range n.Kids {
		switch c.Kw {
		case "container", "list", "leaf", "leaf-list", "choice", "case", "anydata", "anyxml", "rpc", "action", "notification", "input", "output":
			name := c.Arg
			if c.Kw == "input" || c.Kw == "output" {
				name = c.Kw
			}
			p := append(append([]string{}, cur...), name)
			s := append(append([]bool{}, short...), parentKw == "choice" && c.Kw != "case")
			*out = append(*out, c08Node{SchemaPath{Names: p, Kw: c.Kw, ChoiceShorthand: s}, c})
			c08Expand(c, p, s, c.Kw, depth+1, out)
		case "uses":
			if c.Uses != nil {
				c08Expand(c.Uses, cur, short, parentKw, depth+1, out)
			}
		}
	}
}

func (n *Node) kid(kw string) (string, bool) {
	for _, c := range n.Kids {
		if c.Kw == kw {
			return c.Arg, true
		}
	}
	return "", false
}

// C08Random builds a random base set (Generate without deviations and without deliberate faults)
// and 1-2 deviating modules with 1-3 deviations each of 1-3 deviate statements.  Most statements
// are made to fit what the base writes on the target (so that many sets apply cleanly); the
// rest are left as drawn.
func C08Random(r *rand.Rand) C08Case {
	// spelled out (not Default()), so that later additions to the shared generator do not change these sets
	cfg := Config{MaxModules: 2, Submodules: true, Augments: true, RPCs: true, Choices: true, Groupings: true, MaxDepth: 3,
		ConfigStmts: true, Notification: true, Typedefs: true, Revisions: true}
	set := Generate(r, cfg)
	g := &genr{r: r, cfg: cfg}
	c08AddTypedefDefaults(g, set)
	c := C08Case{Label: "random"}
	c.BaseNames, c.BaseTexts = set.Files()
	var imports [][2]string
	type tgt struct {
		arg, dump, kw, mod string
		n                  *Node
		sp                 SchemaPath
		m                  *Module
	}
	var tgts, augmented []tgt
	for _, m := range set.Mods {
		if m.Sub || m.File != "" {
			// (m.File is set for the older second revision of a module: an import without
			// revision-date means the latest one, so deviations reach only that)
			continue
		}
		full := m.Name
		if len(m.Revisions) > 0 {
			revs := append([]string{}, m.Revisions...)
			sort.Strings(revs)
			full = m.Name + "@" + revs[len(revs)-1]
		}
		imports = append(imports, [2]string{m.Name, "i" + m.Name})
		var nodes []c08Node
		c08Expand(m.Body, nil, nil, "module", 0, &nodes)
		for _, s := range m.Includes {
			c08Expand(s.Body, nil, nil, "module", 0, &nodes)
			for _, s2 := range s.Includes {
				c08Expand(s2.Body, nil, nil, "module", 0, &nodes)
			}
		}
		for _, p := range nodes {
			// the dump path: implicit cases double the step, as in the written path after FixChoice
			var d strings.Builder
			d.WriteString("/" + m.Name)
			for i, n := range p.Names {
				if p.ChoiceShorthand[i] {
					d.WriteString("/" + n)
				}
				d.WriteString("/" + n)
			}
			tgts = append(tgts, tgt{pathString(p.SchemaPath, "i"+m.Name, true), d.String(), p.Kw, full, p.n, p.SchemaPath, m})
		}
	}
	// nodes that other modules (or the module itself) augment in: the augment's target is looked up among
	// the written nodes of the module its first prefix denotes; every node of the augment's body becomes a
	// target, spelled in one of the ways the library accepts (RFC: each step with the prefix of the module
	// that defines it; base prefix everywhere; later steps without prefix; later steps with the augmenting
	// module's prefix)
	{
		full := map[*Module]string{}
		nodesOf := map[*Module][]c08Node{}
		for _, m := range set.Mods {
			if m.Sub || m.File != "" {
				continue
			}
			full[m] = m.Name
			if len(m.Revisions) > 0 {
				revs := append([]string{}, m.Revisions...)
				sort.Strings(revs)
				full[m] = m.Name + "@" + revs[len(revs)-1]
			}
			var nodes []c08Node
			c08Expand(m.Body, nil, nil, "module", 0, &nodes)
			for _, s := range m.Includes {
				c08Expand(s.Body, nil, nil, "module", 0, &nodes)
				for _, s2 := range s.Includes {
					c08Expand(s2.Body, nil, nil, "module", 0, &nodes)
				}
			}
			nodesOf[m] = nodes
		}
		for _, am := range set.Mods {
			if am.File != "" {
				continue
			}
			owner := am
			if am.Sub {
				owner = am.Owner
			}
			for _, a := range am.Body.Kids {
				if a.Kw != "augment" || !strings.HasPrefix(a.Arg, "/") {
					continue
				}
				var names []string
				var tm *Module
				okPath := true
				for i, stp := range strings.Split(a.Arg[1:], "/") {
					pfx, name := "", stp
					if j := strings.IndexByte(stp, ':'); j >= 0 {
						pfx, name = stp[:j], stp[j+1:]
					}
					if i == 0 {
						if pfx == am.Prefix {
							tm = owner
						}
						for _, o := range am.Imports {
							if am.ImportPrefix[o] == pfx && !o.Sub && o.File == "" {
								tm = o
							}
						}
					}
					names = append(names, name)
				}
				if tm == nil || full[tm] == "" || !okPath {
					continue
				}
				var target *c08Node
				for i := range nodesOf[tm] {
					if strings.Join(nodesOf[tm][i].Names, "/") == strings.Join(names, "/") {
						target = &nodesOf[tm][i]
						break
					}
				}
				if target == nil {
					continue
				}
				var added []c08Node
				c08Expand(a, target.Names, target.ChoiceShorthand, target.Kw, 1, &added)
				how := r.Intn(4)
				for _, p := range added {
					var arg, d strings.Builder
					d.WriteString("/" + tm.Name)
					for i, n := range p.Names {
						pfx := "i" + tm.Name
						if i >= len(target.Names) {
							pfx = "i" + owner.Name
						}
						switch {
						case i == 0:
						case how == 1:
							pfx = "i" + tm.Name
						case how == 2:
							pfx = ""
						case how == 3:
							pfx = "i" + owner.Name
						}
						stp := "/" + n
						if pfx != "" {
							stp = "/" + pfx + ":" + n
						}
						if p.ChoiceShorthand[i] {
							arg.WriteString(stp)
							d.WriteString("/" + n)
						}
						arg.WriteString(stp)
						d.WriteString("/" + n)
					}
					tgts = append(tgts, tgt{arg.String(), d.String(), p.Kw, full[tm], p.n, p.SchemaPath, tm})
					augmented = append(augmented, tgts[len(tgts)-1])
				}
			}
		}
	}
	sort.SliceStable(tgts, func(i, j int) bool { return tgts[i].dump < tgts[j].dump })
	types := append([]string{}, c08TypesBase...)
	for _, im := range imports {
		mn := strings.ReplaceAll(im[0], "-", "_")
		types = append(types, im[1]+":zd_"+mn, im[1]+":zc_"+mn)
	}
	nm := 1 + r.Intn(2)
	mods := []string{"dva", "dvb"}[:nm]
	if nm == 2 && g.chance(0.5) {
		mods = []string{"dvb", "dva"} // load order differs from name order
	}
	c.DevMods = mods
	c.IgnoreNS = g.chance(0.3)
	// when the set has an older second revision of a module loaded as well, a deviating module may pin it
	// (import … { revision-date 2019-01-01; }): its deviations then mean the older revision's tree, which has
	// the same nodes plus the leaf oldrev; without the pin they mean the newest, where oldrev does not exist
	hasOld := map[string]*Module{}
	for _, m := range set.Mods {
		if m.File != "" {
			hasOld[m.Name] = m
		}
	}
	pinned := map[string]map[string]bool{}
	impOf := map[string][][2]string{}
	for _, dm := range mods {
		pinned[dm] = map[string]bool{}
		for _, im := range imports {
			if hasOld[im[0]] != nil && g.chance(0.5) {
				pinned[dm][im[0]] = true
				impOf[dm] = append(impOf[dm], [2]string{im[0] + "@2019-01-01", im[1]})
				continue
			}
			impOf[dm] = append(impOf[dm], im)
		}
	}
	for name, o := range hasOld {
		for _, k := range o.Body.Kids {
			if k.Kw == "leaf" && k.Arg == "oldrev" {
				for _, t := range tgts {
					if t.m.Name == name {
						// (mod = the newest revision, like every target: without the pin it is not there)
						tgts = append(tgts, tgt{"/i" + name + ":oldrev", "/" + name + "/oldrev", "leaf", t.mod, k, SchemaPath{Names: []string{"oldrev"}, Kw: "leaf", ChoiceShorthand: []bool{false}}, t.m})
						break
					}
				}
			}
		}
	}
	// a small pool of targets, so that several deviations meet on one node
	var pool []tgt
	for i := 0; i < 3 && len(tgts) > 0; i++ {
		pool = append(pool, tgts[r.Intn(len(tgts))])
	}
	for _, m := range mods {
		nd := 1 + r.Intn(3)
		for i := 0; i < nd; i++ {
			var d Deviation
			d.Module = m
			switch {
			case len(tgts) == 0 || g.chance(0.01):
				d.Arg, d.Missing = "/"+imports[0][1]+":nosuch", true
				d.Stmts = []DevStmt{NewDevStmt(g.pick([]string{"add", "not-supported", "delete"}))}
			default:
				t := tgts[r.Intn(len(tgts))]
				if g.chance(0.5) {
					t = pool[r.Intn(len(pool))]
				}
				if len(augmented) > 0 && g.chance(0.2) {
					t = augmented[r.Intn(len(augmented))]
				}
				d.Arg, d.Target, d.TargetMod = t.arg, t.dump, t.mod
				if pinned[m][t.m.Name] {
					d.TargetMod = t.m.Name + "@2019-01-01"
				}
				ns := 1 + r.Intn(3)
				for j := 0; j < ns; j++ {
					d.Stmts = append(d.Stmts, g.c08Stmt(t.kw, t.n, types))
				}
			}
			c.Devs = append(c.Devs, d)
		}
	}
	// near misses (c08near.go): about one deviation in twenty (one in six of those whose path runs through a choice or case) leaves out steps of its path other than the
	// last, drawn from a generator of their own so that the rest of the case is what it was without them
	{
		kw := map[string]string{}
		for _, t := range tgts {
			kw[t.m.Name+" "+t.dump] = t.kw
		}
		r2 := c08NearSeed(c.BaseTexts)
		for i := range c.Devs {
			d := &c.Devs[i]
			if d.Missing {
				continue
			}
			mn := d.TargetMod
			if j := strings.IndexByte(mn, '@'); j >= 0 {
				mn = mn[:j]
			}
			kindOf := func(dump string) string { return kw[mn+" "+dump] }
			// (one in six when the path runs through a choice or case)
			odds := 20
			if c08ThroughChoice(d, kindOf) {
				odds = 6
			}
			if r2.Intn(odds) != 0 {
				continue
			}
			c08NearMiss(r2, d, kindOf)
		}
	}
	// now and then the deviating modules define top-level nodes with the names of their top-level
	// targets (a shadow), and some of those deviations are written with a first prefix the deviating
	// module does not know (the base module's own prefix, a typo: names nothing, must be reported and must
	// not be walked in the module's own tree) or with the module's own prefix / none (deviates the shadow)
	own := map[string]string{}
	if g.chance(0.15) {
		byDump := map[string]tgt{}
		for _, t := range tgts {
			byDump[t.mod+" "+t.dump] = t
		}
		defined := map[string]bool{}
		for i := range c.Devs {
			d := &c.Devs[i]
			t, ok := byDump[d.TargetMod+" "+d.Target]
			if d.Missing || !ok || len(t.sp.Names) != 1 || t.sp.ChoiceShorthand[0] {
				continue
			}
			name := t.sp.Names[0]
			var text string
			switch t.kw {
			case "leaf":
				text = "  leaf " + name + " { type string; default d1; }\n"
			case "leaf-list":
				text = "  leaf-list " + name + " { type string; default a; default b; min-elements 1; }\n"
			case "container":
				text = "  container " + name + " { leaf q { type string; } }\n"
			case "list":
				text = "  list " + name + " { key k; leaf k { type string; } max-elements 3; }\n"
			default:
				continue
			}
			if !defined[d.Module+" "+name] {
				defined[d.Module+" "+name] = true
				own[d.Module] += text
			}
			switch k := r.Intn(8); {
			case k <= 2:
				d.Arg, d.Missing, d.Target, d.TargetMod = "/"+g.pick([]string{t.m.Prefix, t.m.Prefix, "zz"})+":"+name, true, "", ""
			case k == 3:
				d.Arg, d.Target, d.TargetMod = "/"+d.Module+":"+name, "/"+d.Module+"/"+name, d.Module
			case k == 4:
				d.Arg, d.Target, d.TargetMod = "/"+name, "/"+d.Module+"/"+name, d.Module
			}
		}
	}
	for _, m := range mods {
		c.DevNames = append(c.DevNames, m+".yang")
		c.DevTexts = append(c.DevTexts, devModuleTextX(m, impOf[m], c.Devs, own[m], false))
	}
	if len(own) > 0 {
		for _, m := range mods {
			c.StrippedDevTexts = append(c.StrippedDevTexts, devModuleTextX(m, impOf[m], c.Devs, own[m], true))
		}
	}
	// now and then deviations written in a submodule of the base, naming nodes of the module it belongs
	// to with the belongs-to prefix or without prefix (applied after the deviations of all modules)
	if g.chance(0.2) {
		var cands []tgt
		for _, t := range tgts {
			if len(t.m.Includes) > 0 {
				cands = append(cands, t)
			}
		}
		if len(cands) > 0 {
			t0 := cands[r.Intn(len(cands))]
			sub := t0.m.Includes[r.Intn(len(t0.m.Includes))]
			nd := 1 + r.Intn(2)
			for i := 0; i < nd; i++ {
				t := t0
				if i > 0 || g.chance(0.5) {
					var same []tgt
					for _, x := range cands {
						if x.m == t0.m {
							same = append(same, x)
						}
					}
					t = same[r.Intn(len(same))]
					if g.chance(0.4) && len(pool) > 0 && pool[0].m == t0.m {
						t = pool[0]
					}
				}
				d := Deviation{Module: sub.Name, Sub: true, Target: t.dump, TargetMod: t.mod}
				if g.chance(0.5) {
					d.Arg = pathString(t.sp, sub.Prefix, true)
				} else {
					// no prefix on any step
					var sb strings.Builder
					for j, n := range t.sp.Names {
						if t.sp.ChoiceShorthand[j] {
							sb.WriteString("/" + n)
						}
						sb.WriteString("/" + n)
					}
					d.Arg = sb.String()
				}
				ns := 1 + r.Intn(2)
				for j := 0; j < ns; j++ {
					s := g.c08Stmt(t.kw, t.n, types)
					if s.Type != "-" {
						// (no reference leaf for replacement types outside the deviating modules)
						s.Type = "-"
						if s.Kind != "delete" {
							s.Units = "u2"
						}
					}
					d.Stmts = append(d.Stmts, s)
				}
				c.Devs = append(c.Devs, d)
				sub.Body.Kids = append(sub.Body.Kids, d.Node())
			}
			_, c.WithBaseTexts = set.Files()
		}
	}
	return c
}

// c08Types: the replacement types of the random part (set by C08Random before it draws statements):
// built-ins, the deviating module's own typedefs, and the zd_/zc_ typedefs of the imported base modules
// (c08AddTypedefDefaults), which carry units and a default.
var c08TypesBase = append(append([]string{}, leafTypes...), "dtu", "dtc", "dtn", "dtu", "dtc")

func (g *genr) c08Stmt(kw string, n *Node, types []string) DevStmt {
	kind := g.pick([]string{"add", "replace", "delete", "add", "replace", "delete", "add", "replace", "delete", "not-supported"})
	if g.chance(0.005) {
		kind = "bogus"
	}
	s := NewDevStmt(kind)
	if kind == "not-supported" {
		return s
	}
	fit := g.chance(0.8) // make the statement fit what the base writes on the target
	np := 1 + g.r.Intn(3)
	for j := 0; j < np; j++ {
		var p string
		switch {
		case g.chance(0.02):
			p = g.pick(c08Props)
		case kw == "list":
			p = g.pick([]string{"min-elements", "max-elements", "config"})
		case kw == "leaf-list":
			p = g.pick([]string{"min-elements", "max-elements", "config", "units", "default", "type"})
		case kw == "leaf":
			p = g.pick([]string{"default", "mandatory", "units", "config", "type"})
		case kw == "choice":
			p = g.pick([]string{"default", "mandatory", "config"})
		case kw == "anydata" || kw == "anyxml":
			p = g.pick([]string{"mandatory", "config"})
		default:
			p = g.pick([]string{"config", "config", "units"})
		}
		var v string
		switch p {
		case "config", "mandatory":
			v = g.pick([]string{"true", "false"})
		case "default":
			v = g.pick([]string{"d1", "d2", "a", "b", ""})
		case "min-elements":
			v = g.pick([]string{"0", "1", "2"})
		case "max-elements":
			v = g.pick([]string{"unbounded", "3", "10"})
		case "units":
			v = g.pick([]string{"u1", "u2", "u1", "u2", ""})
		case "type":
			v = g.pick(types)
		}
		if fit && j == 0 && (p == "units" || p == "type") {
			// the schema tree records no units of its own; a leaf always has a type
			if p == "type" && (kw == "leaf" || kw == "leaf-list") {
				kind = "replace"
			} else {
				kind = "add"
			}
			s.Kind = kind
		} else if fit && j == 0 {
			// the first property decides the kind: delete what is there (with its value), add what is not
			cur, present := n.kid(p)
			if p == "min-elements" && cur == "0" || p == "max-elements" && cur == "unbounded" {
				present = false
			}
			switch {
			case present && kind == "add" && !(p == "default" && kw == "leaf-list"):
				kind = g.pick([]string{"replace", "delete"})
			case !present && kind != "add":
				kind = "add"
			}
			if present && kind == "delete" {
				v = cur
			}
			if kind == "delete" && p == "default" && kw == "leaf-list" {
				kind = "replace" // deleting a leaf-list default is refused by the library
			}
			s.Kind = kind
		} else if fit && j > 0 {
			// further properties only when they fit the kind already chosen
			cur, present := n.kid(p)
			if p == "units" || p == "type" {
				present = p == "type" && (kw == "leaf" || kw == "leaf-list")
				if kind == "delete" {
					continue
				}
			}
			if (kind == "add") == present && !(p == "default" && kw == "leaf-list" && kind == "add") {
				continue
			}
			if kind == "delete" {
				if p == "default" && kw == "leaf-list" {
					continue
				}
				v = cur
			}
		}
		s.Set(p, v)
	}
	return s
}

// c08AddTypedefDefaults gives every (sub)module of the set two typedefs that carry a default and
// units (zd_<module>, and zc_<module> derived from it) and makes about a third of the leaves and
// leaf-lists written directly in a module body (not inside groupings or augments) use them, or the
// typedef of an imported module: the type then has a default that the node itself does not state.
func c08AddTypedefDefaults(g *genr, set *Set) {
	tdName := func(m *Module) string { return "zd_" + strings.ReplaceAll(m.Name, "-", "_") }
	done := map[*Node]bool{}
	for _, m := range set.Mods {
		n1 := tdName(m)
		n2 := "zc_" + strings.ReplaceAll(m.Name, "-", "_")
		td := &Node{Kw: "typedef", Arg: n1}
		td.add("type", "string")
		td.add("default", "d1")
		td.add("units", "u1")
		tc := &Node{Kw: "typedef", Arg: n2}
		tc.add("type", n1)
		m.Body.Kids = append([]*Node{td, tc}, m.Body.Kids...)
		refs := []string{n1, n2, m.Prefix + ":" + n1}
		for _, o := range m.Imports {
			if !o.Sub {
				refs = append(refs, m.ImportPrefix[o]+":"+tdName(o))
			}
		}
		var walk func(n *Node)
		walk = func(n *Node) {
			for _, k := range n.Kids {
				switch k.Kw {
				case "grouping", "augment", "typedef", "uses":
					continue
				case "leaf", "leaf-list":
					// (the second revision of a module shares its statements with the first: once is enough,
					// and both revisions have the typedefs)
					if done[k] || k.Arg == "k" {
						continue
					}
					done[k] = true
					// the empty string as the node's own default now and then
					for _, t := range k.Kids {
						if t.Kw == "default" && g.chance(0.15) {
							t.Arg = ""
						}
					}
					if g.chance(0.35) {
						for _, t := range k.Kids {
							if t.Kw == "type" {
								t.Arg = refs[g.r.Intn(len(refs))]
								t.Kids = nil
							}
						}
					}
				default:
					walk(k)
				}
			}
		}
		walk(m.Body)
	}
}

// C08FromDisk turns a case into its files-on-disk variant: the deviating modules are not handed to
// Parse but reached by the first Process through the imports of a loader module `top` (variant 0: top
// is the only root, the base arrives through the deviating modules' imports; variant 1: the base files
// are roots too).  A base that holds deviations in a submodule keeps the submodule on disk (reached
// through include).  With two revisions of a base module loaded the base files are always roots (which
// file an import without revision-date finds on disk is a different question).
func C08FromDisk(c C08Case, variant int) C08Case {
	if len(c.DevMods) == 0 && len(c.WithBaseTexts) == 0 {
		return c
	}
	c.Label += "/from-disk"
	if c.Combo != "" {
		c.Combo += fmt.Sprintf("/from-disk-%d", variant)
	}
	twoRevs := false
	for _, n := range c.BaseNames {
		if strings.Contains(n, "@") {
			twoRevs = true
		}
	}
	var sb strings.Builder
	sb.WriteString("module top {\n  namespace \"urn:top\";\n  prefix top;\n")
	for i, m := range c.DevMods {
		fmt.Fprintf(&sb, "  import %s { prefix t%d; }\n", m, i)
	}
	if len(c.DevMods) == 0 {
		// deviations in a submodule of the base only: the loader imports the owning modules
		for i, n := range c.BaseNames {
			if !strings.Contains(n, "-s") {
				fmt.Fprintf(&sb, "  import %s { prefix t%d; }\n", strings.TrimSuffix(n, ".yang"), i)
			}
		}
	}
	sb.WriteString("}\n")
	c.LoaderNames, c.LoaderTexts = []string{"top.yang"}, []string{sb.String()}
	c.PathRoots = []string{"top.yang"}
	if variant == 1 || twoRevs {
		for _, n := range c.BaseNames {
			// (submodules stay on disk: they arrive through include)
			if !strings.Contains(n, "-s") {
				c.PathRoots = append(c.PathRoots, n)
			}
		}
	}
	return c
}
