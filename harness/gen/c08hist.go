package gen

// C08 histories: witnesses for "what Process leaves behind depends on the loaded modules and the
// options in force at that call only" — one syntax tree processed several times under changing
// ParseOptions (the use pkg/yang/options.go names for IgnoreDeviateNotSupported: one AST, with and
// without the not-supported nodes).  The runner (corr-c08) runs the histories on every case that has
// Hist set; these cases make sure that sets on which the two settings of the option differ in several
// ways are always among them: a removed leaf next to a deviated one, a removed subtree, a removal by one
// module and an ordinary deviation by another, a removal whose repetition is an error under default
// options only, and a removal inside an rpc.

import "fmt"

// HasNotSupported reports whether some deviate statement of the case is `not-supported`.
func (c C08Case) HasNotSupported() bool {
	for _, d := range c.Devs {
		for _, s := range d.Stmts {
			if s.Kind == "not-supported" {
				return true
			}
		}
	}
	return false
}

func c08HistoryCases() []C08Case {
	var out []C08Case
	st := func(kind string, pv ...string) DevStmt {
		s := NewDevStmt(kind)
		for i := 0; i+1 < len(pv); i += 2 {
			s.Set(pv[i], pv[i+1])
		}
		return s
	}
	base := `module b {
  namespace "urn:b";
  prefix b;
  leaf s0 { type string; default keep; }
  container c {
    leaf gone { type string; }
    leaf kept { type string; }
    container sub {
      leaf-list ll { type string; max-elements 4; }
      list l { key k; leaf k { type string; } leaf v { type int8; units below; } }
    }
  }
  rpc op {
    input { leaf i { type string; } leaf j { type string; } }
    output { leaf o { type string; } }
  }
  container s2 { config false; leaf y { type string; mandatory true; } }
}
`
	ns := NewDevStmt("not-supported")
	type shape struct {
		name string
		devs []Deviation
		mods []string
	}
	shapes := []shape{
		{"leaf-removed-sibling-deviated", []Deviation{
			{Module: "dv", Arg: "/b:c/b:gone", Target: "/b/c/gone", Stmts: []DevStmt{ns}},
			{Module: "dv", Arg: "/b:c/b:kept", Target: "/b/c/kept", Stmts: []DevStmt{st("add", "default", "x")}}}, []string{"dv"}},
		{"subtree-removed", []Deviation{
			{Module: "dv", Arg: "/b:c/b:sub", Target: "/b/c/sub", Stmts: []DevStmt{ns}},
			{Module: "dv", Arg: "/b:s0", Target: "/b/s0", Stmts: []DevStmt{st("replace", "default", "other")}}}, []string{"dv"}},
		{"two-modules", []Deviation{
			{Module: "dva", Arg: "/b:c/b:sub/b:l", Target: "/b/c/sub/l", Stmts: []DevStmt{ns}},
			{Module: "dvb", Arg: "/b:c/b:sub/b:ll", Target: "/b/c/sub/ll", Stmts: []DevStmt{st("replace", "max-elements", "2")}}}, []string{"dvb", "dva"}},
		{"removed-twice", []Deviation{
			{Module: "dva", Arg: "/b:c/b:gone", Target: "/b/c/gone", Stmts: []DevStmt{ns}},
			{Module: "dvb", Arg: "/b:c/b:gone", Target: "/b/c/gone", Stmts: []DevStmt{ns}}}, []string{"dva", "dvb"}},
		{"rpc-input-leaf-removed", []Deviation{
			{Module: "dv", Arg: "/b:op/b:input/b:j", Target: "/b/op/input/j", Stmts: []DevStmt{ns}},
			{Module: "dv", Arg: "/b:op/b:output/b:o", Target: "/b/op/output/o", Stmts: []DevStmt{st("add", "units", "u9")}}}, []string{"dv"}},
		{"only-ordinary-deviations", []Deviation{
			{Module: "dv", Arg: "/b:c/b:kept", Target: "/b/c/kept", Stmts: []DevStmt{st("add", "default", "x"), st("replace", "default", "y")}}}, []string{"dv"}},
	}
	for _, sh := range shapes {
		for _, ins := range []bool{false, true} {
			combo := fmt.Sprintf("history/%s/ignore=%v", sh.name, ins)
			devs := append([]Deviation{}, sh.devs...)
			c := c08One(combo, combo, base, devs, sh.mods, ins)
			c.Hist = true
			out = append(out, c)
		}
	}
	return out
}
