package gen

// C08, late targets: deviation targets that exist only after the LEFT-OVER augment stage of Process.
//
// An augment whose path goes to or through the implied case of a short-hand choice member
// (/b:ch0/b:n0/b:n0: choice, implied case, container) cannot be applied in the first augment loop: the
// case node is made by FixChoice, after that loop.  Process applies such augments in the retry rounds
// that follow (augment, FixChoice, augment, ... until nothing more applies).  The nodes they graft are
// part of the final tree of the run without the deviating modules, so a deviation that names one of
// them is applicable and must be reflected there (and must not be reported): the deviation stage has to
// come after every augment stage.
//
// The family: a base with a short-hand choice (at the top, in a container, in a list, in an rpc input),
// and a chain of 1-3 augmenting modules.  Link i grafts, through the implied case that link i-1 (or the
// base) left behind, a leaf, a leaf-list, a container with a leaf, and a choice with a short-hand
// container of its own — which is the host of link i+1, so link i+1 needs one more retry round than
// link i.  The module names of the links are given in ascending or descending order (the retry rounds
// visit modules by name).  Variant: the last link's augment is written with the single step of the
// short-hand member (the name of the implied case): the library finds the member itself as long as the
// case is not there, so the nodes land in the container as well.  Deviation targets: every grafted node, nodes below them, the implied cases,
// the base's own nodes at and below the host of the first link.

import (
	"fmt"
	"math/rand"
)

type lateNode struct {
	steps [][2]string // (prefix, name) from the top of b's tree
	kw    string
	what  string
}

type lateSet struct {
	names, texts []string
	imports      [][2]string
	nodes        []lateNode
}

var c08LateHosts = []string{"top", "container", "list", "rpc-input"}

func c08LateSet(host string, links []string, caseVariant bool) lateSet {
	var s lateSet
	open, cl := "", ""
	var hs [][2]string
	switch host {
	case "container":
		open, cl, hs = "  container c {\n", "  }\n", [][2]string{{"b", "c"}}
	case "list":
		open, cl, hs = "  list l {\n    key k;\n    leaf k { type string; }\n", "  }\n", [][2]string{{"b", "l"}}
	case "rpc-input":
		open, cl, hs = "  rpc r {\n    input {\n", "    }\n  }\n", [][2]string{{"b", "r"}, {"b", "input"}}
	}
	s.names = []string{"b.yang"}
	s.texts = []string{"module b {\n  namespace \"urn:b\";\n  prefix b;\n  leaf s0 { type string; default keep; }\n" + open +
		"    choice ch0 { container n0 { leaf q0 { type string; default d1; } } leaf alt0 { type string; } }\n" + cl + "}\n"}
	s.imports = [][2]string{{"b", "b"}}
	cat := func(a [][2]string, b ...[2]string) [][2]string { return append(append([][2]string{}, a...), b...) }
	hostC := cat(hs, [2]string{"b", "ch0"}, [2]string{"b", "n0"}, [2]string{"b", "n0"})
	s.nodes = append(s.nodes, lateNode{hostC, "container", "base-host-container"},
		lateNode{cat(hostC, [2]string{"b", "q0"}), "leaf", "base-leaf-in-host"})
	path := hostC
	for i, m := range links {
		k := i + 1
		last := caseVariant && k == len(links)
		tgt := path
		if last {
			tgt = path[:len(path)-1] // the single step
		}
		var sb []byte
		sb = fmt.Appendf(sb, "module %s {\n  namespace \"urn:%s\";\n  prefix %s;\n", m, m, m)
		for _, im := range s.imports {
			sb = fmt.Appendf(sb, "  import %s { prefix %s; }\n", im[0], im[1])
		}
		sb = fmt.Appendf(sb, "  augment %s {\n", quote(c08LateSpell(tgt, "rfc")))
		sb = fmt.Appendf(sb, "    leaf l%d { type string; default d1; }\n", k)
		sb = fmt.Appendf(sb, "    container k%d { leaf kx%d { type string; default d1; } }\n", k, k)
		nm := func(f string) [2]string { return [2]string{m, fmt.Sprintf(f, k)} }
		w := fmt.Sprintf("link%d", k)
		if last {
			w += "-written-to-the-single-step"
		}
		// (an augment written to the short-hand member by its single step finds the member itself while the
		// case is not there yet: its nodes land in the container all the same)
		s.nodes = append(s.nodes, lateNode{cat(path, nm("l%d")), "leaf", w + "-leaf"},
			lateNode{cat(path, nm("k%d")), "container", w + "-container"},
			lateNode{cat(path, nm("k%d"), nm("kx%d")), "leaf", w + "-leaf-below-container"})
		if !last {
			sb = fmt.Appendf(sb, "    leaf-list ll%d { type string; max-elements 5; }\n", k)
			sb = fmt.Appendf(sb, "    choice ch%d { container n%d { leaf q%d { type string; default d1; } } }\n", k, k, k)
			s.nodes = append(s.nodes, lateNode{cat(tgt, nm("ll%d")), "leaf-list", w + "-leaf-list"},
				lateNode{cat(tgt, nm("ch%d")), "choice", w + "-choice"},
				lateNode{cat(tgt, nm("ch%d"), nm("n%d")), "case", w + "-implied-case"},
				lateNode{cat(tgt, nm("ch%d"), nm("n%d"), nm("n%d")), "container", w + "-shorthand-container"},
				lateNode{cat(tgt, nm("ch%d"), nm("n%d"), nm("n%d"), nm("q%d")), "leaf", w + "-leaf-below-shorthand"})
			path = cat(tgt, nm("ch%d"), nm("n%d"), nm("n%d"))
		}
		sb = append(sb, "  }\n}\n"...)
		s.names = append(s.names, m+".yang")
		s.texts = append(s.texts, string(sb))
		s.imports = append(s.imports, [2]string{m, m})
	}
	return s
}

func c08LateSpell(steps [][2]string, how string) string {
	out := ""
	for i, x := range steps {
		p := x[0]
		if how == "base-prefix" && i > 0 {
			p = "b"
		}
		out += "/" + p + ":" + x[1]
	}
	return out
}

func c08LateDump(steps [][2]string) string {
	out := "/b"
	for _, x := range steps {
		out += "/" + x[1]
	}
	return out
}

type lateStmt struct {
	name string
	s    []DevStmt
}

func c08LateStmts(kw string) []lateStmt {
	st := func(kind string, pv ...string) DevStmt {
		s := NewDevStmt(kind)
		for i := 0; i+1 < len(pv); i += 2 {
			s.Set(pv[i], pv[i+1])
		}
		return s
	}
	ns := lateStmt{"not-supported", []DevStmt{NewDevStmt("not-supported")}}
	cfg := lateStmt{"add-config", []DevStmt{st("add", "config", "false")}}
	switch kw {
	case "leaf":
		return []lateStmt{{"replace-default", []DevStmt{st("replace", "default", "x")}}, {"delete-default", []DevStmt{st("delete", "default", "d1")}},
			{"add-units", []DevStmt{st("add", "units", "u1")}}, cfg, ns,
			{"delete+add-default", []DevStmt{st("delete", "default", "d1"), st("add", "default", "y")}}}
	case "leaf-list":
		return []lateStmt{{"add-default", []DevStmt{st("add", "default", "a")}}, {"replace-max", []DevStmt{st("replace", "max-elements", "3")}},
			{"add-min", []DevStmt{st("add", "min-elements", "1")}}, cfg, ns}
	case "choice":
		return []lateStmt{{"add-mandatory", []DevStmt{st("add", "mandatory", "true")}}, cfg, ns}
	}
	return []lateStmt{cfg, ns}
}

func c08LateCase(label string, s lateSet, devs []Deviation, mods []string, ignoreNS bool) C08Case {
	c := C08Case{Label: label, BaseNames: s.names, BaseTexts: s.texts, Devs: devs, DevMods: mods, IgnoreNS: ignoreNS}
	for _, m := range mods {
		c.DevNames = append(c.DevNames, m+".yang")
		c.DevTexts = append(c.DevTexts, devModuleText(m, s.imports, devs))
	}
	return c
}

// c08LateCases: the enumerated part.  Host at the top: links named in ascending and in descending order,
// every target x every statement of its kind (RFC spelling; the leaves also with the base prefix on every
// step); the last link written to the single step; the other hosts: the leaves and the short-hand
// container of every link.
func c08LateCases() []C08Case {
	var out []C08Case
	add := func(tag string, s lateSet, n lateNode, how string, x lateStmt) {
		devs := []Deviation{{Module: "dv", Arg: c08LateSpell(n.steps, how), Target: c08LateDump(n.steps), TargetMod: "b", Stmts: x.s}}
		combo := fmt.Sprintf("late-augment/%s/%s/%s/%s", tag, n.what, how, x.name)
		c := c08LateCase(combo, s, devs, []string{"dv"}, false)
		c.Combo = combo
		out = append(out, c)
	}
	for _, ord := range []struct {
		tag   string
		links []string
	}{{"top/ascending", []string{"a1", "a2", "a3"}}, {"top/descending", []string{"a3", "a2", "a1"}}} {
		s := c08LateSet("top", ord.links, false)
		for _, n := range s.nodes {
			for _, x := range c08LateStmts(n.kw) {
				add(ord.tag, s, n, "rfc", x)
				if n.kw == "leaf" && (x.name == "replace-default" || x.name == "not-supported") && ord.tag == "top/ascending" {
					add(ord.tag, s, n, "base-prefix", x)
				}
			}
		}
	}
	for _, d := range []int{1, 2} {
		s := c08LateSet("top", []string{"a1", "a2"}[:d], true)
		for _, n := range s.nodes[len(s.nodes)-3:] {
			for _, x := range c08LateStmts(n.kw) {
				add(fmt.Sprintf("top/last-link-single-step/depth%d", d), s, n, "rfc", x)
			}
		}
	}
	for _, host := range c08LateHosts[1:] {
		s := c08LateSet(host, []string{"a1", "a2", "a3"}, false)
		for _, n := range s.nodes {
			if !(n.kw == "leaf" || n.kw == "container") {
				continue
			}
			for _, x := range c08LateStmts(n.kw) {
				if x.name == "replace-default" || x.name == "not-supported" {
					add(host+"/ascending", s, n, "rfc", x)
				}
			}
		}
	}
	return out
}

// C08RandomLate: one random set of the family with 1-2 deviating modules x 1-2 deviations x one statement
// group of the target's kind.
func C08RandomLate(r *rand.Rand) C08Case {
	pool := []string{"a1", "a2", "e5", "m7", "z9"}
	r.Shuffle(len(pool), func(i, j int) { pool[i], pool[j] = pool[j], pool[i] })
	d := 1 + r.Intn(3)
	host := c08LateHosts[r.Intn(len(c08LateHosts))]
	s := c08LateSet(host, pool[:d], r.Intn(4) == 0)
	mods := []string{"dv"}
	if r.Intn(3) == 0 {
		mods = []string{"dw", "ad"}[:1+r.Intn(2)]
	}
	var devs []Deviation
	for _, m := range mods {
		for k := 1 + r.Intn(2); k > 0; k-- {
			n := s.nodes[r.Intn(len(s.nodes))]
			xs := c08LateStmts(n.kw)
			x := xs[r.Intn(len(xs))]
			how := "rfc"
			if r.Intn(4) == 0 {
				how = "base-prefix"
			}
			devs = append(devs, Deviation{Module: m, Arg: c08LateSpell(n.steps, how), Target: c08LateDump(n.steps), TargetMod: "b", Stmts: x.s})
		}
	}
	return c08LateCase("random-late-augment/"+host, s, devs, mods, r.Intn(5) == 0)
}
