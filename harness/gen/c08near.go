package gen

// C08, near-miss deviation targets: arguments that do NOT name a schema node by the rules of
// RFC 7950 6.5 (every step names a direct child; choice and case nodes, written or implied, are
// steps like any other) but would resolve if the lookup were more generous than that: choice / case
// steps left out, a case named without its choice, a descendant named as though it were a child.
// Such a deviation must be reported and must change nothing.
//
// The generator only PROPOSES them (Deviation.Missing + Deviation.Spelt = the dump path the written
// steps spell); whether the path names a node is decided by the runner with the executable
// specification (drv_dev spec.target) on the Go dump of the run without the deviating modules.  A
// proposal that happens to name another node (same names at two levels) is an ordinary deviation of
// that node.

import (
	"fmt"
	"hash/fnv"
	"math/rand"
	"strings"
)

type c08Step struct{ pfx, name string }

func c08SplitArg(arg string) []c08Step {
	var out []c08Step
	for _, s := range strings.Split(strings.TrimPrefix(arg, "/"), "/") {
		if i := strings.IndexByte(s, ':'); i >= 0 {
			out = append(out, c08Step{s[:i], s[i+1:]})
		} else {
			out = append(out, c08Step{"", s})
		}
	}
	return out
}

func c08JoinArg(steps []c08Step) string {
	var sb strings.Builder
	for _, s := range steps {
		if s.pfx == "" {
			sb.WriteString("/" + s.name)
		} else {
			sb.WriteString("/" + s.pfx + ":" + s.name)
		}
	}
	return sb.String()
}

// c08NearMiss turns d, a deviation of an existing target (Arg and Target step for step: Target =
// "/<module>/<name of step 0>/<name of step 1>…"), into a near miss by leaving out steps other than
// the last.  kindOf(dump path) is the keyword of the node at that path ("" = not a written node: the
// implied case around a short-hand member of a choice).  It returns false when d has a single step.
//
//	mode 0  every choice / case step is left out (the path of the data node)
//	mode 1  one choice or case step is left out (a case without its choice, a choice without its case)
//	mode 2  one step of any kind is left out (a descendant named as a child)
//	mode 3  a random non-empty set of steps is left out
func c08NearMiss(r *rand.Rand, d *Deviation, kindOf func(string) string) bool {
	steps := c08SplitArg(d.Arg)
	tnames := strings.Split(strings.TrimPrefix(d.Target, "/"), "/")
	if len(steps) < 2 || len(tnames) != len(steps)+1 {
		return false
	}
	n := len(steps)
	isCC := make([]bool, n)
	var cc []int
	cur := "/" + tnames[0]
	for i := 0; i < n-1; i++ {
		cur += "/" + steps[i].name
		switch kindOf(cur) {
		case "choice", "case", "":
			isCC[i] = true
			cc = append(cc, i)
		}
	}
	drop := map[int]bool{}
	mode := r.Intn(4)
	if len(cc) == 0 && mode < 2 {
		mode = 2
	}
	how := ""
	switch mode {
	case 0:
		for _, i := range cc {
			drop[i] = true
		}
		how = "all-choice-case-steps"
	case 1:
		i := cc[r.Intn(len(cc))]
		drop[i] = true
		how = "one-" + kindOf("/"+strings.Join(tnames[:i+2], "/")) + "-step"
		if how == "one--step" {
			how = "one-implied-case-step"
		}
	case 2:
		i := r.Intn(n - 1)
		drop[i] = true
		how = "one-step"
		if !isCC[i] {
			how = "descendant-as-child"
		}
	default:
		for len(drop) == 0 {
			for i := 0; i < n-1; i++ {
				if r.Intn(2) == 0 {
					drop[i] = true
				}
			}
		}
		how = "some-steps"
		for i := range drop {
			if !isCC[i] {
				how = "some-steps-incl-data-nodes"
			}
		}
	}
	var kept []c08Step
	for i, s := range steps {
		if !drop[i] {
			kept = append(kept, s)
		}
	}
	// the first step selects the tree: it keeps the prefix the original first step had
	kept[0].pfx = steps[0].pfx
	spelt := "/" + tnames[0]
	for _, s := range kept {
		spelt += "/" + s.name
	}
	d.Arg, d.Spelt, d.Near, d.Missing, d.Target, d.Implicit = c08JoinArg(kept), spelt, how, true, "", false
	return true
}

// c08ThroughChoice: some step of d's path other than the last is a choice or case (written or implied).
func c08ThroughChoice(d *Deviation, kindOf func(string) string) bool {
	names := strings.Split(strings.TrimPrefix(d.Target, "/"), "/")
	for i := 2; i < len(names); i++ {
		switch kindOf("/" + strings.Join(names[:i], "/")) {
		case "choice", "case", "":
			return true
		}
	}
	return false
}

// c08NearSeed: the near misses of a random case are drawn from a generator of their own, seeded by the
// texts of the base, so that they do not shift the random stream the rest of the case is drawn from.
func c08NearSeed(texts []string) *rand.Rand {
	h := fnv.New64a()
	for _, t := range texts {
		h.Write([]byte(t))
		h.Write([]byte{0})
	}
	return rand.New(rand.NewSource(int64(h.Sum64() >> 1)))
}

// c08NearMissCases: the enumerated part.  One base with written cases, short-hand cases, nested
// choices, a choice from a grouping, choices inside a list and an rpc input, and a second module that
// augments a choice into a container and cases into a choice; every way of leaving steps out on the way
// to each node below a choice, x deviate statements that would apply cleanly to the node a generous
// lookup reaches (so that nothing else is reported), alone and next to a valid deviation.
func c08NearMissCases() []C08Case {
	var out []C08Case
	st := func(kind string, pv ...string) DevStmt {
		s := NewDevStmt(kind)
		for i := 0; i+1 < len(pv); i += 2 {
			s.Set(pv[i], pv[i+1])
		}
		return s
	}
	bText := `module b {
  namespace "urn:b";
  prefix b;
  leaf s0 { type string; default keep; }
  grouping g {
    choice gc {
      case g1 { leaf gl { type string; default d1; } }
      container gk { leaf gx { type string; default d1; } }
    }
  }
  container top {
    leaf mtu { type uint16; default 9; }
    choice transport {
      case tcp {
        leaf port { type uint16; default 80; }
        container opts { leaf nodelay { type string; default d1; } }
      }
      container udp { leaf checksum { type string; default d1; } }
      leaf raw { type string; default d1; }
      case nested {
        choice inner {
          case i1 { leaf deep { type string; default d1; } }
          leaf-list dl { type string; default a; }
        }
      }
    }
    container u { uses g; }
    list l {
      key k;
      leaf k { type string; }
      choice lc { leaf lv { type string; default d1; } }
    }
  }
  rpc r { input { choice ic { leaf il { type string; default d1; } } } }
}
`
	aText := `module a {
  namespace "urn:a";
  prefix a;
  import b { prefix b; }
  augment /b:top {
    choice ac {
      case a1 { leaf al { type string; default d1; } }
      container ak { leaf ax { type string; default d1; } }
    }
  }
  augment /b:top/b:transport {
    case sctp { leaf streams { type string; default d1; } }
    leaf dccp { type string; default d1; }
  }
}
`
	// arg (prefix b: unless written), what it leaves out, kind of the node a generous lookup would reach
	type nm struct{ arg, what, reach string }
	paths := []nm{
		// written case: /top/transport/tcp/port
		{"/top/port", "choice+case", "leaf"},
		{"/top/transport/port", "case", "leaf"},
		{"/top/tcp/port", "choice", "leaf"},
		{"/top/tcp", "choice/target-is-case", "case"},
		{"/top/opts", "choice+case", "container"},
		{"/top/opts/nodelay", "choice+case", "leaf"},
		{"/top/transport/opts/nodelay", "case", "leaf"},
		{"/top/nodelay", "choice+case+container", "leaf"},
		{"/top/transport/tcp/nodelay", "container(descendant-as-child)", "leaf"},
		// short-hand cases: /top/transport/udp/udp/checksum, /top/transport/raw/raw
		{"/top/udp", "choice+implied-case", "container"},
		{"/top/udp/checksum", "choice+implied-case", "leaf"},
		{"/top/transport/udp/checksum", "implied-case", "leaf"},
		{"/top/checksum", "choice+implied-case+container", "leaf"},
		{"/top/raw", "choice+implied-case", "leaf"},
		{"/top/udp/udp", "choice", "container"},
		{"/top/raw/raw", "choice", "leaf"},
		// nested choices: /top/transport/nested/inner/i1/deep, /top/transport/nested/inner/dl/dl
		{"/top/deep", "choice+case+choice+case", "leaf"},
		{"/top/transport/deep", "case+choice+case", "leaf"},
		{"/top/transport/nested/deep", "choice+case", "leaf"},
		{"/top/transport/nested/inner/deep", "case", "leaf"},
		{"/top/transport/nested/i1/deep", "inner-choice", "leaf"},
		{"/top/transport/inner/i1/deep", "outer-case", "leaf"},
		{"/top/inner/i1/deep", "outer-choice+case", "leaf"},
		{"/top/inner", "outer-choice+case/target-is-choice", "choice"},
		{"/top/nested/inner/i1/deep", "outer-choice", "leaf"},
		{"/top/dl", "choice+case+choice+implied-case", "leaf-list"},
		{"/top/transport/nested/dl", "choice+implied-case", "leaf-list"},
		{"/top/transport/nested/inner/i1", "nothing-but-wrong-target-below", ""}, // valid: filtered by the specification
		// descendants named as children, no choice involved
		{"/mtu", "container(descendant-as-child)", "leaf"},
		{"/top/k", "list(descendant-as-child)", "leaf"},
		{"/top/gx", "container+choice+implied-case+container", "leaf"},
		// a choice that comes from a grouping: /top/u/gc/g1/gl, /top/u/gc/gk/gk/gx
		{"/top/u/gl", "choice+case", "leaf"},
		{"/top/u/gc/gl", "case", "leaf"},
		{"/top/u/g1/gl", "choice", "leaf"},
		{"/top/u/gk", "choice+implied-case", "container"},
		{"/top/u/gk/gx", "choice+implied-case", "leaf"},
		{"/top/u/gc/gk/gx", "implied-case", "leaf"},
		// inside a list and an rpc input
		{"/top/l/lv", "choice+implied-case", "leaf"},
		{"/top/l/lc/lv/k", "nothing-but-wrong-target-below", "leaf"},
		{"/r/input/il", "choice+implied-case", "leaf"},
		{"/r/il", "input+choice+implied-case", "leaf"},
		{"/r/ic/il/il", "input(descendant-as-child)", "leaf"},
		// a choice augmented into a container by another module: /top/ac/a1/al, /top/ac/ak/ak/ax
		{"/top/a:al", "choice+case", "leaf"},
		{"/top/a:ac/a:al", "case", "leaf"},
		{"/top/a:a1/a:al", "choice", "leaf"},
		{"/top/a:ak", "choice+implied-case", "container"},
		{"/top/a:ak/a:ax", "choice+implied-case", "leaf"},
		{"/top/a:ax", "choice+implied-case+container", "leaf"},
		// cases augmented into a choice: /top/transport/sctp/streams, /top/transport/dccp/dccp
		{"/top/a:streams", "choice+case", "leaf"},
		{"/top/transport/a:streams", "case", "leaf"},
		{"/top/a:sctp/a:streams", "choice", "leaf"},
		{"/top/a:dccp", "choice+implied-case", "leaf"},
		{"/top/a:dccp/a:dccp", "choice", "leaf"},
	}
	type sv struct {
		name string
		s    []DevStmt
		ins  bool
	}
	stmtsFor := func(reach string) []sv {
		switch reach {
		case "leaf":
			return []sv{{"replace-default", []DevStmt{st("replace", "default", "x")}, false}, {"add-units", []DevStmt{st("add", "units", "u1")}, false},
				{"not-supported", []DevStmt{NewDevStmt("not-supported")}, false}, {"not-supported", []DevStmt{NewDevStmt("not-supported")}, true},
				{"add-config+mandatory", []DevStmt{st("add", "config", "false", "mandatory", "false")}, false}}
		case "leaf-list":
			return []sv{{"replace-default", []DevStmt{st("replace", "default", "x")}, false}, {"add-max-elements", []DevStmt{st("add", "max-elements", "4")}, false},
				{"not-supported", []DevStmt{NewDevStmt("not-supported")}, false}}
		default:
			return []sv{{"add-config", []DevStmt{st("add", "config", "false")}, false}, {"not-supported", []DevStmt{NewDevStmt("not-supported")}, false},
				{"not-supported", []DevStmt{NewDevStmt("not-supported")}, true}}
		}
	}
	for _, p := range paths {
		steps := c08SplitArg(p.arg)
		spelt := "/b"
		for i := range steps {
			if steps[i].pfx == "" {
				steps[i].pfx = "b"
			}
			spelt += "/" + steps[i].name
		}
		arg := c08JoinArg(steps)
		for _, x := range stmtsFor(p.reach) {
			for _, beside := range []bool{false, true} {
				if beside && x.name != "replace-default" && x.name != "add-config" {
					continue
				}
				devs := []Deviation{{Module: "dv", Arg: arg, Missing: true, Spelt: spelt, Near: p.what, TargetMod: "b", Stmts: x.s}}
				if beside {
					devs = append(devs, Deviation{Module: "dv", Arg: "/b:s0", Target: "/b/s0", TargetMod: "b", Stmts: []DevStmt{st("add", "units", "u9")}})
				}
				combo := fmt.Sprintf("near-miss%s/%s/%s/beside-valid=%v/ignore=%v", strings.ReplaceAll(p.arg, "/", "."), strings.ReplaceAll(p.what, "/", "."), x.name, beside, x.ins)
				c := C08Case{Label: combo, Combo: combo, BaseNames: []string{"b.yang", "a.yang"}, BaseTexts: []string{bText, aText},
					Devs: devs, DevMods: []string{"dv"}, IgnoreNS: x.ins}
				c.DevNames = []string{"dv.yang"}
				c.DevTexts = []string{devModuleText("dv", [][2]string{{"b", "b"}, {"a", "a"}}, devs)}
				out = append(out, c)
			}
		}
	}
	return out
}
