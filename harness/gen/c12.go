package gen

// Generator for property C12 (config inheritance and namespace attribution).  Unlike Generate it
// builds only sets that are meant to process cleanly, and it knows, for every node of every
// module's final schema tree, which module's text placed it there: own body and bodies of included
// submodules => the module; grouping content => whoever placed the uses statement (recursively);
// augment body => the module the augmenting (sub)module belongs to.  That knowledge is returned as
// an expectation table next to the texts; the Go-side oracle of corr-c12 compares it with
// Namespace() / InstantiatingModule() of the real tree.
//
// Grouping names are unique within a set and every reference is written so that goyang's scoping
// resolves it to the intended grouping; sibling names are kept distinct (also across uses), so the
// expectation does not depend on a re-implementation of FindGrouping or of collision handling.

import (
	"fmt"
	"math/rand"
	"sort"
	"strings"
)

// C12Opts tunes GenerateC12.
type C12Opts struct {
	// OpsConfigRate scales the probability of a config statement inside rpc / action /
	// notification (the property excludes those; they are generated at a low rate anyway).
	OpsConfigRate float64
	// TwoRevisions adds an older revision of one module to the set (DESIGN D40).
	TwoRevisions bool
	// SharedAction plants a grouping whose action spells out neither input nor output (or only one
	// of them), uses it in several places that differ in effective config and in using module, and
	// augments the unwritten input/output of the different instantiations from different modules:
	// every instantiation must have input/output nodes of its own.
	SharedAction bool
	// TwinNS gives two (sometimes three) modules namespaces that are near twins (letter case,
	// trailing slash or blank, one a prefix of the other, percent-encoding, Unicode case folding) and
	// makes each of them place nodes in its own tree, through a grouping of the other one, and by
	// augments into a third module.
	TwinNS bool
	// Coincide plants places where names COINCIDE along a path across modules (see c12coincide.go):
	// an explicit case / container / list / shorthand choice member written by one module, holding
	// that module's own nodes at several depths, into which other modules graft nodes named like the
	// target, like the target's parent, like the top-level ancestor, like the augmenting module or
	// its prefix; and the generic augments draw their body names from the same pool.
	Coincide bool
}

// C12Expect is what the oracle expects of one node.
type C12Expect struct {
	NS string `json:"ns"`           // namespace of the placing module (owner, for a submodule)
	IM string `json:"im"`           // its name
	By string `json:"by,omitempty"` // the (sub)module whose text placed the node (information only)
	// Cfg is the argument of the config statement written on the node ("" when there is none): the
	// read-only oracle goes by the statements as written, not by what the library stored.
	Cfg string `json:"cfg,omitempty"`
	// Lib marks nodes the library inserts (implied case of a shorthand choice member, rpc input /
	// output that is not written): the property does not speak about their namespace.
	Lib bool `json:"lib,omitempty"`
}

// C12Set is a generated set with its expectation table: key = tree (module full name) + " " +
// Entry.Path() of the node.
type C12Set struct {
	Set    *Set
	Expect map[string]C12Expect
	// Features of the set, for the runner's distribution.
	Feat map[string]int
}

// xnode is a node of the expected schema tree.
type xnode struct {
	name   string
	kw     string
	by     *Module // (sub)module whose text placed it
	kids   []*xnode
	parent *xnode
	lib    bool
	inOps  bool
	cfg    string
}

func (x *xnode) child(name string) *xnode {
	for _, c := range x.kids {
		if c.name == name {
			return c
		}
	}
	return nil
}

func (x *xnode) add(name, kw string, by *Module) *xnode {
	c := &xnode{name: name, kw: kw, by: by, parent: x, inOps: x.inOps || kw == "rpc" || kw == "action" || kw == "notification"}
	x.kids = append(x.kids, c)
	return c
}

type c12gen struct {
	r           *rand.Rand
	opt         C12Opts
	set         *Set
	gseq        int
	aseq        int
	cseq        int
	gInfo       map[*Node]*gmeta // per grouping
	trees       map[*Module]*xnode
	feat        map[string]int
	broken      bool      // an expansion met a name collision: the set is not used for expectations
	inner       []*Module // submodules that another submodule includes
	twins       []*Module // modules with near-twin namespaces
	forceTarget *Module   // when set, augment() targets this module
}

type gmeta struct {
	owner     *Module // (sub)module that defines it
	top       bool    // module-level (visible to importers)
	hasConfig bool
	hasAction bool     // contains an action or notification (not to be used inside rpc/action/notification)
	names     []string // names it contributes to a user (computed when complete)
}

func (g *c12gen) chance(p float64) bool   { return g.r.Float64() < p }
func (g *c12gen) pick(ss []string) string { return ss[g.r.Intn(len(ss))] }

var c12Names = []string{"x", "y", "z", "w", "v", "u"}

func ownerOf(m *Module) *Module {
	if m.Sub {
		return m.Owner
	}
	return m
}

// GenerateC12 builds one set.
func GenerateC12(r *rand.Rand, opt C12Opts) *C12Set {
	g := &c12gen{r: r, opt: opt, set: &Set{}, gInfo: map[*Node]*gmeta{}, trees: map[*Module]*xnode{}, feat: map[string]int{}}
	nm := 1 + r.Intn(4)
	if (opt.SharedAction || opt.TwinNS) && nm < 3 {
		nm = 3
	}
	if opt.Coincide && nm < 2 {
		nm = 2
	}
	names := []string{"a", "b", "c", "d"}
	var mods []*Module
	for i := 0; i < nm; i++ {
		m := &Module{Name: names[i], Prefix: "p" + names[i], Namespace: "urn:" + names[i], ImportPrefix: map[*Module]string{}}
		if g.chance(0.3) || (opt.TwoRevisions && i == 0) {
			m.Revisions = []string{"2020-01-01"}
		}
		m.Body = &Node{Kw: "module", Arg: m.Name}
		mods = append(mods, m)
	}
	if opt.TwinNS {
		// before the submodules are made: they carry their owner's namespace
		fam := c12Twins[r.Intn(len(c12Twins))]
		perm := r.Perm(len(mods))
		vp := r.Perm(len(fam))
		k := 2
		if len(mods) >= 4 && g.chance(0.4) {
			k = 3
		}
		for i := 0; i < k; i++ {
			mods[perm[i]].Namespace = fam[vp[i]]
			g.twins = append(g.twins, mods[perm[i]])
		}
		g.forceTarget = mods[perm[k]] // a module with an ordinary namespace
		g.feat["twin_namespace_sets"]++
	}
	for _, m := range mods {
		for _, o := range mods {
			if o != m && g.chance(0.65) {
				m.Imports = append(m.Imports, o)
				p := o.Prefix
				if g.chance(0.2) {
					p = "q" + o.Name
				}
				m.ImportPrefix[o] = p
			}
		}
	}
	var subs []*Module
	for i, m := range mods {
		if opt.TwoRevisions && i == 0 {
			continue // the module that gets a second revision has no submodules
		}
		if g.chance(0.45) {
			ns := 1 + r.Intn(2)
			for j := 0; j < ns; j++ {
				s := &Module{Name: fmt.Sprintf("%s-s%d", m.Name, j+1), Prefix: m.Prefix, Namespace: m.Namespace, Sub: true, Owner: m,
					ImportPrefix: map[*Module]string{}}
				s.Body = &Node{Kw: "submodule", Arg: s.Name}
				for _, o := range m.Imports {
					if g.chance(0.8) {
						s.Imports = append(s.Imports, o)
						s.ImportPrefix[o] = m.ImportPrefix[o]
					}
				}
				m.Includes = append(m.Includes, s)
				subs = append(subs, s)
			}
			g.feat["submodules"] += len(m.Includes)
			if len(m.Includes) == 2 && g.chance(0.45) {
				// one submodule includes the other; the owner lists the outer one first, the inner
				// one first, or does not list the inner one at all (it is then part of the module
				// only through the nested include)
				outer, inner := m.Includes[0], m.Includes[1]
				if g.chance(0.5) {
					outer, inner = inner, outer
				}
				outer.Includes = append(outer.Includes, inner)
				g.inner = append(g.inner, inner)
				g.feat["submodule_including_submodule"]++
				switch k := g.r.Intn(20); {
				case k < 7:
					m.Includes = []*Module{outer, inner}
					g.feat["nested_include:owner_lists_outer_first"]++
				case k < 15:
					m.Includes = []*Module{inner, outer}
					g.feat["nested_include:owner_lists_inner_first"]++
				default:
					m.Includes = []*Module{outer}
					g.feat["nested_include:owner_does_not_list_inner"]++
				}
			}
		}
	}
	all := append(append([]*Module{}, mods...), subs...)
	g.set.Mods = all

	// groupings, in an order such that a grouping only uses earlier ones (no cycles)
	order := append([]*Module{}, all...)
	r.Shuffle(len(order), func(i, j int) { order[i], order[j] = order[j], order[i] })
	for round := 0; round < 2; round++ {
		for _, m := range order {
			if g.chance(0.55) {
				g.gseq++
				gr := &Node{Kw: "grouping", Arg: fmt.Sprintf("g%d", g.gseq)}
				g.gInfo[gr] = &gmeta{owner: m, top: true}
				g.fill(m, gr, 1, false, nil, true)
				g.finishGrouping(gr)
				m.Groupings = append(m.Groupings, gr)
				m.Body.Kids = append(m.Body.Kids, gr)
			}
		}
	}
	// bodies
	for _, m := range all {
		g.fill(m, m.Body, 0, false, nil, false)
		if g.chance(0.5) {
			g.rpc(m, m.Body, "rpc", nil)
		}
		if g.chance(0.3) {
			n := m.Body.add("notification", g.topName(m, g.pick(c12Names)+"n"))
			g.fill(m, n, 1, true, nil, false)
		}
	}
	g.plantTwins()
	var shared []sharedInst
	if opt.SharedAction {
		shared = g.plantSharedAction(mods)
	}
	var coinc []coincInst
	if opt.Coincide {
		coinc = g.plantCoincide()
	}
	// expected trees before augments
	for _, m := range mods {
		root := &xnode{name: m.Name, kw: "module", by: m}
		g.trees[m] = root
		g.expand(root, m.Body, m)
		for _, s := range subs {
			if s.Owner == m {
				g.expand(root, s.Body, s)
			}
		}
	}
	// the older revision: the module as it is now (no augments yet), one leaf less or more
	var old *Module
	if opt.TwoRevisions {
		m := mods[0]
		old = &Module{Name: m.Name, Prefix: m.Prefix, Namespace: m.Namespace, ImportPrefix: m.ImportPrefix, Imports: m.Imports,
			Revisions: []string{"2019-01-01"}, Groupings: m.Groupings}
		old.Body = &Node{Kw: "module", Arg: m.Name, Kids: append([]*Node{}, m.Body.Kids...)}
		if g.chance(0.5) {
			old.Body.add("leaf", "oldonly").add("type", "string")
		}
		root := &xnode{name: old.Name, kw: "module", by: old}
		g.trees[old] = root
		g.expand(root, old.Body, old)
	}
	// augments (applied to the expected trees as they are generated, so chains are possible)
	g.augmentShared(shared, mods)
	g.augmentCoincide(coinc, mods)
	// each near-twin module grafts nodes into a third module
	if t := g.forceTarget; t != nil {
		for _, m := range g.twins {
			g.ensureImport(m, t)
			g.augment(m, mods, true)
			if g.chance(0.5) {
				g.augment(m, mods, true)
			}
		}
		g.forceTarget = nil
	}
	for round := 0; round < 2; round++ {
		for _, m := range order {
			if g.chance(0.55) {
				g.augment(m, mods, false)
			}
		}
	}
	// what a submodule included by another submodule grafts into OTHER modules must still report
	// the owning module
	for _, in := range g.inner {
		if g.chance(0.75) {
			g.augment(in, mods, true)
		}
	}
	if old != nil {
		// load order: sometimes the older revision first, sometimes last
		if g.chance(0.5) {
			g.set.Mods = append([]*Module{old}, g.set.Mods...)
		} else {
			g.set.Mods = append(g.set.Mods, old)
		}
		g.feat["two_revisions"] = 1
	}
	out := &C12Set{Set: g.set, Expect: map[string]C12Expect{}, Feat: g.feat}
	if g.broken {
		out.Expect = nil
		return out
	}
	for _, root := range g.trees {
		if looksImplied(root) {
			// a WRITTEN case whose only child carries its name cannot be told from the case FixChoice
			// inserts: no expectations for such a set
			out.Expect = nil
			return out
		}
	}
	for m, root := range g.trees {
		g.emit(out.Expect, m.fullName(), "", root, nil)
	}
	return out
}

// c12Twins: families of namespaces that are different strings but near twins.
var c12Twins = [][]string{
	{"urn:nt:Vendor", "urn:nt:vendor", "URN:NT:VENDOR"},
	{"urn:nt:x", "urn:nt:x/", "urn:nt:x "},
	{"urn:nt:x", "urn:nt:x:y", "urn:nt:x:"},
	{"urn:nt:a%2Fb", "urn:nt:a%2fb", "urn:nt:a/b"},
	{"urn:nt:K", "urn:nt:\u212a", "urn:nt:k"},
	{"http://Example.com/ns/m", "http://example.com/ns/m", "http://example.com/ns/M"},
}

// plantTwins: every near-twin module gets a grouping and a container that uses the grouping of the
// next one (so each instantiates nodes the other one defines).
func (g *c12gen) plantTwins() {
	var grs []*Node
	for _, m := range g.twins {
		g.gseq++
		gr := &Node{Kw: "grouping", Arg: fmt.Sprintf("g%d", g.gseq)}
		g.gInfo[gr] = &gmeta{owner: m, top: true}
		gr.add("leaf", "twl").add("type", "string")
		c := gr.add("container", "twc")
		c.add("leaf", "twd").add("type", "string")
		g.finishGrouping(gr)
		m.Groupings = append(m.Groupings, gr)
		m.Body.Kids = append(m.Body.Kids, gr)
		grs = append(grs, gr)
	}
	for i, m := range g.twins {
		j := (i + 1) % len(g.twins)
		o := g.twins[j]
		g.ensureImport(m, o)
		c := m.Body.add("container", "twuse")
		u := c.add("uses", m.ImportPrefix[o]+":"+grs[j].Arg)
		u.Uses = grs[j]
	}
}

// sharedInst is one instantiation of the planted grouping: the module whose tree holds it and the
// names from the root down to the action.
type sharedInst struct {
	t     *Module
	names []string
}

func (g *c12gen) ensureImport(m, o *Module) {
	for _, x := range m.Imports {
		if x == o {
			return
		}
	}
	m.Imports = append(m.Imports, o)
	m.ImportPrefix[o] = o.Prefix
}

// plantSharedAction: see C12Opts.SharedAction.
func (g *c12gen) plantSharedAction(mods []*Module) []sharedInst {
	perm := g.r.Perm(len(mods))
	gm, a, a2 := mods[perm[0]], mods[perm[1]], mods[perm[2]]
	g.gseq++
	gr := &Node{Kw: "grouping", Arg: fmt.Sprintf("g%d", g.gseq)}
	g.gInfo[gr] = &gmeta{owner: gm, top: true}
	holder := gr
	var below []string
	if g.chance(0.35) {
		holder = gr.add("container", "sops")
		below = []string{"sops"}
	}
	act := holder.add("action", "sact")
	switch k := g.r.Intn(10); {
	case k < 6: // spells out neither input nor output
	case k < 8:
		act.add("input", "").add("leaf", "wi").add("type", "string")
	default:
		act.add("output", "").add("leaf", "wo").add("type", "string")
	}
	if g.chance(0.4) {
		holder.add("leaf", "sleaf").add("type", "string")
	}
	g.finishGrouping(gr)
	gm.Groupings = append(gm.Groupings, gr)
	gm.Body.Kids = append(gm.Body.Kids, gr)
	below = append(below, "sact")
	var out []sharedInst
	use := func(t *Module, cname, cfg string) {
		ref := gr.Arg
		if t != gm {
			g.ensureImport(t, gm)
			ref = t.ImportPrefix[gm] + ":" + gr.Arg
		}
		c := t.Body.add("container", cname)
		if cfg != "" {
			c.add("config", cfg)
		}
		u := c.add("uses", ref)
		u.Uses = gr
		out = append(out, sharedInst{t, append([]string{cname}, below...)})
	}
	// two places of one module that differ in effective config, one place in another module
	use(a, "sstate", "false")
	use(a, "scfg", g.pick([]string{"", "", "true"}))
	use(a2, "sother", g.pick([]string{"", "", "false"}))
	if g.chance(0.3) {
		use(gm, "sown", g.pick([]string{"", "false"}))
	}
	g.r.Shuffle(len(out), func(i, j int) { out[i], out[j] = out[j], out[i] })
	g.feat["shared_action_sets"]++
	return out
}

// augmentShared augments the input or output of every instantiation of the planted action, each
// from another module (never the one whose tree holds the instantiation).
func (g *c12gen) augmentShared(insts []sharedInst, mods []*Module) {
	off := g.r.Intn(4)
	for i, in := range insts {
		var cands []*Module
		for _, m := range mods {
			if m != in.t {
				cands = append(cands, m)
			}
		}
		x := g.trees[in.t]
		for _, nm := range in.names {
			if x != nil {
				x = x.child(nm)
			}
		}
		if x == nil || len(cands) == 0 {
			g.broken = true
			return
		}
		n := 1
		if g.chance(0.3) {
			n = 2
		}
		for j := 0; j < n; j++ {
			a := cands[(i+j+off)%len(cands)]
			g.ensureImport(a, in.t)
			io := g.pick([]string{"input", "input", "output"})
			if j == 1 {
				io = "output"
			}
			pfx := a.ImportPrefix[in.t]
			var sb strings.Builder
			for _, nm := range in.names {
				sb.WriteString("/" + pfx + ":" + nm)
			}
			sb.WriteString("/" + pfx + ":" + io)
			au := &Node{Kw: "augment", Arg: sb.String()}
			g.aseq++
			au.add("leaf", fmt.Sprintf("ag%d", g.aseq)).add("type", "string")
			if g.chance(0.3) {
				g.aseq++
				au.add("container", fmt.Sprintf("ag%d", g.aseq)).add("leaf", "in").add("type", "string")
			}
			a.Body.Kids = append(a.Body.Kids, au)
			target := x.child(io)
			if target == nil {
				target = x.add(io, io, nil)
				target.lib = true
				g.feat["augment_into_unwritten_io"]++
			}
			g.expand(target, au, a)
			g.feat["shared_action_augments"]++
		}
	}
}

func (m *Module) fullName() string {
	if len(m.Revisions) == 0 {
		return m.Name
	}
	revs := append([]string{}, m.Revisions...)
	sort.Strings(revs)
	return m.Name + "@" + revs[len(revs)-1]
}

// FileName2 distinguishes the files of two revisions of one module.
func (m *Module) FileNameRev() string { return m.fullName() + ".yang" }

// topName keeps the top-level names of a submodule apart from those of its owner and siblings.
func (g *c12gen) topName(m *Module, name string) string {
	if m.Sub {
		return name + m.Name[len(m.Name)-2:]
	}
	return name
}

func (g *c12gen) cfgStmt(n *Node, inOps bool, p float64) {
	if inOps {
		p *= g.opt.OpsConfigRate
	}
	if g.chance(p) {
		n.add("config", g.pick([]string{"true", "false", "false"}))
		if inOps {
			g.feat["config_in_ops"]++
		}
	}
}

// usable lists the groupings module m may use at a place whose enclosing local groupings are
// `local`, with the reference text.
func (g *c12gen) usable(m *Module, local []*Node) [][2]interface{} {
	var out [][2]interface{}
	for _, gr := range local {
		out = append(out, [2]interface{}{gr.Arg, gr})
	}
	for _, gr := range m.Groupings {
		out = append(out, [2]interface{}{gr.Arg, gr})
		if g.chance(0.3) {
			out[len(out)-1][0] = m.Prefix + ":" + gr.Arg
		}
	}
	// a submodule also sees the groupings of the module it belongs to and of that module's other
	// submodules
	if m.Sub {
		for _, gr := range m.Owner.Groupings {
			out = append(out, [2]interface{}{gr.Arg, gr})
		}
		for _, s := range m.Owner.Includes {
			if s != m {
				for _, gr := range s.Groupings {
					out = append(out, [2]interface{}{gr.Arg, gr})
				}
			}
		}
	}
	// FindGrouping searches the includes of the (sub)module the reference is written in
	for _, s := range m.Includes {
		for _, gr := range s.Groupings {
			out = append(out, [2]interface{}{gr.Arg, gr})
		}
		for _, s2 := range s.Includes {
			for _, gr := range s2.Groupings {
				out = append(out, [2]interface{}{gr.Arg, gr})
			}
		}
	}
	for _, o := range m.Imports {
		for _, gr := range o.Groupings {
			out = append(out, [2]interface{}{m.ImportPrefix[o] + ":" + gr.Arg, gr})
		}
		for _, s := range o.Includes {
			for _, gr := range s.Groupings {
				out = append(out, [2]interface{}{m.ImportPrefix[o] + ":" + gr.Arg, gr})
			}
		}
	}
	return out
}

func (g *c12gen) finishGrouping(gr *Node) {
	meta := g.gInfo[gr]
	var walk func(n *Node)
	walk = func(n *Node) {
		for _, c := range n.Kids {
			switch c.Kw {
			case "config":
				meta.hasConfig = true
			case "uses":
				if c.Uses != nil && g.gInfo[c.Uses].hasConfig {
					meta.hasConfig = true
				}
				if c.Uses != nil && g.gInfo[c.Uses].hasAction {
					meta.hasAction = true
				}
			case "action", "notification":
				meta.hasAction = true
			case "grouping":
			default:
				walk(c)
			}
		}
	}
	walk(gr)
	meta.names = topNames(gr, 0)
}

// fill adds data nodes to parent. local = groupings defined in enclosing nodes (visible here).
func (g *c12gen) fill(m *Module, parent *Node, depth int, inOps bool, local []*Node, inGrouping bool) {
	n := g.r.Intn(4)
	if depth == 0 {
		n = 1 + g.r.Intn(3)
	}
	used := map[string]bool{}
	for _, c := range parent.Kids {
		used[c.Arg] = true
	}
	top := parent == m.Body
	maxDepth := 3
	for i := 0; i < n; i++ {
		name := g.pick(c12Names)
		if top {
			name = g.topName(m, name)
		}
		if used[name] {
			continue
		}
		switch k := g.r.Intn(14); {
		case k <= 2:
			used[name] = true
			l := parent.add("leaf", name)
			l.add("type", g.pick(leafTypes))
			g.cfgStmt(l, inOps, 0.3)
		case k == 3:
			used[name] = true
			l := parent.add("leaf-list", name)
			l.add("type", g.pick(leafTypes))
			g.cfgStmt(l, inOps, 0.2)
		case k <= 6:
			if depth >= maxDepth {
				continue
			}
			used[name] = true
			c := parent.add("container", name)
			g.cfgStmt(c, inOps, 0.3)
			loc := local
			if g.chance(0.12) {
				g.gseq++
				gr := &Node{Kw: "grouping", Arg: fmt.Sprintf("g%d", g.gseq)}
				g.gInfo[gr] = &gmeta{owner: m}
				g.fill(m, gr, depth+2, false, local, true)
				g.finishGrouping(gr)
				c.Kids = append(c.Kids, gr)
				loc = append(append([]*Node{}, local...), gr)
			}
			g.fill(m, c, depth+1, inOps, loc, inGrouping)
			if !inOps && g.chance(0.15) {
				g.rpc(m, c, "action", loc)
			}
			if !inOps && !inGrouping && g.chance(0.06) {
				nn := c.add("notification", name+"nf")
				g.fill(m, nn, depth+2, true, loc, false)
			}
		case k == 7:
			if depth >= maxDepth {
				continue
			}
			used[name] = true
			l := parent.add("list", name)
			l.add("key", "k")
			l.add("leaf", "k").add("type", "string")
			g.cfgStmt(l, inOps, 0.25)
			g.fill(m, l, depth+1, inOps, local, inGrouping)
		case k <= 9:
			if depth >= maxDepth || parent.Kw == "choice" {
				continue
			}
			used[name] = true
			ch := parent.add("choice", name)
			g.cfgStmt(ch, inOps, 0.15)
			nc := 1 + g.r.Intn(3)
			cu := map[string]bool{}
			for j := 0; j < nc; j++ {
				cn := g.pick(c12Names) + fmt.Sprint(j)
				if cu[cn] {
					continue
				}
				cu[cn] = true
				switch {
				case g.chance(0.45):
					cs := ch.add("case", cn)
					g.fill(m, cs, depth+2, inOps, local, inGrouping)
				case g.chance(0.55):
					l := ch.add("leaf", cn)
					l.add("type", g.pick(leafTypes))
					g.cfgStmt(l, inOps, 0.3)
				default:
					c := ch.add("container", cn)
					g.cfgStmt(c, inOps, 0.3)
					g.fill(m, c, depth+2, inOps, local, inGrouping)
				}
			}
		case k <= 11:
			if top && m.Sub {
				continue // names of grouping content would meet the owner's top-level names
			}
			vis := g.usable(m, local)
			if len(vis) == 0 {
				continue
			}
			v := vis[g.r.Intn(len(vis))]
			gr := v[1].(*Node)
			meta := g.gInfo[gr]
			if inGrouping && meta == nil {
				continue
			}
			if inOps && meta.hasConfig && !g.chance(g.opt.OpsConfigRate) {
				continue
			}
			if meta.hasAction && (inOps || top || parent.Kw == "case") {
				continue // an action belongs into a container or list outside operations
			}
			clash := false
			for _, nmx := range meta.names {
				if used[nmx] {
					clash = true
				}
			}
			if clash {
				continue
			}
			for _, nmx := range meta.names {
				used[nmx] = true
			}
			u := parent.add("uses", v[0].(string))
			u.Uses = gr
			if inOps && meta.hasConfig {
				g.feat["config_in_ops"]++
			}
		case k == 12:
			used[name] = true
			ax := parent.add(g.pick([]string{"anydata", "anyxml"}), name)
			g.cfgStmt(ax, inOps, 0.3)
		default:
			used[name] = true
			l := parent.add("leaf", name)
			l.add("type", g.pick(leafTypes))
			g.cfgStmt(l, inOps, 0.3)
		}
	}
}

func (g *c12gen) rpc(m *Module, parent *Node, kw string, local []*Node) {
	rn := g.pick(c12Names) + "r"
	if parent == m.Body {
		rn = g.topName(m, rn)
	}
	for _, c := range parent.Kids {
		if c.Arg == rn {
			return
		}
	}
	r := parent.add(kw, rn)
	if kw == "action" && g.chance(0.3) {
		return // spells out neither input nor output
	}
	if g.chance(0.65) {
		in := r.add("input", "")
		g.fill(m, in, 2, true, local, false)
	}
	if g.chance(0.7) {
		out := r.add("output", "")
		g.fill(m, out, 2, true, local, false)
	}
}

func isDataKw(kw string) bool {
	switch kw {
	case "container", "list", "leaf", "leaf-list", "choice", "case", "anydata", "anyxml", "rpc", "action", "notification", "input", "output":
		return true
	}
	return false
}

// expand adds the schema nodes that the substatements of n contribute below x, placed by `by`.
func (g *c12gen) expand(x *xnode, n *Node, by *Module) {
	g.expandD(x, n, by, 0)
}

func (g *c12gen) expandD(x *xnode, n *Node, by *Module, depth int) {
	if depth > 12 {
		g.broken = true
		return
	}
	for _, c := range n.Kids {
		switch {
		case isDataKw(c.Kw):
			name := c.Arg
			if c.Kw == "input" || c.Kw == "output" {
				name = c.Kw
			}
			if x.child(name) != nil {
				g.broken = true
				continue
			}
			cx := x.add(name, c.Kw, by)
			for _, k := range c.Kids {
				if k.Kw == "config" {
					cx.cfg = k.Arg
				}
			}
			g.expandD(cx, c, by, depth+1)
		case c.Kw == "uses":
			if c.Uses == nil {
				g.broken = true
				continue
			}
			g.expandD(x, c.Uses, by, depth+1)
		}
	}
}

// collect lists the nodes of a tree an augment may target.
func collect(x *xnode, out *[]*xnode) {
	for _, c := range x.kids {
		switch c.kw {
		case "container", "list", "choice", "case", "input", "output", "notification", "rpc", "action":
			*out = append(*out, c)
		}
		collect(c, out)
	}
}

// latest is the module an import of m's name resolves to (the set holds at most one older revision,
// which nobody imports).
func (g *c12gen) augment(a *Module, mods []*Module, foreign bool) {
	// target module: the module a belongs to, or an imported one (foreign: only the latter)
	cands := []*Module{ownerOf(a)}
	if foreign {
		cands = nil
	}
	for _, o := range a.Imports {
		cands = append(cands, o)
	}
	if len(cands) == 0 {
		for _, o := range mods {
			if o != ownerOf(a) {
				cands = append(cands, o)
			}
		}
		if len(cands) == 0 {
			return
		}
		o := cands[g.r.Intn(len(cands))]
		g.ensureImport(a, o)
		cands = []*Module{o}
	}
	t := cands[g.r.Intn(len(cands))]
	if g.forceTarget != nil && ownerOf(a) != g.forceTarget {
		for _, o := range a.Imports {
			if o == g.forceTarget {
				t = o
			}
		}
	}
	pfx := a.Prefix
	if p, ok := a.ImportPrefix[t]; ok && t != ownerOf(a) {
		pfx = p
	}
	var nodes []*xnode
	collect(g.trees[t], &nodes)
	if len(nodes) == 0 {
		return
	}
	x := nodes[g.r.Intn(len(nodes))]
	target := x
	implicit := ""
	if x.kw == "rpc" || x.kw == "action" {
		// its input or output, written or not
		implicit = g.pick([]string{"input", "output"})
		if c := x.child(implicit); c != nil {
			target = c
			implicit = ""
		}
	}
	// path text: the names from the root, without the steps of implied cases (the augment is
	// applied before FixChoice) or, sometimes, with them (it is then applied after FixChoice)
	var chain []*xnode
	for n := target; n.parent != nil; n = n.parent {
		chain = append([]*xnode{n}, chain...)
	}
	postFix := g.chance(0.2)
	var sb strings.Builder
	hasShort := false
	for _, n := range chain {
		short := n.parent.kw == "choice" && n.kw != "case"
		if short {
			hasShort = true
			if postFix {
				if n.child(n.name) != nil {
					return // the member has a child of its own name: the two readings of the path differ
				}
				sb.WriteString("/" + pfx + ":" + n.name)
			}
		}
		sb.WriteString("/" + pfx + ":" + n.name)
	}
	if implicit != "" {
		sb.WriteString("/" + pfx + ":" + implicit)
	}
	if postFix && hasShort {
		g.feat["augment_path_with_implied_case"]++
	}
	au := &Node{Kw: "augment", Arg: sb.String()}
	inOps := target.inOps || implicit != ""
	// body
	nb := 1 + g.r.Intn(2)
	tkw := target.kw
	if implicit != "" {
		tkw = implicit
	}
	for i := 0; i < nb; i++ {
		g.aseq++
		name := fmt.Sprintf("ag%d", g.aseq)
		if g.opt.Coincide && g.chance(0.6) {
			if nm := g.coincName(a, t, target, implicit, au); nm != "" {
				name = nm
			}
		}
		switch k := g.r.Intn(10); {
		case tkw == "choice" && k <= 3:
			cs := au.add("case", name)
			g.fill(a, cs, 3, inOps, nil, false)
			if len(cs.Kids) == 0 || (g.opt.Coincide && len(cs.Kids) == 1) {
				// (a written case whose only child carries its name would look like an implied one)
				cs.add("leaf", name+"l").add("type", "string")
			}
		case k <= 5:
			c := au.add("container", name)
			g.cfgStmt(c, inOps, 0.3)
			g.fill(a, c, 2, inOps, nil, false)
		case k <= 7 && tkw != "choice":
			vis := g.usable(a, nil)
			ok := false
			if len(vis) > 0 {
				v := vis[g.r.Intn(len(vis))]
				gr := v[1].(*Node)
				meta := g.gInfo[gr]
				free := !(inOps && meta.hasConfig) && !(meta.hasAction && (inOps || (tkw != "container" && tkw != "list")))
				for _, nmx := range meta.names {
					if target.child(nmx) != nil {
						free = false
					}
					for _, c := range au.Kids {
						if c.Arg == nmx {
							free = false
						}
						if c.Kw == "uses" && c.Uses != nil {
							for _, o := range g.gInfo[c.Uses].names {
								if o == nmx {
									free = false
								}
							}
						}
					}
				}
				if free && len(meta.names) > 0 {
					u := au.add("uses", v[0].(string))
					u.Uses = gr
					ok = true
					g.feat["augment_with_uses"]++
				}
			}
			if !ok {
				l := au.add("leaf", name)
				l.add("type", "string")
				g.cfgStmt(l, inOps, 0.3)
			}
		default:
			l := au.add("leaf", name)
			l.add("type", g.pick(leafTypes))
			g.cfgStmt(l, inOps, 0.3)
		}
	}
	a.Body.Kids = append(a.Body.Kids, au)
	if foreign {
		g.feat["augment_from_inner_submodule_into_other_module"]++
	}
	// apply to the expected tree
	if implicit != "" {
		target = x.add(implicit, implicit, nil)
		target.lib = true
		g.feat["augment_into_unwritten_io"]++
	}
	g.expand(target, au, a)
	switch {
	case a.Sub && ownerOf(a) != t:
		g.feat["augment_from_foreign_submodule"]++
	case a.Sub:
		g.feat["augment_from_own_submodule"]++
	case a != t:
		g.feat["augment_from_foreign_module"]++
	default:
		g.feat["augment_within_module"]++
	}
	if target.by != nil && target.by != g.treeOwner(target) {
		g.feat["augment_chain"]++
	}
}

func (g *c12gen) treeOwner(x *xnode) *Module {
	for x.parent != nil {
		x = x.parent
	}
	return x.by
}

// emit writes the expectation of x and its subtree. An implied case is inserted above every
// shorthand member of a choice.
func (g *c12gen) emit(tab map[string]C12Expect, tree, parentPath string, x *xnode, parent *xnode) {
	path := parentPath + "/" + x.name
	if parent != nil && parent.kw == "choice" && x.kw != "case" {
		// the implied case stands for the member: it starts out with the member's config statement
		tab[tree+" "+path] = C12Expect{Lib: true, Cfg: x.cfg}
		path += "/" + x.name
	}
	if x.lib || x.by == nil {
		tab[tree+" "+path] = C12Expect{Lib: true}
	} else {
		o := ownerOf(x.by)
		tab[tree+" "+path] = C12Expect{NS: o.Namespace, IM: o.Name, By: x.by.Name, Cfg: x.cfg}
	}
	for _, c := range x.kids {
		g.emit(tab, tree, path, c, x)
	}
}

// FilesRev returns names and texts in the set's order; file names carry the revision, so two
// revisions of one module get different names.
func (s *Set) FilesRev() (names, texts []string) {
	for _, m := range s.Mods {
		names = append(names, m.FileNameRev())
		texts = append(texts, m.Text())
	}
	return
}
