package gen

// Name coincidences along a path across modules, for property C12 (C12Opts.Coincide).
//
// The namespace of a node is found by walking up the parents to the nearest stamped node; nothing
// in that walk may go by NAMES.  The shapes planted here make names coincide where a by-name
// shortcut would give a different answer than the walk: a node written by module t that holds t's
// own nodes at several depths, and a node of the same name (or named like the parent, the
// top-level ancestor, the augmenting module, its prefix) grafted next to them by another module:
//
//	explicit case N { t's nodes }        + augment .../N { <any kind> N }   (case tcp / container tcp)
//	container N { t's nodes }            + augment .../N { container N { leaf N } }
//	container P { container N {...} }    + augment .../P/N { leaf P }
//	choice N { case N { ... } }          + augment .../N/N { container N }   (one name three times)
//	choice CH { container N {...} ... }  + augment .../CH/N { leaf N }       (shorthand member: implied case N)
//	choice CH { case k1 ... }            + augment .../CH { case CH { leaf CH; ... } | container CH }
//	list N { key k; ... }                + augment .../N { list N ... }
//
// optionally followed by a second graft from a third module into the grafted node (again under a
// coinciding name).  Who placed what is recorded in the expected tree exactly as for every other
// augment (expand with by = the augmenting module), so the provenance table gives the answers.

import "fmt"

type coincInst struct {
	t    *Module  // (sub)module whose text holds the planted node
	path []string // names from the root down to the augment target (written nodes only)
	pool []string // names the grafted node may take, most wanted first
}

// ownContent: nodes written by the planting module itself, at several depths, one of them
// (sometimes) carrying the coinciding name again.
func (g *c12gen) ownContent(p *Node, n string) {
	l := p.add("leaf", "o1")
	l.add("type", "string")
	g.cfgStmt(l, false, 0.15)
	c := p.add("container", "o2")
	g.cfgStmt(c, false, 0.2)
	c.add("leaf", "o3").add("type", "string")
	if g.chance(0.5) {
		d := c.add("container", n)
		d.add("leaf", "o4").add("type", "string")
		if g.chance(0.5) {
			d.add("leaf", n).add("type", "string")
		}
	}
	if g.chance(0.3) {
		li := p.add("list", "o5")
		li.add("key", "k")
		li.add("leaf", "k").add("type", "string")
		li.add("leaf", "o6").add("type", "string")
	}
}

func (g *c12gen) plantCoincide() []coincInst {
	var out []coincInst
	n := 2 + g.r.Intn(3)
	for i := 0; i < n; i++ {
		t := g.set.Mods[g.r.Intn(len(g.set.Mods))]
		o := ownerOf(t)
		g.cseq++
		top := fmt.Sprintf("cn%d", g.cseq)
		nm := g.pick([]string{"x", "tcp", "tcp", top, o.Name, o.Prefix})
		c := t.Body.add("container", top)
		g.cfgStmt(c, false, 0.2)
		if g.chance(0.4) {
			c.add("leaf", "o0").add("type", "string")
		}
		kind := g.r.Intn(6)
		g.feat[fmt.Sprintf("coincide:shape%d", kind)]++
		switch kind {
		case 0, 1: // explicit case named like what is grafted into it
			chn := g.pick([]string{"ch", "transport", nm})
			ch := c.add("choice", chn)
			g.cfgStmt(ch, false, 0.1)
			cs := ch.add("case", nm)
			g.ownContent(cs, nm)
			if g.chance(0.7) {
				ch.add("case", "alt").add("leaf", "a1").add("type", "string")
			}
			out = append(out, coincInst{t, []string{top, chn, nm}, []string{nm, nm, nm, chn, top}})
		case 2: // container in container
			if nm == top {
				// container top { own nodes } + a grafted child named top
				g.ownContent(c, "x")
				out = append(out, coincInst{t, []string{top}, []string{top}})
				break
			}
			in := c.add("container", nm)
			g.cfgStmt(in, false, 0.2)
			g.ownContent(in, nm)
			out = append(out, coincInst{t, []string{top, nm}, []string{nm, nm, top}})
		case 3: // shorthand member of a choice (implied case of the same name around it)
			chn := g.pick([]string{"ch", nm})
			ch := c.add("choice", chn)
			in := ch.add("container", nm)
			g.cfgStmt(in, false, 0.2)
			g.ownContent(in, "y")
			if g.chance(0.6) {
				ch.add("leaf", "alt").add("type", "string")
			}
			out = append(out, coincInst{t, []string{top, chn, nm}, []string{nm, nm, chn}})
		case 4: // the choice itself is the target: grafted case / shorthand named like the choice
			ch := c.add("choice", nm)
			k1 := ch.add("case", "k1")
			k1.add("leaf", "l1").add("type", "string")
			if g.chance(0.5) {
				g.ownContent(k1, nm)
			}
			out = append(out, coincInst{t, []string{top, nm}, []string{nm, nm, top}})
		default: // list
			li := c.add("list", nm)
			li.add("key", "k")
			li.add("leaf", "k").add("type", "string")
			g.cfgStmt(li, false, 0.2)
			g.ownContent(li, nm)
			out = append(out, coincInst{t, []string{top, nm}, []string{nm, nm, top}})
		}
	}
	return out
}

// graftBody writes one node named name into the augment au (target keyword tkw).
func (g *c12gen) graftBody(au *Node, tkw, name string) {
	leaf := func(p *Node, n string) {
		l := p.add("leaf", n)
		l.add("type", "string")
		g.cfgStmt(l, false, 0.15)
	}
	if tkw == "choice" {
		switch g.r.Intn(3) {
		case 0: // a written case holding a node of its own name and another one
			cs := au.add("case", name)
			leaf(cs, name)
			leaf(cs, "b1")
		case 1:
			cs := au.add("case", name)
			c := cs.add("container", name)
			leaf(c, name)
			leaf(cs, "b1")
		default: // shorthand: the library wraps it in a case of the same name
			c := au.add("container", name)
			g.cfgStmt(c, false, 0.2)
			leaf(c, name)
			leaf(c, "b1")
		}
		return
	}
	switch k := g.r.Intn(10); {
	case k <= 4:
		c := au.add("container", name)
		g.cfgStmt(c, false, 0.25)
		if g.chance(0.6) {
			leaf(c, name)
		}
		leaf(c, "b1")
		if g.chance(0.3) {
			leaf(c.add("container", name+"2"), name)
		}
	case k <= 6:
		leaf(au, name)
	case k == 7:
		li := au.add("list", name)
		li.add("key", "k")
		li.add("leaf", "k").add("type", "string")
		leaf(li, name)
	case k == 8:
		au.add("leaf-list", name).add("type", "string")
	default:
		ch := au.add("choice", name)
		leaf(ch, name) // shorthand member named like the choice
		cs := ch.add("case", "b2")
		leaf(cs, "b3")
	}
}

func (g *c12gen) augmentCoincide(insts []coincInst, mods []*Module) {
	for _, in := range insts {
		o := ownerOf(in.t)
		var cands []*Module
		for _, m := range g.set.Mods {
			if ownerOf(m) != o {
				cands = append(cands, m)
			}
		}
		x := g.trees[o]
		for _, nm := range in.path {
			if x != nil {
				x = x.child(nm)
			}
		}
		if x == nil || len(cands) == 0 {
			g.broken = true
			return
		}
		a := cands[g.r.Intn(len(cands))]
		if a.Sub && g.chance(0.6) {
			a = a.Owner
		}
		g.ensureImport(a, o)
		pfx := a.ImportPrefix[o]
		pathText := ""
		for _, nm := range in.path {
			pathText += "/" + pfx + ":" + nm
		}
		pool := append(append([]string{}, in.pool...), a.Prefix, ownerOf(a).Name)
		name := ""
		for tries := 0; tries < 8 && name == ""; tries++ {
			if c := pool[g.r.Intn(len(pool))]; x.child(c) == nil {
				name = c
			}
		}
		if name == "" {
			continue
		}
		au := &Node{Kw: "augment", Arg: pathText}
		g.graftBody(au, x.kw, name)
		if g.chance(0.3) {
			g.aseq++
			au.add("leaf", fmt.Sprintf("ag%d", g.aseq)).add("type", "string")
		}
		a.Body.Kids = append(a.Body.Kids, au)
		g.expand(x, au, a)
		g.feat["coincide:grafts"]++
		switch name {
		case in.path[len(in.path)-1]:
			g.feat["coincide:graft_named_like_target"]++
		case a.Prefix, ownerOf(a).Name:
			g.feat["coincide:graft_named_like_augmenter"]++
		default:
			g.feat["coincide:graft_named_like_ancestor"]++
		}
		// a second graft, from another module where there is one, into the grafted node
		y := x.child(name)
		if y == nil || g.chance(0.55) {
			continue
		}
		if y.kw != "container" && y.kw != "list" && y.kw != "case" {
			continue
		}
		var c2 []*Module
		for _, m := range mods {
			if m != o && m != ownerOf(a) {
				c2 = append(c2, m)
			}
		}
		b := ownerOf(a)
		if len(c2) > 0 && g.chance(0.8) {
			b = c2[g.r.Intn(len(c2))]
		}
		g.ensureImport(b, o)
		pfx2 := b.ImportPrefix[o]
		pt := ""
		for _, nm := range in.path {
			pt += "/" + pfx2 + ":" + nm
		}
		pt += "/" + pfx2 + ":" + name
		n2 := ""
		for _, c := range []string{name, in.path[len(in.path)-1], b.Prefix, "b9"} {
			if y.child(c) == nil {
				n2 = c
				break
			}
		}
		if n2 == "" {
			continue
		}
		au2 := &Node{Kw: "augment", Arg: pt}
		g.graftBody(au2, y.kw, n2)
		b.Body.Kids = append(b.Body.Kids, au2)
		g.expand(y, au2, b)
		g.feat["coincide:second_graft_into_grafted_node"]++
	}
}

// coincName proposes, for a node the generic augment is about to write into target, a name that
// already occurs on the path (target, its ancestors) or names the modules involved; "" if none is
// free.
func (g *c12gen) coincName(a, t *Module, target *xnode, implicit string, au *Node) string {
	var pool []string
	// (not the name of a shorthand choice member for a node inside it: a path written with the
	// implied-case step - generated earlier or later - would then have two readings)
	shorthand := target.parent != nil && target.parent.kw == "choice" && target.kw != "case"
	if implicit == "" && !shorthand {
		pool = append(pool, target.name, target.name)
	}
	for n := target.parent; n != nil && n.parent != nil; n = n.parent {
		pool = append(pool, n.name)
	}
	pool = append(pool, a.Prefix, ownerOf(a).Name, t.Name, g.pick(c12Names))
	free := func(nm string) bool {
		if nm == "" || nm == "input" || nm == "output" || (shorthand && nm == target.name) {
			return false
		}
		if implicit == "" && target.child(nm) != nil {
			return false
		}
		for _, c := range au.Kids {
			if c.Arg == nm {
				return false
			}
			if c.Kw == "uses" && c.Uses != nil {
				for _, o := range g.gInfo[c.Uses].names {
					if o == nm {
						return false
					}
				}
			}
		}
		return true
	}
	for tries := 0; tries < 4; tries++ {
		if nm := pool[g.r.Intn(len(pool))]; free(nm) {
			g.feat["coincide:generic_augment_names"]++
			return nm
		}
	}
	return ""
}

// looksImplied: does the expected tree hold a WRITTEN case whose only child carries its name?
func looksImplied(x *xnode) bool {
	if x.kw == "case" && len(x.kids) == 1 && x.kids[0].name == x.name {
		return true
	}
	for _, c := range x.kids {
		if looksImplied(c) {
			return true
		}
	}
	return false
}
