package gen

import (
	"fmt"
	"strings"
)

// Chains of augments that only become applicable after FixChoice (the shape behind finding D67).
//
// The target module t holds a choice with a short-hand member, `choice ch { leaf x { … } }`, and a
// container keep.  Link 1 augments `/t:ch/t:x` — the implied case x, which exists only once FixChoice
// has run — and every further link augments the node the previous link adds, so no link can be
// applied by the augment loop before the first FixChoice and all of them are left for the stage
// after it.  That stage used to be one sweep over the modules in the order swap-remove had left
// them in (so a link met before the link that creates its target was reported as not found, and
// splitting an augment-free submodule off t changed which order that was); since the repair it
// retries to a fixpoint.  In the "choice" kind a link adds a choice with a short-hand member of its
// own and the next link goes through the implied case of THAT member, which exists only after the
// FixChoice that follows the round in which the link was applied.
//
// One LeftoverChain = one assignment of module names to the links (every permutation of a name
// pool, so that the name order — the order of the augment loop — meets the links in every order),
// with the spellings: unsplit, and t split into owner + augment-free submodule holding `keep`
// (submodule name sorting before / after every module).  Broken chains (one link missing) must
// report exactly the links after the gap, in every spelling.

// ChainLink is one augment of a chain.
type ChainLink struct {
	Module string   // the module that writes it (file <Module>.yang, prefix = name, namespace urn:<name>)
	Target string   // the augment argument
	Line   int      // line of the augment statement in the module's text
	Nodes  []string // paths (below /t) of the nodes it adds that are written in the source (no implied cases)
	Found  bool     // the target exists once everything applicable has been applied
}

// LeftoverChain is one set of the family with its spellings.
type LeftoverChain struct {
	Label  string
	Kind   string // plain | choice | mixed
	Depth  int
	Broken int // 0: complete; k: link k is missing (links after it cannot be applied)
	Links  []ChainLink
	Names  []string   // unsplit set, file names
	Texts  []string   // unsplit set, texts
	Splits []ChainSet // the same set with an augment-free submodule split off t
}

// ChainSet is one spelling with the submodule's name.
type ChainSet struct {
	Sub   string
	Names []string
	Texts []string
}

func chainPerms(n int) [][]int {
	var out [][]int
	var rec func(a []int, k int)
	rec = func(a []int, k int) {
		if k == len(a) {
			out = append(out, append([]int{}, a...))
			return
		}
		for i := k; i < len(a); i++ {
			a[k], a[i] = a[i], a[k]
			rec(a, k+1)
			a[k], a[i] = a[i], a[k]
		}
	}
	a := make([]int, n)
	for i := range a {
		a[i] = i
	}
	rec(a, 0)
	return out
}

const chainKeep = `container keep { leaf k { type string; } }`
const chainChoice = `choice ch { leaf x { type string; } }`

// LeftoverChains enumerates the family: depth 2..maxDepth, kinds plain / choice / mixed, two name
// pools (all names before "t"; names on both sides of "t"), every permutation of the pool over the
// links; and for depth 3 the broken chains (middle link missing).
func LeftoverChains(maxDepth int) []LeftoverChain {
	pools := [][]string{{"ma", "mb", "mc", "md"}, {"ma", "ub", "mc", "ud"}}
	var out []LeftoverChain
	for d := 2; d <= maxDepth && d <= 4; d++ {
		for _, kind := range []string{"plain", "choice", "mixed"} {
			for pi, pool := range pools {
				for _, perm := range chainPerms(d) {
					out = append(out, buildChain(d, kind, pi, pool, perm, 0))
					if d == 3 && kind != "mixed" && pi == 0 {
						out = append(out, buildChain(d, kind, pi, pool, perm, 2))
					}
				}
			}
		}
	}
	return out
}

func buildChain(d int, kind string, pi int, pool []string, perm []int, broken int) LeftoverChain {
	c := LeftoverChain{Kind: kind, Depth: d, Broken: broken}
	names := make([]string, d) // names[i]: module of link i+1
	for i := 0; i < d; i++ {
		names[i] = pool[perm[i]]
	}
	c.Label = fmt.Sprintf("leftover-chain d=%d %s pool=%d links=%s", d, kind, pi, strings.Join(names, ">"))
	if broken > 0 {
		c.Label += fmt.Sprintf(" without-link-%d", broken)
	}
	target := "/t:ch/t:x" // the implied case of the short-hand member x
	below := "/ch/x"
	for i := 0; i < d; i++ {
		m := names[i]
		last := i == d-1
		withChoice := !last && (kind == "choice" || (kind == "mixed" && i%2 == 0))
		var body string
		var nodes []string
		next, nextBelow := target, below
		switch {
		case last:
			body = "leaf z { type string; }"
			nodes = []string{below + "/z"}
		case withChoice:
			// the next link goes through the implied case y<i> of the short-hand member y<i>
			body = fmt.Sprintf("choice c%d { container y%d { } }", i+1, i+1)
			nodes = []string{fmt.Sprintf("%s/c%d", below, i+1), fmt.Sprintf("%s/c%d/y%d/y%d", below, i+1, i+1, i+1)}
			next = fmt.Sprintf("%s/%s:c%d/%s:y%d/%s:y%d", target, m, i+1, m, i+1, m, i+1)
			nextBelow = fmt.Sprintf("%s/c%d/y%d/y%d", below, i+1, i+1, i+1)
		default:
			body = fmt.Sprintf("container y%d { }", i+1)
			nodes = []string{fmt.Sprintf("%s/y%d", below, i+1)}
			next = fmt.Sprintf("%s/%s:y%d", target, m, i+1)
			nextBelow = fmt.Sprintf("%s/y%d", below, i+1)
		}
		if broken == 0 || i+1 != broken {
			var sb strings.Builder
			fmt.Fprintf(&sb, "module %s {\n  namespace \"urn:%s\";\n  prefix %s;\n  import t { prefix t; }\n", m, m, m)
			line := 5
			for j := 0; j < i; j++ {
				if broken > 0 && j+1 == broken {
					continue // the missing module cannot be imported
				}
				fmt.Fprintf(&sb, "  import %s { prefix %s; }\n", names[j], names[j])
				line++
			}
			tgt := target
			if broken > 0 && i+1 > broken {
				// the prefix of the missing module is not bound: write the step with the module's own
				// prefix (a name nobody defines), so that the failure is "target does not exist"
				tgt = strings.ReplaceAll(tgt, names[broken-1]+":", m+":")
			}
			fmt.Fprintf(&sb, "  augment \"%s\" { %s }\n}\n", tgt, body)
			c.Links = append(c.Links, ChainLink{Module: m, Target: tgt, Line: line, Nodes: nodes, Found: broken == 0 || i+1 < broken})
			c.Names = append(c.Names, m+".yang")
			c.Texts = append(c.Texts, sb.String())
		}
		target, below = next, nextBelow
	}
	hdr := "module t {\n  namespace \"urn:t\";\n  prefix t;\n"
	for _, sub := range []string{"a-sub", "zz-sub"} {
		s := ChainSet{Sub: sub, Names: append([]string{}, c.Names...), Texts: append([]string{}, c.Texts...)}
		s.Names = append(s.Names, "t.yang", sub+".yang")
		s.Texts = append(s.Texts, hdr+"  include "+sub+";\n  "+chainChoice+"\n}\n",
			"submodule "+sub+" {\n  belongs-to t { prefix t; }\n  "+chainKeep+"\n}\n")
		c.Splits = append(c.Splits, s)
	}
	c.Names = append(c.Names, "t.yang")
	c.Texts = append(c.Texts, hdr+"  "+chainChoice+"\n  "+chainKeep+"\n}\n")
	return c
}
