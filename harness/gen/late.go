package gen

import (
	"fmt"
	"math/rand"
)

// AddLateAugments (shared copy of corr-c17/late.go; does not touch Generate) adds, to a generated set, augments that can only be applied after FixChoice
// has inserted the implied cases: the target path runs through the implied case of a shorthand
// choice member (`…/ch/x/x/…`) or ends at the implied case of a shorthand leaf (`…/ch/x`), the
// body holds a choice with shorthand members of its own (which need implied cases in turn), and
// the augment is written in the owning module, in one of its submodules or in an importing module.
// These are the nodes "grafted by augments" and "inside implicit cases" of the property at once.
func AddLateAugments(r *rand.Rand, set *Set) {
	seq := 0
	for _, m := range set.Mods {
		if r.Intn(10) < 3 {
			continue
		}
		type tgt struct {
			mod *Module
			pfx string
		}
		var tgts []tgt
		if m.Sub {
			tgts = append(tgts, tgt{m.Owner, m.Prefix})
		} else {
			tgts = append(tgts, tgt{m, m.Prefix})
		}
		for _, o := range m.Imports {
			if !o.Sub {
				// importing modules twice: they are the case that matters most
				tgts = append(tgts, tgt{o, m.ImportPrefix[o]}, tgt{o, m.ImportPrefix[o]})
			}
		}
		t := tgts[r.Intn(len(tgts))]
		var cands []string
		for _, p := range t.mod.Paths() {
			through := false
			for _, s := range p.ChoiceShorthand {
				through = through || s
			}
			if !through {
				continue
			}
			last := len(p.Names) - 1
			leafish := p.Kw == "leaf" || p.Kw == "leaf-list" || p.Kw == "anyxml" || p.Kw == "anydata"
			if leafish && !p.ChoiceShorthand[last] {
				continue
			}
			if p.Kw == "rpc" || p.Kw == "action" {
				continue
			}
			path := ""
			for i, n := range p.Names {
				path += "/" + t.pfx + ":" + n
				if p.ChoiceShorthand[i] && !(leafish && i == last) {
					path += "/" + t.pfx + ":" + n
				}
			}
			cands = append(cands, path)
		}
		if len(cands) == 0 {
			continue
		}
		na := 1 + r.Intn(2)
		for k := 0; k < na; k++ {
			seq++
			id := fmt.Sprintf("%s%d", m.Name[:1], seq)
			a := &Node{Kw: "augment", Arg: cands[r.Intn(len(cands))]}
			ch := &Node{Kw: "choice", Arg: "lc" + id}
			ch.Kids = append(ch.Kids, lateLeaf("ly"+id))
			if r.Intn(2) == 0 {
				cz := &Node{Kw: "container", Arg: "lz" + id}
				cz.Kids = append(cz.Kids, lateLeaf("lw"+id))
				if r.Intn(2) == 0 {
					deep := &Node{Kw: "choice", Arg: "ld" + id}
					deep.Kids = append(deep.Kids, lateLeaf("le"+id))
					cz.Kids = append(cz.Kids, deep)
				}
				ch.Kids = append(ch.Kids, cz)
			}
			if r.Intn(2) == 0 {
				cs := &Node{Kw: "case", Arg: "lk" + id}
				cs.Kids = append(cs.Kids, lateLeaf("lv"+id))
				ch.Kids = append(ch.Kids, cs)
			}
			a.Kids = append(a.Kids, ch)
			if r.Intn(3) == 0 {
				a.Kids = append(a.Kids, lateLeaf("lp"+id))
			}
			m.Body.Kids = append(m.Body.Kids, a)
		}
	}
}

func lateLeaf(name string) *Node {
	return &Node{Kw: "leaf", Arg: name, Kids: []*Node{{Kw: "type", Arg: "string"}}}
}
