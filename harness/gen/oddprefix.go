package gen

import (
	"math/rand"
	"strings"
)

// AddOddPrefixes rewrites, in a generated set, the prefixes on the steps AFTER the first of the
// absolute target paths of deviations (mostly) and augments (sometimes): goyang selects the module
// by the prefix of the first step only and strips the others unseen, so a later step may carry a
// prefix the writing module never declared without changing what the path denotes.  Kinds: a
// prefix nobody declares, the prefix of another module of the set that this module does not
// import, the target module's NAME used as a prefix, no prefix at all.  It returns the number of
// paths it changed.  It does not touch Generate (apply it to a generated set).
func AddOddPrefixes(r *rand.Rand, set *Set) int {
	changed := 0
	for _, m := range set.Mods {
		if m.Body == nil {
			continue
		}
		declared := map[string]bool{m.Prefix: true}
		for _, p := range m.ImportPrefix {
			declared[p] = true
		}
		var foreign []string
		for _, o := range set.Mods {
			if o != m && !o.Sub && !declared[o.Prefix] && o.Prefix != "" {
				foreign = append(foreign, o.Prefix)
			}
		}
		var names []string
		for _, o := range set.Mods {
			if !o.Sub && !declared[o.Name] {
				names = append(names, o.Name)
			}
		}
		for _, n := range m.Body.Kids {
			if !strings.HasPrefix(n.Arg, "/") {
				continue
			}
			switch n.Kw {
			case "deviation":
				if r.Intn(4) == 0 {
					continue
				}
			case "augment":
				if r.Intn(3) != 0 {
					continue
				}
			default:
				continue
			}
			steps := strings.Split(n.Arg[1:], "/")
			if len(steps) < 2 {
				continue
			}
			pick := func() (string, bool) {
				switch k := r.Intn(4); {
				case k == 0 || (k == 1 && len(foreign) == 0) || (k == 2 && len(names) == 0):
					return "zz" + string(rune('0'+r.Intn(10))), true
				case k == 1:
					return foreign[r.Intn(len(foreign))], true
				case k == 2:
					return names[r.Intn(len(names))], true
				}
				return "", false // bare step
			}
			one := 1 + r.Intn(len(steps)-1) // a middle or the last step
			all := r.Intn(3) == 0
			did := false
			for i := 1; i < len(steps); i++ {
				if !all && i != one {
					continue
				}
				name := steps[i]
				if j := strings.IndexByte(name, ':'); j >= 0 {
					name = name[j+1:]
				}
				if p, ok := pick(); ok {
					steps[i] = p + ":" + name
				} else {
					steps[i] = name
				}
				did = true
			}
			if did {
				n.Arg = "/" + strings.Join(steps, "/")
				changed++
			}
		}
	}
	return changed
}
