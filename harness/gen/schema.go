// Package gen generates mostly-valid YANG module sets from a tiny name pool, so that shadowing,
// collisions, chains and dangling references are frequent. Every random choice comes from the
// *rand.Rand handed in, so a seed reproduces a set exactly.
package gen

import (
	"fmt"
	"math/rand"
	"sort"
	"strings"
)

// Node is one generated statement.
type Node struct {
	Kw   string
	Arg  string
	Kids []*Node
	// Uses: the grouping a `uses` statement refers to (nil if dangling), for path expansion.
	Uses *Node
}

func (n *Node) add(kw, arg string) *Node {
	c := &Node{Kw: kw, Arg: arg}
	n.Kids = append(n.Kids, c)
	return c
}

// Module is one generated (sub)module.
type Module struct {
	Name      string
	Prefix    string
	Namespace string
	Sub       bool
	Owner     *Module
	Revisions []string
	Body      *Node // Kw module/submodule
	Imports   []*Module
	Includes  []*Module
	// ImportPrefix maps an imported module to the prefix used for it here.
	ImportPrefix map[*Module]string
	Groupings    []*Node // top-level groupings (visible to others)
	Typedefs     []*Node // top-level typedefs
	Identities   []*Node // identities
	File         string  // file name override (default Name + ".yang")
}

// Set is a generated module set in intended load order.
type Set struct {
	Mods []*Module
}

// Config tunes the generator.
type Config struct {
	MaxModules   int
	Submodules   bool
	Augments     bool
	Deviations   bool
	RPCs         bool
	Choices      bool
	Groupings    bool
	BadRefs      bool // dangling uses / augment targets / deviation targets, collisions on purpose
	MaxDepth     int
	ConfigStmts  bool
	Notification bool
	BadRate      float64 // scales every deliberate-fault probability
	Typedefs     bool    // typedefs (chains, restrictions, enums, unions), identities and identityrefs
	Revisions    bool    // sometimes load a second, older revision of a module too
}

func Default() Config {
	return Config{MaxModules: 3, Submodules: true, Augments: true, Deviations: true, RPCs: true, Choices: true,
		Groupings: true, BadRefs: true, MaxDepth: 3, ConfigStmts: true, Notification: true, BadRate: 0.3, Typedefs: true, Revisions: true}
}

var nodeNames = []string{"x", "y", "z", "w"}
var groupNames = []string{"g", "h", "k"}
var leafTypes = []string{"string", "int8", "uint32", "boolean", "empty"}

type genr struct {
	r      *rand.Rand
	cfg    Config
	augSeq int
	cur    *Module // module whose statements are being generated (for type references)
}

func (g *genr) pick(ss []string) string { return ss[g.r.Intn(len(ss))] }
func (g *genr) chance(p float64) bool   { return g.r.Float64() < p }

// bad decides whether to plant a deliberate fault (scaled by Config.BadRate).
func (g *genr) bad(p float64) bool { return g.cfg.BadRefs && g.r.Float64() < p*g.cfg.BadRate }

// Generate builds a module set.
func Generate(r *rand.Rand, cfg Config) *Set {
	g := &genr{r: r, cfg: cfg}
	set := &Set{}
	nm := 1 + r.Intn(cfg.MaxModules)
	names := []string{"a", "b", "c", "d"}
	for i := 0; i < nm; i++ {
		m := &Module{Name: names[i], Prefix: "p" + names[i], Namespace: "urn:" + names[i], ImportPrefix: map[*Module]string{}}
		if g.chance(0.15) {
			m.Revisions = []string{"2020-01-01"}
		}
		m.Body = &Node{Kw: "module", Arg: m.Name}
		set.Mods = append(set.Mods, m)
	}
	// imports: later modules may import earlier ones and vice versa
	for _, m := range set.Mods {
		for _, o := range set.Mods {
			if o != m && g.chance(0.6) {
				m.Imports = append(m.Imports, o)
				p := o.Prefix
				if g.chance(0.2) {
					p = "q" + o.Name // a prefix differing from the module's own
				}
				m.ImportPrefix[o] = p
			}
		}
	}
	// submodules
	if cfg.Submodules {
		var subs []*Module
		for _, m := range set.Mods {
			if g.chance(0.35) {
				ns := 1 + r.Intn(2)
				for i := 0; i < ns; i++ {
					s := &Module{Name: fmt.Sprintf("%s-s%d", m.Name, i+1), Prefix: m.Prefix, Namespace: m.Namespace, Sub: true, Owner: m,
						ImportPrefix: map[*Module]string{}}
					s.Body = &Node{Kw: "submodule", Arg: s.Name}
					for _, o := range m.Imports {
						if g.chance(0.7) {
							s.Imports = append(s.Imports, o)
							s.ImportPrefix[o] = m.ImportPrefix[o]
						}
					}
					m.Includes = append(m.Includes, s)
					subs = append(subs, s)
				}
				// nested include: s1 includes s2 sometimes
				if len(m.Includes) == 2 && g.chance(0.4) {
					m.Includes[0].Includes = append(m.Includes[0].Includes, m.Includes[1])
				}
			}
		}
		set.Mods = append(set.Mods, subs...)
	}
	if cfg.Typedefs {
		for _, m := range set.Mods {
			g.typedefs(m, set)
		}
	}
	// groupings first (so that uses can refer to them), then bodies
	if cfg.Groupings {
		for _, m := range set.Mods {
			ng := r.Intn(3)
			for i := 0; i < ng; i++ {
				gr := &Node{Kw: "grouping", Arg: g.pick(groupNames)}
				g.fillBody(m, set, gr, 1, true)
				m.Groupings = append(m.Groupings, gr)
				m.Body.Kids = append(m.Body.Kids, gr)
			}
		}
	}
	for _, m := range set.Mods {
		g.fillBody(m, set, m.Body, 0, false)
		if cfg.RPCs && g.chance(0.4) {
			g.rpc(m, set, m.Body, "rpc")
		}
		if cfg.Notification && g.chance(0.25) {
			nn := g.pick(nodeNames) + "n"
			if m.Sub {
				nn += m.Name[len(m.Name)-2:]
			}
			n := m.Body.add("notification", nn)
			g.fillBody(m, set, n, 1, false)
		}
	}
	if cfg.Augments {
		for _, m := range set.Mods {
			na := r.Intn(3)
			for i := 0; i < na; i++ {
				g.augment(m, set)
			}
		}
	}
	if cfg.Revisions && g.chance(0.12) {
		// a second, older revision of one module (same body plus one extra leaf), loaded as well
		var mods []*Module
		for _, m := range set.Mods {
			if !m.Sub && len(m.Includes) == 0 {
				mods = append(mods, m)
			}
		}
		if len(mods) > 0 {
			m := mods[r.Intn(len(mods))]
			if len(m.Revisions) == 0 {
				m.Revisions = []string{"2020-01-01"}
			}
			o := &Module{Name: m.Name, Prefix: m.Prefix, Namespace: m.Namespace, Revisions: []string{"2019-01-01"},
				Imports: m.Imports, ImportPrefix: m.ImportPrefix, File: m.Name + "@2019-01-01.yang"}
			o.Body = &Node{Kw: "module", Arg: m.Name}
			for _, k := range m.Body.Kids {
				if k.Kw == "grouping" {
					// what the older revision exports differs, so that a stale link to it is visible
					// in the trees of the modules that use it
					c := &Node{Kw: k.Kw, Arg: k.Arg, Kids: append([]*Node{}, k.Kids...)}
					c.add("leaf", "oldg").add("type", "string")
					k = c
				}
				o.Body.Kids = append(o.Body.Kids, k)
			}
			o.Body.add("leaf", "oldrev").add("type", "string")
			if g.chance(0.5) {
				set.Mods = append(set.Mods, o)
			} else {
				set.Mods = append([]*Module{o}, set.Mods...)
			}
		}
	}
	if cfg.Deviations {
		for _, m := range set.Mods {
			if m.Sub {
				continue
			}
			nd := 0
			if g.chance(0.4) {
				nd = 1 + r.Intn(2)
			}
			for i := 0; i < nd; i++ {
				g.deviation(m, set)
			}
		}
	}
	return set
}

func (g *genr) leafAttrs(n *Node, inOps bool) {
	g.typeRef(n)
	if g.cfg.ConfigStmts && !inOps && g.chance(0.25) {
		n.add("config", g.pick([]string{"true", "false"}))
	}
	if g.chance(0.2) {
		n.add("default", g.pick([]string{"d1", "d2"}))
	} else if g.chance(0.15) {
		n.add("mandatory", g.pick([]string{"true", "false"}))
	}
	if g.chance(0.1) {
		n.add("units", "u1")
	}
	if g.chance(0.1) {
		n.add("description", "some text")
	}
}

// typeRef adds a type statement to n: a built-in, or (when the module being filled has typedefs in
// sight) a typedef reference with or without prefix, or an inline restriction.
func (g *genr) typeRef(n *Node) {
	m := g.cur
	if !g.cfg.Typedefs || m == nil || g.chance(0.55) {
		n.add("type", g.pick(leafTypes))
		return
	}
	var refs []string
	for _, td := range m.Typedefs {
		refs = append(refs, td.Arg, m.Prefix+":"+td.Arg)
	}
	root := m
	if m.Sub {
		root = m.Owner
		for _, td := range root.Typedefs {
			refs = append(refs, td.Arg)
		}
	}
	for _, s := range root.Includes {
		if s != m {
			for _, td := range s.Typedefs {
				refs = append(refs, td.Arg)
			}
		}
	}
	for _, o := range m.Imports {
		for _, td := range o.Typedefs {
			refs = append(refs, m.ImportPrefix[o]+":"+td.Arg)
		}
	}
	switch k := g.r.Intn(10); {
	case k <= 5 && len(refs) > 0:
		t := n.add("type", refs[g.r.Intn(len(refs))])
		_ = t
	case k == 6:
		t := n.add("type", "int8")
		t.add("range", g.pick([]string{"1..10", "min..0", "-5..5|7", "0..max"}))
	case k == 7:
		t := n.add("type", "enumeration")
		t.add("enum", "a")
		e := t.add("enum", "b")
		if g.chance(0.5) {
			e.add("value", g.pick([]string{"5", "-1", "1"}))
		}
	case k == 8 && len(m.Identities) > 0:
		t := n.add("type", "identityref")
		t.add("base", m.Prefix+":"+m.Identities[g.r.Intn(len(m.Identities))].Arg)
	case g.bad(0.3):
		n.add("type", g.pick([]string{"nosuch", "px:t", m.Prefix + ":nosuch"}))
	default:
		t := n.add("type", "string")
		if g.chance(0.5) {
			t.add("length", g.pick([]string{"1..10", "0..5|8", "2..max"}))
		}
		if g.chance(0.3) {
			t.add("pattern", g.pick([]string{"a*", "[a-z]+"}))
		}
	}
}

// typedefs adds 0-3 top-level typedefs (chains, restrictions) and 0-3 identities to m.
func (g *genr) typedefs(m *Module, set *Set) {
	g.cur = m
	ni := g.r.Intn(3)
	for i := 0; i < ni; i++ {
		id := &Node{Kw: "identity", Arg: g.pick([]string{"i", "j", "k"}) + fmt.Sprint(i)}
		if len(m.Identities) > 0 && g.chance(0.6) {
			id.add("base", m.Identities[g.r.Intn(len(m.Identities))].Arg)
		}
		for _, o := range m.Imports {
			if len(o.Identities) > 0 && g.chance(0.3) {
				id.add("base", m.ImportPrefix[o]+":"+o.Identities[g.r.Intn(len(o.Identities))].Arg)
				break
			}
		}
		m.Identities = append(m.Identities, id)
		m.Body.Kids = append(m.Body.Kids, id)
	}
	nt := g.r.Intn(4)
	used := map[string]bool{}
	for i := 0; i < nt; i++ {
		name := g.pick([]string{"t", "u", "v"})
		if used[name] {
			continue
		}
		used[name] = true
		td := &Node{Kw: "typedef", Arg: name}
		g.typeRef(td)
		if g.chance(0.25) {
			td.add("units", "tu")
		}
		m.Typedefs = append(m.Typedefs, td)
		m.Body.Kids = append(m.Body.Kids, td)
	}
}

func (g *genr) listAttrs(n *Node) {
	if g.chance(0.3) {
		n.add("min-elements", g.pick([]string{"0", "1", "2"}))
	}
	if g.chance(0.3) {
		n.add("max-elements", g.pick([]string{"unbounded", "3", "10"}))
	}
	if g.chance(0.2) {
		n.add("ordered-by", g.pick([]string{"user", "system"}))
	}
}

// visibleGroupings lists (reference text, grouping) pairs usable from module m.
func (g *genr) visibleGroupings(m *Module, set *Set, local []*Node) [][2]interface{} {
	var out [][2]interface{}
	for _, gr := range local {
		out = append(out, [2]interface{}{gr.Arg, gr})
	}
	root := m
	if m.Sub {
		root = m.Owner
	}
	for _, gr := range m.Groupings {
		out = append(out, [2]interface{}{gr.Arg, gr})
		out = append(out, [2]interface{}{m.Prefix + ":" + gr.Arg, gr})
	}
	for _, s := range m.Includes {
		for _, gr := range s.Groupings {
			out = append(out, [2]interface{}{gr.Arg, gr})
		}
	}
	if m.Sub {
		// a submodule sees its owner's groupings and those of the owner's other submodules
		for _, gr := range root.Groupings {
			out = append(out, [2]interface{}{gr.Arg, gr})
		}
		for _, s := range root.Includes {
			if s != m {
				for _, gr := range s.Groupings {
					out = append(out, [2]interface{}{gr.Arg, gr})
				}
			}
		}
	}
	for _, o := range m.Imports {
		for _, gr := range o.Groupings {
			out = append(out, [2]interface{}{m.ImportPrefix[o] + ":" + gr.Arg, gr})
		}
	}
	return out
}

func (g *genr) fillBody(m *Module, set *Set, parent *Node, depth int, inGrouping bool) {
	g.cur = m
	inOps := false
	n := g.r.Intn(4)
	if depth == 0 {
		n = 1 + g.r.Intn(3)
	}
	var local []*Node
	used := map[string]bool{}
	for _, c := range parent.Kids {
		used[c.Arg] = true
	}
	for i := 0; i < n; i++ {
		name := g.pick(nodeNames)
		if parent == m.Body && m.Sub && !(g.bad(0.05)) {
			// top-level names of a submodule land in its owner: keep them apart
			name += m.Name[len(m.Name)-2:]
		}
		if used[name] && !(g.bad(0.04)) {
			continue
		}
		used[name] = true
		switch k := g.r.Intn(12); {
		case k <= 2:
			g.leafAttrs(parent.add("leaf", name), inOps)
		case k == 3:
			ll := parent.add("leaf-list", name)
			g.typeRef(ll)
			g.listAttrs(ll)
			if g.chance(0.2) {
				ll.add("default", "a")
				if g.chance(0.5) {
					ll.add("default", "b")
				}
			}
		case k <= 5:
			if depth < g.cfg.MaxDepth {
				c := parent.add("container", name)
				if g.cfg.ConfigStmts && g.chance(0.2) {
					c.add("config", g.pick([]string{"true", "false"}))
				}
				if g.cfg.Groupings && g.chance(0.15) {
					gr := &Node{Kw: "grouping", Arg: g.pick(groupNames)}
					g.fillBody(m, set, gr, depth+2, true)
					c.Kids = append(c.Kids, gr)
					local = append(local, gr)
				}
				g.fillBody(m, set, c, depth+1, inGrouping)
				if g.cfg.RPCs && g.chance(0.12) {
					g.rpc(m, set, c, "action")
				}
			}
		case k == 6:
			if depth < g.cfg.MaxDepth {
				l := parent.add("list", name)
				l.add("key", "k")
				l.add("leaf", "k").add("type", "string")
				g.listAttrs(l)
				g.fillBody(m, set, l, depth+1, inGrouping)
			}
		case k == 7:
			if g.cfg.Choices && depth < g.cfg.MaxDepth {
				ch := parent.add("choice", name)
				nc := 1 + g.r.Intn(3)
				for j := 0; j < nc; j++ {
					cn := g.pick(nodeNames) + fmt.Sprint(j)
					if g.chance(0.5) {
						cs := ch.add("case", cn)
						g.fillBody(m, set, cs, depth+2, inGrouping)
					} else if g.chance(0.6) {
						g.leafAttrs(ch.add("leaf", cn), inOps)
					} else {
						c := ch.add("container", cn)
						g.fillBody(m, set, c, depth+2, inGrouping)
					}
				}
				if g.chance(0.2) {
					ch.add("default", ch.Kids[0].Arg)
				}
			}
		case k <= 9:
			if g.cfg.Groupings && !(parent == m.Body && m.Sub && !g.bad(0.1)) {
				vis := g.visibleGroupings(m, set, local)
				if len(vis) > 0 && !(g.bad(0.03)) {
					v := vis[g.r.Intn(len(vis))]
					clash := false
					for _, nm := range topNames(v[1].(*Node), 0) {
						if used[nm] {
							clash = true
						}
					}
					if clash && !(g.bad(0.04)) {
						break
					}
					for _, nm := range topNames(v[1].(*Node), 0) {
						used[nm] = true
					}
					u := parent.add("uses", v[0].(string))
					u.Uses = v[1].(*Node)
				} else if g.bad(0.03) {
					parent.add("uses", "nosuch")
				}
			}
		case k == 10:
			if g.chance(0.5) {
				ax := parent.add(g.pick([]string{"anydata", "anyxml"}), name)
				if g.chance(0.3) {
					ax.add("mandatory", "true")
				}
			}
		default:
			g.leafAttrs(parent.add("leaf", name), inOps)
		}
	}
}

// topNames lists the names a grouping contributes to a node that uses it.
func topNames(gr *Node, depth int) []string {
	var out []string
	if depth > 6 {
		return out
	}
	for _, c := range gr.Kids {
		switch c.Kw {
		case "grouping", "typedef":
		case "uses":
			if c.Uses != nil {
				out = append(out, topNames(c.Uses, depth+1)...)
			}
		default:
			out = append(out, c.Arg)
		}
	}
	return out
}

func (g *genr) rpc(m *Module, set *Set, parent *Node, kw string) {
	rn := g.pick(nodeNames) + "r"
	if m.Sub {
		rn += m.Name[len(m.Name)-2:]
	}
	r := parent.add(kw, rn)
	if g.chance(0.7) {
		in := r.add("input", "")
		g.fillBody(m, set, in, 2, false)
	}
	if g.chance(0.6) {
		out := r.add("output", "")
		g.fillBody(m, set, out, 2, false)
	}
}

// SchemaPath is one schema node of a module's tree before FixChoice, as a list of names.
type SchemaPath struct {
	Names []string
	Kw    string // keyword of the node
	// ChoiceShorthand[i] is true when Names[i] is a shorthand member directly under a choice (an
	// implicit case of the same name is inserted above it by FixChoice).
	ChoiceShorthand []bool
}

func expand(n *Node, cur []string, short []bool, parentKw string, depth int, out *[]SchemaPath) {
	if depth > 8 {
		return
	}
	for _, c := range n.Kids {
		switch c.Kw {
		case "container", "list", "leaf", "leaf-list", "choice", "case", "anydata", "anyxml", "rpc", "action", "notification", "input", "output":
			name := c.Arg
			if c.Kw == "input" || c.Kw == "output" {
				name = c.Kw
			}
			p := append(append([]string{}, cur...), name)
			s := append(append([]bool{}, short...), parentKw == "choice" && c.Kw != "case")
			*out = append(*out, SchemaPath{Names: p, Kw: c.Kw, ChoiceShorthand: s})
			expand(c, p, s, c.Kw, depth+1, out)
		case "uses":
			if c.Uses != nil {
				expand(c.Uses, cur, short, parentKw, depth+1, out)
			}
		}
	}
}

// Paths returns the schema paths of module m (own body plus included submodules).
func (m *Module) Paths() []SchemaPath {
	var out []SchemaPath
	expand(m.Body, nil, nil, "module", 0, &out)
	for _, s := range m.Includes {
		expand(s.Body, nil, nil, "module", 0, &out)
		for _, s2 := range s.Includes {
			expand(s2.Body, nil, nil, "module", 0, &out)
		}
	}
	return out
}

// pathString renders p with the given prefix on every step; afterFix inserts implicit cases.
func pathString(p SchemaPath, prefix string, afterFix bool) string {
	var sb strings.Builder
	for i, n := range p.Names {
		if afterFix && p.ChoiceShorthand[i] {
			sb.WriteString("/" + prefix + ":" + n)
		}
		sb.WriteString("/" + prefix + ":" + n)
	}
	return sb.String()
}

func (g *genr) targetModule(m *Module) (*Module, string) {
	// own module (own prefix) or an imported one
	cands := []*Module{}
	if !m.Sub {
		cands = append(cands, m)
	} else {
		cands = append(cands, m.Owner)
	}
	for _, o := range m.Imports {
		if !o.Sub {
			cands = append(cands, o)
		}
	}
	t := cands[g.r.Intn(len(cands))]
	pfx := m.Prefix
	if p, ok := m.ImportPrefix[t]; ok {
		pfx = p
	}
	return t, pfx
}

func (g *genr) augment(m *Module, set *Set) {
	g.cur = m
	t, pfx := g.targetModule(m)
	paths := t.Paths()
	var cands []SchemaPath
	for _, p := range paths {
		switch p.Kw {
		case "container", "list", "choice", "case", "input", "output", "notification":
			cands = append(cands, p)
		case "rpc", "action":
			// the (possibly implicit) input or output of an rpc or action
			if g.chance(0.5) {
				cands = append(cands, p)
			}
		case "leaf":
			if g.bad(0.1) {
				cands = append(cands, p)
			}
		}
	}
	var target string
	switch {
	case len(cands) > 0 && !(g.bad(0.08)):
		p := cands[g.r.Intn(len(cands))]
		target = pathString(p, pfx, false)
		if p.Kw == "rpc" || p.Kw == "action" {
			if g.bad(0.1) {
				target += "/" + pfx + ":bogus"
			} else if g.bad(0.1) {
				// the rpc / action itself: not a node that can have children
			} else {
				target += "/" + pfx + ":" + g.pick([]string{"input", "output"})
			}
		}
		own := m
		if m.Sub {
			own = m.Owner
		}
		if t == own && g.chance(0.15) {
			// the first step without prefix: the current module
			target = "/" + strings.TrimPrefix(target, "/"+pfx+":")
		}
		if g.bad(0.05) {
			target = "/zz:" + strings.TrimPrefix(target, "/"+pfx+":")
		}
	case g.bad(0.3):
		target = "/" + pfx + ":nosuch"
	default:
		return
	}
	a := &Node{Kw: "augment", Arg: target}
	// body: a few nodes with names outside the usual pool most of the time (to avoid collisions),
	// sometimes inside it (to provoke them)
	n := 1 + g.r.Intn(2)
	for i := 0; i < n; i++ {
		g.augSeq++
		name := fmt.Sprintf("%s%s%d", g.pick([]string{"aug", "ag"}), strings.ReplaceAll(m.Name, "-", ""), g.augSeq)
		if g.bad(0.1) {
			name = g.pick(nodeNames)
		}
		switch g.r.Intn(10) {
		case 0, 2, 3:
			c := a.add("container", name)
			g.fillBody(m, set, c, 2, false)
		case 1:
			vis := g.visibleGroupings(m, set, nil)
			if len(vis) > 0 {
				v := vis[g.r.Intn(len(vis))]
				u := a.add("uses", v[0].(string))
				u.Uses = v[1].(*Node)
				break
			}
			fallthrough
		default:
			g.leafAttrs(a.add("leaf", name), false)
		}
	}
	m.Body.Kids = append(m.Body.Kids, a)
}

func (g *genr) deviation(m *Module, set *Set) {
	g.cur = m
	t, pfx := g.targetModule(m)
	paths := t.Paths()
	var target string
	var kw string
	if len(paths) > 0 && !(g.bad(0.08)) {
		p := paths[g.r.Intn(len(paths))]
		target = pathString(p, pfx, true)
		kw = p.Kw
	} else if g.bad(0.3) {
		target = "/" + pfx + ":nosuch"
	} else {
		return
	}
	d := &Node{Kw: "deviation", Arg: target}
	nd := 1 + g.r.Intn(2)
	for i := 0; i < nd; i++ {
		kind := g.pick([]string{"add", "replace", "delete", "not-supported", "add", "replace"})
		if g.bad(0.03) {
			kind = "bogus"
		}
		dv := d.add("deviate", kind)
		if kind == "not-supported" {
			continue
		}
		np := 1 + g.r.Intn(2)
		used := map[string]bool{}
		for j := 0; j < np; j++ {
			props := []string{"config", "default", "mandatory", "min-elements", "max-elements", "units"}
			if kind != "delete" {
				props = append(props, "type")
			}
			// mostly properties that fit the target
			var p string
			switch {
			case g.bad(0.15):
				p = g.pick(props)
			case kw == "list":
				p = g.pick([]string{"min-elements", "max-elements", "config"})
			case kw == "leaf-list":
				p = g.pick([]string{"min-elements", "max-elements", "config", "units", "default"})
			case kw == "leaf":
				p = g.pick([]string{"default", "mandatory", "units", "config", "type"})
			case kw == "choice":
				p = g.pick([]string{"default", "mandatory", "config"})
			case kw == "anydata" || kw == "anyxml":
				p = g.pick([]string{"mandatory", "config"})
			default:
				p = "config"
			}
			if p == "type" && kind == "delete" {
				p = "units"
			}
			if used[p] {
				continue
			}
			used[p] = true
			switch p {
			case "config", "mandatory":
				dv.add(p, g.pick([]string{"true", "false"}))
			case "default":
				dv.add(p, g.pick([]string{"d1", "d2", "a"}))
			case "min-elements":
				dv.add(p, g.pick([]string{"0", "1", "2"}))
			case "max-elements":
				dv.add(p, g.pick([]string{"unbounded", "3", "10"}))
			case "units":
				dv.add(p, g.pick([]string{"u1", "u2"}))
			case "type":
				dv.add(p, g.pick(leafTypes))
			}
		}
	}
	m.Body.Kids = append(m.Body.Kids, d)
}

func quote(s string) string {
	if s == "" {
		return `""`
	}
	if strings.ContainsAny(s, " \t\n;{}\"'") {
		return `"` + strings.ReplaceAll(strings.ReplaceAll(s, `\`, `\\`), `"`, `\"`) + `"`
	}
	return s
}

func render(sb *strings.Builder, n *Node, ind string) {
	sb.WriteString(ind)
	sb.WriteString(n.Kw)
	if !(n.Kw == "input" || n.Kw == "output") {
		sb.WriteByte(' ')
		sb.WriteString(quote(n.Arg))
	}
	if len(n.Kids) == 0 {
		sb.WriteString(";\n")
		return
	}
	sb.WriteString(" {\n")
	for _, c := range n.Kids {
		render(sb, c, ind+"  ")
	}
	sb.WriteString(ind + "}\n")
}

// Text renders module m as YANG.
func (m *Module) Text() string {
	var sb strings.Builder
	kw := "module"
	if m.Sub {
		kw = "submodule"
	}
	fmt.Fprintf(&sb, "%s %s {\n", kw, m.Name)
	if m.Sub {
		fmt.Fprintf(&sb, "  belongs-to %s { prefix %s; }\n", m.Owner.Name, m.Prefix)
	} else {
		fmt.Fprintf(&sb, "  namespace %q;\n  prefix %s;\n", m.Namespace, m.Prefix)
	}
	for _, o := range m.Imports {
		fmt.Fprintf(&sb, "  import %s { prefix %s; }\n", o.Name, m.ImportPrefix[o])
	}
	for _, s := range m.Includes {
		fmt.Fprintf(&sb, "  include %s;\n", s.Name)
	}
	revs := append([]string{}, m.Revisions...)
	sort.Strings(revs)
	for _, r := range revs {
		fmt.Fprintf(&sb, "  revision %s;\n", r)
	}
	for _, c := range m.Body.Kids {
		render(&sb, c, "  ")
	}
	sb.WriteString("}\n")
	return sb.String()
}

// FileName is the name a module is loaded under.
func (m *Module) FileName() string {
	if m.File != "" {
		return m.File
	}
	return m.Name + ".yang"
}

// Files returns names and texts in the set's order.
func (s *Set) Files() (names, texts []string) {
	for _, m := range s.Mods {
		names = append(names, m.FileName())
		texts = append(texts, m.Text())
	}
	return
}
