package gen

import (
	"fmt"
	"math/rand"
)

// Split partitions the body of module m (which must have no submodules) into the module and
// 1–3 new submodules: all top-level groupings go to the last submodule, which every other part
// includes (goyang resolves groupings through include statements), the remaining top-level
// statements are distributed at random; nested includes (s1 includes s2 …) are used as well.
// The result is a new set in which m is replaced by the split module followed by its submodules.
func Split(r *rand.Rand, set *Set, m *Module) *Set {
	ns := 1 + r.Intn(3)
	owner := &Module{Name: m.Name, Prefix: m.Prefix, Namespace: m.Namespace, Revisions: m.Revisions,
		Imports: m.Imports, ImportPrefix: m.ImportPrefix, Body: &Node{Kw: "module", Arg: m.Name}}
	var subs []*Module
	for i := 0; i < ns; i++ {
		s := &Module{Name: fmt.Sprintf("%s-p%d", m.Name, i+1), Prefix: m.Prefix, Namespace: m.Namespace, Sub: true, Owner: owner,
			Imports: m.Imports, ImportPrefix: m.ImportPrefix}
		s.Body = &Node{Kw: "submodule", Arg: s.Name}
		subs = append(subs, s)
	}
	last := subs[ns-1]
	// every part sees the groupings through an include of the last submodule; sometimes chained
	owner.Includes = append(owner.Includes, subs...)
	for i := 0; i < ns-1; i++ {
		if r.Intn(2) == 0 && i+1 < ns-1 {
			subs[i].Includes = append(subs[i].Includes, subs[i+1])
		}
		subs[i].Includes = append(subs[i].Includes, last)
	}
	parts := append([]*Module{owner}, subs...)
	for _, c := range m.Body.Kids {
		if c.Kw == "grouping" {
			last.Body.Kids = append(last.Body.Kids, c)
			last.Groupings = append(last.Groupings, c)
			continue
		}
		if c.Kw == "augment" || c.Kw == "deviation" {
			// their relative order across files is not defined; the property speaks about data nodes,
			// typedefs, groupings and identities
			owner.Body.Kids = append(owner.Body.Kids, c)
			continue
		}
		p := parts[r.Intn(len(parts))]
		p.Body.Kids = append(p.Body.Kids, c)
	}
	out := &Set{}
	for _, x := range set.Mods {
		if x == m {
			out.Mods = append(out.Mods, parts...)
		} else {
			out.Mods = append(out.Mods, x)
		}
	}
	// other modules that import m keep pointing at the old *Module value for prefix lookup only;
	// Text() uses names, which are unchanged.
	return out
}
