module verif/harness

go 1.23

require github.com/openconfig/goyang v0.0.0

require github.com/google/go-cmp v0.7.0 // indirect

replace github.com/openconfig/goyang => /repo
