module verif/harness

go 1.23

require github.com/openconfig/goyang v0.0.0

replace github.com/openconfig/goyang => /repo
