module verif/harness

go 1.23

require github.com/openconfig/goyang v0.0.0

require (
	golang.org/x/mod v0.22.0 // indirect
	golang.org/x/sync v0.10.0 // indirect
)

require (
	github.com/google/go-cmp v0.7.0 // indirect
	golang.org/x/tools v0.29.0
)

replace github.com/openconfig/goyang => /repo
