package lexcorr

import (
	"go/scanner"
	"go/token"
	"os"
	"regexp"
	"sort"
	"strconv"
	"strings"
)

// Generic parsing has no memory: what a statement reads as does not depend on the statements before or
// around it.  The CarriedState family puts an earlier "prefix statement" that could plausibly switch a mode
// (a YANG version, a keyword or argument the lexer or parser source compares against) before, around, or
// inside an earlier closed block next to a later statement whose reading is mode-sensitive (the argument of
// a pattern statement with undefined escapes, the same escapes elsewhere, defined escapes).

var wordRE = regexp.MustCompile(`^[A-Za-z0-9_.:-]{1,24}$`)

// SourceWords returns the string literals of pkg/yang/lex.go and parse.go (of $VERIF_REPO, default /repo)
// that could stand as an unquoted keyword or argument (import paths left out): the texts the lexer and parser
// compare against.
func SourceWords() []string {
	repo := os.Getenv("VERIF_REPO")
	if repo == "" {
		repo = "/repo"
	}
	seen := map[string]bool{}
	for _, name := range []string{"lex.go", "parse.go"} {
		src, err := os.ReadFile(repo + "/pkg/yang/" + name)
		if err != nil {
			continue
		}
		fset := token.NewFileSet()
		var s scanner.Scanner
		s.Init(fset.AddFile(name, fset.Base(), len(src)), src, nil, 0)
		inImport := false
		for {
			_, tok, lit := s.Scan()
			if tok == token.EOF {
				break
			}
			switch tok {
			case token.IMPORT:
				inImport = true
			case token.STRING, token.LPAREN, token.RPAREN, token.SEMICOLON, token.IDENT, token.PERIOD:
			default:
				inImport = false
			}
			if tok == token.STRING && !inImport {
				if w, err := strconv.Unquote(lit); err == nil && wordRE.MatchString(w) {
					seen[w] = true
				}
			}
		}
	}
	var out []string
	for w := range seen {
		out = append(out, w)
	}
	sort.Strings(out)
	return out
}

// rfcKeywords are the statement keywords of RFC 7950 and a few prefixed (extension) keywords.
var rfcKeywords = strings.Fields(`module submodule yang-version namespace prefix import include revision
	revision-date organization contact description reference belongs-to extension argument yin-element identity
	base feature if-feature typedef type units default status container must error-message error-app-tag presence
	when leaf leaf-list list key unique config mandatory min-elements max-elements ordered-by choice case anydata
	anyxml uses refine augment rpc action input output notification deviation deviate range length pattern modifier
	enum value bit position path require-instance fraction-digits grouping
	oc-ext:openconfig-version oc-ext:posix-pattern x:yang-version yang-version:x md:annotation`)

// hotKeywords, like the words of the source, are crossed with every placement and later statement from level 1.
var hotKeywords = []string{"pattern", "modifier", "module", "submodule", "import", "revision", "namespace"}

// coreArgs (and the words of the source) go with every keyword, moreArgs with yang-version.
var coreArgs = []string{"1", "1.1", "2", "true", "false", "x", "pattern", "invert-match"}
var moreArgs = []string{"1.0", "1.2", "1.10", "01.1", "1.1.0", "11", "1,1", " 1.1", "1.1 ", "", "yang-version", "yang-version 1.1",
	"urn:ietf:params:xml:ns:yang:1", "2016-08-01", "7950", "yang11", "on", "off", "escape", "posix", "current", "deprecated",
	"obsolete", "not-supported", "add", "replace", "delete", "user", "system", "unbounded", "min", "max"}

type laterStmt struct {
	text string
	bad  string // the one offending backslash pair, "" if the statement is well-formed
}

var laterStmts = []laterStmt{
	{`pattern "\d+(\.\d+)?";`, ""},
	{`pattern 'x\d';`, ""},
	{`pattern "a" + "\d";`, ""},
	{"pattern \"\\s\"\n\t+ '\\w' { modifier invert-match; error-message \"a\\tb\"; }", ""},
	{`type string { length 1..2; pattern "\p{L}\-\ "; }`, ""},
	{`pattern "\d" { error-message "a\qb"; }`, `\q`},
	{`error-message "a\qb";`, `\q`},
	{`description "\d";`, `\d`},
	{`description "a\nb\tc\\d\"e";`, ""},
	{"x:pattern 'q' + \"\\d\";", `\d`},
	{"pattern \"a\n      \\d\tb\\\\\";", ""},
}

func isHot(k string) bool {
	for _, h := range hotKeywords {
		if h == k {
			return true
		}
	}
	return false
}

type carriedHead struct {
	text  string // the prefix statement without its terminator
	level int    // the level from which it is crossed with every placement and later statement
}

// carriedHeads returns the prefix statements: keyword alone, keyword with an argument unquoted and
// double-quoted, and (yang-version and the words of the source as keywords) single-quoted and split in two
// concatenated pieces.
func carriedHeads() []carriedHead {
	src := SourceWords()
	inSrc := map[string]bool{}
	for _, w := range src {
		inSrc[w] = true
	}
	var kws []string
	seenK := map[string]bool{}
	for _, k := range append(append([]string{}, rfcKeywords...), src...) {
		if !seenK[k] {
			seenK[k] = true
			kws = append(kws, k)
		}
	}
	var heads []carriedHead
	for _, k := range kws {
		level, allForms := 2, inSrc[k]
		if isHot(k) || inSrc[k] {
			level = 1
		}
		args := append(append([]string{}, coreArgs...), src...)
		if k == "yang-version" {
			level, allForms = 0, true
			args = append(args, moreArgs...)
		}
		add := func(t string) { heads = append(heads, carriedHead{t, level}) }
		add(k)
		seenA := map[string]bool{}
		for _, a := range args {
			if seenA[a] {
				continue
			}
			seenA[a] = true
			if wordRE.MatchString(a) {
				add(k + " " + a)
			}
			add(k + " \"" + a + "\"")
			if allForms {
				add(k + " '" + a + "'")
				if len(a) >= 2 {
					add(k + " \"" + a[:1] + "\" + '" + a[1:] + "'")
				}
			}
		}
	}
	return heads
}

// carriedPlacements: h is the prefix statement without terminator, s the later statement; the result is the
// text and the offset of (the last copy of) s in it.
var carriedPlacements = []func(h, s string) (string, int){
	func(h, s string) (string, int) { p := h + "; "; return p + s, len(p) },                                 // earlier top-level statement
	func(h, s string) (string, int) { p := "module m {\n  " + h + ";\n  "; return p + s + "\n}\n", len(p) }, // sibling before
	func(h, s string) (string, int) { p := h + " { "; return p + s + " }", len(p) },                         // parent
	func(h, s string) (string, int) {
		p := h + " {\n  typedef t {\n    type string {\n      "
		return p + s + "\n    }\n  }\n}\n", len(p)
	}, // ancestor
	func(h, s string) (string, int) { p := "c { " + h + "; } "; return p + s, len(p) }, // inside an earlier closed block
	func(h, s string) (string, int) {
		p := "module m { c { d { " + h + " { } } } leaf l { "
		return p + s + " } }", len(p)
	},
	func(h, s string) (string, int) { p := h + " { x; } "; return p + s, len(p) }, // earlier statement with a block
	func(h, s string) (string, int) {
		p := "module m { " + h + "; typedef t { type string { "
		return p + s + " } } }", len(p)
	},
	func(h, s string) (string, int) {
		p := h + "; z { " + h + "; } " + h + " { "
		return p + s + " }", len(p)
	}, // all of them at once
	func(h, s string) (string, int) { p := s + " " + h + "; "; return p + s, -1 }, // the later statement on both sides
}

// CarriedState emits the family.  A prefix statement is either crossed with every placement and every later
// statement, or gets four (placement, later statement) pairs, rotating, so that each pair occurs with many
// prefix statements.  The full product, level 0: for the yang-version statements; level 1: also for the hot
// keywords and the words of the source as keywords; level 2: for all.
func CarriedState(level int, emit func(Case)) {
	one := func(h string, pi, si int) {
		ls := laterStmts[si]
		text, off := carriedPlacements[pi](h, ls.text)
		c := Case{Text: text, Stream: "carried_state"}
		if ls.bad != "" && off >= 0 {
			c.FaultOff, c.FaultClass = off+strings.Index(ls.text, ls.bad), "esc"
		}
		emit(c)
	}
	np, ns := len(carriedPlacements), len(laterStmts)
	for hi, h := range carriedHeads() {
		if level >= h.level {
			for pi := 0; pi < np; pi++ {
				for si := 0; si < ns; si++ {
					one(h.text, pi, si)
				}
			}
			continue
		}
		for j := 0; j < 4; j++ {
			n := hi*4 + j
			one(h.text, n%np, (n/np+n)%ns)
		}
	}
}
