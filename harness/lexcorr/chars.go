package lexcorr

import (
	"math/rand"
	"strings"
	"unicode/utf8"
)

// Character classes.  Property C16 counts columns in characters (code points), as the reference reader
// `Goyang.Spec.Parse` does; a lexer can count something else that agrees on every text of ASCII and
// Latin letters: bytes, UTF-16 code units (2 for everything above U+FFFF), grapheme clusters (0 for a
// combining mark or a zero-width joiner), terminal cells (2 for CJK and emoji, 0 for zero-width
// characters), or it can decode ill-formed UTF-8 differently.  CharPool lists, per UTF-8 length class
// (1, 2, 3, 4 bytes), several characters: the first and the last code point of the class (U+007F /
// U+0080, U+07FF / U+0800, U+FFFF / U+10000, U+10FFFF), supplementary-plane characters (emoji, CJK
// extension B, mathematical alphanumerics, tags, variation selectors), combining marks, zero-width and
// double-width characters, and ill-formed sequences (surrogate code points encoded as UTF-8 — alone and
// as a CESU-8 pair —, overlong forms, code points above U+10FFFF, lone continuation bytes, truncated
// sequences).  Every family of this package draws from it:
//
//   - CharClassCases (stream char_classes): every pool character in a comment, a double-quoted string, a
//     single-quoted string, an unquoted argument and a keyword, on the same physical line before the
//     keywords of an accepted text and before the offending token of each kind of single fault (with the
//     byte offset of that token for the exact-position oracle), doubled, on the last line of a multi-line
//     comment / string, glued to the offending token, on line 2, and (control) on the line before;
//   - Sprinkle: one text in four of the random layouts / mutated texts / single faults / source-name
//     texts / repeated layouts gets one or two pool characters put into a third of its keywords,
//     unquoted arguments and quoted pieces, and into block comments behind tokens;
//   - LongLines, RepeatedDq / RepeatedOther, DqLinebreaks, NameShapes / namedBodies and the
//     enumeration enum_token_wide carry supplementary-plane and combining characters of their own.
//
// For an ill-formed text the reference reader has no answer (outside the claim): implementation and
// impl model are still compared.  The Distribution lists per class how many texts carried it.

// CharClass is one pool entry.
type CharClass struct {
	Name string // <length class>:<what>
	S    string // the bytes
	Bad  bool   // not well-formed UTF-8
}

// CharPool is the pool.
var CharPool = []CharClass{
	// 1 byte
	{"u1:control_0001", "\x01", false},
	{"u1:last_007F", "\x7f", false},
	// 2 bytes
	{"u2:first_0080", "\u0080", false},
	{"u2:latin_00E9", "\u00e9", false},
	{"u2:combining_0301", "\u0301", false},
	{"u2:last_07FF", "\u07ff", false},
	// 3 bytes
	{"u3:first_0800", "\u0800", false},
	{"u3:zero_width_200B", "\u200b", false},
	{"u3:zero_width_joiner_200D", "\u200d", false},
	{"u3:combining_20DD", "\u20dd", false},
	{"u3:cjk_wide_4E16", "\u4e16", false},
	{"u3:before_surrogates_D7FF", "\ud7ff", false},
	{"u3:after_surrogates_E000", "\ue000", false},
	{"u3:variation_selector_FE0F", "\ufe0f", false},
	{"u3:fullwidth_FF21", "\uff21", false},
	{"u3:replacement_FFFD", "\ufffd", false},
	{"u3:last_FFFF", "\uffff", false},
	// 4 bytes: the supplementary planes
	{"u4:first_10000", "\U00010000", false},
	{"u4:math_1D400", "\U0001D400", false},
	{"u4:combining_1D165", "\U0001D165", false},
	{"u4:regional_indicator_1F1E6", "\U0001F1E6", false},
	{"u4:emoji_1F600", "\U0001F600", false},
	{"u4:cjk_ext_b_20000", "\U00020000", false},
	{"u4:tag_E0001", "\U000E0001", false},
	{"u4:variation_selector_E0100", "\U000E0100", false},
	{"u4:private_100000", "\U00100000", false},
	{"u4:last_10FFFF", "\U0010FFFF", false},
	// ill-formed
	{"bad:surrogate_D800", "\xed\xa0\x80", true},
	{"bad:surrogate_DFFF", "\xed\xbf\xbf", true},
	{"bad:surrogate_pair_cesu8_1F600", "\xed\xa0\xbd\xed\xb8\x80", true},
	{"bad:overlong_2_C080", "\xc0\x80", true},
	{"bad:overlong_3_E08080", "\xe0\x80\x80", true},
	{"bad:overlong_4_F0808080", "\xf0\x80\x80\x80", true},
	{"bad:above_10FFFF_F4908080", "\xf4\x90\x80\x80", true},
	{"bad:five_byte_F8", "\xf8\x88\x80\x80\x80", true},
	{"bad:lone_continuation_80", "\x80", true},
	{"bad:truncated_2_C3", "\xc3", true},
	{"bad:truncated_3_E4B8", "\xe4\xb8", true},
	{"bad:truncated_4_F09F98", "\xf0\x9f\x98", true},
	{"bad:byte_FF", "\xff", true},
}

// CharClassNames lists the names of the pool in order.
func CharClassNames() []string {
	out := make([]string, len(CharPool))
	for i, c := range CharPool {
		out[i] = c.Name
	}
	return out
}

var charByRune = func() map[rune]int {
	m := map[rune]int{}
	for i, c := range CharPool {
		if !c.Bad {
			r, _ := utf8.DecodeRuneInString(c.S)
			m[r] = i
		}
	}
	return m
}()

// carriedChars returns the indices (into CharPool) of the classes the text carries.
func carriedChars(text string) []int {
	ascii := true
	for i := 0; i < len(text); i++ {
		if c := text[i]; c >= 0x7f || c == 1 {
			ascii = false
			break
		}
	}
	if ascii {
		return nil
	}
	var seen [64]bool
	var out []int
	for _, r := range text {
		if r < 0x7f && r != 1 {
			continue
		}
		if i, ok := charByRune[r]; ok && !seen[i] {
			// U+FFFD also comes out of the decoder for an ill-formed byte: count the real character only
			if r == utf8.RuneError && !strings.Contains(text, "\ufffd") {
				continue
			}
			seen[i] = true
			out = append(out, i)
		}
	}
	if !utf8.ValidString(text) {
		for i, c := range CharPool {
			if c.Bad && strings.Contains(text, c.S) {
				out = append(out, i)
			}
		}
	}
	return out
}

// pickChar draws a pool entry: 40 % supplementary planes, 20 % three bytes, 15 % two bytes, 10 % one
// byte, 15 % ill-formed.
func pickChar(r *rand.Rand) CharClass {
	var pre string
	switch k := r.Intn(20); {
	case k < 8:
		pre = "u4:"
	case k < 12:
		pre = "u3:"
	case k < 15:
		pre = "u2:"
	case k < 17:
		pre = "u1:"
	default:
		pre = "bad:"
	}
	var cand []CharClass
	for _, c := range CharPool {
		if strings.HasPrefix(c.Name, pre) {
			cand = append(cand, c)
		}
	}
	return cand[r.Intn(len(cand))]
}

// Sprinkle puts one or two pool characters into about a third of the tokens of a generated token
// sequence: in front of, behind or in place of a keyword (never `pattern`) or unquoted argument, behind
// the opening quote, in front of the closing quote or somewhere between two items of a quoted piece, and
// into a block comment (one-line, or on the last line of a two-line one) that Render writes right behind
// a token.  The roles of the tokens do not change: a well-formed sequence stays well-formed.
func Sprinkle(r *rand.Rand, toks []GTok) {
	zs := []string{pickChar(r).S, pickChar(r).S}
	z := func() string {
		s := zs[r.Intn(2)]
		if r.Intn(4) == 0 {
			s += zs[r.Intn(2)]
		}
		return s
	}
	for i := range toks {
		t := &toks[i]
		if r.Intn(4) == 0 {
			if r.Intn(3) == 0 {
				t.After = " /* a\n" + z() + " */"
			} else {
				t.After = " /*" + z() + "*/"
			}
		}
		if r.Intn(3) != 0 {
			continue
		}
		switch t.Kind {
		case "kw", "unq":
			if t.Text == "pattern" {
				continue
			}
			switch r.Intn(3) {
			case 0:
				t.Text = z() + t.Text
			case 1:
				t.Text += z()
			default:
				t.Text = z()
			}
		case "sq":
			if r.Intn(2) == 0 {
				t.Text = "'" + z() + t.Text[1:]
			} else {
				t.Text = t.Text[:len(t.Text)-1] + z() + "'"
			}
		case "dq":
			body := t.Text[1 : len(t.Text)-1]
			cuts := []int{0}
			if r.Intn(2) == 0 {
				cuts = itemCuts(body)
			}
			k := cuts[r.Intn(len(cuts))]
			t.Text = "\"" + body[:k] + z() + body[k:] + "\""
		}
	}
}

// itemCuts are the byte offsets of a raw double-quoted content that are not between a backslash and
// its character nor inside a multi-byte character.
func itemCuts(body string) []int {
	var cuts []int
	for k := 0; k <= len(body); k++ {
		bs := 0
		for j := k - 1; j >= 0 && body[j] == '\\'; j-- {
			bs++
		}
		if bs%2 == 0 && (k == len(body) || body[k]&0xC0 != 0x80) {
			cuts = append(cuts, k)
		}
	}
	return cuts
}

// faultBody is a text with at most one fault: the byte offset of the offending token / backslash /
// opener and the class of the error that must be the first positioned one.
type faultBody struct {
	text  string
	off   int
	class string
}

var charBodies = []faultBody{
	{"module m { namespace \"u\"; prefix p; } leaf l;", -1, ""},
	{"module m { namespace \"u\"; } }", 28, "rbrace"},
	{"leaf a b c;", 7, "semi"},
	{"leaf a \"x\\q\";", 9, "esc"},
	{"leaf a { b 'c", 11, "sq"},
	{"leaf a { b \"c", 11, "dq"},
	{"leaf a; \"k\" b;", 8, "kw"},
	{"leaf a { b c; } /* open", 16, "cmt"},
	// the offending token first: it stands right behind the carrier
	{"} leaf a;", 0, "rbrace"},
	{"'k' + \"l\" b;", 0, "kw"},
}

// CharClassCases is the deterministic family of this file (stream char_classes).  Every text is counted
// under `placed:<class>` (what the reference reader says about the texts that carry the character on the
// line of a later keyword or offending token) and `carrier:<kind>`.
func CharClassCases(emit func(Case)) {
	for _, cc := range CharPool {
		z := cc.S
		type carrier struct{ kind, text string }
		carriers := []carrier{
			{"comment", "/*" + z + "*/ "},
			{"comment", "/* a\n" + z + z + " */"},
			{"comment", "x /* " + z + " */ y /*" + z + "*/; "},
			{"double_quoted", "a \"" + z + "\"; "},
			{"double_quoted", "a \"x" + z + "y\" + \"" + z + z + "\" { } "},
			{"double_quoted", "a \"x\n  " + z + "\"; "},
			{"single_quoted", "a '" + z + "'; "},
			{"single_quoted", "a 'x\n" + z + "\t" + z + "' { b '" + z + "'; } "},
			{"unquoted", "a " + z + "; "},
			{"unquoted", "a x" + z + "y;"},
			{"unquoted", z + z + " b { c " + z + "; } "},
			{"keyword", z + "; "},
			{"keyword", "k" + z + " { " + z + "k; }"},
			{"mixed", "/*" + z + "*/ " + z + " '" + z + "' + \"" + z + "\"; "},
			{"line2", "a b;\n\t/*" + z + "*/ a \"" + z + "\"; "},
			{"previous_line_only", "a \"" + z + "\"; /* " + z + " */\n"},
		}
		for _, ca := range carriers {
			for _, b := range charBodies {
				c := Case{Text: ca.text + b.text, Stream: "char_classes", Classes: []string{"placed:" + cc.Name, "carrier:" + ca.kind}}
				if b.class != "" {
					c.FaultOff, c.FaultClass = len(ca.text)+b.off, b.class
				}
				emit(c)
			}
		}
		// the offending backslash / opener / token in the same token as the character or right behind it
		glued := []faultBody{
			{"a \"" + z + "\\q\";", 3 + len(z), "esc"},
			{"a \"" + z + "\" + \"" + z + "\\" + z + "\";", 3 + len(z) + 5 + len(z), "esc"},
			{"a " + z + " \"open\n ;", 3 + len(z), "dq"},
			{"a " + z + " 'open\n ;", 3 + len(z), "sq"},
			{"a '" + z + "' + '" + z, 3 + len(z) + 4, "sq"},
			{"a " + z + ";/*" + z, 3 + len(z), "cmt"},
			{"a " + z + " " + z + " ;", 3 + len(z), "semi"},
			{"a '" + z + "'\"" + z + "\";", 4 + len(z), "semi"},
			{z + "{" + z + ";}}", 2*len(z) + 3, "rbrace"},
			{z + ";\"" + z + "\" b;", len(z) + 1, "kw"},
		}
		for _, g := range glued {
			emit(Case{Text: g.text, Stream: "char_classes", FaultOff: g.off, FaultClass: g.class,
				Classes: []string{"placed:" + cc.Name, "carrier:glued_to_fault"}})
		}
	}
}

// CharCarrierKinds lists the carrier classes of CharClassCases.
func CharCarrierKinds() []string {
	return []string{"comment", "double_quoted", "single_quoted", "unquoted", "keyword", "mixed", "line2", "previous_line_only", "glued_to_fault"}
}

// WideAlphabet is the alphabet of the enumeration enum_token_wide: the token alphabet with the letters
// replaced by a supplementary-plane character and a combining mark.
var WideAlphabet = []string{"a", " ", "\n", ";", "{", "}", "\"", "'", "/", "*", "\U0001F600", "\u0301"}
