package lexcorr

import (
	"math/rand"
	"strings"
)

// GTok is one token of a generated text.
type GTok struct {
	Text string
	Kind string // kw, unq (unquoted argument), sq, dq, plus, semi, lbrace, rbrace
	Top  bool   // a keyword/`;`/`}` of a top-level statement
	Pat  bool   // argument piece of a `pattern` statement
	// After is written right behind the token, before the filler (a block comment with a pool character,
	// see Sprinkle); it begins with a blank.
	After string
}

var kwPool = []string{"a", "leaf", "pattern", "p:ext", "é", "x-y", "container", "b2", "\uFEFFk", "z\u200B", "pattern"}
var unqPool = []string{"b", "1..2", "/a/b", "é", "a+b", "+", "x:y", "true", "*/", "a/b/", "\uFEFF", "a\u2060b"}
var fillers = []string{" ", " ", " ", "\n", "\t", "  ", "\n    ", "\r\n", " // c\n", "/* c */", " /* a\n * b */ ", "", "", "\n\t", " //\n", "/**/", "/***/", "/* é\t*/"}

func quotedPiece(r *rand.Rand, pattern bool) (string, string) {
	if r.Intn(12) == 0 {
		// a quoted string whose content is `+`: an ordinary string, not the concatenation operator
		if r.Intn(2) == 0 {
			return "\"+\"", "dq"
		}
		return "'+'", "sq"
	}
	if r.Intn(3) == 0 {
		// single-quoted: anything but '
		var sb strings.Builder
		n := r.Intn(6)
		for i := 0; i < n; i++ {
			sb.WriteString([]string{"a", " ", "\t", "\n", "\\", "\"", "é", "b c", "\r\n", "//", "/*", ";", "{"}[r.Intn(13)])
		}
		return "'" + sb.String() + "'", "sq"
	}
	var sb strings.Builder
	n := r.Intn(8)
	for i := 0; i < n; i++ {
		switch k := r.Intn(20); {
		case k < 6:
			sb.WriteString([]string{"a", "word", "é", "x y", ";", "{", "}", "'", "//", "/* */"}[r.Intn(10)])
		case k < 8:
			sb.WriteString(strings.Repeat(" ", 1+r.Intn(3)))
		case k < 9:
			sb.WriteString("\t")
		case k < 13:
			// line break, sometimes after trailing blanks, followed by indentation
			if r.Intn(3) == 0 {
				sb.WriteString([]string{" ", "\t", "  ", " \t "}[r.Intn(4)])
			}
			if r.Intn(25) == 0 {
				sb.WriteString("\r")
			}
			sb.WriteString("\n")
			switch r.Intn(4) {
			case 0:
				sb.WriteString(strings.Repeat(" ", r.Intn(14)))
			case 1:
				sb.WriteString(strings.Repeat("\t", r.Intn(3)))
			case 2:
				sb.WriteString(strings.Repeat(" ", r.Intn(5)) + "\t" + strings.Repeat(" ", r.Intn(4)))
			}
		case k < 17:
			sb.WriteString([]string{"\\n", "\\t", "\\\"", "\\\\"}[r.Intn(4)])
		case k < 18:
			if pattern {
				sb.WriteString([]string{"\\d", "\\.", "\\é", "\\ ", "\\\n", "\\{"}[r.Intn(6)])
			} else {
				sb.WriteString("z")
			}
		default:
			sb.WriteString("b")
		}
	}
	return "\"" + sb.String() + "\"", "dq"
}

// lookalikes are keywords that resemble `pattern`; only the exact unquoted keyword `pattern` exempts the
// undefined backslash pairs of its argument.
var lookalikes = []string{"posix-pattern", "x:pattern", "oc-ext:posix-pattern", "pattern:x", "a:b:pattern", "patterns",
	"Pattern", "x:posix-pattern", "pattern-", ":pattern"}

func genStmt(r *rand.Rand, depth int, top bool, look bool, out *[]GTok) {
	kw := kwPool[r.Intn(len(kwPool))]
	pat := kw == "pattern"
	if r.Intn(12) == 0 {
		// a look-alike keyword; with `look` its argument is written as if it were a pattern in half the
		// cases (the text is then to be rejected), otherwise as an ordinary argument
		kw = lookalikes[r.Intn(len(lookalikes))]
		pat = look && r.Intn(2) == 0
	}
	*out = append(*out, GTok{Text: kw, Kind: "kw", Top: top})
	switch k := r.Intn(10); {
	case k < 2:
	case k < 5:
		*out = append(*out, GTok{Text: unqPool[r.Intn(len(unqPool))], Kind: "unq"})
	default:
		n := 1
		for r.Intn(3) == 0 && n < 4 {
			n++
		}
		for i := 0; i < n; i++ {
			if i > 0 {
				*out = append(*out, GTok{Text: "+", Kind: "plus"})
			}
			t, kind := quotedPiece(r, pat)
			*out = append(*out, GTok{Text: t, Kind: kind, Pat: pat})
		}
	}
	if depth > 0 && r.Intn(3) == 0 {
		*out = append(*out, GTok{Text: "{", Kind: "lbrace"})
		n := r.Intn(4)
		for i := 0; i < n; i++ {
			genStmt(r, depth-1, false, look, out)
		}
		*out = append(*out, GTok{Text: "}", Kind: "rbrace", Top: top})
	} else {
		*out = append(*out, GTok{Text: ";", Kind: "semi", Top: top})
	}
}

// GenTokens produces the tokens of a random well-formed forest.
func GenTokens(r *rand.Rand) []GTok { return GenTokensOpt(r, false) }

// GenTokensOpt: with look, statements whose keyword only resembles `pattern` may carry pattern-style
// escapes (such a text is not well-formed any more: the reference reader rejects it).
func GenTokensOpt(r *rand.Rand, look bool) []GTok {
	var out []GTok
	n := 1 + r.Intn(3)
	for i := 0; i < n; i++ {
		if r.Intn(20) == 0 {
			genChain(r, 8+r.Intn(5), &out)
			continue
		}
		genStmt(r, 3, true, look, &out)
	}
	if r.Intn(4) == 0 {
		Sprinkle(r, out)
	}
	return out
}

// genChain produces a chain of `depth` nested statements closed at once: `a { b "v" { … x; } } }`.
func genChain(r *rand.Rand, depth int, out *[]GTok) {
	for d := 0; d < depth; d++ {
		*out = append(*out, GTok{Text: kwPool[r.Intn(len(kwPool)-1)], Kind: "kw", Top: d == 0})
		if (*out)[len(*out)-1].Text == "pattern" {
			(*out)[len(*out)-1].Text = "p"
		}
		switch r.Intn(3) {
		case 0:
			*out = append(*out, GTok{Text: unqPool[r.Intn(len(unqPool))], Kind: "unq"})
		case 1:
			*out = append(*out, GTok{Text: "'v'", Kind: "sq"})
		}
		*out = append(*out, GTok{Text: "{", Kind: "lbrace"})
	}
	*out = append(*out, GTok{Text: "x", Kind: "kw"}, GTok{Text: ";", Kind: "semi"})
	for d := depth - 1; d >= 0; d-- {
		*out = append(*out, GTok{Text: "}", Kind: "rbrace", Top: d == 0})
	}
}

func isUnq(k string) bool { return k == "kw" || k == "unq" || k == "plus" }

// Render lays the tokens out with random filler and returns the text and the byte offset of every token.
func Render(r *rand.Rand, toks []GTok) (string, []int) {
	var sb strings.Builder
	offs := make([]int, len(toks))
	if r.Intn(2) == 0 {
		sb.WriteString(fillers[r.Intn(len(fillers))])
	}
	for i, t := range toks {
		offs[i] = sb.Len()
		sb.WriteString(t.Text)
		sb.WriteString(t.After)
		f := fillers[r.Intn(len(fillers))]
		if isUnq(t.Kind) {
			if strings.HasPrefix(f, "/") {
				f = " " + f
			}
			if f == "" && i+1 < len(toks) && isUnq(toks[i+1].Kind) {
				f = " "
			}
		}
		if i+1 == len(toks) && r.Intn(2) == 0 {
			f = ""
		}
		sb.WriteString(f)
	}
	return sb.String(), offs
}

// Mutate damages a text: token deletion/duplication/insertion, byte deletion/insertion, truncation, invalid UTF-8.
func Mutate(r *rand.Rand, toks []GTok) string {
	t := append([]GTok{}, toks...)
	switch r.Intn(10) {
	case 3: // quote a concatenation operator: `"a" "+" "b"` is a syntax error, not a concatenation
		var cand []int
		for i := range t {
			if t[i].Kind == "plus" {
				cand = append(cand, i)
			}
		}
		if len(cand) > 0 {
			i := cand[r.Intn(len(cand))]
			if r.Intn(2) == 0 {
				t[i] = GTok{Text: "\"+\"", Kind: "dq"}
			} else {
				t[i] = GTok{Text: "'+'", Kind: "sq"}
			}
		}
	case 4: // turn a keyword into `pattern` or a look-alike of it, or back
		var cand []int
		for i := range t {
			if t[i].Kind == "kw" {
				cand = append(cand, i)
			}
		}
		if len(cand) > 0 {
			i := cand[r.Intn(len(cand))]
			if t[i].Text == "pattern" || r.Intn(4) > 0 {
				t[i].Text = lookalikes[r.Intn(len(lookalikes))]
			} else {
				t[i].Text = "pattern"
			}
		}
	case 0: // delete a token
		if len(t) > 0 {
			i := r.Intn(len(t))
			t = append(t[:i], t[i+1:]...)
		}
	case 1: // duplicate a token
		if len(t) > 0 {
			i := r.Intn(len(t))
			t = append(t[:i+1], t[i:]...)
		}
	case 2: // insert a token
		i := r.Intn(len(t) + 1)
		ins := []GTok{{Text: ";", Kind: "semi"}, {Text: "{", Kind: "lbrace"}, {Text: "}", Kind: "rbrace"}, {Text: "+", Kind: "plus"},
			{Text: "\"q\\x\"", Kind: "dq"}, {Text: "'s'", Kind: "sq"}, {Text: "zz", Kind: "unq"},
			{Text: "\"+\"", Kind: "dq"}, {Text: "'+'", Kind: "sq"}}[r.Intn(9)]
		t = append(t[:i], append([]GTok{ins}, t[i:]...)...)
	}
	text, _ := Render(r, t)
	b := []byte(text)
	switch r.Intn(8) {
	case 0: // delete a byte
		if len(b) > 0 {
			i := r.Intn(len(b))
			b = append(b[:i], b[i+1:]...)
		}
	case 1: // insert a byte
		i := r.Intn(len(b) + 1)
		c := []byte{'"', '\'', '\\', '/', '*', '{', '}', ';', '+', '\n', '\t', 0xff, 0xc3, 0xed, 0xa0, 0x80, 0}[r.Intn(17)]
		b = append(b[:i], append([]byte{c}, b[i:]...)...)
	case 2: // truncate
		if len(b) > 0 {
			b = b[:r.Intn(len(b))]
		}
	case 3: // flip a byte
		if len(b) > 0 {
			b[r.Intn(len(b))] ^= byte(1 << uint(r.Intn(8)))
		}
	case 4: // many invalid escapes (error budget, queue overflow)
		i := r.Intn(len(b) + 1)
		ins := "\"" + strings.Repeat("\\q", 6+r.Intn(5)) + "\""
		b = append(b[:i], append([]byte(ins), b[i:]...)...)
	}
	return string(b)
}

// Fault injects one lexical or syntactic fault into a well-formed token sequence and renders it.
// It returns the text, the byte offset of the offending token/backslash/opener and the class of the
// error that must be the first positioned one; ok is false when the chosen fault does not apply.
func Fault(r *rand.Rand, toks []GTok) (text string, off int, class string, ok bool) {
	t := append([]GTok{}, toks...)
	switch r.Intn(9) {
	case 0: // drop the `;` of a statement that has an argument and is followed by another token: that token is offending
		var cand []int
		for i := range t {
			if t[i].Kind == "semi" && i+1 < len(t) && i > 0 && t[i-1].Kind != "kw" {
				cand = append(cand, i)
			}
		}
		if len(cand) == 0 {
			return
		}
		i := cand[r.Intn(len(cand))]
		t = append(t[:i], t[i+1:]...)
		text, offs := Render(r, t)
		return text, offs[i], "semi", true
	case 1: // an extra `}` between top-level statements
		var cand []int
		for i := range t {
			if t[i].Top && (t[i].Kind == "semi" || t[i].Kind == "rbrace") {
				cand = append(cand, i+1)
			}
		}
		cand = append(cand, 0)
		i := cand[r.Intn(len(cand))]
		t = append(t[:i], append([]GTok{{Text: "}", Kind: "rbrace"}}, t[i:]...)...)
		text, offs := Render(r, t)
		return text, offs[i], "rbrace", true
	case 2: // a quoted string where a keyword must stand
		var cand []int
		for i := range t {
			// (not `pattern`: its argument would then be read outside pattern mode — a second fault)
			if t[i].Kind == "kw" && t[i].Text != "pattern" {
				cand = append(cand, i)
			}
		}
		if len(cand) == 0 {
			return
		}
		i := cand[r.Intn(len(cand))]
		switch r.Intn(4) {
		case 0:
			t[i] = GTok{Text: "\"" + t[i].Text + "\"", Kind: "dq"}
		case 1:
			t[i] = GTok{Text: "'" + t[i].Text + "'", Kind: "sq"}
		default: // a concatenation of single- or double-quoted pieces
			w := t[i].Text
			k := 0
			for k < len(w) && (k == 0 || w[k]&0xC0 == 0x80) {
				k++
			}
			q1, q2 := "'", "'"
			if r.Intn(3) == 0 {
				q1 = "\""
			}
			if r.Intn(3) == 0 {
				q2 = "\""
			}
			ins := []GTok{{Text: q1 + w[:k] + q1, Kind: "sq"}, {Text: "+", Kind: "plus"}, {Text: q2 + w[k:] + q2, Kind: "sq"}}
			t = append(t[:i], append(ins, t[i+1:]...)...)
		}
		text, offs := Render(r, t)
		return text, offs[i], "kw", true
	case 3: // an invalid escape in a double-quoted argument piece outside `pattern`
		var cand []int
		for i := range t {
			if t[i].Kind == "dq" && !t[i].Pat {
				cand = append(cand, i)
			}
		}
		if len(cand) == 0 {
			return
		}
		i := cand[r.Intn(len(cand))]
		// insert at an item boundary: not between a backslash and its character
		body := t[i].Text[1 : len(t[i].Text)-1]
		var cuts []int
		for k := 0; k <= len(body); k++ {
			bs := 0
			for j := k - 1; j >= 0 && body[j] == '\\'; j-- {
				bs++
			}
			if bs%2 == 0 && (k == len(body) || body[k]&0xC0 != 0x80) {
				cuts = append(cuts, k)
			}
		}
		k := cuts[r.Intn(len(cuts))]
		esc := []string{"\\q", "\\ ", "\\\n", "\\é", "\\'", "\\0"}[r.Intn(6)]
		t[i].Text = "\"" + body[:k] + esc + body[k:] + "\""
		text, offs := Render(r, t)
		return text, offs[i] + 1 + k, "esc", true
	case 7, 8: // a quoted string (or a concatenation) where `;` or `{` must stand: before the terminator of a statement that has an argument
		var cand []int
		for i := range t {
			if (t[i].Kind == "semi" || t[i].Kind == "lbrace") && i > 0 && (t[i-1].Kind == "unq" || t[i-1].Kind == "sq" || t[i-1].Kind == "dq") {
				cand = append(cand, i)
			}
		}
		if len(cand) == 0 {
			return
		}
		i := cand[r.Intn(len(cand))]
		var ins []GTok
		switch r.Intn(3) {
		case 0:
			ins = []GTok{{Text: "'s'", Kind: "sq"}}
		case 1:
			ins = []GTok{{Text: "\"s\"", Kind: "dq"}}
		default:
			ins = []GTok{{Text: "'s'", Kind: "sq"}, {Text: "+", Kind: "plus"}, {Text: "'t'", Kind: "sq"}}
		}
		t = append(t[:i], append(ins, t[i:]...)...)
		text, offs := Render(r, t)
		return text, offs[i], "semi", true
	case 4, 5, 6: // an unterminated quote or comment as the last thing in the text
		text, _ := Render(r, t)
		if !strings.HasSuffix(text, "\n") && !strings.HasSuffix(text, " ") {
			text += " "
		}
		off := len(text)
		switch r.Intn(5) {
		case 0:
			return text + "kw 'never closed\n \" ;", off + 3, "sq", true
		case 1:
			return text + "kw \"never\n closed \\\" ' ;", off + 3, "dq", true
		case 2:
			return text + "/* never closed\n * / ;", off, "cmt", true
		case 3:
			return text + "'", off, "sq", true
		default:
			return text + "k \"a\" + \"", off + 8, "dq", true
		}
	}
	return
}

// LongLines is the "long line" family: texts whose first line is longer than 2^16 characters (a comment, a
// run of blanks and tabs, a single-quoted string of multi-byte characters, a concatenation — and, in the
// thorough tier, a double-quoted string and an unquoted token, which cost the list-based model 10-30 s) followed on the
// same line by more statements, a stray `}`, an undefined escape, an unterminated quote, a quoted keyword,
// a missing `;`; and texts with more than 2^16 lines.  Columns and lines beyond 65535 must come out whole.
// The faults carry the offset of the offending token / backslash / opener for the C16 oracle.
func LongLines(r *rand.Rand, thorough bool) []Case {
	n := func() int { return 66000 + r.Intn(4000) }
	pads := []string{
		"/*" + strings.Repeat("c", n()) + "*/ ",
		strings.Repeat(" ", n()/2) + strings.Repeat("\t", n()/2),
		"a '" + strings.Repeat("é", n()) + "'; ",
		"a 'p' + '" + strings.Repeat("q", n()) + "' { } /* é */\t",
		strings.Repeat("\n", n()) + "\t/* c */ ",
		strings.Repeat("\r\n", n()) + " é; ",
		// supplementary-plane characters, every UTF-8 length class, combining marks: one column each
		"/*" + strings.Repeat("\U0001F600", n()) + "*/ ",
		"a '" + strings.Repeat("a\u07ff\u0800\uffff\U00010000\u0301\U00020000\u200b\U0010FFFF", n()/9) + "' /* \U0001D400 */ { } ",
	}
	if thorough {
		// the list-based model is quadratic in the position for tokens read rune by rune: 10-30 s each
		pads = append(pads, "a \""+strings.Repeat("s", n())+"\"; ", "a "+strings.Repeat("x", n())+"; ")
	}
	type tail struct {
		text  string
		off   int
		class string
	}
	tails := []tail{
		{"leaf x { type string; } leaf y;", 0, ""},
		{"leaf x { type 'string'; } }", 26, "rbrace"},
		{"leaf x { é \"a\\q\"; }", 14, "esc"},
		{"leaf x { b 'c'; } leaf 'unterminated", 23, "sq"},
		{"leaf x; \"leaf\" y;", 8, "kw"},
		{"leaf x; 'le' + 'af' y;", 8, "kw"},
		{"leaf x y z;", 7, "semi"},
		{"leaf x { type string; } /* open", 24, "cmt"},
	}
	var out []Case
	for pi, p := range pads {
		for ti, t := range tails {
			if pi >= 8 && ti >= 3 {
				break // the two slow paddings: three tails only
			}
			c := Case{Text: p + t.text, Stream: "long_line"}
			if t.class != "" {
				c.FaultOff, c.FaultClass = len(p)+t.off, t.class
			}
			out = append(out, c)
		}
	}
	return out
}

// DeepAndRuns is a deterministic family for bounded buffers and depth counters: chains of nested blocks of
// depth 1..40 whose closing braces stand back to back (nothing / a blank / a line feed / tab CR LF / a
// comment between them), the same with one brace too few or too many, and long homogeneous runs of one
// kind of token (`;`, `{`, `}`, `{}` blocks, `a;` statements, quoted strings, `+`-joined pieces, unquoted
// words, undefined escapes) of 1..30 and 40, 60, 100 tokens, unseparated and blank-separated.
func DeepAndRuns() []Case {
	var out []Case
	add := func(t string) { out = append(out, Case{Text: t, Stream: "deep_runs"}) }
	seps := []string{"", " ", "\n", "\t\r\n", " /* c */ ", " // c\n"}
	for depth := 1; depth <= 40; depth++ {
		for si, sep := range seps {
			var open, openArg strings.Builder
			for d := 0; d < depth; d++ {
				k := string(rune('a' + d%26))
				open.WriteString(k + "{")
				openArg.WriteString(k + " 'v" + k + "' {\n")
			}
			cl := strings.TrimSuffix(strings.Repeat("}"+sep, depth), sep)
			add(open.String() + "x;" + cl)
			add(openArg.String() + "x y;" + sep + cl + "\n")
			if si < 3 {
				add(open.String() + "x;" + cl + sep + "}")                           // one too many
				add(open.String() + "x;" + strings.TrimSuffix(cl, "}"))              // one too few
				add(open.String() + "x;" + cl + sep + "z" + sep + ";" + sep + "y{}") // more statements after the run
				add(open.String() + "}" + sep + cl)                                  // empty innermost block
			}
		}
	}
	var lens []int
	for n := 1; n <= 30; n++ {
		lens = append(lens, n)
	}
	lens = append(lens, 40, 60, 100)
	units := []struct{ pre, unit, join, post string }{
		{"a{}", ";", "", ""},
		{"a", ";", "", ""},
		{"", "{", "", ""},
		{"a{x;", "}", "", ""},
		{"", "a{}", "", ""},
		{"", "a;", "", ""},
		{"a{", "b;", "", "}"},
		{"x ", "\"s\"", "", ";"},
		{"x ", "'s'", "+", ";"},
		{"x ", "\"s\"", " + ", " { }"},
		{"", "w", " ", ";"},
		{"x \"", "\\q", "", "\";"},
		{"pattern \"", "\\q", "", "\";"},
		{"x ", "\"\\q\"", "+", ";"},
		{"", "a 'b';", "", ""},
		{"", "/**/", "", "a;"},
	}
	for _, u := range units {
		for _, n := range lens {
			for _, sep := range []string{"", " ", "\n"} {
				j := u.join
				if j == "" {
					j = sep
				} else if sep != "" {
					j = sep + u.join + sep
				}
				parts := make([]string, n)
				for i := range parts {
					parts[i] = u.unit
				}
				add(u.pre + strings.Join(parts, j) + u.post)
			}
		}
	}
	return out
}

// PatternLookalikes is a deterministic family around the pattern exemption: every keyword of a list of
// look-alikes of `pattern` (and `pattern` itself, unquoted and quoted) with every argument of a list of
// double-quoted strings and concatenations with undefined backslash pairs, alone, with a substatement, and
// next to a real `pattern` statement on either side (the flag must be dropped again).
func PatternLookalikes() []Case {
	var out []Case
	add := func(t string) { out = append(out, Case{Text: t, Stream: "pattern_lookalikes"}) }
	kws := append([]string{"pattern", "\"pattern\"", "'pattern'", "PATTERN", "p:Pattern", "pattern:", "prefix:patterns",
		"description", "x", "pattern+", "pat"}, lookalikes...)
	args := []string{"\"\\d+\"", "\"\\S\"", "\"a\\.b\"", "\"\\n\\d\"", "'\\d'", "\"a\" + \"\\d\"", "'a' + \"\\d\"",
		"\"\\d\" + 'a'", "\"\\\\d\"", "\"ok\"", "\"\\q\" + \"x\" + \"\\z\"", "\\d", "\"\\d\"+\"\\n\"", "\"a\n  \\d\"",
		"\"\\ \"", "\"\\é\""}
	for _, k := range kws {
		for _, a := range args {
			add(k + " " + a + ";")
			add(k + " " + a + " { " + k + " " + a + "; }")
			add("pattern \"\\d\"; " + k + " " + a + ";")
			add(k + " " + a + "; pattern \"\\d\";")
			add("pattern \"\\d\" { " + k + " " + a + "; } x \"\\q\";")
			add(k + " " + a + " { pattern \"\\d\" + \"\\s\"; }")
			add("a { pattern " + a + "; " + k + " " + a + "; pattern " + a + "; }")
		}
	}
	return out
}

// FormatChars is a deterministic family around characters that look like nothing: U+FEFF (byte order mark),
// U+200B, U+2060, U+00AD, U+200E, U+00A0, U+2028, U+0085, form feed, vertical tab.  For the reference reader
// each is an ordinary character, one column wide, part of an unquoted token.  They are put at the very start
// of the text (once, twice, followed by a blank, a tab, a line end, a comment), before / inside / after
// tokens, inside strings and comments, and at the start of the second line, in front of accepted texts and
// of texts with one fault (with the offset of the offending token for the C16 oracle where the prefix does
// not change the roles of the tokens).
func FormatChars() []Case {
	var out []Case
	zs := []string{"\uFEFF", "\u200B", "\u2060", "\u00AD", "\u200E", "\u00A0", "\u2028", "\u0085", "\f", "\v"}
	type body struct {
		text  string
		off   int
		class string
	}
	bodies := []body{
		{"module m { namespace \"u\"; prefix p; }", -1, ""},
		{"module m { namespace \"u\"; } }", 28, "rbrace"},
		{"leaf a b c;", 7, "semi"},
		{"leaf a \"x\\q\";", 9, "esc"},
		{"leaf a { b 'c", 11, "sq"},
		{"leaf a; \"k\" b;", 8, "kw"},
		{"leaf a { b c; } /* open", 16, "cmt"},
	}
	for _, z := range zs {
		// prefixes that end in white space or a comment make z a token (a keyword) of its own: no fault offset then
		glued := []string{z, z + z}
		apart := []string{z + " ", z + "\t", z + "\n", z + "\r\n", z + "/* c */", z + " // c\n", " " + z + " ", "\n" + z}
		for _, b := range bodies {
			for _, p := range glued {
				c := Case{Text: p + b.text, Stream: "format_chars"}
				if b.class != "" {
					c.FaultOff, c.FaultClass = len(p)+b.off, b.class
				}
				out = append(out, c)
			}
			for _, p := range apart {
				out = append(out, Case{Text: p + b.text, Stream: "format_chars"})
				out = append(out, Case{Text: p + "x; " + b.text, Stream: "format_chars"})
			}
			// in the middle of the first line and at the start of the second
			mids := []string{"a" + z + "b c; ", "a b" + z + "; ", "a \"x" + z + "y\"; ", "a /*" + z + "*/ b; ",
				"a 'q" + z + "' { " + z + "; } ", "a b;\n" + z, "a {" + z + " b; } ", z + "a" + z + " " + z + ";\t",
				"a b;" + z + " "} // the last one makes z a keyword of its own and the body's keyword its argument
			for mi, m := range mids {
				c := Case{Text: m + b.text, Stream: "format_chars"}
				if b.class != "" && mi < len(mids)-1 {
					c.FaultOff, c.FaultClass = len(m)+b.off, b.class
				}
				out = append(out, c)
			}
		}
	}
	return out
}

// WithBOM puts a byte order mark in front of a text that begins with a letter (it becomes part of the first
// keyword) and moves the fault offset along; ok is false when the text does not begin with a letter or the
// fault is at the first token, or (for a fault text) the first keyword is `pattern`, which would stop being
// the pattern keyword and make its escapes a second fault.
func WithBOM(text string, off int, class string) (string, int, bool) {
	if text == "" || text[0] < 'a' || text[0] > 'z' || (class != "" && (off == 0 || strings.HasPrefix(text, "pattern"))) {
		return text, off, false
	}
	return "\uFEFF" + text, off + 3, true
}
