// Package lexcorr is shared by corr-c02 and corr-c16: it runs the real yang.Parse in-process,
// reduces its result to the canonical one-line form the Lean driver drv_lex prints (see the top
// of lean/Drv/Lex.lean), generates the input streams of DESIGN.md 7.2 / 7.16 and compares
// implementation, impl model and reference reader.
package lexcorr

import (
	"fmt"
	"go/ast"
	"go/parser"
	"go/token"
	"os"
	"path/filepath"
	"regexp"
	"sort"
	"strconv"
	"strings"
	"sync"
	"unicode/utf8"

	"github.com/openconfig/goyang/pkg/yang"
	"verif/harness/lib"
)

// File is the source name handed to yang.Parse; it never occurs in a generated text.
const File = "c02·t.yang"

// ---------------------------------------------------------------------------------------------
// Go side: canonical output

// Err is one error line of yang.Parse reduced to position and class.
type Err struct {
	Line, Col int
	HasPos    bool
	Class     string
}

func (e Err) String() string {
	if !e.HasPos {
		return "-:-:" + e.Class
	}
	return fmt.Sprintf("%d:%d:%s", e.Line, e.Col, e.Class)
}

var braceRe = regexp.MustCompile(`^missing (-?\d+) closing braces?$`)

func classify(msg string) string {
	msg = strings.TrimRight(msg, " \t\r\n")
	switch {
	case strings.HasSuffix(msg, ": keyword token not an unquoted string"):
		return "kw"
	case strings.HasSuffix(msg, ": syntax error, expected ';' or '{'"):
		return "semi"
	case strings.HasPrefix(msg, `invalid escape sequence: \`):
		return "esc"
	case msg == `invalid escape sequence:`: // the escaped character was white space and was trimmed
		return "esc"
	case msg == "missing closing '":
		return "sq"
	case msg == `missing closing "`:
		return "dq"
	case msg == "missing closing */":
		return "cmt"
	case strings.HasPrefix(msg, "lexer internal error"):
		return "nonl"
	case msg == "unexpected }":
		return "rbrace"
	case msg == "unexpected EOF":
		return "eof"
	}
	if m := braceRe.FindStringSubmatch(msg); m != nil {
		return "braces" + m[1]
	}
	return "other"
}

// ReduceErrors splits the error text of yang.Parse into messages and reduces each to (line, col, class).
// A message starts at a line of the form `<file>:<line>:<col>: …`, `<file>: unexpected EOF` or
// `too many errors...`; other lines continue the previous message (a token text with line feeds).
func ReduceErrors(text, file string) []Err {
	var out []Err
	var msgs []string
	var heads []Err
	prefix := file + ":"
	for _, ln := range strings.Split(text, "\n") {
		start := false
		var head Err
		rest := ""
		if strings.HasPrefix(ln, prefix) {
			r := ln[len(prefix):]
			if strings.TrimRight(r, " \t\r") == " unexpected EOF" {
				start, head, rest = true, Err{}, "unexpected EOF"
			} else if i := strings.Index(r, ":"); i > 0 {
				if l, err := strconv.Atoi(r[:i]); err == nil {
					r2 := r[i+1:]
					if j := strings.Index(r2, ":"); j > 0 {
						if c, err := strconv.Atoi(r2[:j]); err == nil && (len(r2) == j+1 || r2[j+1] == ' ') {
							start, head = true, Err{Line: l, Col: c, HasPos: true}
							rest = strings.TrimPrefix(r2[j+1:], " ")
						}
					}
				}
			}
		} else if strings.TrimRight(ln, " \t\r") == "too many errors..." {
			start, head, rest = true, Err{}, ln
		}
		if start {
			msgs = append(msgs, rest)
			heads = append(heads, head)
		} else if len(msgs) > 0 {
			msgs[len(msgs)-1] += "\n" + ln
		} else {
			msgs = append(msgs, ln)
			heads = append(heads, Err{})
		}
	}
	for i, m := range msgs {
		e := heads[i]
		if strings.TrimRight(m, " \t\r") == "too many errors..." {
			e.Class = "many"
		} else {
			e.Class = classify(m)
		}
		out = append(out, e)
	}
	return out
}

func location(s *yang.Statement) (file string, line, col string) {
	loc := s.Location()
	j := strings.LastIndex(loc, ":")
	if j < 0 {
		return loc, "?", "?"
	}
	i := strings.LastIndex(loc[:j], ":")
	if i < 0 {
		return loc, "?", "?"
	}
	return loc[:i], loc[i+1 : j], loc[j+1:]
}

func writeStmt(sb *strings.Builder, s *yang.Statement, file string, allFile *bool) {
	arg, has := s.Arg()
	f, l, c := location(s)
	if f != file {
		*allFile = false
	}
	h := 0
	if has {
		h = 1
	}
	fmt.Fprintf(sb, " %s/%d/%s/%s/%s/%d", lib.HexS(s.Keyword), h, lib.HexS(arg), l, c, len(s.SubStatements()))
	for _, ch := range s.SubStatements() {
		writeStmt(sb, ch, file, allFile)
	}
}

// GoParse runs yang.Parse and returns the canonical line; a panic is reported as `panic …`.
func GoParse(text, file string) (line string) {
	defer func() {
		if r := recover(); r != nil {
			line = fmt.Sprintf("panic %v", r)
		}
	}()
	ss, err := yang.Parse(text, file)
	if err != nil {
		es := ReduceErrors(err.Error(), file)
		var sb strings.Builder
		fmt.Fprintf(&sb, "rej %d", len(es))
		for _, e := range es {
			sb.WriteByte(' ')
			sb.WriteString(e.String())
		}
		return sb.String()
	}
	var sb strings.Builder
	all := true
	for _, s := range ss {
		writeStmt(&sb, s, file, &all)
	}
	a := 0
	if all {
		a = 1
	}
	return fmt.Sprintf("ok %d %d%s", a, len(ss), sb.String())
}

// ---------------------------------------------------------------------------------------------
// comparison

// Case is one input text with where it came from.
type Case struct {
	Text   string
	Stream string
	// C16 single-fault cases: byte offset of the offending token / backslash / opener and the class expected.
	FaultOff   int
	FaultClass string
	// File is the name the text is handed over under ("" = the plain name File); C16 source-name streams.
	File string
	// Classes are the input classes the text is counted under in the Distribution (linebreak.go).
	Classes []string `json:",omitempty"`
}

func (c Case) file() string {
	if c.File != "" {
		return c.File
	}
	return File
}

// Stats collects the distribution of a run.
type Stats struct {
	mu        sync.Mutex
	PerStream map[string]int64
	Accepted  int64
	Rejected  int64
	SpecOK    int64
	SpecRej   int64
	Inadm     int64
	InadmBy   map[string]int64 // per stream: texts the reference reader puts outside the claim
	SpecOKBy  map[string]int64 // per stream: texts the reference reader accepts
	Illformed int64
	Classes   map[string]int64
	Nontriv   *lib.Distinct
	FaultsOK  int64
	// per input class (Case.Classes): what the reference reader says about the emitted texts, and how many
	// texts the generator did not emit because its mirror of dqExcluded puts them outside the claim
	ClassOK, ClassRej, ClassInadm, ClassDropped map[string]int64
	// per entry of CharPool (chars.go): texts that carried it, what the reference reader said, single-fault
	// positions confirmed on such texts
	CharTexts, CharOK, CharRej, CharOutside, CharFaultsOK []int64
}

func NewStats() *Stats {
	return &Stats{PerStream: map[string]int64{}, Classes: map[string]int64{}, Nontriv: lib.NewDistinct(),
		InadmBy: map[string]int64{}, SpecOKBy: map[string]int64{},
		ClassOK: map[string]int64{}, ClassRej: map[string]int64{}, ClassInadm: map[string]int64{}, ClassDropped: map[string]int64{},
		CharTexts: make([]int64, len(CharPool)), CharOK: make([]int64, len(CharPool)), CharRej: make([]int64, len(CharPool)),
		CharOutside: make([]int64, len(CharPool)), CharFaultsOK: make([]int64, len(CharPool))}
}

// Dropped counts a text a generator did not emit because it lies outside the claim.
func (st *Stats) Dropped(classes []string) {
	st.mu.Lock()
	defer st.mu.Unlock()
	for _, k := range classes {
		st.ClassDropped[k]++
	}
}

func nontrivial(t string) bool {
	return strings.ContainsAny(t, "\"'{") || strings.Contains(t, "//") || strings.Contains(t, "/*")
}

// Checker compares batches of cases.
type Checker struct {
	F       *lib.Flags
	Res     *lib.Result
	St      *Stats
	C16     bool // additionally check error positions of single-fault cases
	Prop    string
	samples int
	nViol   int
	nHold   int
}

func replayOf(c Case) map[string]any {
	return map[string]any{"file_hex": lib.HexS(c.file()), "text_hex": lib.HexS(c.Text), "stream": c.Stream,
		"fault_off": c.FaultOff, "fault_class": c.FaultClass}
}

// specVerdict evaluates the reference reader on the Go output: "violates", "holds" or "" (not applicable).
func specVerdict(goLine, specLine string) (string, string) {
	switch {
	case specLine == "inadmissible":
		return "", "text contains a construct outside the claim"
	case specLine == "illformed":
		return "", "text is not valid UTF-8 (outside the claim)"
	case specLine == "rej":
		if strings.HasPrefix(goLine, "rej ") {
			if goLine == "rej 0" {
				return "violates", "rejected with an empty error"
			}
			return "holds", "both reject"
		}
		return "violates", "the reference reader rejects the text, the implementation returns statements"
	case strings.HasPrefix(specLine, "ok "):
		if goLine == specLine {
			return "holds", "same forest"
		}
		if strings.HasPrefix(goLine, "rej ") {
			return "violates", "the text is a well-formed sequence of statements, the implementation rejects it (" + goLine + "); reference reader: " + specLine
		}
		if d := describeForestDiff(goLine, specLine); d != "" {
			return "violates", "the returned forest is not that of the text: " + d + "; reference reader: " + specLine
		}
		return "violates", "forest differs from the reference reader's: " + specLine
	}
	return "", "unexpected answer of spec.parse: " + specLine
}

// positionsOutside returns the first positioned error of a canonical `rej` line whose line:col is not
// a position of the text (line 1..lines+1 — the lexer appends a line feed —, column 1..length+1), or "".
// `missing N closing braces` prints a 0-based column at the end of the input and is outside the claim.
func positionsOutside(line, text string) string {
	if !strings.HasPrefix(line, "rej ") {
		return ""
	}
	lines := strings.Split(text, "\n")
	for _, f := range strings.Fields(line)[2:] {
		p := strings.SplitN(f, ":", 3)
		if len(p) != 3 || p[0] == "-" || strings.HasPrefix(p[2], "braces") {
			continue
		}
		l, _ := strconv.Atoi(p[0])
		c, _ := strconv.Atoi(p[1])
		if l < 1 || l > len(lines)+1 || c < 1 {
			return f
		}
		if l <= len(lines) && c > utf8.RuneCountInString(lines[l-1])+1 {
			return f
		}
	}
	return ""
}

// notAMark checks every positioned error of a canonical `rej` line against the answer of `spec.marks`
// (what an error about a token may point at, computed by the reference reader from the text alone):
// kw / semi must stand at the first character of a token, rbrace at a `}`, esc at the backslash of an
// undefined pair in a double-quoted string, sq / dq / cmt at the opener that is never closed.  It returns
// the first error that does not, with the candidate positions, or "".  (`missing N closing braces`
// and everything without a position are outside the claim; an ill-formed text has no marks.)
func notAMark(line, marks string) (string, string) {
	if !strings.HasPrefix(line, "rej ") || marks == "illformed" || marks == "bad-op" {
		return "", ""
	}
	set := map[string]bool{}
	for _, m := range strings.Fields(marks) {
		set[m] = true
	}
	kind := map[string]string{"kw": "t", "semi": "t", "rbrace": "b", "esc": "e", "sq": "q", "dq": "d", "cmt": "c"}
	for _, f := range strings.Fields(line)[2:] {
		p := strings.SplitN(f, ":", 3)
		if len(p) != 3 || p[0] == "-" {
			continue
		}
		k, ok := kind[p[2]]
		if !ok {
			continue
		}
		if !set[k+p[0]+":"+p[1]] {
			var want []string
			for _, m := range strings.Fields(marks) {
				if strings.HasPrefix(m, k) {
					want = append(want, m[1:])
				}
			}
			if len(want) > 12 {
				want = append(want[:12], "…")
			}
			return f, p[2] + " at " + strings.Join(want, " ")
		}
	}
	return "", ""
}

// firstPositioned returns the first error with a position in a canonical `rej` line.
func firstPositioned(line string) (string, bool) {
	fs := strings.Fields(line)
	for _, f := range fs[2:] {
		if !strings.HasPrefix(f, "-:-:") {
			return f, true
		}
	}
	return "", false
}

// Run executes implementation, model and reference reader on the cases and records disagreements.
func (ck *Checker) Run(cases []Case) {
	if len(cases) == 0 {
		return
	}
	n := len(cases)
	goOut := make([]string, n)
	nameBad := make([]string, n) // C16: what the source-name oracle found for a case with a given name
	carried := make([][]int, n)  // the classes of CharPool the text carries
	var wg sync.WaitGroup
	procs := ck.F.Procs
	for p := 0; p < procs; p++ {
		wg.Add(1)
		go func(p int) {
			defer wg.Done()
			for i := p; i < n; i += procs {
				goOut[i] = GoParse(cases[i].Text, cases[i].file())
				carried[i] = carriedChars(cases[i].Text)
				if ck.C16 && cases[i].File != "" {
					nameBad[i] = nameOracle(cases[i].Text, cases[i].File)
				}
			}
		}(p)
	}
	wg.Wait()
	reqs := make([]string, 0, 2*n)
	for _, c := range cases {
		th, fh := lib.HexS(c.Text), lib.HexS(c.file())
		reqs = append(reqs, "parse "+fh+" "+th, "spec.parse "+fh+" "+th)
	}
	var posReq []string
	var posIdx []int
	var markIdx []int
	if ck.C16 {
		for i, c := range cases {
			if c.FaultClass != "" {
				posReq = append(posReq, fmt.Sprintf("spec.pos %s %d", lib.HexS(c.Text), c.FaultOff))
				posIdx = append(posIdx, i)
			}
		}
		for i, c := range cases {
			if strings.HasPrefix(goOut[i], "rej ") {
				posReq = append(posReq, "spec.marks "+lib.HexS(c.Text))
				markIdx = append(markIdx, i)
			}
		}
	}
	ans, err := lib.ParBatch(ck.F.Driver, append(reqs, posReq...), procs)
	if err != nil {
		lib.Fatal("driver: %v", err)
	}
	posAns := map[int]string{}
	for k, i := range posIdx {
		posAns[i] = ans[2*n+k]
	}
	markAns := map[int]string{}
	for k, i := range markIdx {
		markAns[i] = ans[2*n+len(posIdx)+k]
	}
	st := ck.St
	st.mu.Lock()
	defer st.mu.Unlock()
	for i, c := range cases {
		g, m, s := goOut[i], ans[2*i], ans[2*i+1]
		st.PerStream[c.Stream]++
		if nontrivial(c.Text) {
			st.Nontriv.Add(c.Text)
		}
		if strings.HasPrefix(g, "ok ") {
			st.Accepted++
		} else {
			st.Rejected++
			for _, f := range strings.Fields(g)[1:] {
				if k := strings.LastIndex(f, ":"); k >= 0 {
					cl := strings.TrimRight(f[k+1:], "-0123456789")
					st.Classes[cl]++
				}
			}
		}
		for _, k := range carried[i] {
			st.CharTexts[k]++
			switch {
			case s == "inadmissible" || s == "illformed":
				st.CharOutside[k]++
			case s == "rej":
				st.CharRej[k]++
			default:
				st.CharOK[k]++
			}
		}
		switch {
		case s == "inadmissible":
			st.Inadm++
			st.InadmBy[c.Stream]++
			for _, k := range c.Classes {
				st.ClassInadm[k]++
			}
		case s == "illformed":
			st.Illformed++
			for _, k := range c.Classes {
				st.ClassInadm[k]++
			}
		case s == "rej":
			st.SpecRej++
			for _, k := range c.Classes {
				st.ClassRej[k]++
			}
		default:
			st.SpecOK++
			st.SpecOKBy[c.Stream]++
			for _, k := range c.Classes {
				st.ClassOK[k]++
			}
		}
		if ck.samples < 8 && i%(n/3+1) == 0 {
			ck.samples++
			st := c.Text
			if len(st) > 300 {
				st = st[:300] + fmt.Sprintf("… (%d bytes)", len(c.Text))
			}
			ck.Res.AddSample(map[string]any{"stream": c.Stream, "text": st, "go": g, "model": m, "spec": s})
		}
		// at most 25 recorded disagreements without a concrete violation and 25 with one, so that a
		// flood of "both reject, error lists differ" cannot crowd out a text on which the property fails
		examinedV := func(violates bool) bool {
			if violates && ck.nViol < 25 {
				ck.nViol++
				return true
			}
			if !violates && ck.nHold < 25 {
				ck.nHold++
				return true
			}
			ck.Res.Count("disagreements_not_recorded", 1)
			return false
		}
		examined := func() bool { return examinedV(true) }
		if strings.HasPrefix(g, "panic ") {
			if examined() {
				ck.Res.AddDisagreement(lib.Disagreement{Kind: "crash", Input: c, Go: g, Model: m, SpecVerdict: "violates",
					What: "yang.Parse panicked: " + g, Replay: replayOf(c)})
			}
			continue
		}
		v, why := specVerdict(g, s)
		if ck.C16 && v != "violates" {
			// C16 oracles on the Go output: every printed position lies inside the text; for a
			// single-fault text the first positioned error stands where the reference reader puts the fault
			if nameBad[i] != "" {
				v, why = "violates", "C16: the file part of a reported position is not the name the source was given: "+nameBad[i]
			} else if bad := positionsOutside(g, c.Text); bad != "" {
				v, why = "violates", "C16: error position "+bad+" is not a position of the text"
			} else if bad, want := notAMark(g, markAns[i]); bad != "" {
				v, why = "violates", "C16: the error "+bad+" does not stand at a token, backslash or opener of its kind; "+
					"computed from the text alone these stand at: "+want
			} else if c.FaultClass != "" && posAns[i] != "illformed" {
				// (an ill-formed text is outside the claim: the reference reader has no positions for it)
				want := strings.Replace(posAns[i], " ", ":", 1) + ":" + c.FaultClass
				got, ok := "", false
				if strings.HasPrefix(g, "rej ") {
					got, ok = firstPositioned(g)
				}
				if !ok || got != want {
					v, why = "violates", fmt.Sprintf("C16: single fault (%s) at byte %d: first positioned error is %q, the offending token/backslash/opener is at %s",
						c.FaultClass, c.FaultOff, got, want)
				}
			}
		}
		if g != m {
			if examinedV(v == "violates") {
				if v == "" {
					v = "holds"
				}
				ck.Res.AddDisagreement(lib.Disagreement{Kind: "correspondence", Input: c, Go: g, Model: m, SpecVerdict: v,
					What: "yang.Parse differs from the impl model; specification on the Go output: " + why, Replay: replayOf(c)})
			}
			continue
		}
		if v == "violates" {
			if examined() {
				ck.Res.AddDisagreement(lib.Disagreement{Kind: "spec", Input: c, Go: g, Model: s, SpecVerdict: v,
					What: ck.Prop + ": " + why, Replay: replayOf(c)})
			}
			continue
		}
		if ck.C16 && c.FaultClass != "" && posAns[i] != "illformed" {
			st.FaultsOK++
			for _, k := range carried[i] {
				st.CharFaultsOK[k]++
			}
		}
	}
	ck.Res.Evaluations += int64(n)
}

// RunChunked feeds cases from gen in chunks (bounded memory).
func (ck *Checker) RunChunked(gen func(emit func(Case))) {
	const chunk = 400000
	buf := make([]Case, 0, chunk)
	gen(func(c Case) {
		buf = append(buf, c)
		if len(buf) == chunk {
			ck.Run(buf)
			buf = buf[:0]
		}
	})
	ck.Run(buf)
}

// Finish fills the distribution.
func (ck *Checker) Finish() {
	st := ck.St
	d := ck.Res.Distribution
	for _, k := range lib.SortedKeys(st.PerStream) {
		d["stream_"+k] = st.PerStream[k]
	}
	d["go_accepted"] = st.Accepted
	d["go_rejected"] = st.Rejected
	d["spec_accepts"] = st.SpecOK
	d["spec_rejects"] = st.SpecRej
	d["spec_inadmissible_skipped"] = st.Inadm
	d["spec_illformed_skipped"] = st.Illformed
	by := map[string]int64{}
	for k, v := range st.InadmBy {
		by[k] = v
	}
	d["spec_inadmissible_by_stream"] = by
	ok := map[string]int64{}
	for k, v := range st.SpecOKBy {
		ok[k] = v
	}
	d["spec_accepts_by_stream"] = ok
	cl := map[string]int64{}
	for k, v := range st.Classes {
		cl[k] = v
	}
	d["go_error_classes"] = cl
	// characters next to a line break / carriage returns next to tokens: every class is listed, so that a
	// class without a text the reference reader accepts is visible
	lb := map[string]any{}
	empty := []string{}
	for _, k := range LinebreakClasses() {
		lb[k] = map[string]int64{"spec_accepts": st.ClassOK[k], "spec_rejects": st.ClassRej[k],
			"spec_inadmissible": st.ClassInadm[k], "not_emitted_outside_claim": st.ClassDropped[k]}
		if st.ClassOK[k] == 0 {
			empty = append(empty, k)
		}
	}
	// character classes (chars.go): how many texts carried each class anywhere, and — stream char_classes —
	// on the line of a later keyword or offending token
	chars := map[string]any{}
	var noText []string
	for i, c := range CharPool {
		k := "placed:" + c.Name
		m := map[string]int64{"texts": st.CharTexts[i], "spec_accepts": st.CharOK[i], "spec_rejects": st.CharRej[i],
			"outside_claim_or_illformed":                 st.CharOutside[i],
			"placed_before_keyword_or_fault_on_its_line": st.ClassOK[k] + st.ClassRej[k] + st.ClassInadm[k]}
		if ck.C16 {
			m["single_fault_positions_confirmed"] = st.CharFaultsOK[i]
		}
		chars[c.Name] = m
		if st.CharTexts[i] == 0 {
			noText = append(noText, c.Name)
		}
	}
	d["char_classes"] = chars
	d["char_classes_without_text"] = append([]string{}, noText...)
	carriers := map[string]any{}
	for _, k := range CharCarrierKinds() {
		kk := "carrier:" + k
		carriers[k] = map[string]int64{"spec_accepts": st.ClassOK[kk], "spec_rejects": st.ClassRej[kk], "outside_claim": st.ClassInadm[kk]}
	}
	d["char_class_carriers"] = carriers
	d["linebreak_classes"] = lb
	d["linebreak_classes_without_accepted_text"] = empty
	if ck.C16 {
		d["single_fault_positions_confirmed"] = st.FaultsOK
	}
	ck.Res.DistinctNontrivial = st.Nontriv.Len()
}

// ---------------------------------------------------------------------------------------------
// input streams

// Seeds are the witnesses of the defects found (D20, D29, D42) and a few hand-written texts.
func Seeds() []string {
	return []string{
		"d /* c */ \"a\n           b\";",
		"d 'x' + \"a\n           b\";",
		"d\t'x\ty' + \"a\n\t\t   b\";",
		"/* a\n\tb */ d \"a\n           b\";",
		"a \"\\\n\";",
		"a \"\\\nfoo\" ; b;",
		"/*/a;",
		"a /*/ b */ c;",
		"/*/ a; /* x */ b;",
		"a \"\\q\\q\\q\\q\\q\\q\\q\\q\" b;",
		"a \"\\q\\q\\q\\q\\q\\q\\q\\q\\q\" b;",
		"a \"\\q\\q\\q\\q\\q\\q\\q\" \"\\q\" b;",
		"  pattern + // c\n\"\\q\\q\\q\\q\\q\\q\\q\\q\"\"//\\\\  }\\d\\\"\"\r\n;\t",
		"a \"\\q\\q\\q\\q\\q\\q\\q\\q\" \"\\q\\q\\q\" 'x",
		"pattern \"\\q\" + \"\\r\";",
		"pattern 'a' + \"\\r\" \"\\z\";",
		"a\xff b\xc3;",
		"a \"\xff\xed\xa0\x80\";",
		"a\r\nb;\r\n",
		"a \"x\r\n  y\";",
		"a { b { c; } } }",
		"a { b {",
		"",
		"\n",
		"a \"b\" + 'c' + \"d\" { e 'f'; }",
		"\"a\" + \"b\" c;",
		"a \"b\" + c;",
		"a \"b\" +",
		"foo \"bar\" \"+\" \"baz\";",
		"foo 'bar' '+' 'baz';",
		"foo \"a\" + \"+\" + \"b\";",
		"foo \"a\" \"+\";",
		"foo \"a\" + '+';",
		"module m { // c\n  leaf l { type string; description \"one\n                                 two\"; } /* x */ }",
		// C02-j22: the same raw multi-line string at two quote columns (two statements, two pieces of one concatenation)
		"a \"x\n     y\";\nbb \"x\n     y\";\n",
		"bbbb \"x\n      y\";\na \"x\n      y\";\n",
		"k \"x\n     y\" +\n     \"x\n     y\";\n",
		"pattern \"a\\tb\\\\d\"; x \"a\\tb\\\\d\" { pattern 'q' + \"a\\tb\\\\d\"; }",
		// C02-k22: a carriage return that is separated from the line break by blanks is text (no CR LF pair here)
		"a \"x\r \ny\";",
		"a \"x \r  \n   y\";",
		"a \"x\r\t\n\r \n\r\";",
		// C16-l21: characters above U+FFFF count one column each (comment, both kinds of string, unquoted argument)
		"module m { /* \U0001F600 */ prefix p;\n  description \"math \U0001D400\U0001D401\"; contact c;\n\torganization '\U00020000'; reference \U0001F680x; yang-version 1;\n}\n",
		"// \U0001F600\nleaf a; /* \U0001F600 */ }\n",
		"a \"\U00010000\\q\"; \U0010FFFF 'open",
	}
}

// CorpusTexts returns the YANG files of /repo, the string literals of its tests that look like YANG,
// and the files under corpusDir.
func CorpusTexts(corpusDir string) []string {
	var out []string
	seen := map[string]bool{}
	add := func(s string) {
		if !seen[s] {
			seen[s] = true
			out = append(out, s)
		}
	}
	repo := os.Getenv("VERIF_REPO")
	if repo == "" {
		repo = "/repo"
	}
	var files []string
	filepath.Walk(repo, func(p string, info os.FileInfo, err error) error {
		if err == nil && !info.IsDir() && strings.HasSuffix(p, ".yang") {
			files = append(files, p)
		}
		return nil
	})
	filepath.Walk(corpusDir, func(p string, info os.FileInfo, err error) error {
		if err == nil && !info.IsDir() {
			files = append(files, p)
		}
		return nil
	})
	sort.Strings(files)
	for _, p := range files {
		if b, err := os.ReadFile(p); err == nil {
			add(string(b))
		}
	}
	var tests []string
	filepath.Walk(repo+"/pkg", func(p string, info os.FileInfo, err error) error {
		if err == nil && !info.IsDir() && strings.HasSuffix(p, "_test.go") {
			tests = append(tests, p)
		}
		return nil
	})
	sort.Strings(tests)
	for _, p := range tests {
		fset := token.NewFileSet()
		f, err := parser.ParseFile(fset, p, nil, 0)
		if err != nil {
			continue
		}
		ast.Inspect(f, func(n ast.Node) bool {
			if bl, ok := n.(*ast.BasicLit); ok && bl.Kind == token.STRING {
				if s, err := strconv.Unquote(bl.Value); err == nil && len(s) >= 8 && strings.ContainsAny(s, ";{") {
					add(s)
				}
			}
			return true
		})
	}
	return out
}

// EnumStrings calls f with every string of at most maxLen symbols over the alphabet.
func EnumStrings(alphabet []string, maxLen int, f func(string)) {
	var rec func(prefix []byte, left int)
	rec = func(prefix []byte, left int) {
		f(string(prefix))
		if left == 0 {
			return
		}
		for _, a := range alphabet {
			rec(append(prefix, a...), left-1)
		}
	}
	rec(nil, maxLen)
}

// EnumSeq calls f with every sequence of at most maxLen elements of the alphabet.
func EnumSeq(alphabet []string, maxLen int, f func([]string)) {
	var rec func(prefix []string, left int)
	rec = func(prefix []string, left int) {
		f(prefix)
		if left == 0 {
			return
		}
		for _, a := range alphabet {
			rec(append(prefix[:len(prefix):len(prefix)], a), left-1)
		}
	}
	rec(nil, maxLen)
}

// TokenAlphabet is the 15-symbol alphabet of the token-level enumeration.
var TokenAlphabet = []string{"a", " ", "\n", "\t", ";", "{", "}", "\"", "'", "\\", "+", "/", "*", "n", "é"}

// ContentAlphabet is the alphabet of the string-content enumeration.
var ContentAlphabet = []string{"a", " ", "\t", "\n", "\\", "n", "\"", "é"}

// SeqAlphabet is the alphabet of the token-sequence enumeration: whole tokens, among them quoted strings
// whose content is `+` (ordinary strings, not the concatenation operator) and the empty string.
var SeqAlphabet = []string{"\"a\"", "'b'", "\"+\"", "'+'", "+", ";", "{", "}", "c", "\"\""}

// QuotePrefixes are the texts put before the enumerated string content; the opening double quote
// stands at tab-expanded column 3, 9 (after a tab), 11, 8 (after a comment), 13 (after a comment
// containing a tab), 5 (after a multi-byte character), 7 (after a single-quoted piece), 12 (after
// a single-quoted piece with a tab on a line of its own), and 9 in the argument of `pattern`.
var QuotePrefixes = []string{
	"x \"",
	"x\t\"",
	"\tx \"",
	"/**/ x \"",
	"/*\t*/x \"",
	"é x \"",
	"x 'q'+\"",
	"x\n 'q\t'+ \"",
	"pattern \"",
}
