package lexcorr

import "strings"

// Characters next to a literal line break inside a double-quoted string (and carriage returns next to the
// other kinds of token).  RFC 7950 6.1.3 strips exactly space and tab before a line break, and exactly space
// and tab (up to the quote column) after it; every other character — a carriage return that is not part of a
// CR LF pair, NUL and the other control characters, U+00A0, U+2028 / U+2029 and the other Unicode spaces, a
// multi-byte letter, a backslash pair of any kind — is text, stops the stripping and is kept.  The families
// of this file put one item of every class the lexer (or a plausible rewrite of it: bytes.TrimRight with a
// cutset, unicode.IsSpace, strings.TrimSpace, a DOS line-end rule) could treat differently
//
//	before the break:   … pre X blanks* LF cont …        (stream dq_linebreak, classes before:<class of X>)
//	after the break:    … LF lead Y post …               (classes after:<class of Y>; lead ends before / at /
//	                                                      after the strip column, with spaces and with tabs)
//	on both sides:      … X blanks* LF lead Y …          (classes before:… and after:…, one item per class)
//
// behind statement heads that put the opening quote at different tab-expanded columns, inside and outside a
// pattern statement and as a later piece of a concatenation.  Only texts inside the claim are emitted: the Go
// mirror `dqOutside` of `dqExcluded` (lean/Goyang/Spec/Parse.lean) drops CR LF, an escaped blank before the
// break and a tab that straddles the strip column, and reports what it dropped per class; what the reference
// reader then says about the emitted texts (accepts / rejects / outside the claim) is counted per class in
// the Distribution (`linebreak_classes`), every class listed even when it stayed empty.
// `CRNeighbours` (stream cr_neighbours) puts carriage returns into and next to single-quoted strings,
// unquoted tokens, comments, the ground state and one-line double-quoted strings.

// lbItem is one item of raw double-quoted text with the class it is counted under.
type lbItem struct{ class, raw string }

var lbItems = []lbItem{
	{"cr", "\r"}, {"cr", "\r\r"}, {"cr", "\r \r"},
	{"tab", "\t"}, {"space", " "},
	{"nul", "\x00"},
	{"control", "\x01"}, {"control", "\v"}, {"control", "\f"}, {"control", "\x1b"}, {"control", "\x7f"}, {"control", "\u0085"},
	{"nbsp", "\u00a0"},
	{"ls_ps", "\u2028"}, {"ls_ps", "\u2029"},
	{"unicode_space", "\u3000"}, {"unicode_space", "\u2003"}, {"unicode_space", "\u200b"}, {"unicode_space", "\ufeff"},
	{"ascii", "x"},
	{"multibyte", "é"}, {"multibyte", "世"}, {"multibyte", "😀"},
	{"supplementary", "\U00010000"}, {"supplementary", "\U00020000"}, {"supplementary", "\U0010FFFF"},
	{"combining", "\u0301"}, {"wide", "\uff21"},
	{"punct", ";"}, {"punct", "{ }"}, {"punct", "'"}, {"punct", "//"}, {"punct", "/*"}, {"punct", "+"},
	{"esc_n", "\\n"}, {"esc_t", "\\t"}, {"esc_dquote", "\\\""}, {"esc_backslash", "\\\\"},
	{"esc_undefined", "\\d"}, {"esc_undefined", "\\r"}, {"esc_undefined", "\\é"},
	{"esc_cr", "\\\r"}, {"esc_space", "\\ "}, {"esc_tab", "\\\t"}, {"esc_lf", "\\\n"},
}

// lbHeads put the opening quote at tab-expanded columns 3, 11, 3 (after a multi-byte keyword), 9 and 10 (in
// the argument of pattern, the second on a line of its own behind a tab), 9 (later piece of a concatenation),
// 1 and 24.
var lbHeads = []string{"a ", "\ta ", "é ", "pattern ", "  pattern\n\t ", "a 'q' + ", "a\n", "        description    "}

var lbBlanks = []string{"", " ", "  ", "\t", " \t", "\t ", "\t\t ", " \t \t"}

// LinebreakClasses lists every class of the families of this file (for the Distribution).
func LinebreakClasses() []string {
	var out []string
	seen := map[string]bool{}
	for _, side := range []string{"before:", "after:"} {
		for _, it := range lbItems {
			if k := side + it.class; !seen[k] {
				seen[k] = true
				out = append(out, k)
			}
		}
	}
	return append(out, "cr:sq", "cr:unquoted", "cr:comment", "cr:ground", "cr:dq_one_line", "cr:dq_quote_column")
}

// firstOfClass are the items that stand for their class in the two-sided family.
func firstOfClass() []lbItem {
	var out []lbItem
	seen := map[string]bool{}
	for _, it := range lbItems {
		if !seen[it.class] {
			seen[it.class] = true
			out = append(out, it)
		}
	}
	return out
}

// DqLinebreaks emits the three families; dropped is called for a text that is not emitted because the mirror
// of dqExcluded puts it outside the claim.
func DqLinebreaks(emit func(Case), dropped func(classes []string)) {
	out := func(b *rtext, classes ...string) {
		if b.outside {
			dropped(classes)
			return
		}
		emit(Case{Text: b.sb.String(), Stream: "dq_linebreak", Classes: classes})
	}
	for _, h := range lbHeads {
		qcol := quoteColAt(h)
		// before the break
		conts := []string{"", "y", sp(qcol) + "y", sp(qcol+2) + "y\n" + sp(qcol) + "z"}
		for _, pre := range []string{"", "x", "x ", "x\t"} {
			for _, x := range lbItems {
				for _, bl := range lbBlanks {
					for _, cont := range conts {
						out(new(rtext).s(h).dq(pre+x.raw+bl+"\n"+cont).s(";\nn m;"), "before:"+x.class)
					}
				}
			}
		}
		// after the break
		leads := []string{"", sp(qcol - 1), sp(qcol), sp(qcol + 1), sp(qcol + 3), "\t", "\t\t", " \t", sp(qcol) + "\t", "\t" + sp(3)}
		if qcol > 2 {
			leads = append(leads, " ", sp(qcol-1)+"\t")
		}
		if qcol >= 8 {
			leads = append(leads, strings.Repeat("\t", qcol/8), strings.Repeat("\t", qcol/8)+sp(qcol%8), strings.Repeat("\t", qcol/8)+sp(qcol%8+1))
		}
		for _, l1 := range []string{"x", ""} {
			for _, lead := range leads {
				for _, y := range lbItems {
					for _, post := range []string{"", "z", " \nw", "\n"} {
						out(new(rtext).s(h).dq(l1+"\n"+lead+y.raw+post).s(";\nn m;"), "after:"+y.class)
					}
				}
			}
		}
	}
	// on both sides, one item per class
	reps := firstOfClass()
	for _, h := range []string{"a ", "\tpattern ", "a\n 'q'\n +\t"} {
		qcol := quoteColAt(h)
		for _, x := range reps {
			for _, bl := range []string{"", " ", "\t "} {
				for _, lead := range []string{"", sp(qcol - 1), sp(qcol), sp(qcol + 1)} {
					for _, y := range reps {
						out(new(rtext).s(h).dq("x"+x.raw+bl+"\n"+lead+y.raw+"z").s(" { n m; }"), "before:"+x.class, "after:"+y.class)
					}
				}
			}
		}
	}
}

// CRNeighbours: carriage returns inside and next to single-quoted strings, unquoted tokens, comments, between
// tokens, inside one-line double-quoted strings and on the line of an opening double quote.  A carriage
// return is white space between tokens, ends an unquoted token, does not end a line (for `//` comments, line
// numbers and columns: it is a character of its line, one column wide) and is text inside quotes.
func CRNeighbours(emit func(Case), dropped func(classes []string)) {
	add := func(class, t string) { emit(Case{Text: t, Stream: "cr_neighbours", Classes: []string{class}}) }
	addB := func(class string, b *rtext) {
		if b.outside {
			dropped([]string{class})
			return
		}
		add(class, b.sb.String())
	}
	for _, c := range []string{"\r", "\r ", " \r", "\r\r", "\r\t", "\t\r", " \r ", "\r\n", "\n\r", "\r \n", "\r\r\n", "\r\n\r\n"} {
		for _, k := range []string{"a", "pattern"} {
			add("cr:sq", k+" 'x"+c+"y';")
			add("cr:sq", k+" 'x"+c+"';"+c+"b 'x"+c+"' + '"+c+"';")
			add("cr:sq", k+" '"+c+"'"+c+"+"+c+"'"+c+"y' {"+c+"}")
			add("cr:unquoted", k+c+"b;")
			add("cr:unquoted", k+" x"+c+";"+c+k+c+"x"+c+"y;")
			add("cr:unquoted", k+c+"{"+c+"b"+c+"c"+c+";"+c+"}"+c+"d e;")
			add("cr:unquoted", c+k+";"+c)
			add("cr:unquoted", k+" b"+c+"c;") // a third token where `;` or `{` must stand
			add("cr:comment", k+" // c"+c+"\nb;")
			add("cr:comment", k+" //"+c+"b;\nc d;")
			add("cr:comment", k+" /* x"+c+"y */ b;"+c+"/*"+c+"*/ c d;")
			add("cr:comment", k+" /*"+c+"*"+c+"/ b; */ c;")
			add("cr:ground", k+c+"'x'"+c+";"+c+c+"b"+c+"'y'"+c+"{"+c+"}")
			add("cr:ground", c+c+k+c+c+"+"+c+";")
			addB("cr:dq_one_line", new(rtext).s(k, " ").dq("x"+strings.ReplaceAll(c, "\n", "")+"y").s(";"))
			addB("cr:dq_one_line", new(rtext).s(k, " ").dq(strings.ReplaceAll(c, "\n", "")).s(" + ").dq("x"+strings.ReplaceAll(c, "\n", "")).s(c, "{", c, "}"))
			// the carriage return stands on the line of the opening quote: it counts one column
			for _, n := range []int{0, 2, 3, 4, 5, 8} {
				addB("cr:dq_quote_column", new(rtext).s(k, c).dq("x\n"+sp(n)+"y").s(";"))
				addB("cr:dq_quote_column", new(rtext).s(c, k, " ").dq("x \n"+sp(n)+"y\r").s(c, ";"))
				addB("cr:dq_quote_column", new(rtext).s(k, " 'q", c, "' + ").dq("x\n"+sp(n)+"y\n"+sp(n+6)+"\rz").s(";"))
			}
		}
	}
}
