package lexcorr

import (
	"encoding/json"
	"fmt"
	"os"
	"strings"

	"verif/harness/lib"
)

// Main is the body of corr-c02 (c16 = false) and corr-c16 (c16 = true).
func Main(c16 bool) {
	f := lib.ParseFlags()
	prop := "C02"
	if c16 {
		prop = "C16"
	}
	if f.Replay != "" {
		replay(f, c16)
		return
	}
	res := lib.NewResult(prop, f)
	ck := &Checker{F: f, Res: res, St: NewStats(), C16: c16, Prop: prop}

	// 1. corpus: defect witnesses, hand-written texts, /repo's YANG files and test literals, corpus/<prop>
	var corpus []Case
	for _, s := range Seeds() {
		corpus = append(corpus, Case{Text: s, Stream: "corpus"})
	}
	for _, s := range CorpusTexts(lib.Root() + "/corpus/" + prop) {
		corpus = append(corpus, Case{Text: s, Stream: "corpus"})
	}
	ck.Run(corpus)
	// 1j. character classes (chars.go): per UTF-8 length class several characters — class boundaries,
	// supplementary planes, combining marks, zero-width and double-width characters, ill-formed sequences —
	// in comments, both kinds of string, unquoted arguments and keywords on the line of a later keyword or
	// of the offending token of a single fault: columns are counted in characters
	ck.RunChunked(CharClassCases)
	ck.RunChunked(func(emit func(Case)) {
		EnumStrings(WideAlphabet, 4, func(s string) { emit(Case{Text: s, Stream: "enum_token_wide"}) })
		EnumStrings(WideAlphabet, 3, func(s string) { emit(Case{Text: "x " + s + " y;", Stream: "enum_token_wide"}) })
	})
	// 1f. an earlier statement that could switch a mode, before / around / in a closed block before a
	// statement whose reading is mode-sensitive
	csLevel := 1
	if c16 {
		csLevel = 0
	}
	if f.Thorough() {
		csLevel++
	}
	ck.RunChunked(func(emit func(Case)) { CarriedState(csLevel, emit) })
	// 1g. the same raw token 2-4 times in one text (what a token reads as does not depend on an earlier
	// token that looks the same): double-quoted strings at different columns / depths / as pieces of one
	// concatenation / inside and outside a pattern statement; single-quoted strings, words, comments
	ck.RunChunked(RepeatedDq)
	ck.RunChunked(RepeatedOther)
	// 1i. every class of character next to a literal line break of a double-quoted string (before it with
	// and without trailing blanks, after it before / at / after the strip column), carriage returns next
	// to the other kinds of token: only space and tab are stripped, everything else is text
	ck.RunChunked(func(emit func(Case)) { DqLinebreaks(emit, ck.St.Dropped) })
	ck.RunChunked(func(emit func(Case)) { CRNeighbours(emit, ck.St.Dropped) })
	// 1h. (C16) source names with characters special to some layer (fmt verbs, blanks, quotes, brackets,
	// backslash, non-ASCII, very long, `:`): every position carries exactly the name the source was given
	if c16 {
		nNamed := 12000
		if f.Thorough() {
			nNamed = 400000
		}
		ck.RunChunked(func(emit func(Case)) { SourceNameCases(f.Rand(1001), nNamed, emit) })
	}
	// 1e. byte order mark and other format characters at the start of the text and at token boundaries
	ck.Run(FormatChars())
	// 1d. keywords that resemble `pattern`
	ck.Run(PatternLookalikes())
	// 1c. deep nesting closed at once, long homogeneous token runs
	ck.Run(DeepAndRuns())
	// 1b. lines longer than 2^16 characters, more than 2^16 lines
	ck.Run(LongLines(f.Rand(1000), f.Thorough()))

	tokLen, conLen, nLayout, nMal, nFault := 5, 6, 50000, 50000, 0
	seqLen := 5
	prefLen := 5
	repLen, nRepeat := 5, 40000
	if f.Thorough() {
		tokLen, conLen, nLayout, nMal = 6, 7, 2000000, 1000000
		prefLen = 5
		seqLen = 6
		repLen, nRepeat = 7, 1500000
	}
	if c16 {
		tokLen, prefLen, conLen, nLayout, nMal, nFault = 4, 3, 4, 40000, 10000, 60000
		seqLen = 4
		repLen, nRepeat = 4, 20000
		if f.Thorough() {
			tokLen, prefLen, conLen, nLayout, nMal, nFault = 5, 4, 5, 1000000, 200000, 2000000
			seqLen = 5
			repLen, nRepeat = 6, 500000
		}
	}
	// 2d. exhaustive, repeated string content: every content twice, the quotes at two different columns
	ck.RunChunked(func(emit func(Case)) { RepeatedEnum(repLen, emit) })

	// 2a. exhaustive, token level: all strings over the 15-symbol alphabet, raw and behind `pattern ` / `x `
	ck.RunChunked(func(emit func(Case)) {
		EnumStrings(TokenAlphabet, tokLen, func(s string) { emit(Case{Text: s, Stream: "enum_token"}) })
		EnumStrings(TokenAlphabet, prefLen, func(s string) {
			emit(Case{Text: "pattern " + s, Stream: "enum_token_prefixed"})
			emit(Case{Text: "x " + s, Stream: "enum_token_prefixed"})
		})
		EnumStrings(TokenAlphabet, prefLen-1, func(s string) {
			emit(Case{Text: "posix-pattern " + s, Stream: "enum_token_prefixed"})
			emit(Case{Text: "x:pattern " + s, Stream: "enum_token_prefixed"})
		})
	})
	// 2c. exhaustive, token-sequence level: every sequence of <= seqLen whole tokens (quoted pieces of both
	// kinds, quoted `+`, the unquoted `+`, punctuation, an unquoted word, the empty string) behind a keyword,
	// separated by one blank and, for the shorter ones, not separated at all
	ck.RunChunked(func(emit func(Case)) {
		for _, kw := range []string{"x", "pattern"} {
			EnumSeq(SeqAlphabet, seqLen, func(toks []string) {
				emit(Case{Text: kw + " " + strings.Join(toks, " "), Stream: "enum_tokenseq"})
				if len(toks) <= seqLen-1 && kw == "x" {
					emit(Case{Text: kw + " " + strings.Join(toks, ""), Stream: "enum_tokenseq"})
				}
			})
		}
	})
	// 2b. exhaustive, string-content level
	ck.RunChunked(func(emit func(Case)) {
		for pi, pre := range QuotePrefixes {
			n := conLen
			if pi >= 6 {
				n = conLen - 1
			}
			EnumStrings(ContentAlphabet, n, func(s string) { emit(Case{Text: pre + s + "\";", Stream: "enum_content"}) })
		}
	})
	// 3. grammar-directed layouts, 4. malformed stream, 5. (C16) single faults
	const shards = 64
	ck.RunChunked(func(emit func(Case)) {
		for sh := 0; sh < shards; sh++ {
			r := f.Rand(sh)
			for i := 0; i < nLayout/shards; i++ {
				text, _ := Render(r, GenTokensOpt(r, true))
				if r.Intn(20) == 0 {
					text, _, _ = WithBOM(text, 0, "")
				}
				emit(Case{Text: text, Stream: "layout"})
			}
			for i := 0; i < nRepeat/shards; i++ {
				toks, comments := GenRepeatTokens(r)
				emit(Case{Text: RenderRepeat(r, toks, comments), Stream: "repeated_layout"})
			}
			for i := 0; i < nMal/shards; i++ {
				emit(Case{Text: Mutate(r, GenTokensOpt(r, true)), Stream: "malformed"})
			}
			for i := 0; i < nFault/shards; i++ {
				if text, off, class, ok := Fault(r, GenTokens(r)); ok {
					if r.Intn(20) == 0 {
						text, off, _ = WithBOM(text, off, class)
					}
					emit(Case{Text: text, Stream: "single_fault", FaultOff: off, FaultClass: class})
				}
			}
		}
	})
	ck.Finish()
	res.Exhaustive = true
	res.Rule = fmt.Sprintf("yang.Parse vs impl model (whole canonical result: forest with keywords, argument presence, argument bytes, nesting, order, file:line:col of every statement, or the error lines as (line, col, class)) on every text; yang.Parse vs the reference reader on every well-encoded admissible text. Streams: corpus (defect witnesses, /repo YANG files and test literals); char_classes (columns are counted in characters): %d pool entries — per UTF-8 length class the first and last code point (U+007F/U+0080, U+07FF/U+0800, U+FFFF/U+10000, U+10FFFF), supplementary-plane characters (U+10000, U+1D400, U+1F600, U+20000, U+E0001, U+E0100, U+100000), combining marks (U+0301, U+20DD, U+1D165), zero-width (U+200B, U+200D, U+FE0F) and double-width (U+4E16, U+FF21, U+1F600) characters, the neighbours of the surrogate block, U+FFFD, and 13 ill-formed sequences (surrogates as UTF-8 alone and as a CESU-8 pair, overlong forms, above U+10FFFF, 5-byte form, lone continuation, truncated sequences, 0xFF; outside the claim: implementation vs impl model only) — each in 16 carriers (block comment one-line / on the last line of a two-line one / between tokens; double-quoted one-line / two pieces / on a continuation line; single-quoted one- and two-line; unquoted argument; keyword; all at once; on line 2; control: on the previous line only) on the same physical line before 10 bodies (an accepted forest and one fault of each kind: stray }, missing ;, undefined escape, unterminated ' and \" and comment, quoted keyword, the last two also with the offending token right behind the carrier) and in 10 texts where the offending backslash / opener / token is glued to the character; the same pool is sprinkled (Sprinkle: one or two pool characters in a third of the keywords, unquoted arguments, quoted pieces and in block comments behind tokens) over one text in four of layout / malformed / single_fault / source_names_* / repeated_layout; the Distribution lists per class how many texts carried it (char_classes); enum_token_wide: every string of <= 4 symbols over {a SP LF ; { } \" ' / * U+1F600 U+0301}, and of <= 3 between `x ` and ` y;`; carried_state (generic parsing has no memory): prefix statements (the RFC 7950 statement keywords, a few prefixed ones and every word-like string literal of pkg/yang/lex.go and parse.go read at run time, each alone and with the arguments 1, 1.1, 2, true, false, x, pattern, invert-match and the same source literals, unquoted and double-quoted; yang-version also with 32 further arguments such as 1.0, 1.10, ' 1.1', '', 7950; yang-version and the source literals also single-quoted and split in two +-joined pieces) x 10 placements (earlier top-level statement, sibling before, parent, ancestor, inside an earlier closed block, earlier statement with a block, all at once, later statement on both sides) x 11 later statements whose reading is mode-sensitive (pattern with undefined escapes double- and single-quoted, in a later +-joined piece, over a line break, with substatements, nested in type; the same escapes in error-message / description / x:pattern, which must be rejected at the backslash; defined escapes) - the full product for yang-version (C02 and thorough: also for the source literals and 7 more keywords; C02 thorough: for all), four rotating (placement, later statement) pairs for the others; format_chars: U+FEFF, U+200B, U+2060, U+00AD, U+200E, U+00A0, U+2028, U+0085, FF, VT at the very start of the text (once, twice, followed by blank / tab / line end / comment), before, inside and after tokens, inside strings and comments, at the start of line 2, in front of 7 bodies (accepted; stray }, missing ;, undefined escape, unterminated quote / comment, quoted keyword); pattern_lookalikes: 21 keywords (pattern, quoted pattern, posix-pattern, x:pattern, oc-ext:posix-pattern, pattern:x, a:b:pattern, patterns, Pattern, ...) x 16 arguments with undefined backslash pairs (also in later +-joined pieces) x 7 placements (alone, with a substatement, before / after / inside / around a real pattern statement); repeated tokens (what a token reads as does not depend on an earlier token that looks the same; built inside the claim: a Go mirror of dqExcluded steers generation, the reference reader decides and the Distribution counts spec_accepts_by_stream / spec_inadmissible_by_stream): repeated_dq: %d raw double-quoted contents (one line; continuation lines indented by 0-24 blanks, trailing blanks, empty lines, a line break first / last, defined escapes, tabs after a non-blank and among trailing blanks, tabs among the leading blanks only at quote columns where they do not straddle; undefined backslash pairs) each 2-4 times in one text behind %d statement heads that put the opening quote at columns 1-21 (after a tab, a multi-byte keyword, a comment, on a line of its own, as a later piece of a concatenation): all ordered pairs of heads as two statements and as parent and child, rotating triples and quadruples in a row / nested / after a closed block, on one line, as 2-4 pieces of one concatenation, and as the argument of a pattern statement (5 heads) before, after, around and inside another statement; dq_linebreak (only space and tab are stripped around a literal line break of a double-quoted string, every other character is text): %d raw items in %d classes (CR, CR CR, CR SP CR; tab; space; NUL; U+0001, VT, FF, ESC, DEL, U+0085; U+00A0; U+2028, U+2029; U+3000, U+2003, U+200B, U+FEFF; an ASCII and three multi-byte letters; punctuation and comment openers; each backslash pair \\n \\t \\\" \\\\, undefined pairs, backslash before CR / space / tab / line feed) placed before the break (behind nothing, x, x SP, x TAB; followed by 8 runs of trailing blanks: none, spaces, tabs, mixed; 4 continuations) and after it (behind 10-15 runs of leading blanks that end before / at / after the strip column, with spaces and with tabs that do not straddle; 4 continuations), behind %d statement heads (quote columns 1, 3, 9, 10, 11, 24; after a tab, a multi-byte keyword, as a later piece of a concatenation, in a pattern argument), and one item per class on both sides at once; only texts inside the claim are emitted (the Go mirror of dqExcluded drops CR LF, an escaped blank before the break and a straddling tab) and the Distribution lists per class what the reference reader said (linebreak_classes: spec_accepts / spec_rejects / spec_inadmissible / not_emitted_outside_claim; classes without an accepted text by name: an escaped blank before the break is outside the claim by definition); cr_neighbours: 12 runs of carriage returns, blanks and line feeds inside and next to single-quoted strings, unquoted tokens (CR ends the token), comments (CR does not end a line), between tokens, in one-line double-quoted strings and on the line of an opening double quote (CR counts one column); repeated_enum: every content of <= %d symbols over {a SP LF \\n} twice, the quotes at two different columns among 1..5 (20 ordered pairs), as two pieces of one concatenation, inside and outside a pattern statement; repeated_sq_word_comment: the same contents single-quoted (and single- next to double-quoted), 17 unquoted words as keyword and argument at several depths, 12 comments between all tokens of a statement and as text of quoted strings; repeated_layout: %d seeded random forests whose quoted pieces (1-3 per text: 5 in 8 double-quoted without excluded constructs, 1 in 8 with pattern-style escapes, 1 in 8 single-quoted, 1 in 8 unrestricted), keywords, unquoted arguments and comment are drawn from a pool made for that text, laid out with random blanks, tabs, line breaks and that comment; deep_runs: chains of nested blocks of depth 1..40 closed back to back (6 separators; one brace too few / too many; statements after the run) and homogeneous runs of 1..30, 40, 60, 100 tokens of 16 kinds (punctuation, blocks, statements, quoted strings, +-joined pieces, words, undefined escapes, comments), unseparated and separated; long_line: 6 (thorough: 8) paddings of 66000-70000 characters on one line (comment, blanks and tabs, single-quoted multi-byte string, concatenation, in the thorough tier a double-quoted string and an unquoted token) or as many lines (LF, CR LF), each followed on the same line by 8 tails (further statements; a stray }, an undefined escape, an unterminated quote or comment, a quoted keyword, a missing ;); exhaustive: every string of <= %d symbols over {a SP LF TAB ; { } \" ' \\ + / * n e-acute}, and of <= %d symbols behind `pattern ` and `x ` (one symbol less behind `posix-pattern ` and `x:pattern `); every sequence of <= %d whole tokens over {\"a\" 'b' \"+\" '+' + ; { } c \"\"} behind `x ` and `pattern ` (blank-separated, and unseparated for the shorter ones); every string content of <= %d (last three prefixes: %d) symbols over {a SP TAB LF \\ n \" e-acute} behind %d prefixes that put the opening quote at different tab-expanded columns (after a tab, a comment, a multi-byte character, a single-quoted piece, in a pattern argument); seeded random: %d layouts of random forests (one text in 20 with a byte order mark glued to its first keyword; one keyword in 12 a look-alike of pattern, half of those with pattern-style escapes; one statement in 20 a chain of depth 8-12 closed at once; quoting styles, + splitting, comment/blank/CRLF filler, continuation-line indentation, escapes), %d mutated texts (token/byte deletion, insertion, truncation, invalid UTF-8, error-budget overflow)%s. distinct_nontrivial = distinct texts containing a quote, a comment opener or a block",
		len(CharPool), len(repeatRaws()), len(repeatHeads), len(lbItems), len(firstOfClass()), len(lbHeads), repLen, nRepeat, tokLen, prefLen, seqLen, conLen, conLen-1, len(QuotePrefixes), nLayout, nMal,
		map[bool]string{true: fmt.Sprintf(", %d single-fault texts whose first positioned error must stand at the position the reference reader computes for the injected fault; source_names: %d ways of naming the source (fmt verbs %%20 %%2F %%s %%d %%v %%%% %%[1]s %%*d and a trailing lone %% in directories and in the base name, blanks and tabs, @ # + & ; | * ? ~ $, quotes, brackets, backslash, non-ASCII, position look-alikes, names of 600-3000 bytes, and a labelled family with `:`) x %d bodies (accepted forests; every error-writing site of lex.go / parse.go, some with fmt verbs in the quoted token) and rotating over random layouts, mutated texts and single faults: model and reference reader are asked under the given name, and what yang.Parse reports (every error line, every Location()) must equal what it reports under the plain name with the name replaced", nFault, len(NameShapes()), len(namedBodies)), false: ""}[c16])
	res.Write(f.Out)
	if len(res.Disagreements) > 0 {
		fmt.Fprintf(os.Stderr, "%d disagreements; first: %+v\n", len(res.Disagreements), res.Disagreements[0])
	}
}

func replay(f *lib.Flags, c16 bool) {
	raw, err := os.ReadFile(f.Replay)
	if err != nil {
		lib.Fatal("%v", err)
	}
	var p struct {
		Disagreement struct {
			Replay struct {
				FileHex    string `json:"file_hex"`
				TextHex    string `json:"text_hex"`
				FaultOff   int    `json:"fault_off"`
				FaultClass string `json:"fault_class"`
			} `json:"replay"`
		} `json:"disagreement"`
	}
	if err := json.Unmarshal(raw, &p); err != nil {
		lib.Fatal("%v", err)
	}
	rp := p.Disagreement.Replay
	file, _ := lib.UnHex(rp.FileHex)
	text, _ := lib.UnHex(rp.TextHex)
	d, err := lib.StartDriver(f.Driver)
	if err != nil {
		lib.Fatal("%v", err)
	}
	defer d.Close()
	g := GoParse(string(text), string(file))
	m, _ := d.Ask("parse " + rp.FileHex + " " + rp.TextHex)
	s, _ := d.Ask("spec.parse " + rp.FileHex + " " + rp.TextHex)
	v, why := specVerdict(g, s)
	fmt.Printf("text:  %q\ngo:    %s\nmodel: %s\nspec:  %s\nverdict: %s (%s)\n", text, g, m, s, v, why)
	bad := g != m || v == "violates" || strings.HasPrefix(g, "panic ")
	if c16 && string(file) != File {
		if nb := nameOracle(string(text), string(file)); nb != "" {
			fmt.Printf("source name: %s\n", nb)
			bad = true
		}
	}
	if c16 {
		marks, _ := d.Ask("spec.marks " + rp.TextHex)
		if b := positionsOutside(g, string(text)); b != "" {
			fmt.Printf("position: %s is not a position of the text\n", b)
			bad = true
		} else if b, want := notAMark(g, marks); b != "" {
			fmt.Printf("position: the error %s does not stand at a token, backslash or opener of its kind (%s)\n", b, want)
			bad = true
		}
	}
	if c16 && rp.FaultClass != "" {
		pos, _ := d.Ask(fmt.Sprintf("spec.pos %s %d", rp.TextHex, rp.FaultOff))
		want := strings.Replace(pos, " ", ":", 1) + ":" + rp.FaultClass
		got := ""
		if strings.HasPrefix(g, "rej ") {
			got, _ = firstPositioned(g)
		}
		fmt.Printf("fault: expected first positioned error %s, got %s\n", want, got)
		if got != want {
			bad = true
		}
	}
	if bad {
		os.Exit(1)
	}
}
