package lexcorr

// Source names (C16): the file part of every reported position is, exactly, the name the source
// was given.  A name is data: whatever characters it holds (fmt verbs, blanks, quotes, brackets,
// path separators, non-ASCII letters), it comes back byte for byte in Statement.Location() and in
// front of every error line.  NameShapes lists ways of naming a source that are special to some
// layer (fmt format strings first of all: a name that ends up inside a format is read as verbs);
// it is shared by corr-c16 (yang.Parse with a given name) and corr-c16sem (Modules.Parse with a
// given name, files on disk below directories of that name).

import (
	"fmt"
	"math/rand"
	"strings"

	"github.com/openconfig/goyang/pkg/yang"
)

// NameShape is a way of naming a source: <Dir>/<Pre><stem><Post>.yang<Tail>.
type NameShape struct {
	Label string
	// Dir: directory part ("" = none; several components allowed).
	Dir string
	// Pre, Post, Tail decorate the base name.
	Pre, Post, Tail string
	// Colon: the name holds a `:` (the position syntax is ambiguous on its face; judged only where
	// the given name is known, and never put on disk: the search path is a colon separated list).
	Colon bool
	// NoDisk: cannot stand on disk as written (a component longer than 255 bytes, …).
	NoDisk bool
}

// Apply names the source whose plain name is <stem>.yang.
func (s NameShape) Apply(plain string) string {
	stem := strings.TrimSuffix(plain, ".yang")
	base := s.Pre + stem + s.Post + ".yang" + s.Tail
	if s.Dir == "" {
		return base
	}
	return s.Dir + "/" + base
}

// Decorated: the base name is not <stem>.yang (such a file is not found by module name).
func (s NameShape) Decorated() bool { return s.Pre != "" || s.Post != "" || s.Tail != "" }

var long200 = strings.Repeat("long-directory-name-", 10)

// NameShapes returns the shapes: the first ones hold fmt verbs (every consumer rotates through the
// list from the start, so these come up most often).
func NameShapes() []NameShape {
	d := func(label, dir string) NameShape { return NameShape{Label: label, Dir: dir} }
	shapes := []NameShape{
		// ---- % followed by something fmt reads as a verb (or as a bad verb)
		d("%20 in a directory", "acme%20edition"),
		d("%2F in a directory", "vendor%2Fmodels"),
		d("trailing % of a directory", "100%"),
		d("%d in a directory", "rev%d"),
		d("%s directory", "%s"),
		d("%v directory", "%v"),
		d("%% directory", "%%"),
		d("%s%s%s directory", "%s%s%s"),
		d("verbs in nested directories", "%d/%v/%s"),
		d("lone % directory", "%"),
		d("%!s(MISSING) directory", "%!s(MISSING)"),
		d("%[1]s directory", "%[1]s"),
		d("%[2]d directory", "%[2]d"),
		d("%[9]v directory", "x%[9]v"),
		d("%*d directory", "%*d"),
		d("%+v directory", "%+v"),
		d("%#v directory", "%#v"),
		d("%-8s directory", "%-8s|"),
		d("%08.3f directory", "%08.3f"),
		d("many verbs", "%c%q%U%t%T%p%e%g%x%X%o%b"),
		d("%w directory", "%w"),
		d("50%off", "50%off"),
		d("%z (no such verb)", "%z"),
		d("%! directory", "%!"),
		d("%( directory", "%(x)"),
		d("% blank", "a% b"),
		d("%é", "%é"),
		{Label: "%s before the base name", Pre: "%s"},
		{Label: "%20 in the base name", Post: "%20final"},
		{Label: "%d in the base name", Post: "%d"},
		{Label: "% before .yang", Post: "%"},
		{Label: "trailing lone %", Tail: "%"},
		{Label: "trailing %s", Tail: "%s"},
		{Label: "trailing %v after a dot", Tail: ".%v"},
		{Label: "100% before the base name", Pre: "100%"},
		{Label: "% directory and trailing %", Dir: "%d%%", Tail: "%"},
		// ---- blanks
		d("blank in a directory", "my models"),
		// a name that itself starts with white space: yang.Parse used to trim the whole error text,
		// so the first error line lost it (defect D68, repaired in /repo)
		d("leading blank", " lead"),
		d("leading tab", "\tlead"),
		d("leading blank in a component", "in/ lead"),
		d("trailing blank", "trail "),
		d("two blanks", "a  b"),
		d("tab in a directory", "a\tb"),
		{Label: "blank in the base name", Post: " copy"},
		{Label: "blank after .yang", Tail: " (1)"},
		// ---- @ # + and other punctuation special to some layer
		d("@ in a directory", "vendor@2021-03-04"),
		{Label: "@ in the base name", Post: "@draft"},
		d("# in a directory", "rel#3"),
		d("+ in a directory", "c++ models"),
		d("& ; | in a directory", "a&b;c|d"),
		d("glob characters", "*?~$HOME"),
		d("comma and =", "k=v,w"),
		d("dots", "a..b/.hidden"),
		d("leading -", "-o"),
		d("! and ^", "!bang^"),
		// ---- quotes
		d("single quote", "it's"),
		d("double quotes", "say \"hi\""),
		d("backquotes", "`x`"),
		{Label: "quotes around the base name", Pre: "'", Post: "'"},
		// ---- brackets
		d("square brackets", "[1]"),
		d("square brackets around a position look-alike", "[x.yang.3.4]"),
		d("parentheses", "(old)"),
		d("braces", "{a,b}"),
		d("angle brackets", "<tmp>"),
		{Label: "bracket before the base name", Pre: "["},
		{Label: "bracket after .yang", Tail: "]"},
		// ---- backslash
		d("backslash", "back\\slash"),
		d("backslash n", "a\\nb"),
		d("two backslashes", "\\\\srv"),
		{Label: "backslash in the base name", Post: "\\"},
		// ---- non-ASCII
		d("Latin letters with accents", "modèles-żółć"),
		d("Cyrillic", "модели"),
		d("CJK", "模型/模型"),
		d("emoji", "\U0001F642"),
		d("combining accent", "e\u0301"),
		d("CJK extension B and the last code point", "\U00020000/\U0010FFFF"),
		{Label: "supplementary plane in the base name", Pre: "\U0001D400", Post: "\U00010000", Tail: "\U0001F600"},
		d("no-break space and zero width space", "a\u00a0b\u200bc"),
		{Label: "non-ASCII in the base name", Pre: "é", Post: "ü"},
		// ---- digits and dots that resemble a position
		{Label: "digits after .yang", Tail: ".12.3"},
		d("digits directory", "10/2"),
		// ---- a very long name
		d("long directories", long200+"/"+long200+"%s/"+long200),
		{Label: "one very long component", Dir: strings.Repeat("x%d", 400), NoDisk: true},
		{Label: "very long base name", Post: strings.Repeat("-%v-long", 300), NoDisk: true},
		// ---- `:` (labelled family: ambiguous on its face)
		{Label: "colon in a directory", Dir: "a:b", Colon: true},
		{Label: "position look-alike in a directory", Dir: "x.yang:1:2", Colon: true},
		{Label: "colon and % in a directory", Dir: "C:%s", Colon: true},
		{Label: "digits and colon after .yang", Tail: ":7", Colon: true},
	}
	return shapes
}

// namedBodies are the texts every shape is combined with: accepted forests (nesting, multi-line
// strings, comments) and every kind of rejected text (each error-writing site of lex.go / parse.go),
// some with fmt verbs in the token the message quotes.
var namedBodies = []string{
	"a;",
	"module m { // c\n  leaf l { type string; description \"one\n                                 two\"; } /* x */ }",
	"a \"b\" + 'c' + \"d\" { e 'f'; }\n\tg {\n\t\th %s;\r\n\t} é \"%d\";",
	"a { b { c; } } }",                     // unexpected }
	"}",                                    // unexpected } at the start
	"a;\n  } b;",                           // unexpected } on line 2
	"a { b {",                              // missing closing braces
	"a {",                                  // missing 1 closing brace
	"a \"b\" +",                            // unexpected EOF
	"a",                                    // unexpected EOF
	"a b c;",                               // expected ; or {
	"a b %s;",                              // expected ; or {, the token is a verb
	"a b\n  %d%v { x; }",                   // expected ; or {
	"\"a\" b;",                             // keyword token not an unquoted string
	"x; '%s' b;",                           // keyword token not an unquoted string, the token is a verb
	"a \"\\q\";",                           // invalid escape
	"a \"%s\\%\";",                         // invalid escape: \%
	"é \"\\é\" ;\n b \"\\z\";",             // two invalid escapes
	"a 'x",                                 // missing closing '
	"a\n\t'%v",                             // missing closing '
	"a \"x",                                // missing closing "
	"a \"%d\n  %s",                         // missing closing "
	"a /* x",                               // missing closing */
	"/*/a;",                                // missing closing */
	"a \"\\q\\q\\q\\q\\q\\q\\q\\q\" b;",    // eight errors
	"a \"\\q\\q\\q\\q\\q\\q\\q\\q\\q\" b;", // too many errors
	"} } } } } } } } } }",                  // many unexpected }
	"a b c; d e f; } \"k\" v; w 'x",
	"",
	"\n",
	"\uFEFFa;",
	"/* \U0001F600 */ a \"\U00020000\" { \U00010000 '\U0010FFFF' + \"\u0301\"; } b \U0001D400; c;", // supplementary-plane characters before keywords
	"a '\U0001F600' \U00020000 b; } /* \U0001F600 */ \"k\" \"\U00010000\\q\"; c '\U0010FFFF",       // and before offending tokens
	"a\xff b\xc3;",
}

// SourceNameCases emits every body under every shape (stream source_names), then random layouts,
// mutated texts and single faults under rotating shapes.
func SourceNameCases(r *rand.Rand, nRandom int, emit func(Case)) {
	shapes := NameShapes()
	for _, sh := range shapes {
		name := sh.Apply(File)
		for _, b := range namedBodies {
			emit(Case{Text: b, Stream: "source_names", File: name})
		}
	}
	for i := 0; i < nRandom; i++ {
		name := shapes[i%len(shapes)].Apply(File)
		switch i % 4 {
		case 0:
			text, _ := Render(r, GenTokensOpt(r, true))
			emit(Case{Text: text, Stream: "source_names_layout", File: name})
		case 1:
			emit(Case{Text: Mutate(r, GenTokensOpt(r, true)), Stream: "source_names_malformed", File: name})
		default:
			if text, off, class, ok := Fault(r, GenTokens(r)); ok {
				emit(Case{Text: text, Stream: "source_names_single_fault", FaultOff: off, FaultClass: class, File: name})
			}
		}
	}
}

// rawParse returns what yang.Parse says about text under the given name: the error text of a
// rejected text, else the Location() of every statement (pre-order), one per line.
func rawParse(text, file string) (out string, rejected bool) {
	defer func() {
		if r := recover(); r != nil {
			out, rejected = fmt.Sprintf("panic %v", r), true
		}
	}()
	ss, err := yang.Parse(text, file)
	if err != nil {
		return err.Error(), true
	}
	var sb strings.Builder
	var walk func(s *yang.Statement)
	walk = func(s *yang.Statement) {
		sb.WriteString(s.Location())
		sb.WriteByte('\n')
		for _, c := range s.SubStatements() {
			walk(c)
		}
	}
	for _, s := range ss {
		walk(s)
	}
	return sb.String(), false
}

// nameOracle compares what yang.Parse reports about text under the given name with what it reports
// under the plain name File (which occurs in no text): the two must be equal once the plain name
// is replaced by the given one — every position carries exactly the given name, nothing else moves.
// It returns "" or the first line that differs.
func nameOracle(text, given string) string {
	got, grej := rawParse(text, given)
	plain, prej := rawParse(text, File)
	if grej != prej {
		return fmt.Sprintf("the text is accepted under one name and rejected under the other (%q: rejected=%v, %q: rejected=%v)", given, grej, File, prej)
	}
	want := strings.ReplaceAll(plain, File+":", given+":")
	if got == want {
		return ""
	}
	g, w := strings.Split(got, "\n"), strings.Split(want, "\n")
	for i := 0; i < len(g) || i < len(w); i++ {
		var a, b string
		if i < len(g) {
			a = g[i]
		}
		if i < len(w) {
			b = w[i]
		}
		if a != b {
			what := "error line"
			if !grej {
				what = "Location() of statement"
			}
			return fmt.Sprintf("%s %d reads %q; with the name the source was given (%q) it reads %q", what, i+1, clip(a), clip(given), clip(b))
		}
	}
	return "reports differ"
}

func clip(s string) string {
	if len(s) > 400 {
		return s[:200] + "…" + s[len(s)-150:]
	}
	return s
}
