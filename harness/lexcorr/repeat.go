package lexcorr

import (
	"math/rand"
	"strconv"
	"strings"
	"unicode/utf8"

	"verif/harness/lib"
)

// Repeated tokens.  What a token reads as depends on the token and on where it stands (the column of an
// opening double quote, the keyword of the statement it is an argument of), never on an earlier token that
// happens to look the same.  The families of this file put the SAME raw token 2-4 times into one text: a
// double-quoted string (single- and multi-line, with escapes, with trailing blanks, with tabs where the claim
// allows them) at different columns, nesting depths, as pieces of one concatenation, once as the argument of
// a pattern statement and once elsewhere; the same single-quoted string, unquoted word and comment.  The
// texts are built to lie inside the claim of C02 (no tab that straddles the strip column, no escaped blank
// or CR before a line break): a text whose double-quoted strings are not all admissible is not emitted by
// the deterministic families (the decision is the Go mirror `dqOutside` of `dqExcluded` in
// lean/Goyang/Spec/Parse.lean; it only steers generation — what is inside the claim is decided by the
// reference reader and counted per stream in the Distribution).

// rtext builds a text and keeps track of whether every double-quoted string put into it is inside the claim.
type rtext struct {
	sb      strings.Builder
	outside bool
}

func (b *rtext) s(parts ...string) *rtext {
	for _, p := range parts {
		b.sb.WriteString(p)
	}
	return b
}

// dq appends the double-quoted string with the given raw content.
func (b *rtext) dq(raw string) *rtext {
	if dqOutside(raw, quoteColAt(b.sb.String())) {
		b.outside = true
	}
	b.sb.WriteString("\"" + raw + "\"")
	return b
}

// quoteColAt is the tab-expanded 1-based column of the character that would follow `pre`.
func quoteColAt(pre string) int {
	if i := strings.LastIndexByte(pre, '\n'); i >= 0 {
		pre = pre[i+1:]
	}
	w := 0
	for _, c := range pre {
		if c == '\t' {
			w = (w/8 + 1) * 8
		} else {
			w++
		}
	}
	return w + 1
}

type qitem struct {
	c   rune
	esc bool
}

func rawItems(raw string) []qitem {
	var out []qitem
	rs := []rune(raw)
	for i := 0; i < len(rs); i++ {
		if rs[i] == '\\' && i+1 < len(rs) {
			out = append(out, qitem{rs[i+1], true})
			i++
		} else {
			out = append(out, qitem{rs[i], false})
		}
	}
	return out
}

// dqOutside mirrors Goyang.Spec.Parse.dqExcluded: a CR before a literal line break, a line that ends
// (trailing literal blanks aside) in an escaped blank, a tab among the leading blanks of a continuation line
// that begins before the quote column and ends beyond it.
func dqOutside(raw string, qcol int) bool {
	var lines [][]qitem
	cur := []qitem{}
	for _, q := range rawItems(raw) {
		if !q.esc && q.c == '\n' {
			lines = append(lines, cur)
			cur = []qitem{}
		} else {
			cur = append(cur, q)
		}
	}
	lines = append(lines, cur)
	for i, l := range lines {
		if i < len(lines)-1 {
			if n := len(l); n > 0 && !l[n-1].esc && l[n-1].c == '\r' {
				return true
			}
			for len(l) > 0 && !l[len(l)-1].esc && (l[len(l)-1].c == ' ' || l[len(l)-1].c == '\t') {
				l = l[:len(l)-1]
			}
			if n := len(l); n > 0 && l[n-1].esc && (l[n-1].c == 't' || l[n-1].c == ' ' || l[n-1].c == '\t') {
				return true
			}
		}
		if i == 0 {
			continue
		}
		w := 0
	lead:
		for _, q := range l {
			switch {
			case !q.esc && q.c == ' ':
				if w+1 <= qcol {
					w++
				} else {
					break lead
				}
			case !q.esc && q.c == '\t':
				if (w/8+1)*8 <= qcol {
					w = (w/8 + 1) * 8
				} else if w < qcol {
					return true
				} else {
					break lead
				}
			default:
				break lead
			}
		}
	}
	return false
}

func sp(n int) string { return strings.Repeat(" ", n) }

// repeatRaws are the raw contents (the characters between the double quotes) that are repeated.
func repeatRaws() []string {
	raws := []string{
		// one line
		"x", "", "a b", " x", "x ", "a\\tb", "a\\nb", "\\\"q\\\"", "\\\\", "a\tb", "é", "+", ";", "{ }", "// c", "/* c */", "'", "a\\\\nb",
		// continuation lines: trailing blanks, empty lines, several indentations, a line break first / last
		"x  \n     y", "x \t \n     y", "x\n\n     y", "x\n   y\n       z", "\n     y", "x\n     ", "x\n", "\n", "x\n     y  \n  z",
		"é\n     é", "éé\n  é é\n      é", "a\\n\n     b", "x\n     \\ty", "x\n    \\\\ y", "x\n     y\\\"", "x\n      a\tb", "x\n     y\tz\t\n     w",
		"x\n     { ; }\n  // c\n      /* c */ '", "x\\\\\n     y",
		// carriage returns that are not part of a CR LF pair: text
		"x\r \n     y", "a\rb", "x \r\t\n  \ry\r",
		// tabs among the leading blanks (inside the claim for some quote columns only)
		"x\n\ty", "x\n\t\ty", "x\n        \ty", "x\n\t  y", "x\n    \ty", "x\n\t    \tz",
		// undefined backslash pairs: accepted in the argument of pattern only
		"\\d+", "a\\.b\n     \\d", "\\d\n  \\s", "\\ \\\n\n     \\{",
		// supplementary-plane characters, combining marks, zero-width and double-width characters
		"\U0001F600", "x\U00020000\n     \U00010000\u0301y\U0010FFFF", "\u200b\uff21\n  \U0001D400 z",
	}
	for _, n := range []int{0, 1, 2, 3, 4, 5, 6, 7, 8, 9, 12, 16, 24} {
		raws = append(raws, "x\n"+sp(n)+"y")
	}
	return raws
}

// repeatHeads are statement heads (keyword and what separates it from its argument) that put the opening
// quote of the argument at different columns: 3, 4, 5, 6, 5 (indented), 10, 11 (after a tab), 9 (tab as the
// separator), 3 (after a multi-byte keyword), 11 (after a comment), 3 / 1 / 7 (argument on a line of its own),
// 9 / 5 / 9 (second piece of a concatenation), 21, 2.
var repeatHeads = []string{
	"a ", "bb ", "ccc ", "dddd ", "  a ", "    leaf ", "\ta ", "a\t", "é ", "/* c */ a ", "a\n  ", "a\n", "description\n      ",
	"a 'q' + ", "a 'q'\n  + ", "a \"q\" +\n\t", "        description    ", "a\n ",
	// quote column 3 after a supplementary-plane keyword, 10 after a comment that holds one and a combining mark
	"\U00020000 ", "/*\U0001F600\u0301*/ a ",
}

var repeatPatternHeads = []string{"pattern ", "  pattern  ", "pattern\n      ", "pattern 'q' + ", "\tpattern\t"}

// RepeatedDq emits the deterministic family of texts with one raw double-quoted string repeated 2-4 times.
func RepeatedDq(emit func(Case)) {
	out := func(b *rtext) {
		if !b.outside {
			emit(Case{Text: b.sb.String(), Stream: "repeated_dq"})
		}
	}
	hs := repeatHeads
	nh := len(hs)
	for ri, r := range repeatRaws() {
		for i := range hs {
			for j := range hs {
				// two statements, each on a line of its own
				out(new(rtext).s(hs[i]).dq(r).s(";\n", hs[j]).dq(r).s(";\n"))
				// parent and child
				out(new(rtext).s(hs[i]).dq(r).s(" {\n", hs[j]).dq(r).s(";\n}\n"))
			}
			// two and three statements on one line (the later columns depend on the last line of the string)
			j, k := (i+ri+1)%nh, (i+2*ri+5)%nh
			out(new(rtext).s(hs[i]).dq(r).s("; ", hs[j]).dq(r).s(";"))
			out(new(rtext).s(hs[i]).dq(r).s(";", hs[j]).dq(r).s("{", hs[k]).dq(r).s(";}"))
			// three and four occurrences: statements in a row, a chain of blocks, an earlier closed block
			l := (i + 3*ri + 11) % nh
			out(new(rtext).s(hs[i]).dq(r).s(";\n", hs[j]).dq(r).s(";\n", hs[k]).dq(r).s(";\n"))
			out(new(rtext).s(hs[i]).dq(r).s(" {\n", hs[j]).dq(r).s(" {\n", hs[k]).dq(r).s(" {\n", hs[l]).dq(r).s(";\n}\n}\n}\n"))
			out(new(rtext).s("m {\n", hs[i]).dq(r).s(";\n}\n", hs[j]).dq(r).s(" {\n", hs[k]).dq(r).s(";\n}\n", hs[l]).dq(r).s(";\n"))
			// pieces of one concatenation: on one line, one piece per line, mixed with other pieces
			out(new(rtext).s(hs[i]).dq(r).s(" + ").dq(r).s(";"))
			out(new(rtext).s(hs[i]).dq(r).s("+").dq(r).s("+").dq(r).s(";"))
			out(new(rtext).s(hs[i]).dq(r).s("\n  + ").dq(r).s("\n        + ").dq(r).s("\n+").dq(r).s(";\n"))
			out(new(rtext).s(hs[i]).dq(r).s(" + 'q' /* c */ +\t").dq(r).s(" { ", hs[j]).dq("q").s(" + ").dq(r).s("; }"))
			// the same raw text as the argument of a pattern statement and elsewhere, in both orders
			for _, ph := range repeatPatternHeads {
				out(new(rtext).s(ph).dq(r).s(";\n", hs[i]).dq(r).s(";\n"))
				out(new(rtext).s(hs[i]).dq(r).s(";\n", ph).dq(r).s(";\n"))
				out(new(rtext).s(ph).dq(r).s(" {\n", hs[i]).dq(r).s(";\n}\n", ph).dq(r).s(";\n"))
				out(new(rtext).s(hs[i]).dq(r).s(" {\n", ph).dq(r).s(" + ").dq(r).s(";\n}\n", hs[j]).dq(r).s(";\n"))
			}
		}
	}
}

// RepeatedEnum: every string content of at most n symbols over {a SP LF \n} twice in one text, the opening
// quotes at two different columns among 1..5 (20 ordered pairs), as the two pieces of a concatenation, and in
// a pattern statement and outside.
func RepeatedEnum(n int, emit func(Case)) {
	heads := []string{"x\n", "x\n ", "x ", "xx ", "x   "}
	EnumStrings([]string{"a", " ", "\n", "\\n"}, n, func(r string) {
		q := "\"" + r + "\""
		for i, h1 := range heads {
			for j, h2 := range heads {
				if i != j {
					emit(Case{Text: h1 + q + ";\n" + h2 + q + ";", Stream: "repeated_enum"})
				}
			}
		}
		emit(Case{Text: "x " + q + " + " + q + ";", Stream: "repeated_enum"})
		emit(Case{Text: "x " + q + "\n+" + q + " {xx " + q + ";}", Stream: "repeated_enum"})
		emit(Case{Text: "pattern " + q + ";x " + q + ";", Stream: "repeated_enum"})
		emit(Case{Text: "x " + q + ";pattern " + q + ";", Stream: "repeated_enum"})
	})
}

// RepeatedOther: the same single-quoted string, unquoted word and comment 2-4 times in one text.
func RepeatedOther(emit func(Case)) {
	add := func(t string) { emit(Case{Text: t, Stream: "repeated_sq_word_comment"}) }
	// single-quoted: verbatim wherever it stands
	for ri, r := range repeatRaws() {
		if strings.Contains(r, "'") {
			continue
		}
		q := "'" + r + "'"
		hs := repeatHeads
		for i := range hs {
			j, k := (i+ri+1)%len(hs), (i+2*ri+5)%len(hs)
			add(hs[i] + q + ";\n" + hs[j] + q + ";\n")
			add(hs[i] + q + " {\n" + hs[j] + q + " + " + q + ";\n}\n" + hs[k] + q + ";")
			add("pattern " + q + ";" + hs[i] + q + "+" + q + "{pattern " + q + "\n+" + q + ";}")
			// the same characters between double quotes, single quotes, and again
			if !strings.Contains(r, "\\") {
				b := new(rtext).s(hs[i]).dq(r).s(" + ", q, ";\n", hs[j], q, " + ").dq(r).s(";\n")
				if !b.outside {
					add(b.sb.String())
				}
			}
		}
	}
	// unquoted words: as keyword and as argument, at several depths
	words := []string{"a", "b", "pattern", "+", "é", "1..2", "/a/b", "x:y", "a+b", "*/", "\uFEFF", "leaf", "true", "a\\nb", "\\d", "-", "1.1",
		"\U0001F600", "a\U00020000\u0301b"}
	for _, w := range words {
		k := w
		if w == "+" {
			k = "p" // a lone + as keyword is fine, but keep the family inside "keyword, argument"
		}
		add(k + " " + w + "; " + k + " " + w + ";")
		add(w + " " + w + "; " + w + " " + w + ";")
		add(w + ";" + w + ";" + w + "{" + w + ";}")
		add(k + " " + w + " {\n  " + k + " " + w + " {\n    " + k + " " + w + ";\n  }\n}\n" + k + " " + w + ";")
		add(w + " " + w + " { " + w + " " + w + " { " + w + "; } " + w + "; }")
		add(k + " '" + w + "'; " + k + " " + w + "; " + k + " \"x\" + '" + w + "';")
		add("pattern " + w + "; x " + w + "; pattern " + w + " { x " + w + "; }")
		add("a\t" + w + ";\n\ta " + w + ";\n\t\ta\t" + w + ";")
		for _, v := range words {
			if v != w {
				add(k + " " + v + "; " + v + " " + w + " { " + k + " " + v + "; } " + v + " " + w + ";")
			}
		}
	}
	// comments: the same comment between all tokens, and its text inside quoted strings too
	comments := []string{"/* c */", "// c\n", "/**/", "/* a\n * b */", "//\n", "/***/", "/* é\t*/", "/*/*/", "// /* c\n", "/* // */", "/* ' \" */", "//;{}\"'\n",
		"/*\U0001F600*/", "/* \U00010000\n\U0010FFFF\u0301 */"}
	for _, c := range comments {
		add(c + "a " + c + "b " + c + ";" + c)
		add(c + c + "a " + c + c + "{" + c + "b " + c + "c " + c + ";" + c + "}" + c + c)
		add("a " + c + "\"x\n     y\" " + c + "+ " + c + "\"x\n     y\" " + c + ";")
		add("a " + c + "'q' " + c + "{ b 'q'" + c + "; " + c + "} " + c + "a " + c + "'q' " + c + ";")
		if !strings.ContainsAny(c, "\"'") {
			cc := strings.ReplaceAll(c, "\t", " ")
			add("a \"" + cc + "\" " + c + "+ '" + cc + "' " + c + "; " + c)
			add("a " + c + "\"x\n   " + cc + "\n       " + cc + "\";" + c + "bb\n " + c + "\"x\n   " + cc + "\n       " + cc + "\";")
		}
		for _, d := range comments {
			if d != c {
				add(c + "a " + d + "b " + c + "{ " + d + "c " + c + "; " + d + "} " + c + d)
			}
		}
	}
}

// cleanPiece is a random double-quoted piece without the constructs the claim excludes: no CR immediately
// before a line break (a carriage return elsewhere — inside a line, separated from the line break by blanks,
// first on a continuation line — is text), no tab among the leading blanks of a continuation line, no escaped
// blank before a line break.  Tabs stand after a non-blank character or among trailing blanks only.
func cleanPiece(r *rand.Rand, pattern bool) string {
	var sb strings.Builder
	n := 1 + r.Intn(7)
	atLineStart := false
	lastEscBlank := false
	lastCR := false
	for i := 0; i < n; i++ {
		k := r.Intn(20)
		if k >= 9 && k < 14 && lastCR {
			// a line break right after a carriage return would be a CR LF pair: blanks in between
			sb.WriteString([]string{" ", "\t", "  ", " \t "}[r.Intn(4)])
		}
		if k < 6 || k >= 9 {
			lastCR = false
		}
		switch {
		case k < 6:
			w := []string{"a", "word", "é", "x y", ";", "{", "}", "'", "//", "/* */", "+", "\r", "a\rb", "\u00a0"}[r.Intn(14)]
			sb.WriteString(w)
			atLineStart, lastEscBlank = false, false
			lastCR = w == "\r"
		case k < 8:
			sb.WriteString(sp(1 + r.Intn(3)))
		case k < 9:
			if !atLineStart {
				sb.WriteString("\t")
			}
		case k < 14:
			if lastEscBlank {
				sb.WriteString("b")
			}
			if r.Intn(3) == 0 {
				sb.WriteString([]string{" ", "\t", "  ", " \t "}[r.Intn(4)])
			}
			sb.WriteString("\n")
			sb.WriteString(sp(r.Intn(16)))
			atLineStart, lastEscBlank = true, false
		case k < 17:
			e := []string{"\\n", "\\t", "\\\"", "\\\\"}[r.Intn(4)]
			sb.WriteString(e)
			atLineStart, lastEscBlank = false, e == "\\t"
		case k < 18 && pattern:
			sb.WriteString([]string{"\\d", "\\.", "\\é", "\\{", "\\S+"}[r.Intn(5)])
			atLineStart, lastEscBlank = false, false
		default:
			sb.WriteString("b")
			atLineStart, lastEscBlank = false, false
		}
	}
	return "\"" + sb.String() + "\""
}

// GenRepeatTokens produces the tokens of a random well-formed forest whose quoted pieces, unquoted arguments
// and keywords are drawn from a small pool made for this text, so that most of them occur several times.
// It returns the tokens and the comments to be used as filler.
func GenRepeatTokens(r *rand.Rand) ([]GTok, []string) {
	type piece struct {
		text, kind string
		pat        bool // contains undefined backslash pairs: a pattern argument
	}
	var pool []piece
	np := 1 + r.Intn(3)
	for i := 0; i < np; i++ {
		switch k := r.Intn(8); {
		case k == 0:
			t, kind := quotedPiece(r, false) // anything, also outside the claim
			pool = append(pool, piece{t, kind, false})
		case k == 1:
			pool = append(pool, piece{cleanPiece(r, true), "dq", true})
		case k == 2:
			t := cleanPiece(r, false)
			t = strings.ReplaceAll(strings.ReplaceAll(t[1:len(t)-1], "'", "q"), "\\", "/")
			pool = append(pool, piece{"'" + t + "'", "sq", false})
		default:
			pool = append(pool, piece{cleanPiece(r, false), "dq", false})
		}
	}
	kws := []string{kwPool[r.Intn(len(kwPool))], kwPool[r.Intn(len(kwPool))], []string{"a", "bb", "description", "pattern"}[r.Intn(4)]}
	unqs := []string{unqPool[r.Intn(len(unqPool))], kws[0]}
	zcomment := ""
	if r.Intn(4) == 0 {
		// one text in four: a pool character (chars.go) in the pooled keyword, unquoted argument, quoted
		// pieces and the comment, so that it is repeated with them
		z := pickChar(r).S
		if kws[0] != "pattern" {
			kws[0] += z
		}
		unqs[0] = z + unqs[0]
		for i := range pool {
			if r.Intn(2) == 0 {
				pool[i].text = pool[i].text[:1] + z + pool[i].text[1:]
			}
		}
		zcomment = "/*" + z + "*/"
	}
	var out []GTok
	var stmt func(depth int, top bool)
	stmt = func(depth int, top bool) {
		kw := kws[r.Intn(len(kws))]
		if r.Intn(6) == 0 {
			kw = "pattern"
		}
		pat := kw == "pattern"
		out = append(out, GTok{Text: kw, Kind: "kw", Top: top})
		switch k := r.Intn(10); {
		case k < 1:
		case k < 3:
			out = append(out, GTok{Text: unqs[r.Intn(len(unqs))], Kind: "unq"})
		default:
			n := 1
			for r.Intn(3) == 0 && n < 4 {
				n++
			}
			ps := make([]piece, n)
			for i := range ps {
				ps[i] = pool[r.Intn(len(pool))]
				if ps[i].pat && !pat && r.Intn(4) > 0 {
					// mostly keep the text well-formed: pattern-style pieces under the pattern keyword
					pat = true
					out[len(out)-1].Text = "pattern"
				}
			}
			for i, p := range ps {
				if i > 0 {
					out = append(out, GTok{Text: "+", Kind: "plus"})
				}
				out = append(out, GTok{Text: p.text, Kind: p.kind, Pat: pat})
			}
		}
		if depth > 0 && r.Intn(3) == 0 {
			out = append(out, GTok{Text: "{", Kind: "lbrace"})
			n := r.Intn(4)
			for i := 0; i < n; i++ {
				stmt(depth-1, false)
			}
			out = append(out, GTok{Text: "}", Kind: "rbrace", Top: top})
		} else {
			out = append(out, GTok{Text: ";", Kind: "semi", Top: top})
		}
	}
	n := 2 + r.Intn(3)
	for i := 0; i < n; i++ {
		stmt(3, true)
	}
	cs := []string{[]string{"/* c */", " // c\n", "/**/", " /* a\n * b */ ", "/* é\t*/", " //\n"}[r.Intn(6)]}
	if zcomment != "" {
		cs = []string{zcomment}
	}
	return out, cs
}

// RenderRepeat lays the tokens out like Render, with the given comments as the only comments and no CR LF.
func RenderRepeat(r *rand.Rand, toks []GTok, comments []string) string {
	blanks := []string{" ", " ", " ", "\n", "\t", "  ", "\n    ", "\n  ", "", "", "\n\t", "\n      ", "   "}
	var sb strings.Builder
	fill := func() string {
		if r.Intn(5) == 0 {
			return comments[r.Intn(len(comments))]
		}
		return blanks[r.Intn(len(blanks))]
	}
	if r.Intn(2) == 0 {
		sb.WriteString(fill())
	}
	for i, t := range toks {
		sb.WriteString(t.Text)
		sb.WriteString(t.After)
		f := fill()
		if isUnq(t.Kind) {
			if strings.HasPrefix(f, "/") {
				f = " " + f
			}
			if f == "" && i+1 < len(toks) && isUnq(toks[i+1].Kind) {
				f = " "
			}
		}
		sb.WriteString(f)
	}
	return sb.String()
}

// describeForestDiff names the first difference between two canonical `ok` lines (see lean/Drv/Lex.lean)
// in the words of property C02: which statement, and which of keyword / argument presence / exact argument
// string / nesting / sibling order / position differs.
func describeForestDiff(goLine, specLine string) string {
	g, s := strings.Fields(goLine), strings.Fields(specLine)
	if len(g) < 3 || len(s) < 3 {
		return ""
	}
	if g[2] != s[2] {
		return "number of top-level statements: implementation " + g[2] + ", text " + s[2]
	}
	gr, sr := g[3:], s[3:]
	for i := 0; i < len(gr) && i < len(sr); i++ {
		if gr[i] == sr[i] {
			continue
		}
		a, b := strings.Split(gr[i], "/"), strings.Split(sr[i], "/")
		if len(a) != 6 || len(b) != 6 {
			return ""
		}
		un := func(h string) string {
			bs, err := lib.UnHex(h)
			if err != nil || !utf8.Valid(bs) {
				return h
			}
			return string(bs)
		}
		clip := func(x string) string {
			if len(x) > 60 {
				return x[:60] + "…"
			}
			return x
		}
		where := "statement " + strconv.Itoa(i+1) + " in text order (`" + clip(un(b[0])) + "` at " + b[3] + ":" + b[4] + ")"
		switch {
		case a[0] != b[0]:
			return where + ": keyword is " + quote(clip(un(a[0])))
		case a[1] != b[1]:
			return where + ": argument presence differs (implementation " + a[1] + ", text " + b[1] + ")"
		case a[2] != b[2]:
			return where + ": argument string is " + quote(clip(un(a[2]))) + ", the RFC 7950 6.1.3 reading of the text gives " + quote(clip(un(b[2])))
		case a[5] != b[5]:
			return where + ": nesting differs (" + a[5] + " substatements, the text has " + b[5] + ")"
		default:
			return where + ": position is " + a[3] + ":" + a[4]
		}
	}
	return "number of statements differs"
}

// quote prints s as a Go string literal: control characters, U+00A0, U+2028 and the other characters that
// do not show are written as escapes.
func quote(s string) string { return strconv.Quote(s) }
