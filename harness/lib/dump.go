package lib

import (
	"fmt"
	"sort"
	"strings"

	"github.com/openconfig/goyang/pkg/yang"
)

// TypeDumper renders a resolved type for the dump ("-" for nil). The default prints the
// written type name only; the C09 layer installs the full canonical rendering.
var TypeDumper = func(e *yang.Entry) string {
	if e.Type == nil {
		return "-"
	}
	return HexS(DumpYangType(e.Type))
}

func tri(t yang.TriState) string {
	switch t {
	case yang.TSTrue:
		return "true"
	case yang.TSFalse:
		return "false"
	}
	return "unset"
}

// DumpNode renders one entry exactly as Goyang.Model.dumpNode does.
func DumpNode(modName string, e *yang.Entry) string {
	la := "-"
	if e.ListAttr != nil {
		u := 0
		if e.ListAttr.OrderedByUser {
			u = 1
		}
		la = fmt.Sprintf("%d:%d:%d", e.ListAttr.MinElements, e.ListAttr.MaxElements, u)
	}
	b := func(x bool) int {
		if x {
			return 1
		}
		return 0
	}
	defs := make([]string, len(e.Default))
	for i, d := range e.Default {
		defs[i] = HexS(d)
	}
	im := "!"
	if m, err := e.InstantiatingModule(); err == nil {
		im = HexS(m)
	}
	ns := ""
	if v := e.Namespace(); v != nil {
		ns = v.Name
	}
	return fmt.Sprintf("N %s %s kind=%s dir=%d rpc=%d cfg=%s mand=%s def=[%s] units=%s key=%s la=%s type=%s ro=%d ns=%s im=%s",
		HexS(modName), HexS(e.Path()), e.Kind, b(e.Dir != nil), b(e.RPC != nil), tri(e.Config), tri(e.Mandatory),
		strings.Join(defs, ","), HexS(e.Units), HexS(e.Key), la, TypeDumper(e), b(e.ReadOnly()), HexS(ns), im)
}

// DumpTree walks e depth first: children in name order, then rpc input, then output.
func DumpTree(modName string, e *yang.Entry, out *[]string) {
	*out = append(*out, DumpNode(modName, e))
	keys := make([]string, 0, len(e.Dir))
	for k := range e.Dir {
		keys = append(keys, k)
	}
	sort.Strings(keys)
	for _, k := range keys {
		DumpTree(modName, e.Dir[k], out)
	}
	if e.RPC != nil {
		if e.RPC.Input != nil {
			DumpTree(modName, e.RPC.Input, out)
		}
		if e.RPC.Output != nil {
			DumpTree(modName, e.RPC.Output, out)
		}
	}
}

// CanonErrs reduces errors to the sorted, de-duplicated set of "E file:line:col:class" records.
func CanonErrs(errs []error) []string {
	type k struct {
		f    string
		l, c int
		cls  string
	}
	seen := map[k]bool{}
	var ks []k
	for _, e := range errs {
		// a wrapped list of errors ("deviation has unresolvable type, [..]") is one error
		f, l, c, cls := ErrClass(e.Error())
		if strings.Contains(e.Error(), "cyclic type reference") {
			// which statement of a cyclic type definition is reported depends on where the cycle
			// is entered first (memoisation): compared without position
			f, l, c, cls = "-", 0, 0, "type-cycle"
		}
		kk := k{f, l, c, cls}
		if !seen[kk] {
			seen[kk] = true
			ks = append(ks, kk)
		}
	}
	sort.Slice(ks, func(i, j int) bool {
		a, b := ks[i], ks[j]
		fa, fb := a.f, b.f
		if fa == "-" {
			fa = ""
		}
		if fb == "-" {
			fb = ""
		}
		if fa != fb {
			return fa < fb
		}
		if a.l != b.l {
			return a.l < b.l
		}
		if a.c != b.c {
			return a.c < b.c
		}
		return a.cls < b.cls
	})
	out := make([]string, len(ks))
	for i, x := range ks {
		out[i] = fmt.Sprintf("E %s:%d:%d:%s", x.f, x.l, x.c, x.cls)
	}
	return out
}

// DistinctModules returns the distinct values of ms.Modules sorted by full name.
func DistinctModules(ms *yang.Modules) []*yang.Module {
	seen := map[*yang.Module]bool{}
	var out []*yang.Module
	for _, m := range ms.Modules {
		if !seen[m] {
			seen[m] = true
			out = append(out, m)
		}
	}
	sort.Slice(out, func(i, j int) bool { return out[i].FullName() < out[j].FullName() })
	return out
}

// DumpOutcome renders the outcome of ms.Process() as Goyang.Model.dumpOutcome does:
// the error set, and the trees of all modules only when there are no errors.
func DumpOutcome(ms *yang.Modules, errs []error) []string {
	out := CanonErrs(errs)
	if len(errs) > 0 {
		return out
	}
	for _, m := range DistinctModules(ms) {
		DumpTree(m.FullName(), yang.ToEntry(m), &out)
	}
	return out
}

// Project keeps, of every node record, the leading "N module path" and the listed keys; error
// records are kept when withErrors is set.
func Project(recs []string, keys []string, withErrors bool) []string {
	want := map[string]bool{}
	for _, k := range keys {
		want[k] = true
	}
	var out []string
	for _, r := range recs {
		if strings.HasPrefix(r, "E ") {
			if withErrors {
				out = append(out, r)
			}
			continue
		}
		f := strings.Fields(r)
		if len(f) < 3 {
			out = append(out, r)
			continue
		}
		keep := f[:3:3]
		for _, kv := range f[3:] {
			if i := strings.IndexByte(kv, '='); i > 0 && want[kv[:i]] {
				keep = append(keep, kv)
			}
		}
		out = append(out, strings.Join(keep, " "))
	}
	return out
}

// PositionOnly reduces positioned error records to their position ("E file:line:col") and removes
// the duplicates this creates; position-less errors keep their class. The properties say that a
// fault is reported and where, not in which words, so a runner that applies this does not see a
// reworded message (which could move the class) as a difference.
func PositionOnly(recs []string) []string {
	seen := map[string]bool{}
	out := make([]string, 0, len(recs))
	for _, r := range recs {
		if strings.HasPrefix(r, "E ") {
			if !strings.HasPrefix(r, "E -:0:0:") {
				if i := strings.LastIndexByte(r, ':'); i > 0 {
					r = r[:i]
				}
			}
			if seen[r] {
				continue
			}
			seen[r] = true
		}
		out = append(out, r)
	}
	return out
}
