package lib

import (
	"regexp"
	"strconv"
	"strings"
)

// errClasses is the fixed keyword table that reduces a goyang error message to a class.
// First match wins.  The Lean models produce the same class names directly.
var errClasses = []struct{ needle, class string }{
	// Modules.add: a module name with '@' (first: the quoted name may contain any other needle)
	// The class is carried by the stable head of the message ("invalid module name %q: …"), not by
	// the explanation after the colon, so that a re-worded explanation is not an alarm.
	{"invalid module name ", "bad-module-name"},
	{"invalid submodule name ", "bad-module-name"},
	{"'@' separates name and revision", "bad-module-name"},
	// wraps the inner resolution errors ("deviation has unresolvable type, [pos: unknown type …]")
	{"unresolvable type", "deviate-bad-type"},
	{"unknown type", "unknown-type"},
	{"unknown prefix", "unknown-prefix"},
	{"no YangType defined", "no-yangtype"},
	{"unknown group", "unknown-group"},
	{"duplicate key", "duplicate-key"},
	{"Duplicate node", "duplicate-node"},
	{"bad range", "bad-range"},
	{"bad length", "bad-length"},
	{"negative length", "negative-length"},
	{"bad pattern", "bad-pattern"},
	{"no such submodule", "no-such-submodule"},
	{"no such module", "no-such-module"},
	{"can't resolve the local base", "identity-base-local"},
	{"can't resolve remote base", "identity-base-remote"},
	{"can't find external module with prefix", "identity-prefix"},
	{"could not resolve identity base for typedef", "identity-base-typedef"},
	{"identityref must specify a base", "identityref-no-base"},
	{"identity has a null base", "identity-null-base"},
	{"cyclic", "cycle"},
	{"circular", "cycle"},
	{"cannot find target node to deviate", "deviate-no-target"},
	{"tried to add more than one default", "deviate-add-many-defaults"},
	{"already has a default value", "deviate-add-default-exists"},
	{"unsupported for leaf-lists", "deviate-delete-default-leaflist"},
	{"default statement that doesn't exist", "deviate-delete-default-missing"},
	{"non-matching keyword", "deviate-delete-default-mismatch"},
	{"deviate min-elements on a non-list", "deviate-min-nonlist"},
	{"deviate max-elements on a non-list", "deviate-max-nonlist"},
	{"min-element value", "deviate-delete-min-mismatch"},
	{"max-element value", "deviate-delete-max-mismatch"},
	{"unknown deviation type", "deviate-unknown-kind"},
	{"invalid deviation type", "deviate-unknown-kind"},
	{"does not have a valid parent", "deviate-no-parent"},
	{"was already removed", "deviate-already-removed"},
	{"invalid config value", "bad-tristate"},
	{"invalid max-elements", "bad-max-elements"},
	{"invalid min-elements", "bad-min-elements"},
	{"ordered-by has invalid argument", "bad-ordered-by"},
	{"overriding of fraction-digits", "fraction-digits-override"},
	{"fraction-digits only allowed", "fraction-digits-not-decimal"},
	{"cannot be converted to a *Entry", "no-entry"},
	{"unexpected statement", "unexpected-statement"},
	{"namespace", "namespace"},
	{"already assigned", "enum-dup-name"},
	{"conflict on value", "enum-dup-value"},
	{"too small", "enum-too-small"},
	{"too large", "enum-too-large"},
	{"must specify a value", "enum-max-reached"},
	{"unknown", "unknown-field"},
	{"missing required", "missing-required"},
	{"already set", "already-set"},
	{"duplicate", "duplicate-module"},
	{"not a module or submodule", "not-a-module"},
}

var posRe = regexp.MustCompile(`^(.*?):(\d+):(\d+): `)

// ErrClass reduces one goyang error message to (file, line, col, class); file is "-" and
// line = col = 0 when the message does not start with a position.
func ErrClass(msg string) (string, int, int, string) {
	file, line, col := "-", 0, 0
	rest := msg
	if m := posRe.FindStringSubmatch(msg); m != nil && !strings.Contains(m[1], " ") {
		file = m[1]
		line, _ = strconv.Atoi(m[2])
		col, _ = strconv.Atoi(m[3])
		rest = msg[len(m[0]):]
	}
	cls := "other"
	// "<pos>: augment <path> not found" / "<pos>: augment <path>: target <kind> cannot have child nodes"
	// (matched on the message shape, not on the bare word, which also occurs in module names)
	if strings.HasPrefix(rest, "augment ") && (strings.HasSuffix(rest, " not found") || strings.Contains(rest, " cannot have child nodes")) {
		return file, line, col, "augment-not-found"
	}
	for _, c := range errClasses {
		if strings.Contains(rest, c.needle) {
			cls = c.class
			break
		}
	}
	return file, line, col, cls
}

// ErrLine renders an error the way Goyang.Model.Err.render does.
func ErrLine(msg string) string {
	f, l, c, cls := ErrClass(msg)
	return f + ":" + strconv.Itoa(l) + ":" + strconv.Itoa(c) + ":" + cls
}
