package lib

import (
	"bufio"
	"bytes"
	"encoding/base64"
	"fmt"
	"os"
	"os/exec"
	"strings"
	"sync"
	"time"
)

// Crash isolation: a runner re-executes itself with VERIF_CHILD=1; the child reads one case per
// line (base64) from stdin and answers one line (base64) per case. A child that dies (a fatal
// runtime error such as a stack overflow cannot be recovered in Go) or stays silent for longer
// than the bound identifies the offending case; it is recorded and a fresh child continues.

// IsChild reports whether this process is a worker child.
func IsChild() bool { return os.Getenv("VERIF_CHILD") == "1" }

// ChildLoop serves cases until stdin closes. work must not write to stdout.
func ChildLoop(work func(in []byte) []byte) {
	rd := bufio.NewReaderSize(os.Stdin, 1<<20)
	wr := bufio.NewWriterSize(os.Stdout, 1<<20)
	for {
		line, err := rd.ReadString('\n')
		if line != "" {
			in, derr := base64.StdEncoding.DecodeString(strings.TrimSpace(line))
			if derr == nil {
				out := safeWork(work, in)
				wr.WriteString(base64.StdEncoding.EncodeToString(out))
				wr.WriteByte('\n')
				wr.Flush()
			}
		}
		if err != nil {
			return
		}
	}
}

func safeWork(work func([]byte) []byte, in []byte) (out []byte) {
	defer func() {
		if r := recover(); r != nil {
			out = []byte("PANIC " + fmt.Sprint(r))
		}
	}()
	return work(in)
}

// ChildResult is the outcome of one case.
type ChildResult struct {
	Out     []byte
	Crashed bool   // the child died, panicked or timed out on this case
	Msg     string // panic value / tail of stderr / "timeout"
}

type child struct {
	cmd    *exec.Cmd
	in     *bufio.Writer
	out    *bufio.Reader
	stderr *bytes.Buffer
	lines  chan string
	dir    string // the child's working directory (empty: FindModule falls back to ./name.yang), removed by the parent
}

func startChild() (*child, error) {
	self, eerr := os.Executable() // absolute: the child gets a working directory of its own
	if eerr != nil {
		self = os.Args[0]
	}
	cmd := exec.Command(self, os.Args[1:]...)
	cmd.Env = append(os.Environ(), "VERIF_CHILD=1", "GOMEMLIMIT=3GiB", "GOTRACEBACK=single")
	// The child runs in an empty directory of its own.  The parent makes and removes it: a child is
	// killed, not asked to leave, so its own deferred clean-up would never run.
	dir, derr := os.MkdirTemp("", "verif-child-")
	if derr == nil {
		cmd.Dir = dir
		cmd.Env = append(cmd.Env, "VERIF_CHILD_DIR="+dir)
	} else {
		dir = ""
	}
	ip, err := cmd.StdinPipe()
	if err != nil {
		return nil, err
	}
	op, err := cmd.StdoutPipe()
	if err != nil {
		return nil, err
	}
	c := &child{cmd: cmd, in: bufio.NewWriter(ip), out: bufio.NewReaderSize(op, 1<<20), stderr: &bytes.Buffer{}, lines: make(chan string, 1), dir: dir}
	cmd.Stderr = &tailWriter{buf: c.stderr}
	if err := cmd.Start(); err != nil {
		c.rmdir()
		return nil, err
	}
	go func() {
		for {
			s, err := c.out.ReadString('\n')
			if s != "" {
				c.lines <- s
			}
			if err != nil {
				close(c.lines)
				return
			}
		}
	}()
	return c, nil
}

// tailWriter keeps the first 4 KiB written to it (the head of a Go crash report names the fault).
type tailWriter struct {
	mu  sync.Mutex
	buf *bytes.Buffer
}

func (t *tailWriter) Write(p []byte) (int, error) {
	t.mu.Lock()
	defer t.mu.Unlock()
	if t.buf.Len() < 4096 {
		n := 4096 - t.buf.Len()
		if n > len(p) {
			n = len(p)
		}
		t.buf.Write(p[:n])
	}
	return len(p), nil
}

func (c *child) rmdir() {
	if c.dir != "" {
		os.RemoveAll(c.dir)
	}
}

func (c *child) kill() {
	c.cmd.Process.Kill()
	c.cmd.Wait()
	c.rmdir()
}

// RunIsolated runs every input through worker children (procs in parallel) and returns one
// result per input, in order. bound is the wall-clock limit per case.
func RunIsolated(inputs [][]byte, procs int, bound time.Duration) []ChildResult {
	res := make([]ChildResult, len(inputs))
	if procs < 1 {
		procs = 1
	}
	var wg sync.WaitGroup
	next := make(chan int, len(inputs))
	for i := range inputs {
		next <- i
	}
	close(next)
	for p := 0; p < procs; p++ {
		wg.Add(1)
		go func() {
			defer wg.Done()
			var c *child
			for i := range next {
				if c == nil {
					var err error
					if c, err = startChild(); err != nil {
						res[i] = ChildResult{Crashed: true, Msg: "cannot start child: " + err.Error()}
						c = nil
						continue
					}
				}
				c.in.WriteString(base64.StdEncoding.EncodeToString(inputs[i]))
				c.in.WriteByte('\n')
				c.in.Flush()
				select {
				case line, ok := <-c.lines:
					if !ok {
						c.cmd.Wait()
						c.rmdir()
						res[i] = ChildResult{Crashed: true, Msg: "child died: " + c.stderr.String()}
						c = nil
						continue
					}
					out, _ := base64.StdEncoding.DecodeString(strings.TrimSpace(line))
					if bytes.HasPrefix(out, []byte("PANIC ")) {
						res[i] = ChildResult{Crashed: true, Msg: string(out)}
					} else {
						res[i] = ChildResult{Out: out}
					}
				case <-time.After(bound):
					c.kill()
					res[i] = ChildResult{Crashed: true, Msg: "timeout after " + bound.String()}
					c = nil
				}
			}
			if c != nil {
				c.in.Flush()
				c.kill()
			}
		}()
	}
	wg.Wait()
	return res
}
