// Package lib holds what every correspondence runner shares: the pipe to a Lean driver
// executable, hex encoding of byte strings for the line protocol, the seeded PRNG, and the
// JSON result a runner hands back to the ./check dispatcher.
package lib

import (
	"bufio"
	"crypto/sha256"
	"encoding/hex"
	"encoding/json"
	"flag"
	"fmt"
	"io"
	"math/rand"
	"os"
	"os/exec"
	"sort"
	"strings"
	"sync"
	"time"
)

// Flags common to every runner.
type Flags struct {
	Tier   string
	Seed   int64
	Driver string
	Out    string
	Replay string
	Procs  int
}

func ParseFlags() *Flags {
	f := &Flags{}
	flag.StringVar(&f.Tier, "tier", "quick", "quick|thorough")
	flag.Int64Var(&f.Seed, "seed", 1, "PRNG seed")
	flag.StringVar(&f.Driver, "driver", "", "path of the Lean driver executable")
	flag.StringVar(&f.Out, "out", "", "result JSON path")
	flag.StringVar(&f.Replay, "replay", "", "replay file (re-run one recorded input)")
	flag.IntVar(&f.Procs, "procs", 16, "parallel driver processes")
	flag.Parse()
	return f
}

func (f *Flags) Thorough() bool { return f.Tier == "thorough" }

// Rand returns the PRNG for shard i; every random choice of a run derives from Seed.
func (f *Flags) Rand(shard int) *rand.Rand {
	return rand.New(rand.NewSource(f.Seed*1000003 + int64(shard)))
}

// Hex encodes a byte string for the line protocol ("-" = empty).
func Hex(b []byte) string {
	if len(b) == 0 {
		return "-"
	}
	return hex.EncodeToString(b)
}

func HexS(s string) string { return Hex([]byte(s)) }

// UnHex decodes a protocol field.
func UnHex(s string) ([]byte, error) {
	if s == "-" {
		return nil, nil
	}
	return hex.DecodeString(s)
}

// Driver is a running Lean driver: one request line in, one answer line out.
type Driver struct {
	cmd *exec.Cmd
	in  *bufio.Writer
	out *bufio.Reader
	wc  io.WriteCloser
}

func StartDriver(path string) (*Driver, error) {
	cmd := exec.Command(path)
	wc, err := cmd.StdinPipe()
	if err != nil {
		return nil, err
	}
	rc, err := cmd.StdoutPipe()
	if err != nil {
		return nil, err
	}
	cmd.Stderr = os.Stderr
	if err := cmd.Start(); err != nil {
		return nil, err
	}
	return &Driver{cmd: cmd, in: bufio.NewWriterSize(wc, 1<<20), out: bufio.NewReaderSize(rc, 1<<20), wc: wc}, nil
}

// Ask sends one request and waits for its answer.
func (d *Driver) Ask(line string) (string, error) {
	if _, err := d.in.WriteString(line + "\n!flush\n"); err != nil {
		return "", err
	}
	if err := d.in.Flush(); err != nil {
		return "", err
	}
	s, err := d.out.ReadString('\n')
	return strings.TrimRight(s, "\n"), err
}

func (d *Driver) Close() {
	d.in.Flush()
	d.wc.Close()
	d.cmd.Wait()
}

// Batch sends all request lines to one fresh driver process and returns all answers
// (writer and reader run concurrently so the pipes cannot deadlock).
func Batch(path string, reqs []string) ([]string, error) {
	d, err := StartDriver(path)
	if err != nil {
		return nil, err
	}
	var werr error
	var wg sync.WaitGroup
	wg.Add(1)
	go func() {
		defer wg.Done()
		for _, r := range reqs {
			if _, err := d.in.WriteString(r + "\n"); err != nil {
				werr = err
				break
			}
		}
		d.in.Flush()
		d.wc.Close()
	}()
	out := make([]string, 0, len(reqs))
	for {
		s, err := d.out.ReadString('\n')
		if s != "" {
			out = append(out, strings.TrimRight(s, "\n"))
		}
		if err != nil {
			break
		}
	}
	wg.Wait()
	d.cmd.Wait()
	if werr != nil {
		return out, werr
	}
	if len(out) != len(reqs) {
		return out, fmt.Errorf("driver answered %d of %d requests", len(out), len(reqs))
	}
	return out, nil
}

// ParBatch shards reqs over procs driver processes, preserving order of answers.
func ParBatch(path string, reqs []string, procs int) ([]string, error) {
	if procs < 1 {
		procs = 1
	}
	if len(reqs) < 4*procs {
		return Batch(path, reqs)
	}
	out := make([]string, len(reqs))
	chunk := (len(reqs) + procs - 1) / procs
	var wg sync.WaitGroup
	errs := make([]error, procs)
	for p := 0; p < procs; p++ {
		lo, hi := p*chunk, (p+1)*chunk
		if lo >= len(reqs) {
			break
		}
		if hi > len(reqs) {
			hi = len(reqs)
		}
		wg.Add(1)
		go func(p, lo, hi int) {
			defer wg.Done()
			res, err := Batch(path, reqs[lo:hi])
			copy(out[lo:hi], res)
			errs[p] = err
		}(p, lo, hi)
	}
	wg.Wait()
	for _, e := range errs {
		if e != nil {
			return out, e
		}
	}
	return out, nil
}

// Disagreement is one input on which model and implementation differ, or on which the
// executable specification says the implementation's output violates the property.
type Disagreement struct {
	// Kind: "correspondence" (model != implementation), "spec" (spec oracle fails on the
	// implementation's output), "crash", "obligation".
	Kind  string `json:"kind"`
	Input any    `json:"input"`
	Go    any    `json:"go"`
	Model any    `json:"model,omitempty"`
	// SpecVerdict: "violates" when the executable specification evaluated on the Go output says
	// the property fails on this input, "holds" when it does not, "" when not evaluated.
	SpecVerdict string `json:"spec_verdict"`
	// Known: id of the known finding whose signature matches, or "".
	Known string `json:"known,omitempty"`
	What  string `json:"what,omitempty"`
	// Replay: argument for the runner's -replay mode.
	Replay any `json:"replay,omitempty"`
}

// Result is what a runner writes to -out.
type Result struct {
	Property           string         `json:"property"`
	Tier               string         `json:"tier"`
	Seed               int64          `json:"seed"`
	Evaluations        int64          `json:"evaluations"`
	DistinctNontrivial int64          `json:"distinct_nontrivial"`
	Rule               string         `json:"rule"`
	Exhaustive         bool           `json:"exhaustive"`
	Samples            []any          `json:"samples"`
	Distribution       map[string]any `json:"distribution,omitempty"`
	Disagreements      []Disagreement `json:"disagreements"`
	Notes              []string       `json:"notes,omitempty"`
	WallS              float64        `json:"wall_s"`
	start              time.Time
	mu                 sync.Mutex
}

func NewResult(prop string, f *Flags) *Result {
	return &Result{Property: prop, Tier: f.Tier, Seed: f.Seed, Distribution: map[string]any{}, start: time.Now(),
		Samples: []any{}, Disagreements: []Disagreement{}}
}

// AddDisagreement records d (at most 50 are kept; the count is in Distribution).
func (r *Result) AddDisagreement(d Disagreement) {
	r.mu.Lock()
	defer r.mu.Unlock()
	n, _ := r.Distribution["disagreements_total"].(int)
	r.Distribution["disagreements_total"] = n + 1
	if len(r.Disagreements) < 50 {
		r.Disagreements = append(r.Disagreements, d)
		return
	}
	// full: a disagreement with a concrete failing input (spec verdict "violates", or a crash)
	// displaces one without
	if d.SpecVerdict == "violates" || d.Kind == "crash" {
		for i := range r.Disagreements {
			if x := r.Disagreements[i]; x.SpecVerdict != "violates" && x.Kind != "crash" {
				r.Disagreements[i] = d
				return
			}
		}
	}
}

func (r *Result) AddSample(s any) {
	r.mu.Lock()
	defer r.mu.Unlock()
	if len(r.Samples) < 8 {
		r.Samples = append(r.Samples, s)
	}
}

func (r *Result) Count(key string, n int64) {
	r.mu.Lock()
	defer r.mu.Unlock()
	v, _ := r.Distribution[key].(int64)
	r.Distribution[key] = v + n
}

func (r *Result) Write(path string) {
	r.WallS = time.Since(r.start).Seconds()
	b, _ := json.MarshalIndent(r, "", " ")
	if path == "" {
		os.Stdout.Write(b)
		return
	}
	if err := os.WriteFile(path, b, 0o644); err != nil {
		fmt.Fprintln(os.Stderr, "write result:", err)
		os.Exit(2)
	}
}

// Distinct counts distinct keys (by hash) cheaply.
type Distinct struct {
	mu sync.Mutex
	m  map[[12]byte]struct{}
}

func NewDistinct() *Distinct { return &Distinct{m: map[[12]byte]struct{}{}} }

func (d *Distinct) Add(key string) bool {
	h := sha256.Sum256([]byte(key))
	var k [12]byte
	copy(k[:], h[:12])
	d.mu.Lock()
	defer d.mu.Unlock()
	if _, ok := d.m[k]; ok {
		return false
	}
	d.m[k] = struct{}{}
	return true
}

func (d *Distinct) Len() int64 {
	d.mu.Lock()
	defer d.mu.Unlock()
	return int64(len(d.m))
}

// SortedKeys returns the sorted keys of a string-keyed map.
func SortedKeys[V any](m map[string]V) []string {
	ks := make([]string, 0, len(m))
	for k := range m {
		ks = append(ks, k)
	}
	sort.Strings(ks)
	return ks
}

// Fatal aborts the runner with exit status 2 (an infrastructure failure, not a verdict).
func Fatal(format string, a ...any) {
	fmt.Fprintf(os.Stderr, "runner error: "+format+"\n", a...)
	os.Exit(2)
}

// Root is the directory of the verification project: $VERIF_ROOT when the dispatcher sets it (it
// does, to its own directory, so that a copy of the project elsewhere reads its own corpus), else /verif.
func Root() string {
	if r := os.Getenv("VERIF_ROOT"); r != "" {
		return r
	}
	return "/verif"
}
