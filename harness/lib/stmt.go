package lib

import (
	"fmt"
	"strconv"
	"strings"

	"github.com/openconfig/goyang/pkg/yang"
)

// WireStmt writes one statement in the line-protocol wire format of Goyang.Model.Stmt:
//
//	"(" kw-hex arg line col stmt* ")"     arg = "~" (no argument) | hex
func WireStmt(sb *strings.Builder, s *yang.Statement) {
	sb.WriteString("( ")
	sb.WriteString(HexS(s.Keyword))
	sb.WriteByte(' ')
	if s.HasArgument {
		sb.WriteString(HexS(s.Argument))
	} else {
		sb.WriteByte('~')
	}
	line, col := stmtPos(s)
	sb.WriteByte(' ')
	sb.WriteString(strconv.Itoa(line))
	sb.WriteByte(' ')
	sb.WriteString(strconv.Itoa(col))
	sb.WriteByte(' ')
	for _, c := range s.SubStatements() {
		WireStmt(sb, c)
	}
	sb.WriteString(") ")
}

// stmtPos recovers line and column from Location() ("file:line:col"); the fields are unexported.
func stmtPos(s *yang.Statement) (int, int) {
	loc := s.Location()
	f := strings.Split(loc, ":")
	if len(f) < 3 {
		return 0, 0
	}
	l, err1 := strconv.Atoi(f[len(f)-2])
	c, err2 := strconv.Atoi(f[len(f)-1])
	if err1 != nil || err2 != nil {
		return 0, 0
	}
	return l, c
}

// WireFile parses text with the real generic parser and returns "F name stmts E " or an error.
func WireFile(name, text string) (string, error) {
	ss, err := yang.Parse(text, name)
	if err != nil {
		return "", err
	}
	var sb strings.Builder
	sb.WriteString("F ")
	sb.WriteString(HexS(name))
	sb.WriteByte(' ')
	for _, s := range ss {
		WireStmt(&sb, s)
	}
	sb.WriteString("E ")
	return sb.String(), nil
}

// WireFiles serialises several (name, text) pairs in order; a text that does not parse is
// reported in the error and skipped.
func WireFiles(names, texts []string) (string, error) {
	var sb strings.Builder
	var firstErr error
	for i := range names {
		w, err := WireFile(names[i], texts[i])
		if err != nil {
			if firstErr == nil {
				firstErr = fmt.Errorf("%s: %v", names[i], err)
			}
			continue
		}
		sb.WriteString(w)
	}
	return sb.String(), firstErr
}
