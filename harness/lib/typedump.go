package lib

import (
	"sort"
	"strconv"
	"strings"

	"github.com/openconfig/goyang/pkg/yang"
)

// DumpYangType prints a resolved type the way Goyang.Model.Types.YType.dump does (one token, no
// blanks): kind, name, units, default / has-default, fraction-digits, patterns, posix patterns,
// enum and bit name/value tables sorted by name, path, range and length as YangRange.String
// prints them, optional-instance, identity base as ownerModule:identity, the name of the root
// type, union members recursively.  Strings are hex encoded ("-" = empty).
func DumpYangType(y *yang.YangType) string {
	if y == nil {
		return "nil"
	}
	var sb strings.Builder
	dumpYangType(&sb, y)
	return sb.String()
}

func hexList(l []string) string {
	h := make([]string, len(l))
	for i, s := range l {
		h[i] = HexS(s)
	}
	return "[" + strings.Join(h, ",") + "]"
}

func dumpEnum(e *yang.EnumType) string {
	if e == nil {
		return "-"
	}
	m := e.NameMap()
	names := make([]string, 0, len(m))
	for n := range m {
		names = append(names, n)
	}
	sort.Strings(names)
	parts := make([]string, len(names))
	for i, n := range names {
		parts[i] = HexS(n) + ":" + strconv.FormatInt(m[n], 10)
	}
	return "[" + strings.Join(parts, ",") + "]"
}

// IdentityKey is the key of the identity dictionary: the name of the module the identity
// belongs to (the belongs-to module for a submodule), a colon, the identity's name.
func IdentityKey(id *yang.Identity) string {
	root := yang.RootNode(id)
	owner := ""
	if root != nil {
		owner = root.Name
		if root.BelongsTo != nil {
			owner = root.BelongsTo.Name
		}
	}
	return owner + ":" + id.Name
}

func bit(b bool) string {
	if b {
		return "1"
	}
	return "0"
}

func dumpYangType(sb *strings.Builder, y *yang.YangType) {
	sb.WriteString("{k=" + y.Kind.String())
	sb.WriteString(";n=" + HexS(y.Name))
	sb.WriteString(";u=" + HexS(y.Units))
	sb.WriteString(";d=" + HexS(y.Default))
	sb.WriteString(";hd=" + bit(y.HasDefault))
	sb.WriteString(";fd=" + strconv.Itoa(y.FractionDigits))
	sb.WriteString(";pat=" + hexList(y.Pattern))
	sb.WriteString(";ppat=" + hexList(y.POSIXPattern))
	sb.WriteString(";enum=" + dumpEnum(y.Enum))
	sb.WriteString(";bit=" + dumpEnum(y.Bit))
	sb.WriteString(";path=" + HexS(y.Path))
	sb.WriteString(";range=" + HexS(y.Range.String()))
	sb.WriteString(";len=" + HexS(y.Length.String()))
	sb.WriteString(";oi=" + bit(y.OptionalInstance))
	if y.IdentityBase != nil {
		sb.WriteString(";idb=" + HexS(IdentityKey(y.IdentityBase)))
	} else {
		sb.WriteString(";idb=~")
	}
	rootName := y.Name
	if y.Root != nil {
		rootName = y.Root.Name
	}
	sb.WriteString(";root=" + HexS(rootName))
	sb.WriteString(";mem=[")
	for i, m := range y.Type {
		if i > 0 {
			sb.WriteByte(',')
		}
		if m == nil {
			sb.WriteString("nil")
		} else {
			dumpYangType(sb, m)
		}
	}
	sb.WriteString("]}")
}

func sortedSet(l []string) []string {
	out := append([]string(nil), l...)
	sort.Strings(out)
	j := 0
	for i, s := range out {
		if i == 0 || s != out[i-1] {
			out[j] = s
			j++
		}
	}
	return out[:j]
}

func specTab(e *yang.EnumType) string {
	if e == nil {
		return "-"
	}
	var parts []string
	for n, v := range e.NameMap() {
		parts = append(parts, HexS(n)+":"+strconv.FormatInt(v, 10))
	}
	return "[" + strings.Join(sortedSet(parts), ",") + "]"
}

// SpecDumpYangType prints the projection of a resolved type property C09 speaks about, the way
// Goyang.Spec.Types.SType.dump does: kind, units, default, fraction-digits, the set of patterns,
// enum and bit tables, path, the set of union members (recursively projected).
func SpecDumpYangType(y *yang.YangType) string {
	if y == nil {
		return "nil"
	}
	var sb strings.Builder
	sb.WriteString("{k=" + y.Kind.String())
	sb.WriteString(";u=" + HexS(y.Units))
	if y.HasDefault {
		sb.WriteString(";d=" + HexS(y.Default))
	} else {
		sb.WriteString(";d=~")
	}
	sb.WriteString(";fd=" + strconv.Itoa(y.FractionDigits))
	pats := make([]string, len(y.Pattern))
	for i, p := range y.Pattern {
		pats[i] = HexS(p)
	}
	sb.WriteString(";pat=[" + strings.Join(sortedSet(pats), ",") + "]")
	sb.WriteString(";enum=" + specTab(y.Enum))
	sb.WriteString(";bit=" + specTab(y.Bit))
	sb.WriteString(";path=" + HexS(y.Path))
	mem := make([]string, len(y.Type))
	for i, m := range y.Type {
		mem[i] = SpecDumpYangType(m)
	}
	sb.WriteString(";mem=[" + strings.Join(sortedSet(mem), ",") + "]}")
	return sb.String()
}
