// Package rescorr is the shared machinery of the resolver-level correspondence runners
// (C01, C04–C09, C11–C13, C17, C18): a crash-isolated Go worker that loads a module set with the
// real goyang packages, processes it and prints the canonical dump (lib.DumpOutcome) plus the
// findings of Go-side oracles; the request the Lean resolver driver (drv_res) gets for the same
// set; and the comparison of both dumps under a projection.
package rescorr

import (
	"encoding/json"
	"fmt"
	"os"
	"strings"
	"time"

	"github.com/openconfig/goyang/pkg/yang"
	"verif/harness/lib"
)

// Case is one module set (in load order) with options.
type Case struct {
	Names              []string          `json:"names"`
	Texts              []string          `json:"texts"`
	IgnoreCircular     bool              `json:"ignore_circular,omitempty"`
	IgnoreNotSupported bool              `json:"ignore_not_supported,omitempty"`
	Extra              map[string]string `json:"extra,omitempty"`
}

// GoOut is what the worker reports for one case.
type GoOut struct {
	ParseErr string   `json:"parse_err,omitempty"` // first Modules.Parse error ("name: message")
	Dump     []string `json:"dump"`
	// Findings of Go-side oracles (pointer walks etc.), empty when all hold.
	Findings []string `json:"findings,omitempty"`
	// Extra output of the property's hook.
	Extra map[string][]string `json:"extra,omitempty"`
}

// Hook lets a property add Go-side oracles: it is called in the worker after Process.
type Hook func(c Case, ms *yang.Modules, errs []error, out *GoOut)

// Load parses every text into a fresh Modules value; it stops at the first rejected text.
func Load(c Case) (*yang.Modules, error) {
	ms := yang.NewModules()
	ms.ParseOptions.IgnoreSubmoduleCircularDependencies = c.IgnoreCircular
	ms.ParseOptions.DeviateOptions.IgnoreDeviateNotSupported = c.IgnoreNotSupported
	// Extra["process_after"] = k: an intermediate Process() after the first k texts (incremental
	// loading; the result must be that of the batch run)
	k := -1
	if v, ok := c.Extra["process_after"]; ok {
		fmt.Sscanf(v, "%d", &k)
	}
	for i := range c.Names {
		if i == k {
			ms.Process()
		}
		if err := ms.Parse(c.Texts[i], c.Names[i]); err != nil {
			return ms, fmt.Errorf("%s: %v", c.Names[i], err)
		}
	}
	return ms, nil
}

// RunGo is the worker body for one case.
func RunGo(c Case, hook Hook) GoOut {
	var out GoOut
	ms, err := Load(c)
	if err != nil {
		out.ParseErr = err.Error()
		return out
	}
	errs := ms.Process()
	out.Dump = lib.DumpOutcome(ms, errs)
	if hook != nil {
		hook(c, ms, errs, &out)
	}
	return out
}

// ServeChild runs the worker loop (call when lib.IsChild()).
func ServeChild(hook Hook) {
	lib.ChildLoop(func(in []byte) []byte {
		var c Case
		if err := json.Unmarshal(in, &c); err != nil {
			return []byte(`{"parse_err":"bad case"}`)
		}
		o := RunGo(c, hook)
		b, _ := json.Marshal(o)
		return b
	})
}

// Request is the drv_res request line for a case ("" when the generic parser rejects a text).
func Request(c Case) string {
	w, err := lib.WireFiles(c.Names, c.Texts)
	if err != nil {
		return ""
	}
	b := func(x bool) string {
		if x {
			return "1"
		}
		return "0"
	}
	return "process " + b(c.IgnoreCircular) + " " + b(c.IgnoreNotSupported) + " " + w
}

// RequestText is the drv_res request that sends the raw texts: the whole pipeline from text
// (generic parser, AST builder, registry, resolver) then runs in Lean.
func RequestText(c Case) string {
	b := func(x bool) string {
		if x {
			return "1"
		}
		return "0"
	}
	var sb strings.Builder
	sb.WriteString("processText " + b(c.IgnoreCircular) + " " + b(c.IgnoreNotSupported))
	for i := range c.Names {
		sb.WriteString(" " + lib.HexS(c.Names[i]) + " " + lib.HexS(c.Texts[i]))
	}
	return sb.String()
}

// Outcome of comparing one case.
type Outcome struct {
	Case     Case
	Go       GoOut
	Crashed  bool
	CrashMsg string
	Model    []string
	Outside  string // reason when the model declines the input
	Skipped  string // "parse" when Go rejected a text
	// LoadResults: per text, what the Lean text pipeline decided (only for text requests).
	LoadResults []string
}

// RunAll runs all cases through isolated Go workers and the Lean driver.
func RunAll(cases []Case, f *lib.Flags) []Outcome {
	inputs := make([][]byte, len(cases))
	for i, c := range cases {
		inputs[i], _ = json.Marshal(c)
	}
	cr := lib.RunIsolated(inputs, f.Procs, 20*time.Second)
	outs := make([]Outcome, len(cases))
	var reqs []string
	var idx []int
	for i, c := range cases {
		outs[i].Case = c
		if cr[i].Crashed {
			outs[i].Crashed = true
			outs[i].CrashMsg = cr[i].Msg
			continue
		}
		if err := json.Unmarshal(cr[i].Out, &outs[i].Go); err != nil {
			outs[i].Crashed = true
			outs[i].CrashMsg = "unreadable worker output"
			continue
		}
		if outs[i].Go.ParseErr != "" {
			outs[i].Skipped = "parse"
			continue
		}
		r := Request(c)
		if r == "" {
			outs[i].Skipped = "parse"
			continue
		}
		if c.Extra["text"] == "1" {
			r = RequestText(c)
		}
		reqs = append(reqs, r)
		idx = append(idx, i)
	}
	ans, err := lib.ParBatch(f.Driver, reqs, f.Procs)
	if err != nil {
		lib.Fatal("driver: %v", err)
	}
	for k, i := range idx {
		a := ans[k]
		if strings.HasPrefix(a, "outsideModel") {
			outs[i].Outside = a
			continue
		}
		if a != "" {
			outs[i].Model = strings.Split(a, " ; ")
		}
		if len(outs[i].Model) > 0 && strings.HasPrefix(outs[i].Model[0], "L ") {
			// load results of the text pipeline: Go accepted every text of this case
			outs[i].LoadResults = strings.Fields(outs[i].Model[0])[1:]
			outs[i].Model = outs[i].Model[1:]
			if len(outs[i].Model) == 1 && outs[i].Model[0] == "" {
				outs[i].Model = nil
			}
		}
	}
	return outs
}

// Diff returns a description of the first differing record of two dumps ("" when equal).
func Diff(g, m []string) string {
	for i := 0; i < len(g) || i < len(m); i++ {
		var a, b string
		if i < len(g) {
			a = g[i]
		}
		if i < len(m) {
			b = m[i]
		}
		if a != b {
			return fmt.Sprintf("record %d: go: %s | model: %s", i, Readable(a), Readable(b))
		}
	}
	return ""
}

// Readable decodes the hex module and path fields of a record for messages.
func Readable(s string) string {
	f := strings.Fields(s)
	for i, x := range f {
		if i == 1 || i == 2 {
			if b, err := lib.UnHex(x); err == nil {
				f[i] = string(b)
			}
		}
	}
	return strings.Join(f, " ")
}

// HasErrors reports whether a dump starts with error records.
func HasErrors(d []string) bool { return len(d) > 0 && strings.HasPrefix(d[0], "E ") }

// Replay re-runs the case recorded in a replay file; prints both dumps under the projection.
func Replay(f *lib.Flags, hook Hook, keys []string) {
	raw, err := os.ReadFile(f.Replay)
	if err != nil {
		lib.Fatal("%v", err)
	}
	var p struct {
		Disagreement struct {
			Replay Case `json:"replay"`
		} `json:"disagreement"`
	}
	if err := json.Unmarshal(raw, &p); err != nil {
		lib.Fatal("%v", err)
	}
	c := p.Disagreement.Replay
	outs := RunAll([]Case{c}, f)
	o := outs[0]
	for i := range c.Names {
		fmt.Printf("--- %s\n%s", c.Names[i], c.Texts[i])
	}
	if o.Crashed {
		fmt.Println("goyang crashed:", o.CrashMsg)
		os.Exit(1)
	}
	g := lib.Project(o.Go.Dump, keys, true)
	m := lib.Project(o.Model, keys, true)
	fmt.Println("go:")
	for _, r := range g {
		fmt.Println("  ", Readable(r))
	}
	fmt.Println("model:")
	for _, r := range m {
		fmt.Println("  ", Readable(r))
	}
	for _, x := range o.Go.Findings {
		fmt.Println("finding:", x)
	}
	if d := Diff(g, m); d != "" || len(o.Go.Findings) > 0 {
		fmt.Println("DIFFERENT:", d)
		os.Exit(1)
	}
	fmt.Println("same")
}
