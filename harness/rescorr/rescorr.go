// Package rescorr is the shared machinery of the resolver-level correspondence runners
// (C01, C04–C09, C11–C13, C17, C18): a crash-isolated Go worker that loads a module set with the
// real goyang packages, processes it and prints the canonical dump (lib.DumpOutcome) plus the
// findings of Go-side oracles; the request the Lean resolver driver (drv_res) gets for the same
// set; and the comparison of both dumps under a projection.
package rescorr

import (
	"encoding/json"
	"errors"
	"fmt"
	"os"
	"path/filepath"
	"sort"
	"strconv"
	"strings"
	"time"

	"github.com/openconfig/goyang/pkg/yang"
	"verif/harness/lib"
)

// Case is one module set (in load order) with options.
type Case struct {
	Names              []string          `json:"names"`
	Texts              []string          `json:"texts"`
	IgnoreCircular     bool              `json:"ignore_circular,omitempty"`
	IgnoreNotSupported bool              `json:"ignore_not_supported,omitempty"`
	Extra              map[string]string `json:"extra,omitempty"`
}

// GoOut is what the worker reports for one case.
type GoOut struct {
	ParseErr string   `json:"parse_err,omitempty"` // first Modules.Parse error ("name: message")
	Dump     []string `json:"dump"`
	// Findings of Go-side oracles (pointer walks etc.), empty when all hold.
	Findings []string `json:"findings,omitempty"`
	// Extra output of the property's hook.
	Extra map[string][]string `json:"extra,omitempty"`
}

// Hook lets a property add Go-side oracles: it is called in the worker after Process.
type Hook func(c Case, ms *yang.Modules, errs []error, out *GoOut)

// Load parses every text into a fresh Modules value; it stops at the first rejected text.
func Load(c Case) (*yang.Modules, error) {
	ms := yang.NewModules()
	ms.ParseOptions.IgnoreSubmoduleCircularDependencies = c.IgnoreCircular
	ms.ParseOptions.DeviateOptions.IgnoreDeviateNotSupported = c.IgnoreNotSupported
	// Extra["process_after"] = k: an intermediate Process() after the first k texts (incremental
	// loading; the result must be that of the batch run)
	k := -1
	if v, ok := c.Extra["process_after"]; ok {
		fmt.Sscanf(v, "%d", &k)
	}
	for i := range c.Names {
		if i == k {
			ms.Process()
		}
		if err := ms.Parse(c.Texts[i], c.Names[i]); err != nil {
			return ms, fmt.Errorf("%s: %v", c.Names[i], err)
		}
	}
	return ms, nil
}

// FromPath reports whether the case asks for the "files on disk" variant (opt-in):
// Extra["from_path"] = "1" and Extra["roots"] = comma separated indices of the texts the caller
// hands to Modules.Parse itself; every other text is written as a file (under its name) to a
// fresh directory that is put on the search path, so that only Process loads it, if an import
// or include reaches it.  The worker then reports, in GoOut.Extra["loaded"], the names of the
// texts that ended up loaded, in load order, and RunAll asks the model with exactly those.
func FromPath(c Case) bool { return c.Extra["from_path"] == "1" }

func rootsOf(c Case) []int {
	var roots []int
	for _, f := range strings.Split(c.Extra["roots"], ",") {
		if i, err := strconv.Atoi(strings.TrimSpace(f)); err == nil && i >= 0 && i < len(c.Names) {
			roots = append(roots, i)
		}
	}
	return roots
}

// runFromPath is RunGo for the files-on-disk variant.
func runFromPath(c Case, hook Hook) GoOut {
	var out GoOut
	dir, err := os.MkdirTemp("", "rescorrpath")
	if err != nil {
		out.ParseErr = "tempdir: " + err.Error()
		return out
	}
	defer os.RemoveAll(dir)
	dir, _ = filepath.EvalSymlinks(dir)
	libDir := filepath.Join(dir, "lib")
	cwd := filepath.Join(dir, "cwd") // stays empty: findFile looks into "." first
	os.Mkdir(libDir, 0o755)
	os.Mkdir(cwd, 0o755)
	roots := rootsOf(c)
	isRoot := map[int]bool{}
	for _, i := range roots {
		isRoot[i] = true
	}
	for i := range c.Names {
		if !isRoot[i] {
			if strings.ContainsAny(c.Names[i], "/\\") {
				out.ParseErr = "from_path: file name with a separator"
				return out
			}
			if err := os.WriteFile(filepath.Join(libDir, c.Names[i]), []byte(c.Texts[i]), 0o644); err != nil {
				out.ParseErr = "write: " + err.Error()
				return out
			}
		}
	}
	if old, err := os.Getwd(); err == nil {
		defer os.Chdir(old)
	}
	os.Chdir(cwd)
	ms := yang.NewModules()
	ms.ParseOptions.IgnoreSubmoduleCircularDependencies = c.IgnoreCircular
	ms.ParseOptions.DeviateOptions.IgnoreDeviateNotSupported = c.IgnoreNotSupported
	ms.AddPath(libDir)
	for _, i := range roots {
		if err := ms.Parse(c.Texts[i], c.Names[i]); err != nil {
			out.ParseErr = fmt.Sprintf("%s: %v", c.Names[i], err)
			return out
		}
	}
	errs := ProcessRuns(c, ms)
	// files found on the path are known to goyang under their full path: positions are
	// compared under the bare file name, as for texts handed over directly
	bare := make([]error, len(errs))
	for i, e := range errs {
		bare[i] = errors.New(strings.ReplaceAll(e.Error(), libDir+string(filepath.Separator), ""))
	}
	out.Dump = lib.DumpOutcome(ms, bare)
	loaded, late, why := loadedOrder(c, ms, roots, libDir)
	out.Extra = map[string][]string{"loaded": loaded}
	if len(late) > 0 {
		out.Extra["late_loaded"] = late
	}
	if why != "" {
		out.Extra["no_model"] = []string{why}
	}
	if hook != nil {
		hook(c, ms, bare, &out)
	}
	return out
}

// loadedOrder reads the loaded set off the Modules value after Process: every distinct module and
// submodule, identified by the file name of its source; the roots first, in the order handed
// over, then the rest by file name (the model's outcome does not depend on the load order of
// texts with pairwise distinct headers).
//
// late: full names of the (sub)modules that were read from the path AFTER the linking walk of
// process(): loaded, not handed over, and not reachable from a handed-over module through
// import / include statements that the walk linked (i.Module set).  goyang reads such a module
// when a prefix or grouping lookup meets an import that was never linked (only a submodule was
// handed over, or the walk stopped at a missing module); it never looks at that module's own
// imports, and depending on when it arrives the later phases of Process may not see it.  Reading
// from the path is outside the model, and a run that is handed the same texts links them all,
// so the model is not asked for such a run.
//
// why: reason the model is not asked ("" when it is): a late module, or two loaded (sub)modules
// with the same name (revisions of one module: which one a bare name denotes depends on when
// each was read).
func loadedOrder(c Case, ms *yang.Modules, roots []int, lib string) (loaded, late []string, why string) {
	fileOf := func(m *yang.Module) string {
		if m == nil || m.Source == nil {
			return ""
		}
		loc := m.Source.Location()
		for k := 0; k < 2; k++ {
			if i := strings.LastIndexByte(loc, ':'); i >= 0 {
				loc = loc[:i]
			}
		}
		return strings.TrimPrefix(loc, lib+string(filepath.Separator))
	}
	have := map[string]bool{}
	add := func(n string) {
		if !have[n] {
			have[n] = true
			loaded = append(loaded, n)
		}
	}
	isRoot := map[string]bool{}
	for _, i := range roots {
		isRoot[c.Names[i]] = true
	}
	present := map[string]bool{}
	seen := map[*yang.Module]bool{}
	byName := map[string]bool{}
	var rest []string
	var all []*yang.Module
	for k, mm := range []map[string]*yang.Module{ms.Modules, ms.SubModules} {
		for _, m := range mm {
			if seen[m] {
				continue
			}
			seen[m] = true
			all = append(all, m)
			n := fileOf(m)
			present[n] = true
			rest = append(rest, n)
			key := fmt.Sprint(k, " ", m.Name)
			if byName[key] && why == "" {
				why = "two loaded (sub)modules named " + m.Name
			}
			byName[key] = true
		}
	}
	// explained by the linking walk: the handed-over modules (the walk starts at modules only) and
	// what is reachable from them through linked statements
	explained := map[*yang.Module]bool{}
	var reach func(m *yang.Module)
	reach = func(m *yang.Module) {
		if m == nil || explained[m] {
			return
		}
		explained[m] = true
		for _, i := range m.Include {
			reach(i.Module)
		}
		for _, i := range m.Import {
			reach(i.Module)
		}
	}
	for _, m := range all {
		if isRoot[fileOf(m)] && m.BelongsTo == nil {
			reach(m)
		}
	}
	for _, m := range all {
		if !explained[m] && !isRoot[fileOf(m)] {
			late = append(late, m.FullName())
		}
	}
	sort.Strings(late)
	if len(late) > 0 {
		why = "read from the path after the linking walk: " + strings.Join(late, ", ")
	}
	for _, i := range roots {
		if present[c.Names[i]] {
			add(c.Names[i])
		}
	}
	sort.Strings(rest)
	for _, n := range rest {
		add(n)
	}
	return loaded, late, why
}

// loadedCase is the case the model is asked with for a files-on-disk case: the texts that ended
// up loaded, in load order ("" names that are not texts of the case make it unusable: nil).
func loadedCase(c Case, loaded []string) *Case {
	idx := map[string]int{}
	for i, n := range c.Names {
		if _, dup := idx[n]; dup {
			return nil
		}
		idx[n] = i
	}
	c2 := c
	c2.Names, c2.Texts = nil, nil
	for _, n := range loaded {
		i, ok := idx[n]
		if !ok {
			return nil
		}
		c2.Names = append(c2.Names, c.Names[i])
		c2.Texts = append(c2.Texts, c.Texts[i])
	}
	return &c2
}

// ProcessRuns performs the Process call(s) of a case and returns the errors of the LAST one.
// Extra["runs"] (opt-in; default one Process) names what the caller does on the same Modules
// value before that last run; every Process run is specified to start from a clean slate, so the
// last run must be what a single run on a fresh value gives, and its trees must be proper trees:
//
//	"pp"   Process, Process
//	"pcp"  Process, ClearEntryCache, Process
//	"prp"  Process, reads (ToEntry of every (sub)module, GetErrors, a walk with Path / Namespace /
//	       InstantiatingModule / ReadOnly and Find of every rpc's input and output, which creates
//	       them lazily), Process
//	"pctp" Process, ClearEntryCache, ToEntry of every (sub)module (lazy rebuild from the AST) and the
//	       same reads, Process
//	"pop"  Process under the opposite ParseOptions, then the case's options, AddPath of a directory
//	       that does not exist, Process
//	"pgp"  Process, GetModule of every module (which calls Process itself), ClearEntryCache, Process
func ProcessRuns(c Case, ms *yang.Modules) []error {
	reads := func() {
		seen := map[*yang.Entry]bool{}
		var walk func(e *yang.Entry, depth int)
		walk = func(e *yang.Entry, depth int) {
			if e == nil || seen[e] || depth > 40 {
				return
			}
			seen[e] = true
			_ = e.Path()
			_ = e.Namespace()
			e.InstantiatingModule()
			_ = e.ReadOnly()
			_ = e.DefaultValues()
			if e.RPC != nil {
				walk(e.Find("input"), depth+1)
				walk(e.Find("output"), depth+1)
			}
			for _, ch := range e.Dir {
				walk(ch, depth+1)
			}
		}
		for _, mm := range []map[string]*yang.Module{ms.Modules, ms.SubModules} {
			for _, m := range mm {
				e := yang.ToEntry(m)
				_ = e.GetErrors()
				walk(e, 0)
			}
		}
	}
	switch c.Extra["runs"] {
	case "pp":
		ms.Process()
	case "pcp":
		ms.Process()
		ms.ClearEntryCache()
	case "prp":
		ms.Process()
		reads()
	case "pctp":
		ms.Process()
		ms.ClearEntryCache()
		reads()
	case "pop":
		ms.ParseOptions.IgnoreSubmoduleCircularDependencies = !c.IgnoreCircular
		ms.ParseOptions.DeviateOptions.IgnoreDeviateNotSupported = !c.IgnoreNotSupported
		ms.Process()
		ms.ParseOptions.IgnoreSubmoduleCircularDependencies = c.IgnoreCircular
		ms.ParseOptions.DeviateOptions.IgnoreDeviateNotSupported = c.IgnoreNotSupported
		ms.AddPath("/nonexistent-rescorr-dir")
	case "pgp":
		ms.Process()
		var names []string
		for k := range ms.Modules {
			names = append(names, k)
		}
		sort.Strings(names)
		for _, k := range names {
			ms.GetModule(k)
		}
		ms.ClearEntryCache()
	}
	return ms.Process()
}

// RunGo is the worker body for one case.
func RunGo(c Case, hook Hook) GoOut {
	if FromPath(c) {
		return runFromPath(c, hook)
	}
	var out GoOut
	ms, err := Load(c)
	if err != nil {
		out.ParseErr = err.Error()
		return out
	}
	errs := ProcessRuns(c, ms)
	out.Dump = lib.DumpOutcome(ms, errs)
	if hook != nil {
		hook(c, ms, errs, &out)
	}
	return out
}

// ServeChild runs the worker loop (call when lib.IsChild()).
func ServeChild(hook Hook) {
	lib.ChildLoop(func(in []byte) []byte {
		var c Case
		if err := json.Unmarshal(in, &c); err != nil {
			return []byte(`{"parse_err":"bad case"}`)
		}
		o := RunGo(c, hook)
		b, _ := json.Marshal(o)
		return b
	})
}

// Request is the drv_res request line for a case ("" when the generic parser rejects a text).
func Request(c Case) string {
	w, err := lib.WireFiles(c.Names, c.Texts)
	if err != nil {
		return ""
	}
	b := func(x bool) string {
		if x {
			return "1"
		}
		return "0"
	}
	return "process " + b(c.IgnoreCircular) + " " + b(c.IgnoreNotSupported) + " " + w
}

// RequestText is the drv_res request that sends the raw texts: the whole pipeline from text
// (generic parser, AST builder, registry, resolver) then runs in Lean.
func RequestText(c Case) string {
	b := func(x bool) string {
		if x {
			return "1"
		}
		return "0"
	}
	var sb strings.Builder
	sb.WriteString("processText " + b(c.IgnoreCircular) + " " + b(c.IgnoreNotSupported))
	for i := range c.Names {
		sb.WriteString(" " + lib.HexS(c.Names[i]) + " " + lib.HexS(c.Texts[i]))
	}
	return sb.String()
}

// Outcome of comparing one case.
type Outcome struct {
	Case     Case
	Go       GoOut
	Crashed  bool
	CrashMsg string
	Model    []string
	Outside  string // reason when the model declines the input
	Skipped  string // "parse" when Go rejected a text
	// NoModel: why the model was not asked although Go ran (files-on-disk runs whose loading the
	// model cannot mirror, see loadedOrder); the Go-side findings are valid all the same.
	NoModel string
	// LoadResults: per text, what the Lean text pipeline decided (only for text requests).
	LoadResults []string
}

// RunAll runs all cases through isolated Go workers and the Lean driver.
func RunAll(cases []Case, f *lib.Flags) []Outcome {
	inputs := make([][]byte, len(cases))
	for i, c := range cases {
		inputs[i], _ = json.Marshal(c)
	}
	cr := lib.RunIsolated(inputs, f.Procs, 20*time.Second)
	outs := make([]Outcome, len(cases))
	var reqs []string
	var idx []int
	for i, c := range cases {
		outs[i].Case = c
		if cr[i].Crashed {
			outs[i].Crashed = true
			outs[i].CrashMsg = cr[i].Msg
			continue
		}
		if err := json.Unmarshal(cr[i].Out, &outs[i].Go); err != nil {
			outs[i].Crashed = true
			outs[i].CrashMsg = "unreadable worker output"
			continue
		}
		if outs[i].Go.ParseErr != "" {
			outs[i].Skipped = "parse"
			continue
		}
		if FromPath(c) {
			if w := outs[i].Go.Extra["no_model"]; len(w) > 0 {
				outs[i].NoModel = w[0]
				continue
			}
			// the model gets exactly the texts that ended up loaded (roots first, then by name)
			lc := loadedCase(c, outs[i].Go.Extra["loaded"])
			if lc == nil {
				outs[i].Skipped = "from_path: loaded set not reconstructible"
				continue
			}
			c = *lc
		}
		r := Request(c)
		if r == "" {
			outs[i].Skipped = "parse"
			continue
		}
		if c.Extra["text"] == "1" {
			r = RequestText(c)
		}
		reqs = append(reqs, r)
		idx = append(idx, i)
	}
	ans, err := lib.ParBatch(f.Driver, reqs, f.Procs)
	if err != nil {
		lib.Fatal("driver: %v", err)
	}
	for k, i := range idx {
		a := ans[k]
		if strings.HasPrefix(a, "outsideModel") {
			outs[i].Outside = a
			continue
		}
		if a != "" {
			outs[i].Model = strings.Split(a, " ; ")
		}
		if len(outs[i].Model) > 0 && strings.HasPrefix(outs[i].Model[0], "L ") {
			// load results of the text pipeline: Go accepted every text of this case
			outs[i].LoadResults = strings.Fields(outs[i].Model[0])[1:]
			outs[i].Model = outs[i].Model[1:]
			if len(outs[i].Model) == 1 && outs[i].Model[0] == "" {
				outs[i].Model = nil
			}
		}
	}
	return outs
}

// Diff returns a description of the first differing record of two dumps ("" when equal).
func Diff(g, m []string) string {
	for i := 0; i < len(g) || i < len(m); i++ {
		var a, b string
		if i < len(g) {
			a = g[i]
		}
		if i < len(m) {
			b = m[i]
		}
		if a != b {
			return fmt.Sprintf("record %d: go: %s | model: %s", i, Readable(a), Readable(b))
		}
	}
	return ""
}

// Readable decodes the hex module and path fields of a record for messages.
func Readable(s string) string {
	f := strings.Fields(s)
	for i, x := range f {
		if i == 1 || i == 2 {
			if b, err := lib.UnHex(x); err == nil {
				f[i] = string(b)
			}
		}
	}
	return strings.Join(f, " ")
}

// HasErrors reports whether a dump starts with error records.
func HasErrors(d []string) bool { return len(d) > 0 && strings.HasPrefix(d[0], "E ") }

// Replay re-runs the case recorded in a replay file; prints both dumps under the projection.
func Replay(f *lib.Flags, hook Hook, keys []string) {
	raw, err := os.ReadFile(f.Replay)
	if err != nil {
		lib.Fatal("%v", err)
	}
	var p struct {
		Disagreement struct {
			Replay Case `json:"replay"`
		} `json:"disagreement"`
	}
	if err := json.Unmarshal(raw, &p); err != nil {
		lib.Fatal("%v", err)
	}
	c := p.Disagreement.Replay
	outs := RunAll([]Case{c}, f)
	o := outs[0]
	for i := range c.Names {
		fmt.Printf("--- %s\n%s", c.Names[i], c.Texts[i])
	}
	if o.Crashed {
		fmt.Println("goyang crashed:", o.CrashMsg)
		os.Exit(1)
	}
	if o.NoModel != "" {
		fmt.Println("model not asked:", o.NoModel)
		for _, r := range lib.Project(o.Go.Dump, keys, true) {
			fmt.Println("  ", Readable(r))
		}
		for _, x := range o.Go.Findings {
			fmt.Println("finding:", x)
		}
		if len(o.Go.Findings) > 0 {
			fmt.Println("DIFFERENT: findings of the Go-side oracle")
			os.Exit(1)
		}
		fmt.Println("same (oracle only)")
		return
	}
	g := lib.Project(o.Go.Dump, keys, true)
	m := lib.Project(o.Model, keys, true)
	fmt.Println("go:")
	for _, r := range g {
		fmt.Println("  ", Readable(r))
	}
	fmt.Println("model:")
	for _, r := range m {
		fmt.Println("  ", Readable(r))
	}
	for _, x := range o.Go.Findings {
		fmt.Println("finding:", x)
	}
	if d := Diff(g, m); d != "" || len(o.Go.Findings) > 0 {
		fmt.Println("DIFFERENT:", d)
		os.Exit(1)
	}
	fmt.Println("same")
}
